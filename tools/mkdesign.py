#!/usr/bin/env python3
"""Rebuild DESIGN.md §11 from notes/DESIGN11_prose.md + generated tables."""
import glob, json, os, re, subprocess
R = "/verif"
subprocess.run(["python3", R + "/tools/mkstatus.py"], stdout=subprocess.DEVNULL)
d = open(R + "/DESIGN.md").read()
k = d.find("\n## 11. As built")
if k >= 0:
    d = d[:k].rstrip()
    while d.endswith("-" * 20):
        d = d.rstrip("-").rstrip()
    d += "\n"
prose = open(R + "/notes/DESIGN11_prose.md").read()
status = open(R + "/STATUS.md").read().split("\n", 2)[2]
log = subprocess.run(["git", "-C", "/repo", "log", "--reverse", "--format=%h %s", "5effd8a..HEAD"], capture_output=True, text=True).stdout.strip().split("\n")
fixes = [l for l in log if l.split(" ", 1)[1].startswith("fix:")]
hooks = [l for l in log if "verif hook" in l]
# which property lists which commit
owner = {}
for p in [R + "/KNOWN_FINDINGS.txt"] + sorted(glob.glob(R + "/findings.d/*.txt")):
    if os.path.exists(p):
        for l in open(p):
            m = re.match(r"fixed:\s+property=(\S+)\s+(\S+)", l.strip())
            if m:
                owner.setdefault(m.group(2), set()).add(m.group(1))
out = [d, "\n---------------------------------------------------------------------------\n\n", prose, "\n### 11.5 `fix:` commits in /repo (%d) and hook commits (%d)\n\n" % (len(fixes), len(hooks))]
out.append("| commit | properties | subject |\n|---|---|---|\n")
for l in fixes:
    h, s = l.split(" ", 1)
    out.append("| %s | %s | %s |\n" % (h, ", ".join(sorted(owner.get(h, []))) or "—", s[5:].strip()))
out.append("\nHook commits (build tag `verif`, add-only; `verifPoint` is an empty function without the tag): " + "; ".join(hooks) + ".\n")
out.append("\n### 11.6 Status per property\n\n" + status + "\n")
# open findings, full lines
out.append("\n### 11.7 Recorded (open) findings\n\nEach line is a genuine defect of the current tree, reproduced on the real code on every run of its check (`KNOWN-FINDING:` line), with a machine-checked counterexample theorem in `Props/Cxx.lean`; see `KNOWN_FINDINGS.txt` for the witnesses.\n\n")
for p in [R + "/KNOWN_FINDINGS.txt"] + sorted(glob.glob(R + "/findings.d/*.txt")):
    if os.path.exists(p):
        for l in open(p):
            m = re.match(r"finding:\s+property=(\S+)\s+sig=(\S+)\s*(.*)", l.strip())
            if m:
                txt = m.group(3)
                txt = txt.split(" : ", 1)[-1] if " : " in txt else txt
                out.append("* **%s** — %s\n" % (m.group(2), txt[:260]))
# seeds
out.append("\n### 11.8 Seeded regressions: which check catches which change\n\n| seed | change (from its meta.json) | outcome of `./check <id> quick` on the patched tree |\n|---|---|---|\n")
for mp in sorted(glob.glob(R + "/seeded/*/*/meta.json")):
    pid, n = mp.split("/")[-3], mp.split("/")[-2]
    try:
        m = json.load(open(mp))
    except Exception:
        continue
    summ = str(m.get("summary", ""))[:170].replace("|", "/").replace("\n", " ")
    c = m.get("check", {})
    res = c.get("result", "not run")
    det = str(c.get("detail", ""))[:140].replace("|", "/").replace("\n", " ")
    if m.get("remark"):
        res = "OK (" + str(m["remark"])[:300].replace("|", "/") + ")"
    out.append("| %s/%s | %s | %s%s |\n" % (pid, n, summ, res, (": " + det) if det else ""))
open(R + "/DESIGN.md", "w").write("".join(out))
print("DESIGN.md rebuilt:", len("".join(out).split("\n")), "lines")
