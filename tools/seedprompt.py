#!/usr/bin/env python3
"""print the brief for an independent seeding sub-agent for property <id> (property text only)"""
import json, sys
pid = sys.argv[1]
p = next(json.loads(l) for l in open('/verif/properties.jsonl') if json.loads(l)['id'] == pid)
wt = f"/tmp/seed-{pid.lower()}"
out = f"/tmp/seed-{pid.lower()}-out"
mech = "; ".join(f"{m['name']} ({m['where']})" for m in p['anchors'].get('mechanism', []))
print(f"""You are testing a verification effort by producing realistic regressions. You have your own scratch git worktree of the Go library gopcua/opcua (native Go OPC-UA implementation: binary codec `ua/`, transport `uacp/`, secure channel `uasc/`, crypto `uapolicy/`, client = root package, `server/`, `monitor/`) at `{wt}` (a worktree of the repository at its pinned commit). Work ONLY inside `{wt}` and `{out}` (create it). Do not look at or touch `/verif` or `/repo`.

Go environment for every shell call: `export GOFLAGS=-mod=mod GOPROXY=off GOSUMDB=off GOTOOLCHAIN=local` (no network). The existing test suite is run from the worktree root with `go test -vet=off -count=1 ./...` (a few minutes; a handful of tests are known to be flaky or always failing even on the clean tree — run the suite once on the clean tree first and compare against that baseline). Files named `verif_*.go` and calls to `verifPoint(...)` are build-tagged instrumentation; ignore them and do not edit them. Do NOT use `git stash` (the stash is shared with other worktrees of the same repository; use `git diff > file; git checkout -- .; git apply file` instead). Other test runs on this machine may occupy TCP port 4840 at the same time: if `tests/go` or `examples/...` fail with "address already in use", re-run that package alone. The machine is heavily loaded; prefer running the relevant packages first and the full suite once per change.

The property under test ({pid}):

> **{p['title']}.** {p['statement']}
> Quantifier: {p['quantifier']['text']}
> Why the existing tests cannot settle it: {p['why_tests_cant']}
> Anchored in: {', '.join(p['anchors']['files'])}. Mechanisms meant to make it hold: {mech}

Your job: produce up to THREE different, independent changes to the library source (non-test `.go` files), each of which
  (a) still compiles (`go build ./...`) and passes the existing test suite unchanged (same results as your clean-tree baseline — run it and confirm),
  (b) breaks the property above,
  (c) needs something specific to manifest — a particular interleaving, a crash or fault at a particular point, a multi-step sequence of operations, an unusual input, a particular configuration, or two cooperating sites that each look fine alone — not something ordinary use or the existing tests would expose at once,
  (d) looks like a plausible refactoring / optimisation / bug-fix gone wrong, not sabotage, and is small (a few lines).
Make the three changes different in kind (different functions / different clauses of the property). For each change write a demonstration: a Go test (placed in the worktree in the right package, e.g. `<pkg>/seed_demo_test.go`) or a small program that FAILS with the change and PASSES without it (verify both).

Deliver in `{out}/<n>/` for n = 1, 2, 3: `patch.diff` (`git diff` of the library change only, applicable with `git apply` at the root of a clean checkout), the demonstration file (with a comment saying where to place it and how to run it), and `meta.json` with fields `property` ("{pid}"), `summary`, `needs` (what is required for it to manifest), `ran` (the commands you ran and their results: build, test suite vs baseline, demo fails with / passes without). Leave the worktree clean when done (`git checkout -- . && git clean -fdq`). Final message: a short list of the changes and where the files are.""")
