#!/bin/sh
# tools/seedtest.sh <patch.diff> <Cxx> [tier]  — run ./check Cxx against a scratch
# worktree of /repo (HEAD + uncommitted hook changes) with the patch applied.
# Prints the check's output; exit code = the check's exit code.
patch=$1; pid=$2; tier=${3:-quick}
wt=/tmp/seedtest-$$
git -C /repo worktree add -q --detach "$wt" HEAD || exit 2
# carry over uncommitted hook work (tracked modifications + untracked verif_* files)
git -C /repo diff > "$wt.hooks.diff"
[ -s "$wt.hooks.diff" ] && git -C "$wt" apply "$wt.hooks.diff"
(cd /repo && git ls-files --others --exclude-standard | grep 'verif_' ) | while read f; do mkdir -p "$wt/$(dirname "$f")"; cp "/repo/$f" "$wt/$f"; done
if ! git -C "$wt" apply "$patch"; then echo "seedtest: patch does not apply"; rc=3; else
  (cd "$wt" && GOFLAGS=-mod=mod GOPROXY=off GOSUMDB=off GOTOOLCHAIN=local go build ./... ) || echo "seedtest: patched tree does not build"
  cd /verif && VERIF_REPO="$wt" ./check "$pid" "$tier" > "$wt.out" 2>&1; rc=$?
  cat "$wt.out"
  rp=$(sed -n 's/.*replay=\([^ ]*\).*/\1/p' "$wt.out" | head -1)
  [ -n "$rp" ] && [ -f "$rp" ] && python3 -c "
import json,sys
r=json.load(open('$rp'))
d=(str(r.get('case'))[:300]+' :: '+str(r.get('detail'))[:400]) if r.get('case') else json.dumps(r.get('broken',[])[:2])[:700]
print('REPLAY: '+d.replace(chr(10),' '))"
  rm -f "$wt.out"
fi
git -C /repo worktree remove --force "$wt"; rm -f "$wt.hooks.diff"; rm -rf /verif/.work/out__tmp_seedtest_$$ /verif/.work/lean__tmp_seedtest_$$ /verif/.work/lock__tmp_seedtest_$$ /verif/.work/go__tmp_seedtest_$$.* /verif/.work/gen__tmp_seedtest_$$
exit $rc
