#!/usr/bin/env python3
"""tools/seedsweep.py [Cxx ...] — run each property's quick check against every kept seeded
change (scratch worktree of /repo HEAD + patch) and record the outcome in its meta.json."""
import glob, json, os, re, subprocess, sys, time
ids = sys.argv[1:] or sorted(os.listdir("/verif/seeded"))
head = subprocess.run(["git", "-C", "/repo", "rev-parse", "--short", "HEAD"], capture_output=True, text=True).stdout.strip()
for spec in ids:
    pid, _, prefix = spec.partition(":")
    for d in sorted(glob.glob("/verif/seeded/%s/%s*/" % (pid, prefix))):
        patch = os.path.join(d, "patch.diff")
        if not os.path.exists(patch):
            continue
        t0 = time.time()
        p = subprocess.run(["/verif/tools/seedtest.sh", patch, pid, "quick"], capture_output=True, text=True)
        out = p.stdout + p.stderr
        line = next((l for l in out.split("\n") if re.match(r"(VIOLATION|OK |INFRA|seedtest:)", l)), out[-200:])
        if "patch does not apply" in out:
            res = "patch-does-not-apply"
        elif line.startswith("VIOLATION"):
            res = "caught-no-failing-input" if "no-failing-input-found" in line else "caught-with-failing-input"
        elif line.startswith("OK"):
            res = "missed"
        else:
            res = "infra"
        detail = ""
        m2 = re.search(r"^REPLAY: (.*)$", out, re.M)
        if m2:
            detail = m2.group(1)[:800]
        mp = os.path.join(d, "meta.json")
        try:
            meta = json.load(open(mp))
        except Exception:
            meta = {}
        meta["check"] = {"result": res, "line": line[:300], "detail": detail, "repo_head": head, "wall_s": round(time.time() - t0), "at": time.strftime("%Y-%m-%dT%H:%M:%S")}
        json.dump(meta, open(mp, "w"), indent=1)
        print(pid, os.path.basename(d.rstrip("/")), res, line[:120], flush=True)
