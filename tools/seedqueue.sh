#!/bin/sh
# confirm all seeds of the given properties one after the other (ports are shared)
for id in "$@"; do lc=$(echo $id | tr A-Z a-z); for d in /tmp/seed-$lc-out/[0-9]*; do [ -d "$d" ] && flock /tmp/seedconfirm.lock python3 /verif/tools/seedconfirm.py "$d" $id; done; done
