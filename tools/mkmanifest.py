#!/usr/bin/env python3
"""Assemble /verif/MANIFEST.json from meta/*.json (+ meta/not_applicable.json)."""
import glob, json, os, subprocess
ROOT = os.path.dirname(os.path.dirname(os.path.abspath(__file__)))
ids = [json.loads(l)["id"] for l in open(os.path.join(ROOT, "properties.jsonl"))]
checks, claimed = [], set()
for path in sorted(glob.glob(os.path.join(ROOT, "meta", "C*.json"))):
    m = json.load(open(path))
    pid = m["id"]
    claimed.add(pid)
    checks.append({
        "property_id": pid,
        "quick_cmd": "./check %s quick" % pid,
        "thorough_cmd": "./check %s thorough" % pid,
        "evidence_file": "/verif/evidence/%s.json" % pid,
        "replay_cmd_template": "./check %s --replay {path}" % pid,
        "engine": "lean4+corr",
        "level_claimed": {"category": m.get("category", "proof"), "text": m["level_text"], "design_ref": m.get("design_ref", "DESIGN.md §6.1 " + pid)},
        "level_note": m["level_note"],
        "technique": m["technique"],
    })
na = json.load(open(os.path.join(ROOT, "meta", "not_applicable.json")))
na_ids = {x["property_id"] for x in na["fixed"]}
not_app = list(na["fixed"])
for pid in ids:
    if pid not in claimed and pid not in na_ids:
        not_app.append({"property_id": pid, "reason": na["pending_reason"]})
hooks = subprocess.run(["git", "-C", "/repo", "log", "--format=%H %s"], capture_output=True, text=True).stdout.strip().split("\n")
hook_commits = [l.split()[0] for l in hooks if "verif hook" in l]
man = {
    "version": 1,
    "setup_cmd": "./setup.sh",
    "hooks": {
        "guard": "verif",
        "enable": "go build -tags verif (the harness module under /verif/harness replaces github.com/gopcua/opcua with /repo)",
        "baseline_off_cmd": "cd /repo && GOFLAGS=-mod=mod go test -json -vet=off -count=1 -timeout 25m ./...",
        "source_commits": hook_commits,
        "add_only": True,
    },
    "engines": [{"name": "lean4+corr", "path": "/verif/check", "serves_properties": sorted(claimed),
                 "kind_free_text": "Lean 4 theorems about an executable model (lean/OpcuaModel), tied to /repo on every run by regenerated definitions (harness/cmd/gen) and by differential / trace correspondence runs of the model's native driver against the real code (harness/cmd/cXX)"}],
    "checks": checks,
    "not_applicable": not_app,
    "notes": "Every check regenerates lean/OpcuaModel/Gen from /repo's working tree, re-proves the property theorems, audits their axioms, rebuilds the harness with -tags verif and runs the correspondence + the property oracle. KNOWN_FINDINGS.txt lists recorded genuine defects (see DESIGN.md §7).",
}
json.dump(man, open(os.path.join(ROOT, "MANIFEST.json"), "w"), indent=1)
print("MANIFEST.json: %d checks, %d not_applicable" % (len(checks), len(not_app)))
