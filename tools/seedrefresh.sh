#!/bin/sh
# tools/seedrefresh.sh <Cxx> <n> — re-create seeded/<Cxx>/<n>/patch.diff against /repo HEAD when only
# the context moved (fuzzy apply); keeps the old file as patch.orig.diff and notes it in meta.json.
d=/verif/seeded/$1/$2; wt=/tmp/seedrefresh-$$
git -C /repo worktree add -q --detach "$wt" HEAD || exit 2
if git -C "$wt" apply --check "$d/patch.diff" 2>/dev/null; then echo "$1/$2 applies already"; rc=0
elif (cd "$wt" && patch -s -p1 -F3 --no-backup-if-mismatch < "$d/patch.diff" >/dev/null 2>&1) && (cd "$wt" && GOFLAGS=-mod=mod GOPROXY=off GOSUMDB=off GOTOOLCHAIN=local go build ./... 2>/dev/null); then
  [ -f "$d/patch.orig.diff" ] || cp "$d/patch.diff" "$d/patch.orig.diff"
  (cd "$wt" && find . -name '*.orig' -delete; git diff) > "$d/patch.diff"
  python3 - "$d/meta.json" <<'PY'
import json,sys
p=sys.argv[1]; m=json.load(open(p)); m.setdefault("ported","context refreshed by fuzzy apply against the repaired tree (same change)"); json.dump(m,open(p,"w"),indent=1)
PY
  echo "$1/$2 refreshed"; rc=0
else echo "$1/$2 cannot be refreshed automatically"; rc=1; fi
git -C /repo worktree remove --force "$wt"; exit $rc
