#!/bin/sh
cd /verif
for m in meta/C*.json; do id=$(basename $m .json); s=$(date +%s); out=$(./check $id quick 2>&1); rc=$?; e=$(date +%s); echo "$id rc=$rc t=$((e-s))s $(echo "$out" | grep -E '^(OK|VIOLATION|INFRA)' | head -1 | cut -c1-200)"; done
