#!/usr/bin/env python3
"""tools/seedconfirm.py <seed-out-dir>/<n> <Cxx> — confirm a seeded change in a scratch
worktree of /repo HEAD: demo passes on the clean tree, patch applies, tree builds,
demo fails with the patch, the existing suite gives the baseline result.  If all
hold, copy it to /verif/seeded/<Cxx>/<n>/ with a `confirmed` record in meta.json."""
import glob, json, os, re, shutil, subprocess, sys, time
src, pid = sys.argv[1].rstrip("/"), sys.argv[2]
n = sys.argv[3] if len(sys.argv) > 3 else os.path.basename(src)
ENV = dict(os.environ, GOFLAGS="-mod=mod", GOPROXY="off", GOSUMDB="off", GOTOOLCHAIN="local")
PKGDIR = {"opcua": ".", "ua": "ua", "uasc": "uasc", "uacp": "uacp", "uapolicy": "uapolicy", "server": "server", "monitor": "monitor", "errors": "errors", "stats": "stats"}
KNOWN_BAD = {"TestResolveEndpoint", "TestStats", "TestClientWrite", "TestConn", "TestServerWrite"}

def sh(cmd, cwd, timeout=1500):
    try:
        p = subprocess.run(cmd, cwd=cwd, env=ENV, shell=isinstance(cmd, str), stdout=subprocess.PIPE, stderr=subprocess.STDOUT, text=True, timeout=timeout, errors="replace")
        return p.returncode, p.stdout
    except subprocess.TimeoutExpired as e:
        return 124, "timeout"

wt = "/tmp/seedconfirm-%d" % os.getpid()
rec = {"at": time.strftime("%Y-%m-%dT%H:%M:%S"), "ok": False}
subprocess.run(["git", "-C", "/repo", "worktree", "add", "-q", "--detach", wt, "HEAD"], check=True)
try:
    patch = os.path.join(src, "patch.diff")
    demos = [f for f in glob.glob(os.path.join(src, "*.go"))]
    if not demos:
        rec["error"] = "no demonstration file"; raise SystemExit
    demo = demos[0]
    txt = open(demo).read()
    m = re.search(r"^package\s+(\w+)", txt, re.M)
    pkg = m.group(1)
    if pkg == "main":
        d = os.path.join(wt, "cmd_seed_demo"); os.makedirs(d)
        shutil.copy(demo, os.path.join(d, "main.go"))
        run = "go run ./cmd_seed_demo"
    else:
        base = pkg[:-5] if pkg.endswith("_test") else pkg
        d = PKGDIR.get(base)
        if d is None:
            mm = re.search(r"(?:place|put|copy)[^\n]*?`?((?:[\w./-]+/)?[\w-]+_test\.go)`?", txt, re.I)
            d = os.path.dirname(mm.group(1)) if mm else "."
        name = os.path.basename(demo)
        if not name.endswith("_test.go"):
            name = name[:-3] + "_test.go"
        shutil.copy(demo, os.path.join(wt, d, name))
        tests = re.findall(r"^func (Test\w+)\(", txt, re.M)
        race = "-race " if re.search(r"go test[^\n]*-race", txt) else ""
        if race:
            ENV["CGO_ENABLED"] = "1"
        run = "go test %s-vet=off -count=1 -run '^(%s)$' ./%s" % (race, "|".join(tests), d)
    rec["demo_cmd"] = run
    rc0, out0 = sh(run, wt, 900)
    rec["demo_clean_rc"] = rc0
    rc, out = sh(["git", "apply", patch], wt)
    if rc != 0:
        rec["error"] = "patch does not apply: " + out[-300:]; raise SystemExit
    rc, out = sh("go build ./...", wt, 900)
    rec["build_rc"] = rc
    rc1, out1 = sh(run, wt, 900)
    tries = 1
    while rc1 == 0 and "-race" in run and tries < 4:  # a seeded race may need several runs to show
        rc1, out1 = sh(run, wt, 900)
        tries += 1
    rec["demo_patched_tries"] = tries
    rec["demo_patched_rc"] = rc1
    rec["demo_patched_tail"] = out1[-600:]
    rc, out = sh("go test -vet=off -count=1 -timeout 25m ./... 2>&1", wt, 1800)
    fails = set(re.findall(r"^\s*--- FAIL: (\w+)", out, re.M))
    # the demo itself fails by design
    demo_tests = set(re.findall(r"^func (Test\w+)\(", txt, re.M))
    unexpected = sorted(fails - KNOWN_BAD - demo_tests)
    # load-induced flakes: re-run each unexpected failure alone (twice at most)
    still = []
    for t in unexpected:
        passed = False
        for _ in range(2):
            rcx, outx = sh("go test -vet=off -count=1 -run '^%s$' ./... 2>&1" % t, wt, 900)
            if rcx == 0 or not re.search(r"--- FAIL: %s\b" % t, outx):
                passed = True
                break
        if not passed:
            still.append(t)
    rec["suite_flaky_retried"] = [t for t in unexpected if t not in still]
    unexpected = still
    rec["suite_unexpected_failures"] = unexpected
    rec["suite_build_failed"] = bool(re.search(r"\[build failed\]|cannot find|undefined:", out))
    rec["ok"] = (rc0 == 0 and rec["build_rc"] == 0 and rc1 != 0 and not unexpected and not rec["suite_build_failed"])
finally:
    subprocess.run(["git", "-C", "/repo", "worktree", "remove", "--force", wt])
    dst = "/verif/seeded/%s/%s" % (pid, n)
    if rec.get("ok"):
        os.makedirs(dst, exist_ok=True)
        for f in os.listdir(src):
            if f.endswith((".diff", ".go", ".json")):
                shutil.copy(os.path.join(src, f), os.path.join(dst, f))
        mp = os.path.join(dst, "meta.json")
        try:
            meta = json.load(open(mp))
        except Exception:
            meta = {}
        meta["property"] = pid
        meta["confirmed"] = rec
        json.dump(meta, open(mp, "w"), indent=1)
    print(json.dumps({"seed": "%s/%s" % (pid, n), **rec})[:900])
