import OpcuaModel.Model.ClientSite
/-
  C21 — client calls never panic on a well-formed server response.

  For every client operation `outcome op shape : Outcome` (value | error |
  panic) is a total function of the SHAPE of the server's answers: exactly what
  the Go code inspects — kind of response (expected type and Good / expected
  type and Bad ServiceResult / ServiceFault / another type), number of request
  items vs. length of the result array, per-result status, presence / type /
  array-ness of the Variant of the first DataValue, the chain of BrowseNext
  answers, and a few flags.  Loops of the Go code are recursive functions
  here; every index expression and unchecked assertion that `auditedSites`
  marks `panics` is an explicit branch.
-/
namespace Opcua.ClientResp

inductive Outcome where
  | value | error | panic
  deriving Repr, DecidableEq

/-- how `sendRequestWithTimeout` + `safeAssign` see an answer -/
inductive Kind where
  | ok          -- expected type, ServiceResult Good
  | badStatus   -- expected type, ServiceResult Bad: handler runs, status is returned
  | fault       -- ServiceFault (Bad)
  | wrongType   -- another response type, Good: safeAssign fails
  deriving Repr, DecidableEq

/-- built-in type classes the getters distinguish -/
inductive Tid where
  | null | byte | sbyte | int32 | qname | ltext | string | double
  deriving Repr, DecidableEq

/-- the `Value` of `Results[0]` -/
structure Val where
  present : Bool      -- the DataValue carries a Variant (`dv.Value != nil`)
  tid     : Tid
  isArray : Bool
  arrLen  : Nat
  deriving Repr, DecidableEq

/-- payload of one NotificationData extension object of a PublishResponse -/
inductive Notif where
  | dataChange | event | statusChange | otherType | noBody
  deriving Repr, DecidableEq

structure Shape where
  kind    : Kind
  /-- number of items in the request (items to create / modify, subscription ids …) -/
  nReq    : Nat
  /-- the result array: one entry per result, `true` = its status code is Good -/
  results : List Bool
  val     : Val
  /-- the BrowseNext answers that follow a Browse (each: kind, number of results);
      every answer but the last carries a continuation point -/
  chain   : List (Kind × Nat)
  /-- Subscribe: the server returned subscription id 0 -/
  subIdZero : Bool
  /-- Subscribe: the server returned an id that is already registered -/
  subIdDup  : Bool
  /-- ModifyMonitoredItems: all ids of the request are known to the client -/
  idsKnown  : Bool
  /-- Publish: the response names a subscription the client knows -/
  subKnown  : Bool
  /-- Publish: the notification data of the message -/
  notifs    : List Notif
  deriving Repr, DecidableEq

def Shape.nRes (s : Shape) : Nat := s.results.length

/-- operations whose handler is only `safeAssign` and whose result is returned as is -/
inductive Plain where
  | read | write | browse | browseNext | registerNodes | unregisterNodes | historyRead
  | findServers | findServersOnNetwork | getEndpoints | nodeAttributes
  | subModify | subUnmonitor | subSetMonitoringMode | subSetTriggering
  deriving Repr, DecidableEq

inductive Op where
  | plain (p : Plain)
  | call
  | nodeAttribute           -- Node.Attribute / Node.Value
  | nodeClass
  | browseName | description | displayName
  | accessLevel | userAccessLevel       -- also HasAccessLevel / HasUserAccessLevel
  | namespaceArray          -- also FindNamespace / UpdateNamespaces
  | subStats
  | references              -- Node.References / ReferencedNodes / Children → browseNext
  | translate               -- Node.TranslateBrowsePathsToNodeIDs
  | subscribe
  | subCancel               -- Subscription.Cancel → delete
  | subMonitor
  | subModifyItems
  | recreateItems           -- monitor loop: recreateSubscription → recreate_monitoredItems
  | transferOnReconnect     -- monitor loop: transferSubscriptions result loop
  | publish                 -- background publish loop, one PublishResponse
  deriving Repr, DecidableEq

/-- `c.Send(ctx, req, func(v) error { return safeAssign(v, &res) })`: nil error iff the answer is
    of the expected type with a Good ServiceResult -/
def sendOk (k : Kind) : Bool := k == .ok

/-! ### Node attribute getters -/

/-- the Variant the decoder hands out for the first DataValue:
    `DataValue.Decode` always allocates `d.Value = new(Variant)`, so a DataValue
    without the Value bit yields the zero Variant (type Null, value nil), never
    a nil pointer -/
def decodedVal (v : Val) : Val :=
  if v.present then v else ⟨true, .null, false, 0⟩

/-- `Node.Attribute`: error, or the `*ua.Variant` of the first result -/
def nodeAttr (s : Shape) : Option Val :=
  -- res, err := n.c.Read(ctx, req); if err != nil { return nil, err }
  if !sendOk s.kind then none else
  match s.results with
  -- if len(res.Results) == 0 { return nil, ua.StatusBadUnexpectedError }
  | [] => none
  -- value := res.Results[0].Value; if res.Results[0].Status != ua.StatusOK { return value, status }
  | st :: _ => if st then some (decodedVal s.val) else none

/-- `v.Value().(T)` for a scalar Go type T: panics unless the dynamic type is T
    (a Null variant holds a nil interface, an array holds a slice) -/
def assertScalar (want : Tid) (v : Val) : Outcome :=
  if v.isArray then .panic
  else if v.tid == want then .value else .panic

/-- `ua.NodeClass(v.Int())` -/
def variantInt (v : Val) : Outcome :=
  -- if m.ArrayLength() > 0 { return 0 }
  if v.isArray && v.arrLen > 0 then .value
  -- switch m.Type() { case TypeIDSByte: int64(m.value.(int8)) … case TypeIDInt32: int64(m.value.(int32)) … }
  else if v.isArray && (v.tid == .int32 || v.tid == .sbyte) then .panic   -- the value is an empty slice
  else .value

def getter (s : Shape) (f : Val → Outcome) : Outcome :=
  match nodeAttr s with
  | none => .error
  | some v => f v

/-! ### browse -/

/-- the loop of `Node.browseNext` after the first `results[0]`; the head of
    `chain` is the next BrowseNext answer -/
def browseLoop : List (Kind × Nat) → Outcome
  -- len(results[0].ContinuationPoint) == 0: return refs, nil
  | [] => .value
  | (k, n) :: rest =>
    -- resp, err := n.c.BrowseNext(ctx, req); if err != nil { return nil, err }
    if !sendOk k then .error
    -- results = resp.Results; refs = append(refs, results[0].References...)
    else if n = 0 then .panic
    else browseLoop rest

def references (s : Shape) : Outcome :=
  -- resp, err := n.c.Browse(ctx, req); if err != nil { return nil, err }
  if !sendOk s.kind then .error
  -- refs := results[0].References
  else if s.nRes = 0 then .panic
  else browseLoop s.chain

/-! ### subscriptions -/

/-- `Subscription.delete` -/
def subDelete (s : Shape) : Outcome :=
  if !sendOk s.kind then .error else
  -- case res.Results[0] == ua.StatusOK
  match s.results with
  | [] => .panic
  | true :: _ => .value
  | false :: _ => .error

/-- `for i, item := range items { result := res.Results[i] … }` from index `i`
    with `todo` items left and `n` results -/
def indexLoop (n : Nat) : (todo i : Nat) → Bool
  | 0, _ => false
  | todo + 1, i => if i < n then indexLoop n todo (i + 1) else true

/-- `Subscription.Monitor` -/
def subMonitor (s : Shape) : Outcome :=
  if !sendOk s.kind then .error
  else if indexLoop s.nRes s.nReq 0 then .panic else .value

/-- `for i, res := range res.Results { if res.StatusCode != OK { continue }; id := req.ItemsToModify[i]… }` -/
def modifyLoop (nReq : Nat) : (results : List Bool) → (i : Nat) → Bool
  | [], _ => false
  | st :: rest, i => if !st then modifyLoop nReq rest (i + 1)
                     else if i < nReq then modifyLoop nReq rest (i + 1) else true

/-- `Subscription.ModifyMonitoredItems` -/
def subModifyItems (s : Shape) : Outcome :=
  -- unknown monitored item id: return nil, err (before anything is sent)
  if !s.idsKnown then .error
  else if !sendOk s.kind then .error
  else if modifyLoop s.nReq s.results 0 then .panic else .value

/-- `Subscription.recreate_monitoredItems` as the monitor loop sees it (its
    error is logged and dropped by `restoreSubscriptions`), one timestamp group -/
def recreateItems (s : Shape) : Outcome :=
  -- err := s.c.Send(...); if err != nil { return err }
  if !sendOk s.kind then .value
  -- for _, result := range res.Results { if status != OK { return status } }
  else if s.results.any (· == false) then .value
  -- for i, item := range items { s.items[res.Results[i].MonitoredItemID] = … }
  else if indexLoop s.nRes s.nReq 0 then .panic else .value

/-- the result loop of `transferSubscriptions` in `Client.monitor`:
    `for i := range res.Results { … subIDs[i] … }` (both branches index subIDs):
    the same loop shape as `indexLoop`, over the results, indexing the ids -/
def transferOnReconnect (s : Shape) : Outcome :=
  -- case err != nil: recreate all subscriptions
  if !sendOk s.kind then .value
  else if indexLoop s.nReq s.nRes 0 then .panic else .value

/-- `Client.Subscribe` -/
def subscribe (s : Shape) : Outcome :=
  if !sendOk s.kind then .error
  -- if sub.SubscriptionID == 0 || c.subs[sub.SubscriptionID] != nil { return nil, BadSubscriptionIDInvalid }
  else if s.subIdZero || s.subIdDup then .error else .value

/-- `Node.TranslateBrowsePathsToNodeIDs`; `nReq` stands for the number of targets of the first result -/
def translate (s : Shape) : Outcome :=
  if !sendOk s.kind then .error else
  match s.results with
  | [] => .error                               -- len(resp.Results) == 0
  | false :: _ => .error                        -- StatusCode != OK
  | true :: _ => if s.nReq = 0 then .error else .value   -- len(Targets) == 0

/-! ### the publish loop -/

/-- what `notifySubscription` delivers for one NotificationData -/
def notifClass : Notif → Bool      -- true = Value, false = Error
  | .dataChange | .event | .statusChange => true
  | .otherType | .noBody => false

/-- notifications delivered synchronously for one PublishResponse (`true` = a
    value, `false` = an error notification) -/
def publishDelivered (s : Shape) : List Bool :=
  match s.kind with
  | .ok => if s.subKnown then s.notifs.map notifClass else []
  | _ => []

/-- an error notification is sent from a goroutine (`err != nil && res != nil`) -/
def publishAsyncError (s : Shape) : Bool := s.kind == .badStatus

def publish (_s : Shape) : Outcome := .value     -- every branch of publish() is guarded

/-! ### the operations -/

def outcome : Op → Shape → Outcome
  | .plain _, s => if sendOk s.kind then .value else .error
  -- if len(res.Results) != 1 { return nil, ua.StatusBadUnknownResponse }
  | .call, s => if !sendOk s.kind then .error else if s.nRes = 1 then .value else .error
  | .nodeAttribute, s => getter s (fun _ => .value)
  | .nodeClass, s => getter s variantInt
  | .browseName, s => getter s (assertScalar .qname)
  | .description, s => getter s (assertScalar .ltext)
  | .displayName, s => getter s (assertScalar .ltext)
  | .accessLevel, s => getter s (assertScalar .byte)
  | .userAccessLevel, s => getter s (assertScalar .byte)
  -- ns, ok := v.Value().([]string); if !ok { return nil, errors.Errorf(…) }
  | .namespaceArray, s => getter s (fun v => if v.isArray && v.tid == .string then .value else .error)
  -- if v == nil { return nil, errors.Errorf(…) }; eos, ok := v.Value().([]*ua.ExtensionObject); if !ok { error }
  | .subStats, s => getter s (fun _ => .error)    -- (no shape used here carries SubscriptionDiagnostics)
  | .references, s => references s
  | .translate, s => translate s
  | .subscribe, s => subscribe s
  | .subCancel, s => subDelete s
  | .subMonitor, s => subMonitor s
  | .subModifyItems, s => subModifyItems s
  | .recreateItems, s => recreateItems s
  | .transferOnReconnect, s => transferOnReconnect s
  | .publish, s => publish s

/-! ### finding signatures: narrow decidable predicates on (operation, shape) -/

def valFrom (s : Shape) : Option Val := nodeAttr s

def sigOf (op : Op) (s : Shape) : Option String :=
  match op with
  | .subCancel => if sendOk s.kind && s.nRes = 0 then some "C21.delete-empty-results" else none
  | .subMonitor => if sendOk s.kind && s.nRes < s.nReq then some "C21.monitor-fewer-results" else none
  | .subModifyItems =>
    if s.idsKnown && sendOk s.kind && (s.results.drop s.nReq).any (· == true) then some "C21.modify-more-results" else none
  | .recreateItems =>
    if sendOk s.kind && s.results.all (· == true) && s.nRes < s.nReq then some "C21.recreate-fewer-results" else none
  | .transferOnReconnect => if sendOk s.kind && s.nReq < s.nRes then some "C21.transfer-more-results" else none
  | .references =>
    if sendOk s.kind && s.nRes = 0 then some "C21.browse-empty-results"
    else if sendOk s.kind && browseLoop s.chain = .panic then some "C21.browsenext-empty-results" else none
  | .nodeClass =>
    match valFrom s with
    | some v => if v.isArray && v.arrLen = 0 && (v.tid == .int32 || v.tid == .sbyte) then some "C21.nodeclass-empty-int-array"
                else none
    | none => none
  | .browseName => typedSig s .qname "C21.browsename-type-assertion"
  | .description => typedSig s .ltext "C21.description-type-assertion"
  | .displayName => typedSig s .ltext "C21.displayname-type-assertion"
  | .accessLevel => typedSig s .byte "C21.accesslevel-type-assertion"
  | .userAccessLevel => typedSig s .byte "C21.useraccesslevel-type-assertion"
  | _ => none
where
  typedSig (s : Shape) (want : Tid) (name : String) : Option String :=
    match valFrom s with
    | some v => if v.isArray || v.tid != want then some name else none
    | none => none

/-! ### the audited site table -/

inductive Audit where
  | safe (why : String)
  | panics (op : Op)
  deriving Repr, DecidableEq

def auditedSites : List (Site × Audit) := [
  (⟨"client.go", "Client.Call", "index", "Results[_]"⟩, .safe "len(res.Results) != 1 returns before"),
  (⟨"client.go", "Client.Namespaces", "assert", "Load().([]string)"⟩, .safe "only []string is ever stored (NewClient, setNamespaces)"),
  (⟨"client.go", "Client.State", "assert", "Load().(ConnState)"⟩, .safe "only ConnState is ever stored (NewClient, setState)"),
  (⟨"client.go", "Client.monitor", "index", "Results[_]"⟩, .safe "i ranges over res.Results"),
  (⟨"client.go", "Client.monitor", "index", "availableSeqs[_]"⟩, .safe "map"),
  (⟨"client.go", "Client.monitor", "index", "availableSeqs[_]"⟩, .safe "map"),
  (⟨"client.go", "Client.monitor", "index", "subIDs[_]"⟩, .panics .transferOnReconnect),
  (⟨"client.go", "Client.monitor", "index", "subIDs[_]"⟩, .panics .transferOnReconnect),
  (⟨"client.go", "Client.monitor", "index", "subIDs[_]"⟩, .panics .transferOnReconnect),
  (⟨"client.go", "Client.monitor", "index", "subIDs[_]"⟩, .panics .transferOnReconnect),
  (⟨"client.go", "Client.publishTimeout", "assert", "Load().(time.Duration)"⟩, .safe "only time.Duration is ever stored"),
  (⟨"client.go", "SelectEndpoint", "index", "endpoints[_]"⟩, .safe "len(endpoints) == 0 returns before"),
  (⟨"client.go", "bySecurityLevel.Less", "index", "a[_]"⟩, .safe "sort.Interface contract"),
  (⟨"client.go", "bySecurityLevel.Less", "index", "a[_]"⟩, .safe "sort.Interface contract"),
  (⟨"client.go", "bySecurityLevel.Swap", "index", "a[_]"⟩, .safe "sort.Interface contract"),
  (⟨"client.go", "bySecurityLevel.Swap", "index", "a[_]"⟩, .safe "sort.Interface contract"),
  (⟨"client.go", "bySecurityLevel.Swap", "index", "a[_]"⟩, .safe "sort.Interface contract"),
  (⟨"client.go", "bySecurityLevel.Swap", "index", "a[_]"⟩, .safe "sort.Interface contract"),
  (⟨"client.go", "cloneBrowseRequest", "index", "descs[_]"⟩, .safe "descs has len(req.NodesToBrowse), request side"),
  (⟨"client.go", "cloneReadRequest", "index", "rvs[_]"⟩, .safe "rvs has len(req.NodesToRead), request side"),
  (⟨"client_sub.go", "Client.Subscribe", "index", "subs[_]"⟩, .safe "map"),
  (⟨"client_sub.go", "Client.Subscribe", "index", "subs[_]"⟩, .safe "map"),
  (⟨"client_sub.go", "Client.handleAcks_NeedsSubMuxLock", "index", "res[_]"⟩, .safe "pendingAcks is emptied when the lengths differ"),
  (⟨"client_sub.go", "Client.notifySubscriptionOfError", "index", "subs[_]"⟩, .safe "map"),
  (⟨"client_sub.go", "Client.publish", "index", "subs[_]"⟩, .safe "map"),
  (⟨"client_sub.go", "Client.recreateSubscription", "index", "subs[_]"⟩, .safe "map"),
  (⟨"client_sub.go", "Client.registerSubscription_NeedsSubMuxLock", "index", "subs[_]"⟩, .safe "map"),
  (⟨"client_sub.go", "Client.registerSubscription_NeedsSubMuxLock", "index", "subs[_]"⟩, .safe "map"),
  (⟨"client_sub.go", "Client.republishSubscription", "index", "subs[_]"⟩, .safe "map"),
  (⟨"monitor/subscription.go", "Subscription.AddMonitorItems", "index", "handles[_]"⟩, .safe "map"),
  (⟨"monitor/subscription.go", "Subscription.AddMonitorItems", "index", "itemLookup[_]"⟩, .safe "map"),
  (⟨"monitor/subscription.go", "Subscription.AddMonitorItems", "index", "nodes[_]"⟩, .safe "i ranges over nodes / len(resp.Results) == len(toAdd) checked"),
  (⟨"monitor/subscription.go", "Subscription.AddMonitorItems", "index", "nodes[_]"⟩, .safe "i ranges over nodes / len(resp.Results) == len(toAdd) checked"),
  (⟨"monitor/subscription.go", "Subscription.AddMonitorItems", "index", "nodes[_]"⟩, .safe "i ranges over nodes / len(resp.Results) == len(toAdd) checked"),
  (⟨"monitor/subscription.go", "Subscription.AddMonitorItems", "index", "nodes[_]"⟩, .safe "i ranges over nodes / len(resp.Results) == len(toAdd) checked"),
  (⟨"monitor/subscription.go", "Subscription.AddMonitorItems", "index", "toAdd[_]"⟩, .safe "len(resp.Results) == len(toAdd) checked"),
  (⟨"monitor/subscription.go", "Subscription.AddMonitorItems", "index", "toAdd[_]"⟩, .safe "len(resp.Results) == len(toAdd) checked"),
  (⟨"monitor/subscription.go", "Subscription.AddNodeIDs", "index", "requests[_]"⟩, .safe "requests has len(nodes), request side"),
  (⟨"monitor/subscription.go", "Subscription.RemoveMonitorItems", "index", "itemLookup[_]"⟩, .safe "map"),
  (⟨"monitor/subscription.go", "Subscription.pump", "index", "handles[_]"⟩, .safe "map"),
  (⟨"monitor/subscription.go", "parseNodeSlice", "index", "nodeIDs[_]"⟩, .safe "nodeIDs has len(nodes), request side"),
  (⟨"node.go", "Node.AccessLevel", "assert", "Value().(uint8)"⟩, .panics .accessLevel),
  (⟨"node.go", "Node.Attribute", "index", "Results[_]"⟩, .safe "len(res.Results) == 0 returns before"),
  (⟨"node.go", "Node.Attribute", "index", "Results[_]"⟩, .safe "len(res.Results) == 0 returns before"),
  (⟨"node.go", "Node.Attribute", "index", "Results[_]"⟩, .safe "len(res.Results) == 0 returns before"),
  (⟨"node.go", "Node.BrowseName", "assert", "Value().(*ua.QualifiedName)"⟩, .panics .browseName),
  (⟨"node.go", "Node.Description", "assert", "Value().(*ua.LocalizedText)"⟩, .panics .description),
  (⟨"node.go", "Node.DisplayName", "assert", "Value().(*ua.LocalizedText)"⟩, .panics .displayName),
  (⟨"node.go", "Node.TranslateBrowsePathsToNodeIDs", "index", "BrowsePaths[_]"⟩, .safe "request literal with one element"),
  (⟨"node.go", "Node.TranslateBrowsePathsToNodeIDs", "index", "BrowsePaths[_]"⟩, .safe "request literal with one element"),
  (⟨"node.go", "Node.TranslateBrowsePathsToNodeIDs", "index", "Results[_]"⟩, .safe "len(resp.Results) == 0 returns before"),
  (⟨"node.go", "Node.TranslateBrowsePathsToNodeIDs", "index", "Results[_]"⟩, .safe "len(resp.Results) == 0 returns before"),
  (⟨"node.go", "Node.TranslateBrowsePathsToNodeIDs", "index", "Results[_]"⟩, .safe "len(resp.Results) == 0 returns before"),
  (⟨"node.go", "Node.TranslateBrowsePathsToNodeIDs", "index", "Results[_]"⟩, .safe "len(resp.Results) == 0 returns before"),
  (⟨"node.go", "Node.TranslateBrowsePathsToNodeIDs", "index", "Targets[_]"⟩, .safe "len(Targets) == 0 returns before"),
  (⟨"node.go", "Node.UserAccessLevel", "assert", "Value().(uint8)"⟩, .panics .userAccessLevel),
  (⟨"node.go", "Node.browseNext", "index", "results[_]"⟩, .panics .references),
  (⟨"node.go", "Node.browseNext", "index", "results[_]"⟩, .panics .references),
  (⟨"node.go", "Node.browseNext", "index", "results[_]"⟩, .panics .references),
  (⟨"node.go", "Node.browseNext", "index", "results[_]"⟩, .panics .references),
  (⟨"subscription.go", "Subscription.ModifyMonitoredItems", "index", "ItemsToModify[_]"⟩, .panics .subModifyItems),
  (⟨"subscription.go", "Subscription.ModifyMonitoredItems", "index", "ItemsToModify[_]"⟩, .panics .subModifyItems),
  (⟨"subscription.go", "Subscription.ModifyMonitoredItems", "index", "items[_]"⟩, .safe "map"),
  (⟨"subscription.go", "Subscription.ModifyMonitoredItems", "index", "items[_]"⟩, .safe "map; the entry exists for every i < len(items) (checked before sending)"),
  (⟨"subscription.go", "Subscription.Monitor", "index", "Results[_]"⟩, .panics .subMonitor),
  (⟨"subscription.go", "Subscription.Monitor", "index", "items[_]"⟩, .safe "map"),
  (⟨"subscription.go", "Subscription.SetMonitoringMode", "index", "items[_]"⟩, .safe "map"),
  (⟨"subscription.go", "Subscription.delete", "index", "Results[_]"⟩, .panics .subCancel),
  (⟨"subscription.go", "Subscription.delete", "index", "Results[_]"⟩, .panics .subCancel),
  (⟨"subscription.go", "Subscription.recreate_monitoredItems", "index", "Results[_]"⟩, .panics .recreateItems),
  (⟨"subscription.go", "Subscription.recreate_monitoredItems", "index", "Results[_]"⟩, .panics .recreateItems),
  (⟨"subscription.go", "Subscription.recreate_monitoredItems", "index", "itemsByTimestamps[_]"⟩, .safe "map"),
  (⟨"subscription.go", "Subscription.recreate_monitoredItems", "index", "itemsByTimestamps[_]"⟩, .safe "map"),
  (⟨"subscription.go", "Subscription.recreate_monitoredItems", "index", "items[_]"⟩, .safe "map")
]

/-- the scalar type a typed getter expects -/
def wantTid : Op → Option Tid
  | .browseName => some .qname
  | .description | .displayName => some .ltext
  | .accessLevel | .userAccessLevel => some .byte
  | _ => none

/-- a conforming answer: expected type and Good, exactly one Good-or-Bad result
    per request item and at least one, a scalar Variant of the type the getter
    expects, no empty BrowseNext result, known ids -/
def conforming (op : Op) (s : Shape) : Prop :=
  s.kind = .ok ∧ s.nRes = s.nReq ∧ 0 < s.nRes ∧ s.val.present = true ∧ s.val.isArray = false ∧
  (∀ t, wantTid op = some t → s.val.tid = t) ∧ (∀ kn ∈ s.chain, kn.2 ≠ 0)

/-- a good default shape -/
def Shape.good : Shape :=
  { kind := .ok, nReq := 1, results := [true], val := ⟨true, .int32, false, 0⟩, chain := [],
    subIdZero := false, subIdDup := false, idsKnown := true, subKnown := true, notifs := [] }

/-- for every operation that `auditedSites` marks `panics`, a shape on which it does -/
def witness : Op → Shape
  | .transferOnReconnect => { Shape.good with nReq := 0, results := [true] }
  | .accessLevel | .userAccessLevel | .browseName | .description | .displayName =>
      { Shape.good with val := ⟨true, .int32, false, 0⟩ }
  | .references => { Shape.good with results := [] }
  | .subModifyItems => { Shape.good with nReq := 1, results := [true, true] }
  | .subMonitor => { Shape.good with nReq := 2, results := [true] }
  | .subCancel => { Shape.good with results := [] }
  | .recreateItems => { Shape.good with nReq := 2, results := [true] }
  | .nodeClass => { Shape.good with val := ⟨true, .int32, true, 0⟩ }
  | _ => Shape.good

/-- Bool form of "every `panics op` entry of the audit has a panicking witness" -/
def auditWitnessed : Bool :=
  auditedSites.all fun p =>
    match p.2 with
    | .panics op => outcome op (witness op) == .panic
    | .safe _ => true

/-! ### loop lemmas -/

theorem indexLoop_iff (n todo i : Nat) : indexLoop n todo i = true ↔ (0 < todo ∧ n < i + todo) := by
  induction todo generalizing i with
  | zero => simp [indexLoop]
  | succ t ih =>
    unfold indexLoop
    by_cases h : i < n
    · simp only [h, if_true, ih]; omega
    · simp only [h, if_false]; simp; omega

theorem indexLoop_zero (n todo : Nat) : indexLoop n todo 0 = true ↔ n < todo := by
  rw [indexLoop_iff]; omega

theorem indexLoop_zero_eq (n todo : Nat) : indexLoop n todo 0 = decide (n < todo) := by
  rw [Bool.eq_iff_iff]; simp [indexLoop_zero]

theorem browseLoop_ne_panic (chain : List (Kind × Nat)) (h : ∀ kn ∈ chain, kn.2 ≠ 0) :
    browseLoop chain ≠ .panic := by
  induction chain with
  | nil => simp [browseLoop]
  | cons kn rest ih =>
    rcases kn with ⟨k, n⟩
    have hn : n ≠ 0 := h (k, n) (by simp)
    unfold browseLoop
    by_cases hk : sendOk k = true
    · simp only [hk, Bool.not_true, Bool.false_eq_true, if_false, hn]
      exact ih (fun x hx => h x (by simp [hx]))
    · simp [hk]

theorem modifyLoop_eq (nReq : Nat) (rs : List Bool) (i : Nat) :
    modifyLoop nReq rs i = (rs.drop (nReq - i)).any (· == true) := by
  induction rs generalizing i with
  | nil => simp [modifyLoop]
  | cons st rest ih =>
    unfold modifyLoop
    cases st
    · simp only [Bool.not_false, if_true, ih]
      cases hk : nReq - i with
      | zero => have : nReq - (i + 1) = 0 := by omega
                simp [this]
      | succ k => have : nReq - (i + 1) = k := by omega
                  simp [this]
    · simp only [Bool.not_true, Bool.false_eq_true, if_false]
      by_cases h : i < nReq
      · simp only [h, if_true, ih]
        cases hk : nReq - i with
        | zero => omega
        | succ k => have : nReq - (i + 1) = k := by omega
                    simp [this]
      · have : nReq - i = 0 := by omega
        simp [h, this]

end Opcua.ClientResp
