import OpcuaModel.Model.ClientSite
/-
  C21 — client calls never panic on a well-formed server response.

  For every client operation `outcome op shape : Outcome` (value | error |
  panic) is a total function of the SHAPE of the server's answers: exactly what
  the Go code inspects — kind of response (expected type and Good / expected
  type and Bad ServiceResult / ServiceFault / another type), number of request
  items vs. length of the result array, per-result status, presence / type /
  array-ness of the Variant of the first DataValue, the chain of BrowseNext
  answers, and a few flags.  Loops of the Go code are recursive functions
  here; every index expression and unchecked assertion that `auditedSites`
  marks `panics` is an explicit branch.
-/
namespace Opcua.ClientResp

inductive Outcome where
  | value | error | panic
  deriving Repr, DecidableEq

/-- how `sendRequestWithTimeout` + `safeAssign` see an answer -/
inductive Kind where
  | ok          -- expected type, ServiceResult Good
  | badStatus   -- expected type, ServiceResult Bad: handler runs, status is returned
  | fault       -- ServiceFault (Bad)
  | wrongType   -- another response type, Good: safeAssign fails
  | notResponse -- a decodable service message that is no response at all (e.g. a request echoed back):
                -- `msg.Response()` is nil, safeAssign(nil, &res) fails
  deriving Repr, DecidableEq

/-- built-in type classes the getters distinguish -/
inductive Tid where
  | null | byte | sbyte | int32 | qname | ltext | string | double
  | extobj        -- ExtensionObject(s) with a decoded body
  | extobjNoBody  -- ExtensionObject(s) without a body (`eo.Value == nil`)
  deriving Repr, DecidableEq

/-- the `Value` of `Results[0]` -/
structure Val where
  present : Bool      -- the DataValue carries a Variant (`dv.Value != nil`)
  tid     : Tid
  isArray : Bool
  arrLen  : Nat
  deriving Repr, DecidableEq

/-- payload of one NotificationData extension object of a PublishResponse -/
inductive Notif where
  | dataChange | event | statusChange | otherType | noBody
  deriving Repr, DecidableEq

structure Shape where
  kind    : Kind
  /-- number of items in the request (items to create / modify, subscription ids …) -/
  nReq    : Nat
  /-- the result array: one entry per result, `true` = its status code is Good -/
  results : List Bool
  val     : Val
  /-- the BrowseNext answers that follow a Browse (each: kind, number of results);
      every answer but the last carries a continuation point -/
  chain   : List (Kind × Nat)
  /-- Subscribe: the server returned subscription id 0 -/
  subIdZero : Bool
  /-- Subscribe: the server returned an id that is already registered -/
  subIdDup  : Bool
  /-- ModifyMonitoredItems: all ids of the request are known to the client -/
  idsKnown  : Bool
  /-- Publish: the response names a subscription the client knows -/
  subKnown  : Bool
  /-- Publish: the notification data of the message -/
  notifs    : List Notif
  /-- Publish: number of acknowledgements the client sent with the request (`c.pendingAcks`) -/
  pendingAcks : Nat
  deriving Repr, DecidableEq

def Shape.nRes (s : Shape) : Nat := s.results.length

/-- operations whose handler is only `safeAssign` and whose result is returned as is -/
inductive Plain where
  | read | write | browse | browseNext | registerNodes | unregisterNodes | historyRead
  | findServers | findServersOnNetwork | getEndpoints | nodeAttributes
  | subModify | subUnmonitor | subSetMonitoringMode | subSetTriggering
  deriving Repr, DecidableEq

inductive Op where
  | plain (p : Plain)
  | call
  | nodeAttribute           -- Node.Attribute / Node.Value
  | nodeClass
  | browseName | description | displayName
  | accessLevel | userAccessLevel       -- also HasAccessLevel / HasUserAccessLevel
  | namespaceArray          -- also FindNamespace / UpdateNamespaces
  | subStats
  | references              -- Node.References / ReferencedNodes / Children → browseNext
  | translate               -- Node.TranslateBrowsePathsToNodeIDs
  | subscribe
  | subCancel               -- Subscription.Cancel → delete
  | subMonitor
  | subModifyItems
  | recreateItems           -- monitor loop: recreateSubscription → recreate_monitoredItems
  | transferOnReconnect     -- monitor loop: transferSubscriptions result loop
  | publish                 -- background publish loop, one PublishResponse
  deriving Repr, DecidableEq

/-- `c.Send(ctx, req, func(v) error { return safeAssign(v, &res) })`: nil error iff the answer is
    of the expected type with a Good ServiceResult -/
def sendOk (k : Kind) : Bool := k == .ok

/-! ### Node attribute getters -/

/-- the Variant the decoder hands out for the first DataValue:
    `DataValue.Decode` always allocates `d.Value = new(Variant)`, so a DataValue
    without the Value bit yields the zero Variant (type Null, value nil), never
    a nil pointer -/
def decodedVal (v : Val) : Val :=
  if v.present then v else ⟨true, .null, false, 0⟩

/-- `Node.Attribute`: error, or the `*ua.Variant` of the first result -/
def nodeAttr (s : Shape) : Option Val :=
  -- res, err := n.c.Read(ctx, req); if err != nil { return nil, err }
  if !sendOk s.kind then none else
  match s.results with
  -- if len(res.Results) == 0 { return nil, ua.StatusBadUnexpectedError }
  | [] => none
  -- Client.Read's handler: `if eo, ok := val.(*ua.ExtensionObject); ok && eo.Value == nil { dv.Status = BadDataTypeIDUnknown }`
  -- (comma-ok: an array of extension objects is not touched)
  -- value := res.Results[0].Value; if res.Results[0].Status != ua.StatusOK { return value, status }
  | st :: _ =>
    let v := decodedVal s.val
    if st && !(v.tid == .extobjNoBody && !v.isArray) then some v else none

/-- `x, ok := v.Value().(T); if !ok { return …, ua.StatusBadTypeMismatch }` for a
    scalar Go type T: an error unless the dynamic type is T (a Null variant
    holds a nil interface, an array holds a slice) -/
def assertScalar (want : Tid) (v : Val) : Outcome :=
  if v.isArray then .error
  else if v.tid == want then .value else .error

/-- `ua.NodeClass(v.Int())` -/
def variantInt (v : Val) : Outcome :=
  -- if m.Has(VariantArrayValues) { return 0 }
  if v.isArray then .value
  -- switch m.Type() { case TypeIDSByte: int64(m.value.(int8)) … case TypeIDInt32: int64(m.value.(int32)) … }
  -- (a scalar of that type id holds a value of that Go type)
  else .value

def getter (s : Shape) (f : Val → Outcome) : Outcome :=
  match nodeAttr s with
  | none => .error
  | some v => f v

/-! ### browse -/

/-- the loop of `Node.browseNext` after the first `results[0]`; the head of
    `chain` is the next BrowseNext answer -/
def browseLoop : List (Kind × Nat) → Outcome
  -- len(results[0].ContinuationPoint) == 0: return refs, nil
  | [] => .value
  | (k, n) :: rest =>
    -- resp, err := n.c.BrowseNext(ctx, req); if err != nil { return nil, err }
    if !sendOk k then .error
    -- results = resp.Results; if len(results) == 0 { return nil, ua.StatusBadUnexpectedError }
    else if n = 0 then .error
    else browseLoop rest

def references (s : Shape) : Outcome :=
  -- resp, err := n.c.Browse(ctx, req); if err != nil { return nil, err }
  if !sendOk s.kind then .error
  -- if len(results) == 0 { return nil, ua.StatusBadUnexpectedError }; refs := results[0].References
  else if s.nRes = 0 then .error
  else browseLoop s.chain

/-! ### subscriptions -/

/-- `Subscription.delete` -/
def subDelete (s : Shape) : Outcome :=
  if !sendOk s.kind then .error else
  -- case len(res.Results) == 0: return ua.StatusBadUnexpectedError; case res.Results[0] == ua.StatusOK
  match s.results with
  | [] => .error
  | true :: _ => .value
  | false :: _ => .error

/-- `for i, item := range items { result := res.Results[i] … }` from index `i`
    with `todo` items left and `n` results -/
def indexLoop (n : Nat) : (todo i : Nat) → Bool
  | 0, _ => false
  | todo + 1, i => if i < n then indexLoop n todo (i + 1) else true

/-- `Subscription.Monitor` -/
def subMonitor (s : Shape) : Outcome :=
  if !sendOk s.kind then .error
  -- if len(res.Results) != len(items) { return nil, ua.StatusBadUnexpectedError }
  else if s.nRes != s.nReq then .error
  else if indexLoop s.nRes s.nReq 0 then .panic else .value

/-- `for i, res := range res.Results { if res.StatusCode != OK { continue }; id := req.ItemsToModify[i]… }` -/
def modifyLoop (nReq : Nat) : (results : List Bool) → (i : Nat) → Bool
  | [], _ => false
  | st :: rest, i => if !st then modifyLoop nReq rest (i + 1)
                     else if i < nReq then modifyLoop nReq rest (i + 1) else true

/-- `Subscription.ModifyMonitoredItems` -/
def subModifyItems (s : Shape) : Outcome :=
  -- unknown monitored item id: return nil, err (before anything is sent)
  if !s.idsKnown then .error
  else if !sendOk s.kind then .error
  -- if len(res.Results) != len(items) { return nil, ua.StatusBadUnexpectedError }
  else if s.nRes != s.nReq then .error
  else if modifyLoop s.nReq s.results 0 then .panic else .value

/-- `Subscription.recreate_monitoredItems` as the monitor loop sees it (its
    error is logged and dropped by `restoreSubscriptions`), one timestamp group -/
def recreateItems (s : Shape) : Outcome :=
  -- err := s.c.Send(...); if err != nil { return err }
  if !sendOk s.kind then .value
  -- if len(res.Results) != len(items) { return ua.StatusBadUnexpectedError }
  else if s.nRes != s.nReq then .value
  -- for _, result := range res.Results { if status != OK { return status } }
  else if s.results.any (· == false) then .value
  -- for i, item := range items { s.items[res.Results[i].MonitoredItemID] = … }
  else if indexLoop s.nRes s.nReq 0 then .panic else .value

/-- the result loop of `transferSubscriptions` in `Client.monitor`:
    `for i := range res.Results { … subIDs[i] … }` (both branches index subIDs):
    the same loop shape as `indexLoop`, over the results, indexing the ids -/
def transferOnReconnect (s : Shape) : Outcome :=
  -- case err != nil: recreate all subscriptions
  if !sendOk s.kind then .value
  -- case len(res.Results) != len(subIDs): recreate all subscriptions
  else if s.nRes != s.nReq then .value
  else if indexLoop s.nReq s.nRes 0 then .panic else .value

/-- `Client.Subscribe` -/
def subscribe (s : Shape) : Outcome :=
  if !sendOk s.kind then .error
  -- if sub.SubscriptionID == 0 || c.subs[sub.SubscriptionID] != nil { return nil, BadSubscriptionIDInvalid }
  else if s.subIdZero || s.subIdDup then .error else .value

/-- `Node.TranslateBrowsePathsToNodeIDs`; `nReq` stands for the number of targets of the first result -/
def translate (s : Shape) : Outcome :=
  if !sendOk s.kind then .error else
  match s.results with
  | [] => .error                               -- len(resp.Results) == 0
  | false :: _ => .error                        -- StatusCode != OK
  | true :: _ => if s.nReq = 0 then .error else .value   -- len(Targets) == 0

/-! ### the publish loop -/

/-- what `notifySubscription` delivers for one NotificationData -/
def notifClass : Notif → Bool      -- true = Value, false = Error
  | .dataChange | .event | .statusChange => true
  | .otherType | .noBody => false

/-- notifications delivered synchronously for one PublishResponse (`true` = a
    value, `false` = an error notification) -/
def publishDelivered (s : Shape) : List Bool :=
  match s.kind with
  | .ok => if s.subKnown then s.notifs.map notifClass else []
  | _ => []

/-- an error notification is sent from a goroutine (`err != nil && res != nil`) -/
def publishAsyncError (s : Shape) : Bool := s.kind == .badStatus

/-- `handleAcks_NeedsSubMuxLock(res)`: `if len(c.pendingAcks) != len(res) { c.pendingAcks = [] }`
    and then `for i, ack := range c.pendingAcks { err := res[i] … }` -/
def handleAcks (pending nRes : Nat) : Outcome :=
  let pending' := if pending != nRes then 0 else pending
  if indexLoop nRes pending' 0 then .panic else .value

/-- one round of `publish()`: only a Good PublishResponse reaches `handleAcks`; every other branch is guarded -/
def publish (s : Shape) : Outcome :=
  match s.kind with
  | .ok => handleAcks s.pendingAcks s.nRes
  | _ => .value

/-! ### the operations -/

def outcome : Op → Shape → Outcome
  | .plain _, s => if sendOk s.kind then .value else .error
  -- if len(res.Results) != 1 { return nil, ua.StatusBadUnknownResponse }
  | .call, s => if !sendOk s.kind then .error else if s.nRes = 1 then .value else .error
  | .nodeAttribute, s => getter s (fun _ => .value)
  | .nodeClass, s => getter s variantInt
  | .browseName, s => getter s (assertScalar .qname)
  | .description, s => getter s (assertScalar .ltext)
  | .displayName, s => getter s (assertScalar .ltext)
  | .accessLevel, s => getter s (assertScalar .byte)
  | .userAccessLevel, s => getter s (assertScalar .byte)
  -- ns, ok := v.Value().([]string); if !ok { return nil, errors.Errorf(…) }
  | .namespaceArray, s => getter s (fun v => if v.isArray && v.tid == .string then .value else .error)
  -- if v == nil { return nil, errors.Errorf(…) }; eos, ok := v.Value().([]*ua.ExtensionObject); if !ok { error }
  | .subStats, s => getter s (fun _ => .error)    -- (no shape used here carries SubscriptionDiagnostics)
  | .references, s => references s
  | .translate, s => translate s
  | .subscribe, s => subscribe s
  | .subCancel, s => subDelete s
  | .subMonitor, s => subMonitor s
  | .subModifyItems, s => subModifyItems s
  | .recreateItems, s => recreateItems s
  | .transferOnReconnect, s => transferOnReconnect s
  | .publish, s => publish s

/-! ### the audited site table -/

inductive Audit where
  | safe (why : String)
  | panics (op : Op)
  deriving Repr, DecidableEq

def auditedSites : List (Site × Audit) := [
  (⟨"client.go", "Client.Call", "index", "Results[_]"⟩, .safe "len(res.Results) != 1 returns before"),
  (⟨"client.go", "Client.Namespaces", "assert", "Load().([]string)"⟩, .safe "only []string is ever stored (NewClient, setNamespaces)"),
  (⟨"client.go", "Client.State", "assert", "Load().(ConnState)"⟩, .safe "only ConnState is ever stored (NewClient, setState)"),
  (⟨"client.go", "Client.monitor", "index", "Results[_]"⟩, .safe "i ranges over res.Results"),
  (⟨"client.go", "Client.monitor", "index", "availableSeqs[_]"⟩, .safe "map"),
  (⟨"client.go", "Client.monitor", "index", "availableSeqs[_]"⟩, .safe "map"),
  (⟨"client.go", "Client.monitor", "index", "subIDs[_]"⟩, .safe "len(res.Results) != len(subIDs) is handled before the loop"),
  (⟨"client.go", "Client.monitor", "index", "subIDs[_]"⟩, .safe "len(res.Results) != len(subIDs) is handled before the loop"),
  (⟨"client.go", "Client.monitor", "index", "subIDs[_]"⟩, .safe "len(res.Results) != len(subIDs) is handled before the loop"),
  (⟨"client.go", "Client.monitor", "index", "subIDs[_]"⟩, .safe "len(res.Results) != len(subIDs) is handled before the loop"),
  (⟨"client.go", "Client.publishTimeout", "assert", "Load().(time.Duration)"⟩, .safe "only time.Duration is ever stored"),
  (⟨"client.go", "SelectEndpoint", "index", "endpoints[_]"⟩, .safe "len(endpoints) == 0 returns before"),
  (⟨"client.go", "bySecurityLevel.Less", "index", "a[_]"⟩, .safe "sort.Interface contract"),
  (⟨"client.go", "bySecurityLevel.Less", "index", "a[_]"⟩, .safe "sort.Interface contract"),
  (⟨"client.go", "bySecurityLevel.Swap", "index", "a[_]"⟩, .safe "sort.Interface contract"),
  (⟨"client.go", "bySecurityLevel.Swap", "index", "a[_]"⟩, .safe "sort.Interface contract"),
  (⟨"client.go", "bySecurityLevel.Swap", "index", "a[_]"⟩, .safe "sort.Interface contract"),
  (⟨"client.go", "bySecurityLevel.Swap", "index", "a[_]"⟩, .safe "sort.Interface contract"),
  (⟨"client.go", "cloneBrowseRequest", "index", "descs[_]"⟩, .safe "descs has len(req.NodesToBrowse), request side"),
  (⟨"client.go", "cloneReadRequest", "index", "rvs[_]"⟩, .safe "rvs has len(req.NodesToRead), request side"),
  (⟨"client_sub.go", "Client.Subscribe", "index", "subs[_]"⟩, .safe "map"),
  (⟨"client_sub.go", "Client.Subscribe", "index", "subs[_]"⟩, .safe "map"),
  (⟨"client_sub.go", "Client.handleAcks_NeedsSubMuxLock", "index", "res[_]"⟩, .safe "pendingAcks is emptied when the lengths differ"),
  (⟨"client_sub.go", "Client.notifySubscriptionOfError", "index", "subs[_]"⟩, .safe "map"),
  (⟨"client_sub.go", "Client.publish", "index", "subs[_]"⟩, .safe "map"),
  (⟨"client_sub.go", "Client.recreateSubscription", "index", "subs[_]"⟩, .safe "map"),
  (⟨"client_sub.go", "Client.registerSubscription_NeedsSubMuxLock", "index", "subs[_]"⟩, .safe "map"),
  (⟨"client_sub.go", "Client.registerSubscription_NeedsSubMuxLock", "index", "subs[_]"⟩, .safe "map"),
  (⟨"client_sub.go", "Client.republishSubscription", "index", "subs[_]"⟩, .safe "map"),
  (⟨"monitor/subscription.go", "Subscription.AddMonitorItems", "index", "handles[_]"⟩, .safe "map"),
  (⟨"monitor/subscription.go", "Subscription.AddMonitorItems", "index", "itemLookup[_]"⟩, .safe "map"),
  (⟨"monitor/subscription.go", "Subscription.AddMonitorItems", "index", "nodes[_]"⟩, .safe "i ranges over nodes / len(resp.Results) == len(toAdd) checked"),
  (⟨"monitor/subscription.go", "Subscription.AddMonitorItems", "index", "nodes[_]"⟩, .safe "i ranges over nodes / len(resp.Results) == len(toAdd) checked"),
  (⟨"monitor/subscription.go", "Subscription.AddMonitorItems", "index", "nodes[_]"⟩, .safe "i ranges over nodes / len(resp.Results) == len(toAdd) checked"),
  (⟨"monitor/subscription.go", "Subscription.AddMonitorItems", "index", "nodes[_]"⟩, .safe "i ranges over nodes / len(resp.Results) == len(toAdd) checked"),
  (⟨"monitor/subscription.go", "Subscription.AddMonitorItems", "index", "toAdd[_]"⟩, .safe "len(resp.Results) == len(toAdd) checked"),
  (⟨"monitor/subscription.go", "Subscription.AddMonitorItems", "index", "toAdd[_]"⟩, .safe "len(resp.Results) == len(toAdd) checked"),
  (⟨"monitor/subscription.go", "Subscription.AddNodeIDs", "index", "requests[_]"⟩, .safe "requests has len(nodes), request side"),
  (⟨"monitor/subscription.go", "Subscription.RemoveMonitorItems", "index", "itemLookup[_]"⟩, .safe "map"),
  (⟨"monitor/subscription.go", "Subscription.pump", "index", "handles[_]"⟩, .safe "map"),
  (⟨"monitor/subscription.go", "parseNodeSlice", "index", "nodeIDs[_]"⟩, .safe "nodeIDs has len(nodes), request side"),
  (⟨"node.go", "Node.Attribute", "index", "Results[_]"⟩, .safe "len(res.Results) == 0 returns before"),
  (⟨"node.go", "Node.Attribute", "index", "Results[_]"⟩, .safe "len(res.Results) == 0 returns before"),
  (⟨"node.go", "Node.Attribute", "index", "Results[_]"⟩, .safe "len(res.Results) == 0 returns before"),
  (⟨"node.go", "Node.TranslateBrowsePathsToNodeIDs", "index", "BrowsePaths[_]"⟩, .safe "request literal with one element"),
  (⟨"node.go", "Node.TranslateBrowsePathsToNodeIDs", "index", "BrowsePaths[_]"⟩, .safe "request literal with one element"),
  (⟨"node.go", "Node.TranslateBrowsePathsToNodeIDs", "index", "Results[_]"⟩, .safe "len(resp.Results) == 0 returns before"),
  (⟨"node.go", "Node.TranslateBrowsePathsToNodeIDs", "index", "Results[_]"⟩, .safe "len(resp.Results) == 0 returns before"),
  (⟨"node.go", "Node.TranslateBrowsePathsToNodeIDs", "index", "Results[_]"⟩, .safe "len(resp.Results) == 0 returns before"),
  (⟨"node.go", "Node.TranslateBrowsePathsToNodeIDs", "index", "Results[_]"⟩, .safe "len(resp.Results) == 0 returns before"),
  (⟨"node.go", "Node.TranslateBrowsePathsToNodeIDs", "index", "Targets[_]"⟩, .safe "len(Targets) == 0 returns before"),
  (⟨"node.go", "Node.browseNext", "index", "results[_]"⟩, .safe "len(results) == 0 returns before"),
  (⟨"node.go", "Node.browseNext", "index", "results[_]"⟩, .safe "len(results) == 0 returns before"),
  (⟨"node.go", "Node.browseNext", "index", "results[_]"⟩, .safe "len(results) == 0 returns before"),
  (⟨"node.go", "Node.browseNext", "index", "results[_]"⟩, .safe "len(results) == 0 returns before"),
  (⟨"subscription.go", "Subscription.ModifyMonitoredItems", "index", "ItemsToModify[_]"⟩, .safe "len(res.Results) != len(items) returns before"),
  (⟨"subscription.go", "Subscription.ModifyMonitoredItems", "index", "ItemsToModify[_]"⟩, .safe "len(res.Results) != len(items) returns before"),
  (⟨"subscription.go", "Subscription.ModifyMonitoredItems", "index", "items[_]"⟩, .safe "map"),
  (⟨"subscription.go", "Subscription.ModifyMonitoredItems", "index", "items[_]"⟩, .safe "map; the entry exists for every i < len(items) (checked before sending)"),
  (⟨"subscription.go", "Subscription.Monitor", "index", "Results[_]"⟩, .safe "len(res.Results) != len(items) returns before"),
  (⟨"subscription.go", "Subscription.Monitor", "index", "items[_]"⟩, .safe "map"),
  (⟨"subscription.go", "Subscription.SetMonitoringMode", "index", "items[_]"⟩, .safe "map"),
  (⟨"subscription.go", "Subscription.delete", "index", "Results[_]"⟩, .safe "len(res.Results) == 0 returns before"),
  (⟨"subscription.go", "Subscription.delete", "index", "Results[_]"⟩, .safe "len(res.Results) == 0 returns before"),
  (⟨"subscription.go", "Subscription.recreate_monitoredItems", "index", "Results[_]"⟩, .safe "len(res.Results) != len(items) returns before"),
  (⟨"subscription.go", "Subscription.recreate_monitoredItems", "index", "Results[_]"⟩, .safe "len(res.Results) != len(items) returns before"),
  (⟨"subscription.go", "Subscription.recreate_monitoredItems", "index", "itemsByTimestamps[_]"⟩, .safe "map"),
  (⟨"subscription.go", "Subscription.recreate_monitoredItems", "index", "itemsByTimestamps[_]"⟩, .safe "map"),
  (⟨"subscription.go", "Subscription.recreate_monitoredItems", "index", "items[_]"⟩, .safe "map")
]

/-- the scalar type a typed getter expects -/
def wantTid : Op → Option Tid
  | .browseName => some .qname
  | .description | .displayName => some .ltext
  | .accessLevel | .userAccessLevel => some .byte
  | _ => none

/-- a conforming answer: expected type and Good, exactly one Good-or-Bad result
    per request item and at least one, a scalar Variant of the type the getter
    expects, no empty BrowseNext result, known ids -/
def conforming (op : Op) (s : Shape) : Prop :=
  s.kind = .ok ∧ s.nRes = s.nReq ∧ 0 < s.nRes ∧ s.val.present = true ∧ s.val.isArray = false ∧
  (∀ t, wantTid op = some t → s.val.tid = t) ∧ (∀ kn ∈ s.chain, kn.2 ≠ 0)

/-- a good default shape -/
def Shape.good : Shape :=
  { kind := .ok, nReq := 1, results := [true], val := ⟨true, .int32, false, 0⟩, chain := [],
    subIdZero := false, subIdDup := false, idsKnown := true, subKnown := true, notifs := [], pendingAcks := 0 }

/-- no site of the audit is marked as panicking any more -/
def auditAllSafe : Bool :=
  auditedSites.all fun p =>
    match p.2 with
    | .safe _ => true
    | .panics _ => false

/-- the shapes that made the unrepaired code panic (round 1 findings), with the
    operation they belong to -/
def oldWitnesses : List (Op × Shape) := [
  (.subCancel, { Shape.good with results := [] }),
  (.subMonitor, { Shape.good with nReq := 2, results := [true] }),
  (.subModifyItems, { Shape.good with nReq := 1, results := [true, true] }),
  (.recreateItems, { Shape.good with nReq := 2, results := [true] }),
  (.transferOnReconnect, { Shape.good with nReq := 0, results := [true] }),
  (.references, { Shape.good with results := [] }),
  (.references, { Shape.good with chain := [(.ok, 0)] }),
  (.browseName, Shape.good), (.description, Shape.good), (.displayName, Shape.good),
  (.accessLevel, Shape.good), (.userAccessLevel, Shape.good),
  (.nodeClass, { Shape.good with val := ⟨true, .int32, true, 0⟩ })]

/-! ### loop lemmas -/

theorem indexLoop_iff (n todo i : Nat) : indexLoop n todo i = true ↔ (0 < todo ∧ n < i + todo) := by
  induction todo generalizing i with
  | zero => simp [indexLoop]
  | succ t ih =>
    unfold indexLoop
    by_cases h : i < n
    · simp only [h, if_true, ih]; omega
    · simp only [h, if_false]; simp; omega

theorem indexLoop_zero (n todo : Nat) : indexLoop n todo 0 = true ↔ n < todo := by
  rw [indexLoop_iff]; omega

theorem indexLoop_zero_eq (n todo : Nat) : indexLoop n todo 0 = decide (n < todo) := by
  rw [Bool.eq_iff_iff]; simp [indexLoop_zero]

theorem browseLoop_ne_panic (chain : List (Kind × Nat)) (h : ∀ kn ∈ chain, kn.2 ≠ 0) :
    browseLoop chain ≠ .panic := by
  induction chain with
  | nil => simp [browseLoop]
  | cons kn rest ih =>
    rcases kn with ⟨k, n⟩
    have hn : n ≠ 0 := h (k, n) (by simp)
    unfold browseLoop
    by_cases hk : sendOk k = true
    · simp only [hk, Bool.not_true, Bool.false_eq_true, if_false, hn]
      exact ih (fun x hx => h x (by simp [hx]))
    · simp [hk]

theorem handleAcks_ne_panic (pending nRes : Nat) : handleAcks pending nRes ≠ .panic := by
  unfold handleAcks
  by_cases h : pending = nRes <;> simp [h, indexLoop_zero_eq]

theorem browseLoop_ne_panic' (chain : List (Kind × Nat)) : browseLoop chain ≠ .panic := by
  induction chain with
  | nil => simp [browseLoop]
  | cons kn rest ih =>
    rcases kn with ⟨k, n⟩
    unfold browseLoop
    by_cases hk : sendOk k = true
    · by_cases hn : n = 0
      · simp [hk, hn]
      · simp only [hk, Bool.not_true, Bool.false_eq_true, if_false, hn]; exact ih
    · simp [hk]

theorem modifyLoop_eq (nReq : Nat) (rs : List Bool) (i : Nat) :
    modifyLoop nReq rs i = (rs.drop (nReq - i)).any (· == true) := by
  induction rs generalizing i with
  | nil => simp [modifyLoop]
  | cons st rest ih =>
    unfold modifyLoop
    cases st
    · simp only [Bool.not_false, if_true, ih]
      cases hk : nReq - i with
      | zero => have : nReq - (i + 1) = 0 := by omega
                simp [this]
      | succ k => have : nReq - (i + 1) = k := by omega
                  simp [this]
    · simp only [Bool.not_true, Bool.false_eq_true, if_false]
      by_cases h : i < nReq
      · simp only [h, if_true, ih]
        cases hk : nReq - i with
        | zero => omega
        | succ k => have : nReq - (i + 1) = k := by omega
                    simp [this]
      · have : nReq - i = 0 := by omega
        simp [h, this]

end Opcua.ClientResp
