import OpcuaModel.Model.CodecLemmas
/-
  The call-depth budget is monotone (C02): whatever the decoder returns within
  depth `fuel` — a value, an error, an exceeded allocation budget — it returns
  with every larger depth as well.  Only the outcome `depth` itself depends on
  the budget.

  `Ext d d'`: on every state on which `d` does not run out of depth, `d'` agrees with `d`.
-/
namespace Opcua.Codec
open Opcua

def Ext {α : Type} (d d' : Dec α) : Prop := ∀ s, d s ≠ .fail .depth → d' s = d s

theorem ext_refl {α : Type} (d : Dec α) : Ext d d := fun _ _ => rfl

theorem ext_bind {α β : Type} {d d' : Dec α} {f f' : α → Dec β} (hd : Ext d d') (hf : ∀ a, Ext (f a) (f' a)) :
    Ext (d >>= f) (d' >>= f') := by
  intro s h
  simp only [Dec.bind_apply] at h ⊢
  cases hds : d s with
  | ok a s1 =>
    rw [hds] at h
    have h1 : d' s = .ok a s1 := by rw [hd s (by rw [hds]; simp), hds]
    rw [h1]
    exact hf a s1 h
  | fail e =>
    rw [hds] at h
    simp only at h
    have he : e ≠ .depth := fun hc => h (by rw [hc])
    have h1 : d' s = .fail e := by rw [hd s (by rw [hds]; exact fun hc => he (by cases hc; rfl)), hds]
    rw [h1]

theorem ext_ite {α : Type} {c : Prop} [Decidable c] {a a' b b' : Dec α} (ha : Ext a a') (hb : Ext b b') :
    Ext (if c then a else b) (if c then a' else b') := by
  split <;> assumption

theorem ext_optDec {α : Type} (c : Bool) {d d' : Dec α} (x : α) (h : Ext d d') : Ext (optDec c d x) (optDec c d' x) := by
  unfold optDec
  exact ext_ite h (ext_refl _)

theorem ext_decElems {α : Type} {d d' : Dec α} (h : Ext d d') : ∀ n, Ext (decElems d n) (decElems d' n)
  | 0 => ext_refl _
  | n + 1 => ext_bind h fun _ => ext_bind (ext_decElems h n) fun _ => ext_refl _

theorem ext_decFields {rec rec' : Ty → Dec Val} (h : ∀ t, Ext (rec t) (rec' t)) :
    ∀ ts, Ext (decFields rec ts) (decFields rec' ts)
  | [] => ext_refl _
  | t :: ts => ext_bind (h t) fun _ => ext_bind (ext_decFields h ts) fun _ => ext_refl _

theorem ext_onBody {α : Type} (body : Bytes) {d d' : Dec α} (h : Ext d d') : Ext (onBody body d) (onBody body d') := by
  intro s hs
  unfold onBody at hs ⊢
  cases hd : d ⟨body, s.alloc⟩ with
  | ok a s1 =>
    have := h ⟨body, s.alloc⟩ (by rw [hd]; simp)
    rw [this, hd]
  | fail e =>
    rw [hd] at hs
    have := h ⟨body, s.alloc⟩ (by rw [hd]; exact hs)
    rw [this, hd]

theorem ext_decDiag : ∀ fuel, Ext (decDiag fuel) (decDiag (fuel + 1))
  | 0 => fun s h => absurd rfl h
  | fuel + 1 => by
    unfold decDiag
    exact ext_bind (ext_refl _) fun _ => ext_ite (ext_bind (ext_decDiag fuel) fun _ => ext_refl _) (ext_refl _)

theorem ext_decVarValue {rec rec' : Ty → Dec Val} (h : ∀ t, Ext (rec t) (rec' t)) (tid : Nat) :
    Ext (decVarValue rec tid) (decVarValue rec' tid) := by
  unfold decVarValue
  split
  · exact ext_refl _
  · split
    · exact h _
    · exact ext_refl _

theorem ext_decDataValue {d d' : Dec Val} (h : Ext d d') : Ext (decDataValue d) (decDataValue d') := by
  unfold decDataValue
  exact ext_bind (ext_refl _) fun _ => ext_bind (ext_optDec _ _ h) fun _ => ext_refl _

theorem ext_decSlice (env : Env) {d d' : Dec Val} (h : Ext d d') : Ext (decSlice env d) (decSlice env d') := by
  unfold decSlice
  refine ext_bind (ext_refl _) fun n => ext_ite (ext_refl _) (ext_ite (ext_refl _) ?_)
  exact ext_bind (ext_refl _) fun _ => ext_bind (ext_decElems h n) fun _ => ext_refl _

theorem ext_decVarElems (env : Env) {d d' : Dec Val} (h : Ext d d') (n : Int) :
    Ext (decVarElems env d n) (decVarElems env d' n) := by
  unfold decVarElems
  exact ext_ite (ext_refl _) (ext_bind (ext_refl _) fun _ => ext_decElems h _)

theorem ext_decVariant (env : Env) {rec rec' : Ty → Dec Val} (h : ∀ t, Ext (rec t) (rec' t)) :
    Ext (decVariant env rec) (decVariant env rec') := by
  unfold decVariant
  refine ext_bind (ext_refl _) fun mask => ?_
  refine ext_ite (ext_refl _) (ext_ite (ext_refl _) (ext_ite (ext_bind (ext_decVarValue h _) fun _ => ext_refl _) ?_))
  refine ext_bind (ext_refl _) fun alen => ext_ite (ext_refl _) (ext_ite (ext_refl _) ?_)
  exact ext_bind (ext_decVarElems env (ext_decVarValue h _) _) fun _ => ext_refl _

theorem ext_decExtObj (env : Env) {rec rec' : Ty → Dec Val} (h : ∀ t, Ext (rec t) (rec' t)) :
    Ext (decExtObj env rec) (decExtObj env rec') := by
  unfold decExtObj
  refine ext_bind (ext_refl _) fun tid => ext_bind (ext_refl _) fun mask => ?_
  refine ext_ite (ext_refl _) (ext_bind (ext_refl _) fun len => ?_)
  refine ext_ite (ext_refl _) (ext_bind (ext_refl _) fun body => ?_)
  refine ext_ite (ext_bind (ext_onBody _ (h _)) fun _ => ext_refl _) ?_
  split
  · exact ext_refl _
  · exact ext_bind (ext_onBody _ (h _)) fun _ => ext_refl _

/-- one more unit of call depth never changes a result that was obtained without running out of depth -/
theorem decode_mono_succ (env : Env) : ∀ (fuel : Nat) (t : Ty), Ext (decode env fuel t) (decode env (fuel + 1) t) := by
  intro fuel
  induction fuel with
  | zero => intro t s h; exact absurd rfl h
  | succ n ih =>
    intro t
    cases t with
    | bool => exact ext_refl _
    | int w => exact ext_refl _
    | f32 => exact ext_refl _
    | f64 => exact ext_refl _
    | string => exact ext_refl _
    | time => exact ext_refl _
    | bytes => exact ext_refl _
    | slice e => exact ext_decSlice env (ih e)
    | ptr e => exact ext_bind (ih e) fun _ => ext_refl _
    | struct fs => exact ext_bind (ext_decFields ih fs) fun _ => ext_refl _
    | guid => exact ext_refl _
    | nodeId => exact ext_refl _
    | expNodeId => exact ext_refl _
    | locText => exact ext_refl _
    | diag => exact ext_bind (ext_decDiag (n + 1)) fun _ => ext_refl _
    | dataValue => exact ext_decDataValue (ih .variant)
    | variant => exact ext_decVariant env ih
    | extObj => exact ext_decExtObj env ih

theorem decode_mono (env : Env) (fuel k : Nat) (t : Ty) : Ext (decode env fuel t) (decode env (fuel + k) t) := by
  induction k with
  | zero => exact ext_refl _
  | succ k ih =>
    intro s h
    have h1 := ih s h
    have h2 := decode_mono_succ env (fuel + k) t s (by rw [h1]; exact h)
    rw [show fuel + (k + 1) = fuel + k + 1 from rfl, h2, h1]

end Opcua.Codec
