import OpcuaModel.Model.CodecSplit
/-
  Safety of the decoder model (C02).

  `SafeDec P d`: on every input state the decoder `d` returns a value, an error,
  or exceeds one of the two budgets (call depth `fuel`, allocation `env.limit`);
  it never panics and never diverges.

  Main result `decode_safe`: every decoder of the model is safe (since the repairs
  of C02.variant-neg-len and C02.variant-dims-overflow; before them `Variant.Decode`
  could panic in `reflect.MakeSlice` / `split` and loop forever in `split`).
-/
namespace Opcua.Codec
open Opcua

def SafeF (f : Fail) : Prop := f = .err ∨ f = .depth ∨ f = .alloc

/-- a set of tolerated failures contains at least the error return and the two budgets -/
class Allowed (P : Fail → Prop) : Prop where
  err : P .err
  depth : P .depth
  alloc : P .alloc

instance : Allowed SafeF := ⟨Or.inl rfl, Or.inr (Or.inl rfl), Or.inr (Or.inr rfl)⟩

def SafeRes {α : Type} (P : Fail → Prop) : Res α → Prop
  | .ok _ _ => True
  | .fail f => P f

/-- every failure of the decoder lies in `P` -/
def SafeDec {α : Type} (P : Fail → Prop) (d : Dec α) : Prop := ∀ s, SafeRes P (d s)

variable {P : Fail → Prop} [hP : Allowed P]

theorem safe_pure {α : Type} (a : α) : SafeDec P (pure a : Dec α) := fun _ => trivial
theorem safe_err {α : Type} : SafeDec P (Dec.fail .err : Dec α) := fun _ => hP.err
theorem safe_depth {α : Type} : SafeDec P (Dec.fail .depth : Dec α) := fun _ => hP.depth

/-- bind, with the continuation only examined on results the first decoder can produce -/
theorem safe_bind' {α β : Type} {d : Dec α} {f : α → Dec β} (s : St) (hd : SafeRes P (d s))
    (hf : ∀ a s', d s = .ok a s' → SafeRes P (f a s')) : SafeRes P ((d >>= f) s) := by
  simp only [Dec.bind_apply]
  cases h : d s with
  | ok a s' => exact hf a s' h
  | fail e => rw [h] at hd; exact hd

theorem safe_bind {α β : Type} {d : Dec α} {f : α → Dec β} (hd : SafeDec P d) (hf : ∀ a, SafeDec P (f a)) :
    SafeDec P (d >>= f) := fun s => safe_bind' s (hd s) (fun a s' _ => hf a s')

theorem safe_ite {α : Type} {c : Prop} [Decidable c] {a b : Dec α} (ha : SafeDec P a) (hb : SafeDec P b) :
    SafeDec P (if c then a else b) := by
  split <;> assumption

theorem safe_readN (n : Nat) : SafeDec P (readN n) := by
  intro s
  unfold readN
  split
  · trivial
  · exact hP.err

theorem safe_readUInt (w : Nat) : SafeDec P (readUInt w) :=
  safe_bind (safe_readN w) (fun _ => safe_pure _)

theorem safe_readBytes : SafeDec P readBytes :=
  safe_bind (safe_readUInt 4) (fun _ => safe_ite (safe_pure _) (safe_bind (safe_readN _) (fun _ => safe_pure _)))

theorem safe_readString : SafeDec P readString := safe_bind safe_readBytes (fun _ => safe_pure _)
theorem safe_readTime : SafeDec P readTime := safe_bind (safe_readUInt 8) (fun _ => safe_pure _)

theorem safe_request (env : Env) (n : Nat) : SafeDec P (request env n) := by
  intro s
  unfold request
  split
  · trivial
  · split
    · exact hP.alloc
    · trivial

theorem safe_requestAt (env : Env) (site : Site) (n : Nat) : SafeDec P (requestAt env site n) :=
  safe_request (env.forSite site) n

theorem safe_optDec {α : Type} (c : Bool) {d : Dec α} (dflt : α) (hd : SafeDec P d) : SafeDec P (optDec c d dflt) := by
  unfold optDec
  exact safe_ite hd (safe_pure _)

theorem safe_decElems {α : Type} {d : Dec α} (hd : SafeDec P d) : ∀ n, SafeDec P (decElems d n)
  | 0 => safe_pure _
  | n + 1 => safe_bind hd (fun _ => safe_bind (safe_decElems hd n) (fun _ => safe_pure _))

theorem decElems_length {α : Type} {d : Dec α} : ∀ (n : Nat) (s s' : St) (vs : List α),
    decElems d n s = .ok vs s' → vs.length = n := by
  intro n
  induction n with
  | zero => intro s s' vs h; simp [decElems] at h; cases h.1; rfl
  | succ n ih =>
    intro s s' vs h
    simp only [decElems, Dec.bind_apply] at h
    cases h1 : d s with
    | fail e => simp [h1] at h
    | ok a s1 =>
      simp only [h1] at h
      cases h2 : decElems d n s1 with
      | fail e => simp [h2] at h
      | ok as s2 =>
        simp only [h2, Dec.pure_apply] at h
        cases h
        simp [ih s1 _ as h2]

theorem safe_decFields {rec : Ty → Dec Val} (hr : ∀ t, SafeDec P (rec t)) : ∀ ts, SafeDec P (decFields rec ts)
  | [] => safe_pure _
  | t :: ts => safe_bind (hr t) (fun _ => safe_bind (safe_decFields hr ts) (fun _ => safe_pure _))

theorem safe_decGuid : SafeDec P decGuid :=
  safe_bind (safe_readUInt 4) fun _ => safe_bind (safe_readUInt 2) fun _ => safe_bind (safe_readUInt 2) fun _ =>
    safe_bind (safe_readN 8) fun _ => safe_pure _

theorem safe_decNodeId : SafeDec P decNodeId := by
  unfold decNodeId
  refine safe_bind (safe_readUInt 1) fun mask => ?_
  refine safe_ite (safe_bind (safe_readUInt 1) fun _ => safe_pure _) ?_
  refine safe_ite (safe_bind (safe_readUInt 1) fun _ => safe_bind (safe_readUInt 2) fun _ => safe_pure _) ?_
  refine safe_ite (safe_bind (safe_readUInt 2) fun _ => safe_bind (safe_readUInt 4) fun _ => safe_pure _) ?_
  refine safe_ite (safe_bind (safe_readUInt 2) fun _ => safe_bind safe_decGuid fun _ => safe_pure _) ?_
  exact safe_ite (safe_bind (safe_readUInt 2) fun _ => safe_bind safe_readBytes fun _ => safe_pure _) safe_err

theorem safe_decExpNodeId : SafeDec P decExpNodeId :=
  safe_bind safe_decNodeId fun _ => safe_bind (safe_optDec _ _ safe_readString) fun _ =>
    safe_bind (safe_optDec _ _ (safe_readUInt 4)) fun _ => safe_pure _

theorem safe_decLocText : SafeDec P decLocText :=
  safe_bind (safe_readUInt 1) fun _ => safe_bind (safe_optDec _ _ safe_readString) fun _ =>
    safe_bind (safe_optDec _ _ safe_readString) fun _ => safe_pure _

theorem safe_decDiagLevel : SafeDec P decDiagLevel :=
  safe_bind (safe_readUInt 1) fun _ => safe_bind (safe_optDec _ _ (safe_readUInt 4)) fun _ =>
  safe_bind (safe_optDec _ _ (safe_readUInt 4)) fun _ => safe_bind (safe_optDec _ _ (safe_readUInt 4)) fun _ =>
  safe_bind (safe_optDec _ _ (safe_readUInt 4)) fun _ => safe_bind (safe_optDec _ _ safe_readString) fun _ =>
  safe_bind (safe_optDec _ _ (safe_readUInt 4)) fun _ => safe_pure _

theorem safe_decDiag : ∀ fuel, SafeDec P (decDiag fuel)
  | 0 => safe_depth
  | fuel + 1 => safe_bind safe_decDiagLevel fun _ =>
      safe_ite (safe_bind (safe_decDiag fuel) fun _ => safe_pure _) (safe_pure _)

theorem safe_decDims : ∀ n, SafeDec P (decDims n)
  | 0 => safe_pure _
  | n + 1 => safe_bind (safe_readUInt 4) fun _ =>
      safe_ite safe_err (safe_bind (safe_decDims n) fun _ => safe_pure _)

theorem decDims_spec : ∀ (n : Nat) (s s' : St) (ds : List Nat), decDims n s = .ok ds s' →
    ds.length = n ∧ ∀ d ∈ ds, 1 ≤ d := by
  intro n
  induction n with
  | zero => intro s s' ds h; simp [decDims] at h; cases h.1; simp
  | succ n ih =>
    intro s s' ds h
    simp only [decDims, Dec.bind_apply] at h
    cases h1 : readUInt 4 s with
    | fail e => simp [h1] at h
    | ok d s1 =>
      simp only [h1] at h
      by_cases hd : toInt32 d < 1
      · simp [hd] at h
      · simp only [hd, if_false, Dec.bind_apply] at h
        cases h2 : decDims n s1 with
        | fail e => simp [h2] at h
        | ok ds' s2 =>
          simp only [h2, Dec.pure_apply] at h
          cases h
          obtain ⟨hl, hp⟩ := ih s1 _ ds' h2
          refine ⟨by simp [hl], ?_⟩
          intro x hx
          rcases List.mem_cons.mp hx with rfl | hx
          · unfold toInt32 at hd
            split at hd <;> omega
          · exact hp x hx

theorem safe_onBody {α : Type} (body : Bytes) {d : Dec α} (hd : SafeDec P d) : SafeDec P (onBody body d) := by
  intro s
  unfold onBody
  have := hd ⟨body, s.alloc⟩
  cases h : d ⟨body, s.alloc⟩ with
  | ok a s' => trivial
  | fail e => rw [h] at this; exact this

/-! ### `split` on an exactly matching dimension list -/

theorem safe_splitLeaf (vals : List Val) (n : Bool) (i j : Nat) (h : i ≤ j ∧ j ≤ vals.length) :
    SafeDec P (splitLeaf vals n i j) := by
  intro s
  unfold splitLeaf
  have : ¬ (j < i ∨ vals.length < j) := by omega
  simp only [this, if_false]
  trivial

/-- the row loop: all rows lie inside `vals`; the result is non-empty when the range is -/
theorem safe_splitLoop {f : Nat → Nat → Dec Val} {p len : Nat} (hp : 1 ≤ p)
    (hf : ∀ a, a + p ≤ len → SafeDec P (f a (a + p))) :
    ∀ (fuel k i : Nat) (s : St), i + k * p ≤ len → k ≤ fuel →
      match splitLoop f p fuel i (i + k * p) s with
      | .ok es _ => (k > 0 → es ≠ [])
      | .fail e => P e := by
  intro fuel
  induction fuel with
  | zero =>
    intro k i s _ hk
    have : k = 0 := by omega
    subst this
    simp [splitLoop]
  | succ n ih =>
    intro k i s hlen hk
    cases k with
    | zero => simp [splitLoop]
    | succ k =>
      have hlt : i < i + (k + 1) * p := by
        have : 1 ≤ (k + 1) * p := Nat.mul_le_mul (Nat.succ_le_succ (Nat.zero_le _)) hp
        omega
      simp only [splitLoop, hlt, if_true, Dec.bind_apply]
      have harith : i + (k + 1) * p = i + p + k * p := by rw [Nat.succ_mul]; omega
      have h1 := hf i (by rw [harith] at hlen; omega) s
      cases hr : f i (i + p) s with
      | fail e => rw [hr] at h1; exact h1
      | ok e s1 =>
        simp only
        have := ih k (i + p) s1 (by rw [harith] at hlen; exact hlen) (by omega)
        rw [harith]
        cases hr2 : splitLoop f p n (i + p) (i + p + k * p) s1 with
        | fail e2 => rw [hr2] at this; exact this
        | ok es s2 => simp

theorem safe_splitM (env : Env) (vals : List Val) (n : Bool) :
    ∀ (ds : List Nat) (i : Nat), ds ≠ [] → (∀ d ∈ ds, 1 ≤ d) → i + prodL ds ≤ vals.length →
      SafeDec P (splitM env vals n ds i (i + prodL ds)) := by
  intro ds
  induction ds with
  | nil => intro i h; exact absurd rfl h
  | cons d ds ih =>
    intro i _ hpos hlen
    have hd : 1 ≤ d := hpos d (List.mem_cons_self ..)
    have hpos' : ∀ x ∈ ds, 1 ≤ x := fun x hx => hpos x (List.mem_cons_of_mem _ hx)
    cases ds with
    | nil =>
      simp only [splitM]
      exact safe_splitLeaf vals n i _ ⟨by omega, hlen⟩
    | cons d' ds' =>
      have hp : 1 ≤ prodL (d' :: ds') := prodL_pos hpos'
      have hPd : prodL (d :: d' :: ds') = d * prodL (d' :: ds') := rfl
      have hvl : vals.length > 0 := by
        have : 1 ≤ prodL (d :: d' :: ds') := prodL_pos hpos
        omega
      have hstep : (i + prodL (d :: d' :: ds') - i) / d = prodL (d' :: ds') := by
        rw [Nat.add_sub_cancel_left, hPd]
        exact Nat.mul_div_cancel_left _ (by omega)
      intro s
      rw [splitM]
      simp only [hvl, if_true, hstep]
      have hne : ¬ prodL (d' :: ds') = 0 := by omega
      simp only [hne, if_false]
      refine safe_bind' s (safe_requestAt env _ _ s) ?_
      intro _ s1 _
      have hloop := safe_splitLoop (f := fun a b => splitM env vals n (d' :: ds') a b) (p := prodL (d' :: ds'))
        (len := vals.length) hp (fun a ha => ih a (by simp) hpos' ha)
        (i + prodL (d :: d' :: ds') - i) d i s1 (by rw [hPd] at hlen; exact hlen)
        (by rw [Nat.add_sub_cancel_left, hPd]; exact Nat.le_mul_of_pos_right _ (by omega))
      have hj : i + prodL (d :: d' :: ds') = i + d * prodL (d' :: ds') := by rw [hPd]
      rw [hj]
      rw [hj] at hloop
      simp only [Dec.bind_apply]
      cases hr : splitLoop (fun a b => splitM env vals n (d' :: ds') a b) (prodL (d' :: ds'))
          (i + d * prodL (d' :: ds') - i) i (i + d * prodL (d' :: ds')) s1 with
      | fail e => rw [hr] at hloop; exact hloop
      | ok es s2 =>
        rw [hr] at hloop
        simp only at hloop
        have hne2 : es ≠ [] := hloop (by omega)
        have : ¬ es.isEmpty = true := by
          cases es with
          | nil => exact absurd rfl hne2
          | cons x xs => simp
        simp only [this, Bool.false_eq_true, if_false]
        trivial

/-! ### the composite decoders -/

theorem safe_decVarValue {rec : Ty → Dec Val} (hr : ∀ t, SafeDec P (rec t)) (tid : Nat) : SafeDec P (decVarValue rec tid) := by
  unfold decVarValue
  split
  · exact safe_bind safe_readBytes fun _ => safe_pure _
  · split
    · exact hr _
    · exact safe_pure _

theorem safe_decDataValue {d : Dec Val} (hd : SafeDec P d) : SafeDec P (decDataValue d) :=
  safe_bind (safe_readUInt 1) fun _ => safe_bind (safe_optDec _ _ hd) fun _ =>
  safe_bind (safe_optDec _ _ (safe_readUInt 4)) fun _ => safe_bind (safe_optDec _ _ safe_readTime) fun _ =>
  safe_bind (safe_optDec _ _ (safe_readUInt 2)) fun _ => safe_bind (safe_optDec _ _ safe_readTime) fun _ =>
  safe_bind (safe_optDec _ _ (safe_readUInt 2)) fun _ => safe_pure _

theorem safe_decExtObj (env : Env) {rec : Ty → Dec Val} (hr : ∀ t, SafeDec P (rec t)) : SafeDec P (decExtObj env rec) := by
  unfold decExtObj
  refine safe_bind safe_decExpNodeId fun tid => safe_bind (safe_readUInt 1) fun mask => ?_
  refine safe_ite (safe_pure _) (safe_bind (safe_readUInt 4) fun len => ?_)
  refine safe_ite (safe_pure _) (safe_bind (safe_readN _) fun body => ?_)
  refine safe_ite (safe_bind (safe_onBody _ (hr _)) fun _ => safe_pure _) ?_
  split
  · exact safe_pure _
  · exact safe_bind (safe_onBody _ (hr _)) fun _ => safe_pure _

theorem safe_decSlice (env : Env) {d : Dec Val} (hd : SafeDec P d) : SafeDec P (decSlice env d) := by
  unfold decSlice
  refine safe_bind (safe_readUInt 4) fun n => safe_ite (safe_pure _) (safe_ite safe_err ?_)
  exact safe_bind (safe_requestAt env _ n) fun _ => safe_bind (safe_decElems hd n) fun _ => safe_pure _

theorem safe_decByteSlice : SafeDec P decByteSlice := by
  unfold decByteSlice
  refine safe_bind (safe_readUInt 4) fun n => safe_ite (safe_pure _) (safe_ite safe_err ?_)
  exact safe_bind (safe_readN n) fun _ => safe_pure _

theorem safe_decVarElems (env : Env) {d : Dec Val} (hd : SafeDec P d) (n : Int) : SafeDec P (decVarElems env d n) := by
  unfold decVarElems
  exact safe_ite (safe_pure _) (safe_bind (safe_requestAt env _ _) fun _ => safe_decElems hd _)

theorem decVarElems_length (env : Env) {d : Dec Val} (n : Int) (hn : 0 ≤ n) (s s' : St) (vs : List Val)
    (h : decVarElems env d n s = .ok vs s') : vs.length = n.toNat := by
  unfold decVarElems at h
  have : ¬ n = -1 := by omega
  simp only [this, if_false, Dec.bind_apply] at h
  cases h1 : requestAt env .varArray n.toNat s with
  | fail e => simp [h1] at h
  | ok u s1 =>
    simp only [h1] at h
    exact decElems_length _ _ _ _ h

theorem safe_checkDimCount (dl : Nat) : SafeDec P (checkDimCount dl) := by
  intro s
  unfold checkDimCount
  split
  · exact hP.err
  · trivial

theorem safe_decDimList (env : Env) (dl : Nat) : SafeDec P (decDimList env dl) :=
  safe_bind (safe_checkDimCount dl) fun _ =>
    safe_bind (safe_requestAt env _ dl) fun _ => safe_bind (safe_decDims dl) fun _ => safe_pure _

theorem decDimList_spec (env : Env) (dl : Nat) (s s' : St) (r : Option (List Nat)) (h : decDimList env dl s = .ok r s') :
    ∃ ds, r = some ds ∧ ds.length = dl ∧ ∀ d ∈ ds, 1 ≤ d := by
  unfold decDimList at h
  simp only [Dec.bind_apply] at h
  cases h0 : checkDimCount dl s with
  | fail e => simp [h0] at h
  | ok u0 s0 =>
    simp only [h0] at h
    cases h1 : requestAt env .dims dl s0 with
    | fail e => simp [h1] at h
    | ok u s1 =>
      simp only [h1] at h
      cases h2 : decDims dl s1 with
      | fail e => simp [h2] at h
      | ok ds s2 =>
        simp only [h2, Dec.pure_apply] at h
        cases h
        exact ⟨ds, rfl, decDims_spec dl s1 _ ds h2⟩

/-- `Variant.Decode` is safe: `split` only runs on a dimension list whose exact product is the number of elements -/
theorem safe_decVariant (env : Env)
    {rec : Ty → Dec Val} (hr : ∀ t, SafeDec P (rec t)) : SafeDec P (decVariant env rec) := by
  unfold decVariant
  refine safe_bind (safe_readUInt 1) fun mask => ?_
  refine safe_ite (safe_pure _) (safe_ite safe_err (safe_ite (safe_bind (safe_decVarValue hr _) fun _ => safe_pure _) ?_))
  refine safe_bind (safe_readUInt 4) fun alen => ?_
  refine safe_ite safe_err ?_
  by_cases hneg : toInt32 alen < -1
  · simp only [hneg, if_true]
    exact safe_err
  · simp only [hneg, if_false]
    intro s
    refine safe_bind' s (safe_decVarElems env (safe_decVarValue hr _) _ s) ?_
    intro vals s1 hvals
    refine safe_bind' s1 (safe_optDec _ _ (safe_readUInt 4) s1) ?_
    intro dl s2 hdlr
    by_cases hdl : toInt32 dl < 0
    · simp only [hdl, if_true]; exact safe_err s2
    · simp only [hdl, if_false]
      refine safe_bind' s2 (safe_optDec _ _ (safe_decDimList env dl) s2) ?_
      intro dims s3 hdims
      by_cases hmm : dl > 0 ∧ dimsMismatch (dims.getD []) alen = true
      · simp only [hmm, and_self, if_true]; exact safe_err s3
      · simp only [hmm, if_false]
        by_cases hd2 : dl < 2
        · simp only [hd2, if_true]; trivial
        · simp only [hd2, if_false]
          refine safe_bind' s3 ?_ (fun _ _ _ => trivial)
          -- the dimension list was read (dl ≥ 2 means the bit is set) and matches the length exactly
          have hpos : dl > 0 := by omega
          have hnm : ¬ dimsMismatch (dims.getD []) alen = true := fun hc => hmm ⟨hpos, hc⟩
          unfold dimsMismatch at hnm
          simp only [decide_eq_true_eq, not_or, Decidable.not_not] at hnm
          obtain ⟨hnn, hprod⟩ := hnm
          have hspec : ∃ ds, dims = some ds ∧ ds.length = dl ∧ ∀ d ∈ ds, 1 ≤ d := by
            unfold optDec at hdims
            split at hdims
            · exact decDimList_spec env dl s2 s3 dims hdims
            · simp only [Dec.pure_apply] at hdims
              cases hdims
              -- no dimension bit: dl was read as 0
              exfalso
              rename_i hc
              unfold optDec at hdlr
              simp only [hc, if_false, Dec.pure_apply] at hdlr
              cases hdlr
              omega
          obtain ⟨ds, rfl, hlen, hge⟩ := hspec
          simp only [Option.getD_some] at hprod ⊢
          have hvl : vals.length = (toInt32 alen).toNat := decVarElems_length env _ (Int.not_lt.mp hnn) s s1 vals hvals
          have hne : ds ≠ [] := by
            intro he; rw [he] at hlen; simp at hlen; omega
          have hPL : prodL ds = vals.length := by
            rw [hvl, ← prodNat_eq]; exact hprod
          have := safe_splitM (P := P) env vals (decide (toInt32 alen = -1)) ds 0 hne hge (by omega)
          rw [Nat.zero_add, hPL] at this
          exact this s3

/-- **Safety of the decoder.**  Every decoder of the model returns a value or an error, or exceeds the depth /
    allocation budget: no panic, no divergence, for every environment, type and input. -/
theorem decode_safe (env : Env) :
    ∀ (fuel : Nat) (t : Ty), SafeDec SafeF (decode env fuel t) := by
  intro fuel
  induction fuel with
  | zero => intro t; exact safe_depth
  | succ n ih =>
    intro t
    cases t with
    | bool => exact safe_bind (safe_readUInt 1) fun _ => safe_pure _
    | int w => exact safe_bind (safe_readUInt w) fun _ => safe_pure _
    | f32 => exact safe_bind (safe_readUInt 4) fun _ => safe_pure _
    | f64 => exact safe_bind (safe_readUInt 8) fun _ => safe_pure _
    | string => exact safe_bind safe_readString fun _ => safe_pure _
    | time => exact safe_bind safe_readTime fun _ => safe_pure _
    | bytes => exact safe_decByteSlice
    | slice e => exact safe_decSlice env (ih e)
    | ptr e => exact safe_bind (ih e) fun _ => safe_pure _
    | struct fs => exact safe_bind (safe_decFields ih fs) fun _ => safe_pure _
    | guid => exact safe_bind safe_decGuid fun _ => safe_pure _
    | nodeId => exact safe_bind safe_decNodeId fun _ => safe_pure _
    | expNodeId => exact safe_bind safe_decExpNodeId fun _ => safe_pure _
    | locText => exact safe_bind safe_decLocText fun _ => safe_pure _
    | diag => exact safe_bind (safe_decDiag (n + 1)) fun _ => safe_pure _
    | dataValue => exact safe_decDataValue (ih .variant)
    | variant => exact safe_decVariant env ih
    | extObj => exact safe_decExtObj env ih

end Opcua.Codec
