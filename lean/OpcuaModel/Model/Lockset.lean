/-
  Lockset soundness: a consistent locking discipline (every write of x under the write lock l,
  every read of x under l in either mode) implies that all conflicting accesses of x are ordered
  by happens-before (program order + mutex edges + goroutine start).  Core Lean only.
-/
namespace Opcua.Lockset

/-- operations of a thread; L = mutex names, X = shared locations -/
inductive Op (L X : Type) where
  | acq (l : L)    -- Lock()   returns
  | rel (l : L)    -- Unlock()
  | racq (l : L)   -- RLock()  returns
  | rrel (l : L)   -- RUnlock()
  | rd (x : X)
  | wr (x : X)
  | fork (child : Nat)   -- go statement starting thread `child`
  | other                -- anything else (channel ops, atomics: they only add order; ignoring them is conservative)
  deriving DecidableEq, Repr

structure Ev (L X : Type) where
  tid : Nat
  op : Op L X
  deriving DecidableEq, Repr

abbrev Trace (L X : Type) := List (Ev L X)

variable {L X : Type}

/-- thread t holds l in write mode just before position j -/
def HoldsW (tr : Trace L X) (t : Nat) (l : L) (j : Nat) : Prop :=
  ∃ k, k < j ∧ tr[k]? = some ⟨t, .acq l⟩ ∧ ∀ m, k < m → m < j → tr[m]? ≠ some ⟨t, .rel l⟩
/-- thread t holds l in read mode just before position j -/
def HoldsR (tr : Trace L X) (t : Nat) (l : L) (j : Nat) : Prop :=
  ∃ k, k < j ∧ tr[k]? = some ⟨t, .racq l⟩ ∧ ∀ m, k < m → m < j → tr[m]? ≠ some ⟨t, .rrel l⟩
def HoldsAny (tr : Trace L X) (t : Nat) (l : L) (j : Nat) : Prop := HoldsW tr t l j ∨ HoldsR tr t l j

/-- well-formed traces: mutual exclusion of every mutex (writers exclusive, readers shared), a thread only
    releases what it holds, a forked thread has no earlier events -/
structure WF (tr : Trace L X) : Prop where
  acq_excl  : ∀ k t l, tr[k]? = some ⟨t, .acq l⟩ → ∀ t', ¬ HoldsAny tr t' l k
  racq_excl : ∀ k t l, tr[k]? = some ⟨t, .racq l⟩ → ∀ t', ¬ HoldsW tr t' l k
  rel_held  : ∀ k t l, tr[k]? = some ⟨t, .rel l⟩ → HoldsW tr t l k
  rrel_held : ∀ k t l, tr[k]? = some ⟨t, .rrel l⟩ → HoldsR tr t l k
  fork_fresh : ∀ (k t c : Nat), tr[k]? = some ⟨t, .fork c⟩ → c ≠ t ∧ ∀ (m : Nat) (e : Ev L X), m < k → tr[m]? = some e → e.tid ≠ c

/-- happens-before of the Go memory model restricted to program order, mutexes and goroutine start -/
inductive HB (tr : Trace L X) : Nat → Nat → Prop where
  | po {i j t a b} : i < j → tr[i]? = some ⟨t, a⟩ → tr[j]? = some ⟨t, b⟩ → HB tr i j
  | relAcq {i j t u l} : i < j → tr[i]? = some ⟨t, .rel l⟩ →
      (tr[j]? = some ⟨u, .acq l⟩ ∨ tr[j]? = some ⟨u, .racq l⟩) → HB tr i j
  | rrelAcq {i j t u l} : i < j → tr[i]? = some ⟨t, .rrel l⟩ → tr[j]? = some ⟨u, .acq l⟩ → HB tr i j
  | fork {i j t c b} : i < j → tr[i]? = some ⟨t, .fork c⟩ → tr[j]? = some ⟨c, b⟩ → HB tr i j
  | trans {i j k} : HB tr i j → HB tr j k → HB tr i k

def Op.accesses (x : X) : Op L X → Prop
  | .rd y => y = x
  | .wr y => y = x
  | _ => False

/-- positions i and j are conflicting accesses of x by different threads -/
def Conflict (tr : Trace L X) (x : X) (i j : Nat) : Prop :=
  ∃ t u a b, t ≠ u ∧ tr[i]? = some ⟨t, a⟩ ∧ tr[j]? = some ⟨u, b⟩ ∧ a.accesses x ∧ b.accesses x ∧ (a = .wr x ∨ b = .wr x)

/-- no data race on x: conflicting accesses are ordered by happens-before -/
def RaceFree (tr : Trace L X) (x : X) : Prop := ∀ i j, i < j → Conflict tr x i j → HB tr i j

/-- consistent lockset: every write of x holds l exclusively, every read holds l in either mode -/
def Disciplined (tr : Trace L X) (x : X) (l : L) : Prop :=
  ∀ i t, (tr[i]? = some ⟨t, .wr x⟩ → HoldsW tr t l i) ∧ (tr[i]? = some ⟨t, .rd x⟩ → HoldsAny tr t l i)

/-! ### basic facts about happens-before -/

theorem lt_length_of_getElem? {tr : Trace L X} {j : Nat} {e : Ev L X} (h : tr[j]? = some e) :
    j < tr.length := by
  rcases Nat.lt_or_ge j tr.length with hlt | hge
  · exact hlt
  · rw [List.getElem?_eq_none hge] at h
    cases h

theorem HB_lt {tr : Trace L X} {i j : Nat} (h : HB tr i j) : i < j := by
  induction h with
  | po h _ _ => exact h
  | relAcq h _ _ => exact h
  | rrelAcq h _ _ => exact h
  | fork h _ _ => exact h
  | trans _ _ ih1 ih2 => exact Nat.lt_trans ih1 ih2

theorem HB_inBounds {tr : Trace L X} {i j : Nat} (h : HB tr i j) : j < tr.length := by
  induction h with
  | po _ _ h => exact lt_length_of_getElem? h
  | relAcq _ _ h =>
    rcases h with h | h
    · exact lt_length_of_getElem? h
    · exact lt_length_of_getElem? h
  | rrelAcq _ _ h => exact lt_length_of_getElem? h
  | fork _ _ h => exact lt_length_of_getElem? h
  | trans _ _ _ ih2 => exact ih2

/-- what the starting thread did before the go statement happens before everything the new
    goroutine does -/
theorem init_before_fork {tr : Trace L X} {i f j : Nat} {t c : Nat} {a b : Op L X}
    (hif : i < f) (hfj : f < j) (hi : tr[i]? = some ⟨t, a⟩) (hf : tr[f]? = some ⟨t, .fork c⟩)
    (hj : tr[j]? = some ⟨c, b⟩) : HB tr i j :=
  HB.trans (HB.po hif hi hf) (HB.fork hfj hf hj)

/-! ### a uniform view of the two lock modes -/

inductive Mode where
  | w
  | r

def acqOp (l : L) : Mode → Op L X
  | .w => .acq l
  | .r => .racq l

def relOp (l : L) : Mode → Op L X
  | .w => .rel l
  | .r => .rrel l

/-- thread t holds l in mode M just before position j -/
def Holds (tr : Trace L X) (t : Nat) (l : L) (M : Mode) (j : Nat) : Prop :=
  ∃ k, k < j ∧ tr[k]? = some ⟨t, acqOp l M⟩ ∧ ∀ m, k < m → m < j → tr[m]? ≠ some ⟨t, relOp l M⟩

theorem holds_w {tr : Trace L X} {t : Nat} {l : L} {j : Nat} :
    Holds tr t l .w j ↔ HoldsW tr t l j := Iff.rfl

theorem holds_r {tr : Trace L X} {t : Nat} {l : L} {j : Nat} :
    Holds tr t l .r j ↔ HoldsR tr t l j := Iff.rfl

theorem holdsAny_mode {tr : Trace L X} {t : Nat} {l : L} {j : Nat} (h : HoldsAny tr t l j) :
    ∃ M, Holds tr t l M j := by
  rcases h with h | h
  · exact ⟨.w, h⟩
  · exact ⟨.r, h⟩

/-- mutual exclusion, uniformly: at an acquire in mode M nobody holds in mode M' when one of the
    two modes is the write mode -/
theorem excl {tr : Trace L X} (wf : WF tr) {k u : Nat} {l : L} {M M' : Mode} {t' : Nat}
    (hk : tr[k]? = some ⟨u, acqOp l M⟩) (hm : M = .w ∨ M' = .w) : ¬ Holds tr t' l M' k := by
  cases M <;> cases M'
  · exact fun h => wf.acq_excl k u l hk t' (Or.inl h)
  · exact fun h => wf.acq_excl k u l hk t' (Or.inr h)
  · exact wf.racq_excl k u l hk t'
  · rcases hm with h | h <;> cases h

/-- synchronisation edge, uniformly: a release in mode M' happens before a later acquire in mode M
    when one of the two modes is the write mode -/
theorem hbSync {tr : Trace L X} {m k t u : Nat} {l : L} {M M' : Mode} (hmk : m < k)
    (h1 : tr[m]? = some ⟨t, relOp l M'⟩) (h2 : tr[k]? = some ⟨u, acqOp l M⟩)
    (hm : M = .w ∨ M' = .w) : HB tr m k := by
  cases M <;> cases M'
  · exact HB.relAcq hmk h1 (Or.inl h2)
  · exact HB.rrelAcq hmk h1 h2
  · exact HB.relAcq hmk h1 (Or.inr h2)
  · rcases hm with h | h <;> cases h

/-- if t acquired at p < k and does not hold at k, it released in between -/
theorem released {tr : Trace L X} {p k t : Nat} {l : L} {M : Mode}
    (hp : tr[p]? = some ⟨t, acqOp l M⟩) (hpk : p < k) (hn : ¬ Holds tr t l M k) :
    ∃ m, p < m ∧ m < k ∧ tr[m]? = some ⟨t, relOp l M⟩ := by
  apply Classical.byContradiction
  intro hne
  apply hn
  exact ⟨p, hpk, hp, fun m h1 h2 h3 => hne ⟨m, h1, h2, h3⟩⟩

theorem hb_le {tr : Trace L X} {i m k t : Nat} {a c : Op L X} (him : i ≤ m)
    (hi : tr[i]? = some ⟨t, a⟩) (hm : tr[m]? = some ⟨t, c⟩) (h : HB tr m k) : HB tr i k := by
  rcases Nat.lt_or_ge i m with hlt | hge
  · exact HB.trans (HB.po hlt hi hm) h
  · have : i = m := Nat.le_antisymm him hge
    subst this
    exact h

theorem tid_eq_of_same_pos {tr : Trace L X} {k t u : Nat} {a b : Op L X}
    (h1 : tr[k]? = some ⟨t, a⟩) (h2 : tr[k]? = some ⟨u, b⟩) : t = u := by
  have h : (⟨t, a⟩ : Ev L X) = ⟨u, b⟩ := Option.some.inj (h1.symm.trans h2)
  exact (Ev.mk.inj h).1

/-- the core positional argument: two different threads each holding l (at least one of them in
    write mode) at positions i < j are ordered by happens-before -/
theorem core {tr : Trace L X} (wf : WF tr) {t u i j : Nat} {a b : Op L X} {l : L} {M M' : Mode}
    (hm : M = .w ∨ M' = .w) (htu : t ≠ u) (hij : i < j)
    (hi : tr[i]? = some ⟨t, a⟩) (hj : tr[j]? = some ⟨u, b⟩)
    (hT : Holds tr t l M' i) (hU : Holds tr u l M j) : HB tr i j := by
  obtain ⟨p, hpi, hp, hnp⟩ := hT
  obtain ⟨k, hkj, hk, hnk⟩ := hU
  have hki : k ≠ i := by
    intro h
    subst h
    exact htu (tid_eq_of_same_pos hi hk)
  have hkp : k ≠ p := by
    intro h
    subst h
    exact htu (tid_eq_of_same_pos hp hk)
  rcases Nat.lt_trichotomy k i with h | h | h
  · -- u acquired before position i: impossible by mutual exclusion
    rcases Nat.lt_trichotomy p k with h2 | h2 | h2
    · exact absurd ⟨p, h2, hp, fun m h1 _ => hnp m h1 (by omega)⟩ (excl wf hk hm)
    · exact absurd h2.symm hkp
    · exact absurd ⟨k, h2, hk, fun m h1 _ => hnk m h1 (by omega)⟩ (excl wf hp hm.symm)
  · exact absurd h hki
  · -- i < k < j: t must have released between i and k
    have hnh : ¬ Holds tr t l M' k := excl wf hk hm
    obtain ⟨m, hpm, hmk, hm'⟩ := released hp (by omega : p < k) hnh
    have him : i ≤ m := by
      rcases Nat.lt_or_ge m i with h' | h'
      · exact absurd hm' (hnp m hpm h')
      · exact h'
    have h1 : HB tr m k := hbSync hmk hm' hk hm
    have h2 : HB tr k j := HB.po hkj hk hj
    exact hb_le him hi hm' (HB.trans h1 h2)

/-! ### the soundness theorems -/

/-- lockset soundness: a consistent lockset implies data-race freedom -/
theorem lockset_sound {tr : Trace L X} {x : X} {l : L} (wf : WF tr) (d : Disciplined tr x l) :
    RaceFree tr x := by
  intro i j hij hc
  obtain ⟨t, u, a, b, htu, hi, hj, ha, hb, hw⟩ := hc
  -- thread u holds l in some mode at j, and in write mode if b is a write
  have hU : HoldsAny tr u l j ∧ (b = .wr x → HoldsW tr u l j) := by
    cases b with
    | rd y =>
      have hy : y = x := hb
      subst hy
      exact ⟨(d j u).2 hj, fun h => by cases h⟩
    | wr y =>
      have hy : y = x := hb
      subst hy
      exact ⟨Or.inl ((d j u).1 hj), fun _ => (d j u).1 hj⟩
    | acq _ => exact hb.elim
    | rel _ => exact hb.elim
    | racq _ => exact hb.elim
    | rrel _ => exact hb.elim
    | fork _ => exact hb.elim
    | other => exact hb.elim
  cases a with
  | wr y =>
    have hy : y = x := ha
    subst hy
    have hT : HoldsW tr t l i := (d i t).1 hi
    obtain ⟨M, hM⟩ := holdsAny_mode hU.1
    exact core wf (Or.inr rfl) htu hij hi hj (holds_w.2 hT) hM
  | rd y =>
    have hy : y = x := ha
    subst hy
    have hbw : b = .wr y := by
      rcases hw with h | h
      · cases h
      · exact h
    have hT : HoldsAny tr t l i := (d i t).2 hi
    obtain ⟨M', hM'⟩ := holdsAny_mode hT
    exact core wf (Or.inl rfl) htu hij hi hj hM' (holds_w.2 (hU.2 hbw))
  | acq _ => exact ha.elim
  | rel _ => exact ha.elim
  | racq _ => exact ha.elim
  | rrel _ => exact ha.elim
  | fork _ => exact ha.elim
  | other => exact ha.elim

/-- a location that is never written has no data race -/
theorem readonly_sound {tr : Trace L X} {x : X} (h : ∀ (i t : Nat), tr[i]? ≠ some ⟨t, .wr x⟩) :
    RaceFree tr x := by
  intro i j _ hc
  obtain ⟨t, u, a, b, _, hi, hj, _, _, hw⟩ := hc
  rcases hw with hw | hw
  · subst hw
    exact absurd hi (h i t)
  · subst hw
    exact absurd hj (h j u)

/-! ### non-vacuity: concrete traces -/

def exGood : Trace Nat Nat :=
  [⟨1, .acq 0⟩, ⟨1, .wr 7⟩, ⟨1, .rel 0⟩, ⟨2, .racq 0⟩, ⟨2, .rd 7⟩, ⟨2, .rrel 0⟩]

theorem exGood_wf : WF exGood where
  acq_excl := by
    intro k t l h t' hh
    match k with
    | 0 => rcases hh with ⟨k', hk', _⟩ | ⟨k', hk', _⟩ <;> omega
    | 1 | 2 | 3 | 4 | 5 => simp [exGood] at h
    | n + 6 => simp [exGood] at h
  racq_excl := by
    intro k t l h t' hh
    match k with
    | 0 | 1 | 2 | 4 | 5 => simp [exGood] at h
    | n + 6 => simp [exGood] at h
    | 3 =>
      obtain ⟨k', hk', he, hn⟩ := hh
      match k' with
      | 0 =>
        simp [exGood] at he
        obtain ⟨rfl, rfl⟩ := he
        exact hn 2 (by omega) (by omega) rfl
      | 1 | 2 => simp [exGood] at he
      | n + 3 => omega
  rel_held := by
    intro k t l h
    match k with
    | 0 | 1 | 3 | 4 | 5 => simp [exGood] at h
    | n + 6 => simp [exGood] at h
    | 2 =>
      simp [exGood] at h
      obtain ⟨rfl, rfl⟩ := h
      refine ⟨0, by omega, rfl, ?_⟩
      intro m h1 h2
      have : m = 1 := by omega
      subst this
      simp [exGood]
  rrel_held := by
    intro k t l h
    match k with
    | 0 | 1 | 2 | 3 | 4 => simp [exGood] at h
    | n + 6 => simp [exGood] at h
    | 5 =>
      simp [exGood] at h
      obtain ⟨rfl, rfl⟩ := h
      refine ⟨3, by omega, rfl, ?_⟩
      intro m h1 h2
      have : m = 4 := by omega
      subst this
      simp [exGood]
  fork_fresh := by
    intro k t c h
    match k with
    | 0 | 1 | 2 | 3 | 4 | 5 => simp [exGood] at h
    | n + 6 => simp [exGood] at h

theorem exGood_disciplined : Disciplined exGood 7 0 := by
  intro i t
  constructor
  · intro h
    match i with
    | 0 | 2 | 3 | 4 | 5 => simp [exGood] at h
    | n + 6 => simp [exGood] at h
    | 1 =>
      simp [exGood] at h
      subst h
      exact ⟨0, by omega, rfl, fun m h1 h2 => by omega⟩
  · intro h
    match i with
    | 0 | 1 | 2 | 3 | 5 => simp [exGood] at h
    | n + 6 => simp [exGood] at h
    | 4 =>
      simp [exGood] at h
      subst h
      exact Or.inr ⟨3, by omega, rfl, fun m h1 h2 => by omega⟩

theorem exGood_racefree : RaceFree exGood 7 := lockset_sound exGood_wf exGood_disciplined

/-- the conclusion is not vacuous: the two accesses of exGood do conflict -/
theorem exGood_conflict : Conflict exGood 7 1 4 :=
  ⟨1, 2, .wr 7, .rd 7, by decide, rfl, rfl, rfl, rfl, Or.inl rfl⟩

def exRacy : Trace Nat Nat := [⟨1, .wr 7⟩, ⟨2, .wr 7⟩]

theorem exRacy_wf : WF exRacy where
  acq_excl := by
    intro k t l h
    match k with
    | 0 | 1 => simp [exRacy] at h
    | n + 2 => simp [exRacy] at h
  racq_excl := by
    intro k t l h
    match k with
    | 0 | 1 => simp [exRacy] at h
    | n + 2 => simp [exRacy] at h
  rel_held := by
    intro k t l h
    match k with
    | 0 | 1 => simp [exRacy] at h
    | n + 2 => simp [exRacy] at h
  rrel_held := by
    intro k t l h
    match k with
    | 0 | 1 => simp [exRacy] at h
    | n + 2 => simp [exRacy] at h
  fork_fresh := by
    intro k t c h
    match k with
    | 0 | 1 => simp [exRacy] at h
    | n + 2 => simp [exRacy] at h

/-- exRacy has no happens-before edge at all -/
theorem exRacy_noHB {i j : Nat} (h : HB exRacy i j) : False := by
  induction h with
  | @po i j t a b hij h1 h2 =>
    have hj : j < 2 := lt_length_of_getElem? h2
    have hi0 : i = 0 := by omega
    have hj1 : j = 1 := by omega
    subst hi0 hj1
    simp [exRacy] at h1 h2
    omega
  | @relAcq i j t u l hij h1 h2 =>
    have hj : j < 2 := by
      rcases h2 with h2 | h2 <;> exact lt_length_of_getElem? h2
    have hi0 : i = 0 := by omega
    subst hi0
    simp [exRacy] at h1
  | @rrelAcq i j t u l hij h1 h2 =>
    have hj : j < 2 := lt_length_of_getElem? h2
    have hi0 : i = 0 := by omega
    subst hi0
    simp [exRacy] at h1
  | @fork i j t c b hij h1 h2 =>
    have hj : j < 2 := lt_length_of_getElem? h2
    have hi0 : i = 0 := by omega
    subst hi0
    simp [exRacy] at h1
  | trans _ _ ih _ => exact ih

theorem exRacy_conflict : Conflict exRacy 7 0 1 :=
  ⟨1, 2, .wr 7, .wr 7, by decide, rfl, rfl, rfl, rfl, Or.inl rfl⟩

theorem exRacy_race : ¬ RaceFree exRacy 7 :=
  fun h => exRacy_noHB (h 0 1 (by decide) exRacy_conflict)

/-- two writers, each holding a DIFFERENT mutex: well-formed, but racy -/
def exTwoLocks : Trace Nat Nat :=
  [⟨1, .acq 0⟩, ⟨1, .wr 7⟩, ⟨2, .acq 1⟩, ⟨2, .wr 7⟩, ⟨2, .rel 1⟩, ⟨1, .rel 0⟩]

theorem exTwoLocks_wf : WF exTwoLocks where
  acq_excl := by
    intro k t l h t' hh
    match k with
    | 0 => rcases hh with ⟨k', hk', _⟩ | ⟨k', hk', _⟩ <;> omega
    | 1 | 3 | 4 | 5 => simp [exTwoLocks] at h
    | n + 6 => simp [exTwoLocks] at h
    | 2 =>
      simp [exTwoLocks] at h
      obtain ⟨_, hl⟩ := h
      subst hl
      rcases hh with ⟨k', hk', he, _⟩ | ⟨k', hk', he, _⟩
      · match k' with
        | 0 | 1 => simp [exTwoLocks] at he
        | n + 2 => omega
      · match k' with
        | 0 | 1 => simp [exTwoLocks] at he
        | n + 2 => omega
  racq_excl := by
    intro k t l h
    match k with
    | 0 | 1 | 2 | 3 | 4 | 5 => simp [exTwoLocks] at h
    | n + 6 => simp [exTwoLocks] at h
  rel_held := by
    intro k t l h
    match k with
    | 0 | 1 | 2 | 3 => simp [exTwoLocks] at h
    | n + 6 => simp [exTwoLocks] at h
    | 4 =>
      simp [exTwoLocks] at h
      obtain ⟨rfl, rfl⟩ := h
      refine ⟨2, by omega, rfl, ?_⟩
      intro m h1 h2
      have : m = 3 := by omega
      subst this
      simp [exTwoLocks]
    | 5 =>
      simp [exTwoLocks] at h
      obtain ⟨rfl, rfl⟩ := h
      refine ⟨0, by omega, rfl, ?_⟩
      intro m h1 h2
      match m with
      | 0 => omega
      | 1 | 2 | 3 => simp [exTwoLocks]
      | 4 => simp [exTwoLocks]
      | n + 5 => omega
  rrel_held := by
    intro k t l h
    match k with
    | 0 | 1 | 2 | 3 | 4 | 5 => simp [exTwoLocks] at h
    | n + 6 => simp [exTwoLocks] at h
  fork_fresh := by
    intro k t c h
    match k with
    | 0 | 1 | 2 | 3 | 4 | 5 => simp [exTwoLocks] at h
    | n + 6 => simp [exTwoLocks] at h

/-- in exTwoLocks happens-before never leaves a thread -/
theorem exTwoLocks_hb_sameThread {i j : Nat} (h : HB exTwoLocks i j) :
    (exTwoLocks[i]?).map Ev.tid = (exTwoLocks[j]?).map Ev.tid := by
  induction h with
  | @po i j t a b hij h1 h2 => simp [h1, h2]
  | @relAcq i j t u l hij h1 h2 =>
    exfalso
    match i with
    | 0 | 1 | 2 | 3 => simp [exTwoLocks] at h1
    | n + 6 => simp [exTwoLocks] at h1
    | 4 =>
      have hj : j < 6 := by
        rcases h2 with h2 | h2 <;> exact lt_length_of_getElem? h2
      have : j = 5 := by omega
      subst this
      simp [exTwoLocks] at h2
    | 5 =>
      have hj : j < 6 := by
        rcases h2 with h2 | h2 <;> exact lt_length_of_getElem? h2
      omega
  | @rrelAcq i j t u l hij h1 h2 =>
    exfalso
    match i with
    | 0 | 1 | 2 | 3 | 4 | 5 => simp [exTwoLocks] at h1
    | n + 6 => simp [exTwoLocks] at h1
  | @fork i j t c b hij h1 h2 =>
    exfalso
    match i with
    | 0 | 1 | 2 | 3 | 4 | 5 => simp [exTwoLocks] at h1
    | n + 6 => simp [exTwoLocks] at h1
  | trans _ _ ih1 ih2 => exact ih1.trans ih2

theorem exTwoLocks_conflict : Conflict exTwoLocks 7 1 3 :=
  ⟨1, 2, .wr 7, .wr 7, by decide, rfl, rfl, rfl, rfl, Or.inl rfl⟩

theorem exTwoLocks_race : ¬ RaceFree exTwoLocks 7 := by
  intro h
  have h13 := exTwoLocks_hb_sameThread (h 1 3 (by decide) exTwoLocks_conflict)
  simp [exTwoLocks] at h13

end Opcua.Lockset
