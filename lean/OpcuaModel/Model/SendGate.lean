/-
  C11 / C16: the renewal gate `reqLocker` with several renewers and `Close()`.

  `conditionLocker.lock()` sets the flag and never blocks, `unlock()` clears it
  whoever set it.  `renew` brackets a renewal with lock()/unlock(); the public
  `Renew()` can run while the renewal scheduled by the library is in progress;
  `close()` calls `reqLocker.unlock()` (and `rcvLocker.unlock()`) first thing.

    rLock i     renewer i: `s.reqLocker.lock()`
    rUnlock i   renewer i: deferred `s.reqLocker.unlock()`
    close       `close()`: `s.reqLocker.unlock()`
    pass t      a request passes `s.reqLocker.waitIfLock()` (needs the flag clear)
-/
namespace Opcua.SendGate

structure St where
  locked : Bool
  /-- renewers between their lock() and their unlock() -/
  holders : List Nat
  /-- ghost: requests that passed the gate while a renewal was in progress -/
  badPass : Nat

def init : St := { locked := false, holders := [], badPass := 0 }

inductive Label where
  | rLock (i : Nat) | rUnlock (i : Nat) | close | pass (t : Nat)
  deriving DecidableEq, Repr

def step? (s : St) : Label → Option St
  | .rLock i => if i ∈ s.holders then none else some { s with locked := true, holders := i :: s.holders }
  | .rUnlock i => if i ∈ s.holders then some { s with locked := false, holders := s.holders.erase i } else none
  | .close => some { s with locked := false }
  | .pass _ => if s.locked then none else some { s with badPass := if s.holders = [] then s.badPass else s.badPass + 1 }

def run? (s : St) : List Label → Option St
  | [] => some s
  | l :: ls => match step? s l with
    | some s' => run? s' ls
    | none => none

inductive Reachable : St → Prop where
  | init : Reachable init
  | step {s s' : St} (l : Label) : Reachable s → step? s l = some s' → Reachable s'

/-- guard: one renewal at a time, and the channel is not closed while one runs -/
def Guard (s : St) : Label → Prop
  | .rLock _ => s.holders = []
  | .close => s.holders = []
  | _ => True

instance (s : St) (l : Label) : Decidable (Guard s l) := by
  cases l <;> simp only [Guard] <;> exact inferInstance

inductive ReachableG : St → Prop where
  | init : ReachableG init
  | step {s s' : St} (l : Label) : ReachableG s → Guard s l → step? s l = some s' → ReachableG s'

/-- inside the guard the gate is closed exactly while a renewal is in progress,
    and no request ever passes it during a renewal -/
theorem guarded_inv {s : St} (h : ReachableG s) :
    s.holders.length ≤ 1 ∧ (s.holders ≠ [] ↔ s.locked = true) ∧ s.badPass = 0 := by
  induction h with
  | init => simp [init]
  | @step s0 s1 l _ hg hs ih =>
    obtain ⟨i1, i2, i3⟩ := ih
    cases l <;> simp only [step?] at hs <;> simp only [Guard] at hg
    case rLock i =>
      split at hs <;> simp at hs
      subst hs
      simp [hg, i3]
    case rUnlock i =>
      split at hs <;> simp at hs
      next hh =>
      subst hs
      cases hl : s0.holders with
      | nil => simp [hl] at hh
      | cons a r =>
        cases r with
        | nil =>
          simp [hl] at hh
          subst hh
          simp [i3]
        | cons b r' => simp [hl] at i1
    case close =>
      simp at hs
      subst hs
      have hl : s0.locked = false := by
        cases hl : s0.locked
        · rfl
        · exact absurd hg (i2.2 hl)
      simp [hg, i3, hl]
    case pass t =>
      split at hs <;> simp at hs
      next hl =>
      subst hs
      have hne : s0.holders = [] := by
        cases hh : s0.holders with
        | nil => rfl
        | cons a r =>
          have := i2.1 (by simp [hh])
          exact absurd this hl
      refine ⟨i1, i2, ?_⟩
      simp [hne, i3]

end Opcua.SendGate
