/-
  Heap model of client configuration (C23).  What `opcua.NewClient(url, opts…)`
  does to memory, reduced to what decides whether one client's options can be
  seen by another client:

  * `newConfig()` builds a tree of objects.  An object of the tree is either
    allocated for this client (`Loc.own k`) or is a package-level object every
    client points to (`Loc.glob g`) — the ALIAS FACTS (`Facts.shared`: path of
    the pointer field ↦ package-level variable), generated from the source.
  * an option assigns through selector paths starting at its `*Config`
    (`cfg.dialer.ClientACK.MaxMessageSize = n` is `write ["dialer","ClientACK",
    "MaxMessageSize"] n`); assigning a pointer replaces the object below the
    path: by an object the caller supplied (`Dialer(d)`: `redirect ["dialer"]
    (.user u)`, `Loc.user k u` — callers give different clients different
    objects) or by one the option allocates (`redirect p none`).
  * a scalar lives in a cell = (location of its object, path below it); the
    cell a path denotes is found by `resolve` from the client's own redirect
    table and the alias facts.

  The abstraction (static paths instead of pointer chasing) is tied to the real
  code by the C23 correspondence run, which predicts every client's effective
  configuration and the package defaults after random programs.
-/
namespace Opcua.CfgAlias

abbrev Path := List String

inductive Loc where
  | own (k : Nat)
  | glob (g : String)
  | user (k u : Nat)
  /-- an object allocated once per Option VALUE (outside the closure the option returns): every
      client the value is applied to points to it -/
  | value (v : Nat)
  deriving DecidableEq, Repr

/-- what an option puts in place of the object below a pointer path -/
inductive Target where
  /-- an object allocated by this application of the option -/
  | fresh
  /-- an object the caller passed to this client -/
  | user (u : Nat)
  /-- an object allocated when the Option value `v` was made -/
  | value (v : Nat)
  deriving DecidableEq, Repr

abbrev Cell := Loc × Path

structure Facts where
  /-- pointer fields of the default configuration initialised with a package-level object -/
  shared : List (Path × String)

/-- pointer path ↦ what replaced the object below it; most recent first -/
abbrev Redir := List (Path × Target)

def strictPrefix (q p : Path) : Bool := q.isPrefixOf p && decide (q.length < p.length)

/-- the cell the selector path `p` denotes for client `k` -/
def resolve (F : Facts) (k : Nat) (r : Redir) (p : Path) : Cell :=
  match r.find? (fun e => strictPrefix e.1 p) with
  | some (q, .user u) => (.user k u, p.drop q.length)
  | some (_, .fresh) => (.own k, p)
  | some (q, .value v) => (.value v, p.drop q.length)
  | none =>
    match F.shared.find? (fun e => strictPrefix e.1 p) with
    | some (q, g) => (.glob g, p.drop q.length)
    | none => (.own k, p)

inductive Step where
  | write (p : Path) (v : String)
  | redirect (p : Path) (t : Target)
  deriving DecidableEq, Repr

/-- written cells only; an unwritten cell has its initial value -/
abbrev Heap := Cell → Option String

def emptyHeap : Heap := fun _ => none

def update (h : Heap) (c : Cell) (v : String) : Heap := fun c' => if c' = c then some v else h c'

/-- the options of client `k`, in order -/
def runSteps (F : Facts) (k : Nat) : Heap → Redir → List Step → Heap × Redir
  | h, r, [] => (h, r)
  | h, r, .write p v :: rest => runSteps F k (update h (resolve F k r p) v) r rest
  | h, r, .redirect p t :: rest => runSteps F k h ((p, t) :: r) rest

def redirOf : Redir → List Step → Redir
  | r, [] => r
  | r, .write _ _ :: rest => redirOf r rest
  | r, .redirect p t :: rest => redirOf ((p, t) :: r) rest

def cellsWritten (F : Facts) (k : Nat) : Redir → List Step → List Cell
  | _, [] => []
  | r, .write p _ :: rest => resolve F k r p :: cellsWritten F k r rest
  | r, .redirect p t :: rest => cellsWritten F k ((p, t) :: r) rest

/-- a program: client `i`, `i+1`, … constructed one after the other -/
def runClients (F : Facts) : Nat → Heap → List (List Step) → Heap
  | _, h, [] => h
  | i, h, s :: rest => runClients F (i + 1) (runSteps F i h [] s).1 rest

/-- what client `k` (built with `steps`) reads at path `p` in heap `h` -/
def effective (F : Facts) (init : Cell → String) (h : Heap) (k : Nat) (steps : List Step) (p : Path) : String :=
  let c := resolve F k (redirOf [] steps) p
  (h c).getD (init c)

/-- a location more than one client can reach: a package-level object or an object of an Option value -/
def isGlob : Loc → Bool
  | .glob _ => true
  | .value _ => true
  | _ => false

/-- the guard of the partial theorem: no option of any client assigns a cell of a package-level object -/
def NoGlobalWrite (F : Facts) (prog : List (List Step)) : Prop :=
  ∀ k steps, prog[k]? = some steps → ∀ c ∈ cellsWritten F k [] steps, isGlob c.1 = false

/-- ISOLATION: at the end of the program every client reads, at every path,
    exactly what it would read had it been the only client ever built -/
def Isolated (F : Facts) (prog : List (List Step)) : Prop :=
  ∀ (init : Cell → String) k steps, prog[k]? = some steps → ∀ p,
    effective F init (runClients F 0 emptyHeap prog) k steps p =
    effective F init (runSteps F k emptyHeap [] steps).1 k steps p

/-! ### lemmas -/

theorem runSteps_redir (F : Facts) (k : Nat) : ∀ (s : List Step) (h : Heap) (r : Redir),
    (runSteps F k h r s).2 = redirOf r s
  | [], _, _ => rfl
  | .write _ _ :: rest, h, r => by simp [runSteps, redirOf, runSteps_redir F k rest]
  | .redirect _ _ :: rest, h, r => by simp [runSteps, redirOf, runSteps_redir F k rest]

/-- frame: a cell no step assigns keeps its content -/
theorem frame_steps (F : Facts) (k : Nat) (c : Cell) : ∀ (s : List Step) (h : Heap) (r : Redir),
    c ∉ cellsWritten F k r s → (runSteps F k h r s).1 c = h c
  | [], _, _, _ => rfl
  | .write p v :: rest, h, r, hc => by
    simp only [cellsWritten, List.mem_cons, not_or] at hc
    simp only [runSteps]
    rw [frame_steps F k c rest _ r hc.2]
    simp [update, hc.1]
  | .redirect p t :: rest, h, r, hc => by
    simp only [cellsWritten] at hc
    simp only [runSteps]
    exact frame_steps F k c rest h _ hc

/-- the content of a cell after a client's options depends only on its content before -/
theorem agree_steps (F : Facts) (k : Nat) (c : Cell) : ∀ (s : List Step) (h h' : Heap) (r : Redir),
    h c = h' c → (runSteps F k h r s).1 c = (runSteps F k h' r s).1 c
  | [], _, _, _, e => e
  | .write p v :: rest, h, h', r, e => by
    simp only [runSteps]
    apply agree_steps F k c rest
    simp only [update]
    split <;> simp [e]
  | .redirect p t :: rest, h, h', r, e => by
    simp only [runSteps]
    exact agree_steps F k c rest h h' _ e

/-- where a path of client `k` can lead: its own objects, its caller's objects, a package-level object -/
theorem resolve_loc (F : Facts) (k : Nat) (r : Redir) (p : Path) :
    (resolve F k r p).1 = .own k ∨ (∃ u, (resolve F k r p).1 = .user k u) ∨ isGlob (resolve F k r p).1 = true := by
  unfold resolve
  split
  · exact Or.inr (Or.inl ⟨_, rfl⟩)
  · exact Or.inl rfl
  · exact Or.inr (Or.inr rfl)
  · split
    · exact Or.inr (Or.inr rfl)
    · exact Or.inl rfl

theorem written_loc (F : Facts) (k : Nat) (c : Cell) : ∀ (s : List Step) (r : Redir), c ∈ cellsWritten F k r s →
    c.1 = .own k ∨ (∃ u, c.1 = .user k u) ∨ isGlob c.1 = true
  | [], _, h => by simp [cellsWritten] at h
  | .write p v :: rest, r, h => by
    simp only [cellsWritten, List.mem_cons] at h
    rcases h with rfl | h
    · exact resolve_loc F k r p
    · exact written_loc F k c rest r h
  | .redirect p t :: rest, r, h => by
    simp only [cellsWritten] at h
    exact written_loc F k c rest _ h

theorem frame_clients (F : Facts) (c : Cell) : ∀ (cl : List (List Step)) (i : Nat) (h : Heap),
    (∀ j steps, cl[j]? = some steps → c ∉ cellsWritten F (i + j) [] steps) → runClients F i h cl c = h c
  | [], _, _, _ => rfl
  | s :: rest, i, h, hc => by
    simp only [runClients]
    rw [frame_clients F c rest (i + 1)]
    · exact frame_steps F i c s h [] (by simpa using hc 0 s rfl)
    · intro j steps hj
      have := hc (j + 1) steps (by simpa using hj)
      rwa [show i + (j + 1) = i + 1 + j by omega] at this

theorem runClients_append (F : Facts) : ∀ (a b : List (List Step)) (i : Nat) (h : Heap),
    runClients F i h (a ++ b) = runClients F (i + a.length) (runClients F i h a) b
  | [], b, i, h => by simp [runClients]
  | s :: a, b, i, h => by
    simp only [List.cons_append, runClients, List.length_cons]
    rw [runClients_append F a b (i + 1)]
    congr 1; omega

/-- a cell of client `k` is out of reach of the options of a client `j ≠ k`,
    unless it is a cell of a package-level object -/
theorem other_client_cannot_write (F : Facts) {k j : Nat} (hjk : j ≠ k) {c : Cell}
    (hc : c.1 = .own k ∨ ∃ u, c.1 = .user k u) (steps : List Step)
    (hg : ∀ c' ∈ cellsWritten F j [] steps, isGlob c'.1 = false) : c ∉ cellsWritten F j [] steps := by
  intro hm
  have hl := written_loc F j c steps [] hm
  have hng := hg c hm
  rcases hl with h | ⟨u, h⟩ | h
  · rcases hc with h' | ⟨u', h'⟩
    · rw [h] at h'; injection h' with e; exact hjk e
    · rw [h] at h'; cases h'
  · rcases hc with h' | ⟨u', h'⟩
    · rw [h] at h'; cases h'
    · rw [h] at h'; injection h' with e _; exact hjk e
  · rw [h] at hng; cases hng

/-- MAIN LEMMA: a program in which no option assigns a cell of a package-level
    object is isolated -/
theorem isolated_of_noGlobalWrite (F : Facts) (prog : List (List Step)) (hg : NoGlobalWrite F prog) :
    Isolated F prog := by
  intro init k steps hk p
  unfold effective
  generalize hc : resolve F k (redirOf [] steps) p = c
  have hloc : c.1 = .own k ∨ (∃ u, c.1 = .user k u) ∨ isGlob c.1 = true := by
    rw [← hc]; exact resolve_loc F k _ p
  suffices hs : runClients F 0 emptyHeap prog c = (runSteps F k emptyHeap [] steps).1 c by
    simp only [hs]
  obtain ⟨hlt, hget⟩ := List.getElem?_eq_some_iff.mp hk
  have hsplit : prog = prog.take k ++ steps :: prog.drop (k + 1) := by
    rw [← hget, ← List.drop_eq_getElem_cons hlt, List.take_append_drop]
  have hlen : (prog.take k).length = k := by simp; omega
  -- nobody but client k assigns c; if c is a package-level cell nobody at all
  have hothers : ∀ j st, prog[j]? = some st → j ≠ k → c ∉ cellsWritten F j [] st := by
    intro j st hj hjk
    rcases hloc with h | h | h
    · exact other_client_cannot_write F hjk (Or.inl h) st (hg j st hj)
    · exact other_client_cannot_write F hjk (Or.inr h) st (hg j st hj)
    · intro hm
      have := hg j st hj c hm
      rw [h] at this; cases this
  have hpre : runClients F 0 emptyHeap (prog.take k) c = emptyHeap c := by
    apply frame_clients
    intro j st hj
    rw [List.getElem?_take] at hj
    split at hj
    · rename_i hjk
      simpa using hothers j st hj (by omega)
    · cases hj
  rw [hsplit, runClients_append, hlen]
  simp only [Nat.zero_add, runClients]
  have hpost : ∀ h0 : Heap, runClients F (k + 1) h0 (prog.drop (k + 1)) c = h0 c := by
    intro h0
    apply frame_clients
    intro j st hj
    rw [List.getElem?_drop] at hj
    exact hothers (k + 1 + j) st hj (by omega)
  rw [hpost]
  exact agree_steps F k c steps _ _ [] hpre

def isValueTarget : Target → Bool
  | .value _ => true
  | _ => false

/-- no option of the client installs an object that belongs to an Option value -/
def valueFree : List Step → Bool
  | [] => true
  | .write _ _ :: rest => valueFree rest
  | .redirect _ t :: rest => !isValueTarget t && valueFree rest

def RedirValueFree (r : Redir) : Prop := ∀ e ∈ r, isValueTarget e.2 = false

theorem resolve_not_value (F : Facts) (k : Nat) (r : Redir) (hr : RedirValueFree r) (p : Path) :
    ∀ v, (resolve F k r p).1 ≠ .value v := by
  intro v
  unfold resolve
  split
  · simp
  · simp
  · rename_i q w hq
    have := hr _ (List.mem_of_find?_eq_some hq)
    simp [isValueTarget] at this
  · split <;> simp

/-- with no shared object in the defaults, and no object of an Option value installed, no
    option can reach a cell another client reaches -/
theorem noGlobalWrite_of_no_shared (F : Facts) (hF : F.shared = []) (prog : List (List Step))
    (hv : ∀ steps ∈ prog, valueFree steps = true) :
    NoGlobalWrite F prog := by
  intro k steps hk c hc
  have key : ∀ (s : List Step) (r : Redir), valueFree s = true → RedirValueFree r →
      c ∈ cellsWritten F k r s → isGlob c.1 = false := by
    intro s
    induction s with
    | nil => intro r _ _ h; simp [cellsWritten] at h
    | cons st rest ih =>
      intro r hs hr h
      cases st with
      | write p v =>
        simp only [valueFree] at hs
        simp only [cellsWritten, List.mem_cons] at h
        rcases h with rfl | h
        · have hnv := resolve_not_value F k r hr p
          unfold resolve at hnv ⊢
          split
          · rfl
          · rfl
          · rename_i q w hq
            have := hr _ (List.mem_of_find?_eq_some hq)
            simp [isValueTarget] at this
          · simp [hF, isGlob]
        · exact ih r hs hr h
      | redirect p t =>
        simp only [valueFree, Bool.and_eq_true, Bool.not_eq_true'] at hs
        simp only [cellsWritten] at h
        refine ih _ hs.2 ?_ h
        intro e he
        rcases List.mem_cons.mp he with rfl | he
        · exact hs.1
        · exact hr e he
  exact key steps [] (hv steps (List.mem_of_getElem? hk)) (by intro e he; simp at he) hc

/-! ### options by name: the static guard -/

def stepPath : Step → Path
  | .write p _ => p
  | .redirect p _ => p

/-- one use of an option: its name and what it assigns -/
structure OptUse where
  name : String
  steps : List Step
  deriving Repr

abbrev Footprints := List (String × List (Path × Bool))

/-- the assignments of the use stay inside the option's footprint -/
def Conforms (opts : Footprints) (u : OptUse) : Prop :=
  ∃ fp, opts.lookup u.name = some fp ∧ ∀ s ∈ u.steps, ∃ e ∈ fp, e.1.isPrefixOf (stepPath s) = true

/-- the footprint path lies strictly below a shared object: the option assigns a field of it -/
def writesShared (F : Facts) (fp : List (Path × Bool)) : Bool :=
  fp.any fun e => F.shared.any fun s => strictPrefix s.1 e.1

/-- the footprint path is a shared pointer field or lies above one: the option replaces that part of the tree -/
def replacesShared (F : Facts) (fp : List (Path × Bool)) : Bool :=
  fp.any fun e => F.shared.any fun s => e.1.isPrefixOf s.1

def sharedWriters (F : Facts) (opts : Footprints) : List String :=
  (opts.filter fun o => writesShared F o.2).map (·.1)

def sharedReplacers (F : Facts) (opts : Footprints) : List String :=
  (opts.filter fun o => replacesShared F o.2).map (·.1)

def flatten (uses : List OptUse) : List Step := uses.flatMap (·.steps)

theorem cellsWritten_append (F : Facts) (k : Nat) : ∀ (a b : List Step) (r : Redir),
    cellsWritten F k r (a ++ b) = cellsWritten F k r a ++ cellsWritten F k (redirOf r a) b
  | [], _, _ => rfl
  | .write p v :: a, b, r => by simp [cellsWritten, redirOf, cellsWritten_append F k a b r]
  | .redirect p t :: a, b, r => by simp [cellsWritten, redirOf, cellsWritten_append F k a b _]

/-- a conforming use of an option that neither writes nor replaces a shared
    object assigns no package-level cell, whatever was redirected before -/
theorem use_no_global (F : Facts) (opts : Footprints) (k : Nat) (u : OptUse) (hc : Conforms opts u)
    (hw : ∀ fp, opts.lookup u.name = some fp → writesShared F fp = false ∧ replacesShared F fp = false)
    (hvf : valueFree u.steps = true) :
    ∀ (r : Redir), RedirValueFree r → ∀ c ∈ cellsWritten F k r u.steps, isGlob c.1 = false := by
  obtain ⟨fp, hfp, hsteps⟩ := hc
  obtain ⟨hws, hrs⟩ := hw fp hfp
  have key : ∀ (s : List Step), (∀ st ∈ s, ∃ e ∈ fp, e.1.isPrefixOf (stepPath st) = true) →
      valueFree s = true → ∀ (r : Redir), RedirValueFree r → ∀ c ∈ cellsWritten F k r s, isGlob c.1 = false := by
    intro s
    induction s with
    | nil => intro _ _ r _ c h; simp [cellsWritten] at h
    | cons st rest ih =>
      intro hall hs r hr c h
      have hrest := ih (fun x hx => hall x (List.mem_cons_of_mem _ hx))
      cases st with
      | redirect p t =>
        simp only [valueFree, Bool.and_eq_true, Bool.not_eq_true'] at hs
        simp only [cellsWritten] at h
        refine hrest hs.2 _ ?_ c h
        intro e he
        rcases List.mem_cons.mp he with rfl | he
        · exact hs.1
        · exact hr e he
      | write p v =>
        simp only [valueFree] at hs
        simp only [cellsWritten, List.mem_cons] at h
        rcases h with rfl | h
        · obtain ⟨e, he, hep⟩ := hall (.write p v) List.mem_cons_self
          simp only [stepPath] at hep
          unfold resolve
          split
          · rfl
          · rfl
          · rename_i q w hq
            have := hr _ (List.mem_of_find?_eq_some hq)
            simp [isValueTarget] at this
          · split
            · rename_i q g hq
              exfalso
              have hmem := List.mem_of_find?_eq_some hq
              have hqp := List.find?_some hq
              simp only [strictPrefix, Bool.and_eq_true, decide_eq_true_eq] at hqp
              have h1 : q <+: p := List.isPrefixOf_iff_prefix.mp hqp.1
              have h2 : e.1 <+: p := List.isPrefixOf_iff_prefix.mp hep
              by_cases hlen : q.length < e.1.length
              · -- q strictly below e: the option writes a field of the shared object
                have h3 : q <+: e.1 := List.prefix_of_prefix_length_le h1 h2 (by omega)
                have : writesShared F fp = true := by
                  simp only [writesShared, List.any_eq_true]
                  exact ⟨e, he, (q, g), hmem, by
                    simp [strictPrefix, List.isPrefixOf_iff_prefix.mpr h3, hlen]⟩
                rw [hws] at this; cases this
              · have h3 : e.1 <+: q := List.prefix_of_prefix_length_le h2 h1 (by omega)
                have : replacesShared F fp = true := by
                  simp only [replacesShared, List.any_eq_true]
                  exact ⟨e, he, (q, g), hmem, List.isPrefixOf_iff_prefix.mpr h3⟩
                rw [hrs] at this; cases this
            · rfl
        · exact hrest hs r hr c h
  exact key u.steps hsteps hvf

/-! ### Option values applied to several clients -/

/-- one application of an Option value: the option's name, the identity of the VALUE (the same
    value may be applied to several clients: a slice of base options) and what the application
    assigns, with every allocation marked `fresh` -/
structure App where
  name : String
  value : Nat
  steps : List Step
  deriving Repr

/-- what the application really installs: an allocation the option constructor performs OUTSIDE
    the closure it returns (`captured`: option ↦ pointer paths, generated) is one object per value -/
def realise (captured : List (String × List Path)) (a : App) : List Step :=
  a.steps.map fun s =>
    match s with
    | .redirect p .fresh =>
      if ((captured.lookup a.name).getD []).contains p then .redirect p (.value a.value) else .redirect p .fresh
    | s => s

theorem realise_nil (a : App) : realise [] a = a.steps := by
  unfold realise
  conv => rhs; rw [← List.map_id a.steps]
  apply List.map_congr_left
  intro s _
  cases s with
  | write p v => rfl
  | redirect p t => cases t <;> simp

theorem valueFree_append : ∀ (a b : List Step), valueFree (a ++ b) = (valueFree a && valueFree b)
  | [], b => by simp [valueFree]
  | .write _ _ :: a, b => by simp [valueFree, valueFree_append a b]
  | .redirect _ t :: a, b => by simp [valueFree, valueFree_append a b, Bool.and_assoc]

end Opcua.CfgAlias
