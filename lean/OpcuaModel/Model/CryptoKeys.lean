import OpcuaModel.Base.Bytes
import OpcuaModel.Model.CryptoRef
/-
  Symmetric key derivation (C14, used by the C07/C08 drivers).

  Implementation side
    `generateKeys`   uapolicy/crypto_key.go:45 (the loop, with fuel)
    `KeyAssign`      what one `new…Symmetric(localNonce, remoteNonce)` constructor
                     of uapolicy/policy*.go does: two `generateKeys` calls and
                     which key set feeds encrypt / decrypt / signature /
                     verifySignature.  The rows are generated from the source
                     (`Gen/KeyAssign.lean`, topic `keyassign`).
    `symmetric`      the keys an `EncryptionAlgorithm` ends up with

  Specification side (written from OPC UA Part 6 §6.7.5 and RFC 5246 §5,
  independently of the Go code)
    `Spec.pSha`      P_hash by the A(i) recursion
    `Spec.derive`    signing key ‖ encrypting key ‖ IV at offsets 0, a, a+b
    `Spec.clientKeys` / `Spec.serverKeys`   Table "Cryptography key generation parameters"
    `Spec.profiles`  hash and key lengths of each security policy (Part 7)

  Everything is parametric in the keyed hash `hmac : HashAlg → secret → msg → mac`.
-/
namespace Opcua.Keys
open Opcua Opcua.CryptoRef

/-! ### implementation side -/

structure DerivedKeys where
  signing : Bytes
  encryption : Bytes
  iv : Bytes
  deriving Repr, DecidableEq

/-- the `for len(p) < total` loop of `generateKeys`; `h` is `hmac.Signature`
    (the secret is fixed), `a` the running A(i).  Fuel = `total` iterations are
    enough whenever the hash output is not empty (`genLoop_spec`). -/
def genLoop (h : Bytes → Bytes) (seed : Bytes) (total : Nat) : Nat → Bytes → Bytes → Bytes
  | 0, p, _ => p
  | fuel + 1, p, a =>
    if p.length < total then genLoop h seed total fuel (p ++ h (a ++ seed)) (h a) else p

/-- `generateKeys(hmac, seed, signingLength, encryptingLength, encryptingBlockSize)` -/
def generateKeys (h : Bytes → Bytes) (seed : Bytes) (sl el bl : Nat) : DerivedKeys :=
  let p := genLoop h seed (sl + el + bl) (sl + el + bl) [] (h seed)
  { signing := p.take sl, encryption := (p.drop sl).take el, iv := (p.drop (sl + el)).take bl }

inductive NonceSel | localNonce | remoteNonce
  deriving Repr, DecidableEq

inductive KeySetSel | first | second
  deriving Repr, DecidableEq

/-- one `generateKeys(&HMAC{Hash, Secret}, seed, a, b, c)` call of a constructor -/
structure KeySetSpec where
  hash : HashAlg
  secret : NonceSel
  seed : NonceSel
  sigLen : Nat
  encLen : Nat
  ivLen : Nat
  deriving Repr, DecidableEq

/-- a symmetric constructor: `first` is the key set assigned to the variable
    `localKeys`, `second` the one assigned to `remoteKeys` -/
structure KeyAssign where
  name : String
  first : KeySetSpec
  second : KeySetSpec
  encrypt : KeySetSel
  encryptKeyBits : Nat
  decrypt : KeySetSel
  decryptKeyBits : Nat
  signature : KeySetSel
  signatureHash : HashAlg
  verify : KeySetSel
  verifyHash : HashAlg
  signatureLength : Nat
  deriving Repr, DecidableEq

def NonceSel.pick (s : NonceSel) (localNonce remoteNonce : Bytes) : Bytes :=
  match s with
  | .localNonce => localNonce
  | .remoteNonce => remoteNonce

def KeySetSpec.derive (k : KeySetSpec) (hmac : HashAlg → Bytes → Bytes → Bytes) (ln rn : Bytes) : DerivedKeys :=
  generateKeys (hmac k.hash (k.secret.pick ln rn)) (k.seed.pick ln rn) k.sigLen k.encLen k.ivLen

/-- the keys inside the `EncryptionAlgorithm` a constructor returns -/
structure SymKeys where
  encryptKey : Bytes
  encryptIV : Bytes
  decryptKey : Bytes
  decryptIV : Bytes
  signKey : Bytes
  verifyKey : Bytes
  deriving Repr, DecidableEq

def KeyAssign.keySet (ka : KeyAssign) (hmac : HashAlg → Bytes → Bytes → Bytes) (ln rn : Bytes) :
    KeySetSel → DerivedKeys
  | .first => ka.first.derive hmac ln rn
  | .second => ka.second.derive hmac ln rn

/-- `uapolicy.Symmetric(uri, localNonce, remoteNonce)` -/
def symmetric (ka : KeyAssign) (hmac : HashAlg → Bytes → Bytes → Bytes) (ln rn : Bytes) : SymKeys :=
  { encryptKey := (ka.keySet hmac ln rn ka.encrypt).encryption,
    encryptIV := (ka.keySet hmac ln rn ka.encrypt).iv,
    decryptKey := (ka.keySet hmac ln rn ka.decrypt).encryption,
    decryptIV := (ka.keySet hmac ln rn ka.decrypt).iv,
    signKey := (ka.keySet hmac ln rn ka.signature).signing,
    verifyKey := (ka.keySet hmac ln rn ka.verify).signing }

/-- keys used for what this side sends / receives -/
structure DirKeys where
  signing : Bytes
  encrypting : Bytes
  iv : Bytes
  deriving Repr, DecidableEq

def SymKeys.send (k : SymKeys) : DirKeys := ⟨k.signKey, k.encryptKey, k.encryptIV⟩
def SymKeys.recv (k : SymKeys) : DirKeys := ⟨k.verifyKey, k.decryptKey, k.decryptIV⟩

/-! ### specification side -/
namespace Spec

/-- A(0) = seed, A(i) = HMAC_hash(secret, A(i-1))   (RFC 5246 §5) -/
def A (h : Bytes → Bytes) (seed : Bytes) : Nat → Bytes
  | 0 => seed
  | i + 1 => h (A h seed i)

/-- HMAC_hash(secret, A(i) + seed) -/
def block (h : Bytes → Bytes) (seed : Bytes) (i : Nat) : Bytes := h (A h seed i ++ seed)

/-- `k` consecutive blocks starting with block `i` -/
def stream (h : Bytes → Bytes) (seed : Bytes) : Nat → Nat → Bytes
  | 0, _ => []
  | k + 1, i => block h seed i ++ stream h seed k (i + 1)

/-- P_hash(secret, seed) truncated to `n` bytes: the first `n` bytes of
    block 1 ‖ block 2 ‖ …  (`n` blocks always suffice for a non-empty hash) -/
def pSha (h : Bytes → Bytes) (seed : Bytes) (n : Nat) : Bytes := (stream h seed n 1).take n

/-- PRF(secret, seed, length, offset) of Part 6 §6.7.5 for the three keys -/
def derive (h : Bytes → Bytes) (seed : Bytes) (sl el bl : Nat) : DirKeys :=
  let p := pSha h seed (sl + el + bl)
  { signing := p.take sl, encrypting := (p.drop sl).take el, iv := (p.drop (sl + el)).take bl }

/-- hash and key lengths of a security policy (Part 7 profiles):
    KeyDerivationAlgorithm / SymmetricSignatureAlgorithm hash,
    DerivedSignatureKeyLength, SymmetricEncryptionAlgorithm key length and
    block size, all in bytes -/
structure Profile where
  name : String
  hash : HashAlg
  sigKeyLen : Nat
  encKeyLen : Nat
  blockLen : Nat
  sigLen : Nat
  deriving Repr, DecidableEq

def profiles : List Profile := [
  { name := "Aes128_Sha256_RsaOaep", hash := .sha256, sigKeyLen := 32, encKeyLen := 16, blockLen := 16, sigLen := 32 },
  { name := "Aes256_Sha256_RsaPss", hash := .sha256, sigKeyLen := 32, encKeyLen := 32, blockLen := 16, sigLen := 32 },
  { name := "Basic128Rsa15", hash := .sha1, sigKeyLen := 16, encKeyLen := 16, blockLen := 16, sigLen := 20 },
  { name := "Basic256", hash := .sha1, sigKeyLen := 24, encKeyLen := 32, blockLen := 16, sigLen := 20 },
  { name := "Basic256Sha256", hash := .sha256, sigKeyLen := 32, encKeyLen := 32, blockLen := 16, sigLen := 32 } ]

/-- Client keys: Secret = ServerNonce, Seed = ClientNonce -/
def clientKeys (p : Profile) (hmac : HashAlg → Bytes → Bytes → Bytes) (clientNonce serverNonce : Bytes) : DirKeys :=
  derive (hmac p.hash serverNonce) clientNonce p.sigKeyLen p.encKeyLen p.blockLen

/-- Server keys: Secret = ClientNonce, Seed = ServerNonce -/
def serverKeys (p : Profile) (hmac : HashAlg → Bytes → Bytes → Bytes) (clientNonce serverNonce : Bytes) : DirKeys :=
  derive (hmac p.hash clientNonce) serverNonce p.sigKeyLen p.encKeyLen p.blockLen

end Spec

/-! ### `generateKeys` computes the specification's P_hash -/

theorem stream_length (h : Bytes → Bytes) (seed : Bytes) (hl : Nat) (hh : ∀ m, (h m).length = hl) (k i : Nat) :
    (Spec.stream h seed k i).length = k * hl := by
  induction k generalizing i with
  | zero => simp [Spec.stream]
  | succ k ih => simp [Spec.stream, Spec.block, hh, ih, Nat.succ_mul]; omega

theorem stream_append (h : Bytes → Bytes) (seed : Bytes) (k d i : Nat) :
    Spec.stream h seed (k + d) i = Spec.stream h seed k i ++ Spec.stream h seed d (i + k) := by
  induction k generalizing i with
  | zero => simp [Spec.stream]
  | succ k ih =>
    rw [Nat.succ_add]
    simp only [Spec.stream, ih, List.append_assoc]
    congr 3; omega

/-- the loop, started after `j` blocks, stops after some `k ≥ j` blocks with at
    least `total` bytes, provided the fuel lasts -/
theorem genLoop_spec (h : Bytes → Bytes) (seed : Bytes) (hl : Nat)
    (hh : ∀ m, (h m).length = hl) (total fuel j : Nat) (hf : total ≤ (j + fuel) * hl) :
    ∃ k, j ≤ k ∧ k ≤ j + fuel ∧ total ≤ k * hl ∧
      genLoop h seed total fuel (Spec.stream h seed j 1) (Spec.A h seed (j + 1)) = Spec.stream h seed k 1 := by
  induction fuel generalizing j with
  | zero => exact ⟨j, Nat.le_refl _, Nat.le_refl _, by simpa using hf, rfl⟩
  | succ fuel ih =>
    simp only [genLoop, stream_length h seed hl hh]
    by_cases hlt : j * hl < total
    · rw [if_pos hlt]
      have e : Spec.stream h seed j 1 ++ h (Spec.A h seed (j + 1) ++ seed) = Spec.stream h seed (j + 1) 1 := by
        rw [stream_append h seed j 1 1]
        simp [Spec.stream, Spec.block, Nat.add_comm]
      rw [e, show h (Spec.A h seed (j + 1)) = Spec.A h seed (j + 1 + 1) from rfl]
      obtain ⟨k, k1, k2, k3, k4⟩ := ih (j + 1) (by rw [show j + 1 + fuel = j + (fuel + 1) by omega]; exact hf)
      exact ⟨k, by omega, by omega, k3, k4⟩
    · rw [if_neg hlt]
      exact ⟨j, Nat.le_refl _, by omega, by omega, rfl⟩

/-- the first `total` bytes `generateKeys` accumulates are P_hash -/
theorem genLoop_take (h : Bytes → Bytes) (seed : Bytes) (hl : Nat) (hpos : 0 < hl)
    (hh : ∀ m, (h m).length = hl) (total : Nat) :
    (genLoop h seed total total [] (h seed)).take total = Spec.pSha h seed total := by
  obtain ⟨k, -, k2, k3, k4⟩ := genLoop_spec h seed hl hh total total 0
    (by simp only [Nat.zero_add]; exact Nat.le_mul_of_pos_right _ hpos)
  have : genLoop h seed total total [] (h seed) = Spec.stream h seed k 1 := k4
  rw [this, Spec.pSha]
  simp only [Nat.zero_add] at k2
  obtain ⟨d, rfl⟩ : ∃ d, total = k + d := ⟨total - k, by omega⟩
  rw [stream_append h seed k d 1, List.take_append_of_le_length (by rw [stream_length h seed hl hh]; exact k3)]

theorem slices_of_take (p : Bytes) (a b c : Nat) :
    p.take a = (p.take (a + b + c)).take a ∧
    (p.drop a).take b = ((p.take (a + b + c)).drop a).take b ∧
    (p.drop (a + b)).take c = ((p.take (a + b + c)).drop (a + b)).take c := by
  refine ⟨?_, ?_, ?_⟩
  · rw [List.take_take]; congr 1; omega
  · rw [List.take_drop, List.take_drop, List.take_take]; congr 2; omega
  · rw [List.take_drop, List.take_drop, List.take_take]; congr 2; omega

/-- `generateKeys` = the specification's key slices of P_hash, for ALL inputs
    (any secret baked into `h`, any seed, any lengths), for any keyed hash with a
    fixed non-zero output length -/
theorem generateKeys_eq_spec (h : Bytes → Bytes) (seed : Bytes) (hl : Nat) (hpos : 0 < hl)
    (hh : ∀ m, (h m).length = hl) (a b c : Nat) :
    generateKeys h seed a b c =
      { signing := (Spec.derive h seed a b c).signing, encryption := (Spec.derive h seed a b c).encrypting,
        iv := (Spec.derive h seed a b c).iv } := by
  obtain ⟨s1, s2, s3⟩ := slices_of_take (genLoop h seed (a + b + c) (a + b + c) [] (h seed)) a b c
  simp only [generateKeys, Spec.derive, ← genLoop_take h seed hl hpos hh (a + b + c), ← s1, ← s2, ← s3]

/-- P_hash truncated to `n` bytes has `n` bytes (for a keyed hash with a fixed non-zero output length) -/
theorem pSha_length (h : Bytes → Bytes) (seed : Bytes) (hl : Nat) (hpos : 0 < hl)
    (hh : ∀ m, (h m).length = hl) (n : Nat) : (Spec.pSha h seed n).length = n := by
  simp only [Spec.pSha, List.length_take, stream_length h seed hl hh]
  have : n ≤ n * hl := Nat.le_mul_of_pos_right _ hpos
  omega

/-- the derived keys have exactly the requested lengths -/
theorem generateKeys_lengths (h : Bytes → Bytes) (seed : Bytes) (hl : Nat) (hpos : 0 < hl)
    (hh : ∀ m, (h m).length = hl) (a b c : Nat) :
    (generateKeys h seed a b c).signing.length = a ∧ (generateKeys h seed a b c).encryption.length = b ∧
    (generateKeys h seed a b c).iv.length = c := by
  have hp := pSha_length h seed hl hpos hh (a + b + c)
  rw [generateKeys_eq_spec h seed hl hpos hh a b c]
  simp only [Spec.derive, List.length_take, List.length_drop, hp]
  omega

end Opcua.Keys
