import OpcuaModel.Base.Bytes
/-
  CBC mode (NIST SP 800-38A §6.2) over byte lists for an arbitrary 16-byte block
  cipher `E` / `D`, written so that it is both executable on long inputs (the
  block loop is tail recursive, blocks are accumulated in reverse) and easy to
  reason about.  Proved here, from the block-cipher contract `BlockInv` alone:

    `dec_enc`      cbcDec D iv (cbcEnc E iv p) = p      for whole-block `p`
    `enc_length`   |cbcEnc E iv p| = |p|                for whole-block `p`

  The drivers of C07 / C08 / C14 run THIS definition with the reference AES block
  functions of `Model/CryptoRef.lean`, so the mode of operation is no longer an
  assumption of the chunk theorems: what remains assumed is the block inverse.
-/
namespace Opcua.Cbc
open Opcua

def xorBytes (a b : Bytes) : Bytes := List.zipWith (· ^^^ ·) a b

/-- `C_j = E(P_j xor C_{j-1})`; `acc` holds the cipher blocks produced so far, last first -/
def encLoop (E : Bytes → Bytes) : Nat → Bytes → Bytes → List Bytes → List Bytes
  | 0, _, _, acc => acc
  | n + 1, prev, p, acc =>
    let c := E (xorBytes (p.take 16) prev)
    encLoop E n c (p.drop 16) (c :: acc)

/-- `P_j = D(C_j) xor C_{j-1}` -/
def decLoop (D : Bytes → Bytes) : Nat → Bytes → Bytes → List Bytes → List Bytes
  | 0, _, _, acc => acc
  | n + 1, prev, c, acc =>
    decLoop D n (c.take 16) (c.drop 16) (xorBytes (D (c.take 16)) prev :: acc)

def cbcEnc (E : Bytes → Bytes) (iv p : Bytes) : Bytes := (encLoop E (p.length / 16) iv p []).reverse.flatten
def cbcDec (D : Bytes → Bytes) (iv c : Bytes) : Bytes := (decLoop D (c.length / 16) iv c []).reverse.flatten

/-- the block-cipher contract: on 16-byte blocks `E` keeps the length and `D` inverts it -/
def BlockInv (E D : Bytes → Bytes) : Prop := ∀ b : Bytes, b.length = 16 → (E b).length = 16 ∧ D (E b) = b

/-! ### reference form (not tail recursive) and its equivalence -/

def encRef (E : Bytes → Bytes) : Nat → Bytes → Bytes → Bytes
  | 0, _, _ => []
  | n + 1, prev, p => E (xorBytes (p.take 16) prev) ++ encRef E n (E (xorBytes (p.take 16) prev)) (p.drop 16)

def decRef (D : Bytes → Bytes) : Nat → Bytes → Bytes → Bytes
  | 0, _, _ => []
  | n + 1, prev, c => xorBytes (D (c.take 16)) prev ++ decRef D n (c.take 16) (c.drop 16)

theorem encLoop_eq (E : Bytes → Bytes) (n : Nat) (prev p : Bytes) (acc : List Bytes) :
    (encLoop E n prev p acc).reverse.flatten = acc.reverse.flatten ++ encRef E n prev p := by
  induction n generalizing prev p acc with
  | zero => simp [encLoop, encRef]
  | succ n ih => simp [encLoop, encRef, ih, List.flatten_append]

theorem decLoop_eq (D : Bytes → Bytes) (n : Nat) (prev c : Bytes) (acc : List Bytes) :
    (decLoop D n prev c acc).reverse.flatten = acc.reverse.flatten ++ decRef D n prev c := by
  induction n generalizing prev c acc with
  | zero => simp [decLoop, decRef]
  | succ n ih => simp [decLoop, decRef, ih, List.flatten_append]

theorem cbcEnc_eq (E : Bytes → Bytes) (iv p : Bytes) : cbcEnc E iv p = encRef E (p.length / 16) iv p := by
  simp [cbcEnc, encLoop_eq]

theorem cbcDec_eq (D : Bytes → Bytes) (iv c : Bytes) : cbcDec D iv c = decRef D (c.length / 16) iv c := by
  simp [cbcDec, decLoop_eq]

/-! ### the theorems -/

theorem xor_cancel (a b : Bytes) (h : a.length = b.length) : xorBytes (xorBytes a b) b = a := by
  induction a generalizing b with
  | nil => simp [xorBytes]
  | cons x a ih =>
    match b, h with
    | y :: b, h =>
      simp only [xorBytes, List.zipWith_cons_cons, List.cons.injEq]
      refine ⟨by rw [UInt8.xor_assoc, UInt8.xor_self, UInt8.xor_zero], ?_⟩
      exact ih b (by simpa using h)

theorem xor_length (a b : Bytes) : (xorBytes a b).length = min a.length b.length := by
  simp [xorBytes]

theorem encRef_length (E D : Bytes → Bytes) (h : BlockInv E D) (n : Nat) (prev p : Bytes)
    (hprev : prev.length = 16) (hp : p.length = 16 * n) : (encRef E n prev p).length = 16 * n := by
  induction n generalizing prev p with
  | zero => simp [encRef]
  | succ n ih =>
    have hx : (xorBytes (p.take 16) prev).length = 16 := by
      rw [xor_length]; simp only [List.length_take]; omega
    simp only [encRef, List.length_append, (h _ hx).1]
    rw [ih _ _ (h _ hx).1 (by simp only [List.length_drop]; omega)]
    omega

theorem decRef_encRef (E D : Bytes → Bytes) (h : BlockInv E D) (n : Nat) (prev p : Bytes)
    (hprev : prev.length = 16) (hp : p.length = 16 * n) :
    decRef D n prev (encRef E n prev p) = p := by
  induction n generalizing prev p with
  | zero =>
    have : p = [] := List.length_eq_zero_iff.mp (by omega)
    simp [decRef, this]
  | succ n ih =>
    have ht : (p.take 16).length = 16 := by simp only [List.length_take]; omega
    have hx : (xorBytes (p.take 16) prev).length = 16 := by rw [xor_length]; omega
    obtain ⟨hl, hd⟩ := h _ hx
    simp only [encRef, decRef]
    rw [List.take_left' hl, List.drop_left' hl, hd, xor_cancel _ _ (by omega)]
    rw [ih _ _ hl (by simp only [List.length_drop]; omega)]
    exact List.take_append_drop 16 p

/-- the cipher text of a whole number of blocks has the length of the plain text -/
theorem enc_length (E D : Bytes → Bytes) (h : BlockInv E D) (iv p : Bytes) (hiv : iv.length = 16)
    (hp : p.length % 16 = 0) : (cbcEnc E iv p).length = p.length := by
  rw [cbcEnc_eq, encRef_length E D h _ iv p hiv (by omega)]; omega

/-- CBC decryption inverts CBC encryption on a whole number of blocks -/
theorem dec_enc (E D : Bytes → Bytes) (h : BlockInv E D) (iv p : Bytes) (hiv : iv.length = 16)
    (hp : p.length % 16 = 0) : cbcDec D iv (cbcEnc E iv p) = p := by
  rw [cbcDec_eq, enc_length E D h iv p hiv hp, cbcEnc_eq]
  exact decRef_encRef E D h _ iv p hiv (by omega)

end Opcua.Cbc
