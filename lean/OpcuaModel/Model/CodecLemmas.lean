import OpcuaModel.Model.CodecWt
/-
  Basic lemmas about the decoder monad and the Buffer primitives, used by the
  round-trip proofs (C01, C03).

  `Reads d bs x`: on any input that starts with `bs` the decoder `d` consumes
  exactly `bs`, returns `x`, and leaves the allocation counter alone.
-/
namespace Opcua.Codec
open Opcua

@[simp] theorem Dec.pure_apply {α : Type} (a : α) (s : St) : (pure a : Dec α) s = .ok a s := rfl

@[simp] theorem Dec.bind_apply {α β : Type} (x : Dec α) (f : α → Dec β) (s : St) :
    (x >>= f) s = match x s with
      | .ok a s' => f a s'
      | .fail e => .fail e := rfl

@[simp] theorem Dec.fail_apply {α : Type} (f : Fail) (s : St) : (Dec.fail f : Dec α) s = .fail f := rfl

def Reads {α : Type} (d : Dec α) (bs : Bytes) (x : α) : Prop :=
  ∀ rest a, d ⟨bs ++ rest, a⟩ = .ok x ⟨rest, a⟩

theorem Reads.ret {α : Type} (x : α) : Reads (pure x : Dec α) [] x := by
  intro rest a; rfl

theorem Reads.bind {α β : Type} {d : Dec α} {f : α → Dec β} {bs cs : Bytes} {x : α} {y : β}
    (h1 : Reads d bs x) (h2 : Reads (f x) cs y) : Reads (d >>= f) (bs ++ cs) y := by
  intro rest a
  simp only [Dec.bind_apply, List.append_assoc, h1 (cs ++ rest) a, h2 rest a]

theorem Reads.map {α β : Type} {d : Dec α} {g : α → β} {bs : Bytes} {x : α}
    (h1 : Reads d bs x) : Reads (d >>= fun a => pure (g a)) bs (g x) := by
  have := Reads.bind (f := fun a => pure (g a)) h1 (Reads.ret (g x))
  simpa using this

theorem Reads.congr {α : Type} {d : Dec α} {bs cs : Bytes} {x y : α}
    (h : Reads d bs x) (hb : bs = cs) (hx : x = y) : Reads d cs y := by
  subst hb; subst hx; exact h

theorem reads_readN (xs : Bytes) : Reads (readN xs.length) xs xs := by
  intro rest a
  simp [readN]

theorem reads_readN' {n : Nat} (xs : Bytes) (h : xs.length = n) : Reads (readN n) xs xs := by
  subst h; exact reads_readN xs

theorem reads_readUInt (w v : Nat) (h : v < 256 ^ w) : Reads (readUInt w) (leBytes w v) v := by
  have h1 : Reads (readN w) (leBytes w v) (leBytes w v) := reads_readN' _ (leBytes_length w v)
  have h2 := Reads.map (g := leVal) h1
  rw [leVal_leBytes, Nat.mod_eq_of_lt h] at h2
  exact h2

theorem request_none {env : Env} (h : env.limit = none) (n : Nat) (s : St) : request env n s = .ok () s := by
  simp [request, h]

theorem reads_request {env : Env} (h : env.limit = none) (n : Nat) : Reads (request env n) [] () := by
  intro rest a
  simp [request_none h]

theorem requestAt_none {env : Env} (h : env.limit = none) (site : Site) (n : Nat) (s : St) :
    requestAt env site n s = .ok () s := by
  unfold requestAt
  apply request_none
  unfold Env.forSite
  split <;> simp [h]

theorem reads_requestAt {env : Env} (h : env.limit = none) (site : Site) (n : Nat) : Reads (requestAt env site n) [] () := by
  intro rest a
  simp [requestAt_none h]

/-! ### byte strings, strings, time -/

def normBytes : Option Bytes → Option Bytes
  | some [] => none
  | b => b

theorem leBytes4_length (n : Nat) : (leBytes 4 n).length = 4 := leBytes_length 4 n

theorem reads_readBytes {b : Option Bytes} {bs : Bytes} (h : writeByteString b = .ok bs) :
    Reads readBytes bs (normBytes b) := by
  cases b with
  | none =>
    simp only [writeByteString] at h
    cases h
    have h1 := reads_readUInt 4 null32 (by decide)
    have : Reads readBytes (leBytes 4 null32 ++ []) none := by
      unfold readBytes
      refine Reads.bind h1 ?_
      simp [Reads.ret]
    simpa [normBytes] using this
  | some d =>
    simp only [writeByteString] at h
    split at h
    · cases h
    · rename_i hlen
      cases h
      have hl : d.length < 256 ^ 4 := by simp [maxInt32] at hlen; omega
      have h1 := reads_readUInt 4 d.length hl
      unfold readBytes
      refine Reads.bind h1 ?_
      by_cases h0 : d.length = 0
      · have : d = [] := List.eq_nil_of_length_eq_zero h0
        subst this
        simp [normBytes, Reads.ret]
      · have hn : ¬ (d.length = 0 ∨ d.length = null32) := by
          unfold maxInt32 at hlen
          unfold null32
          omega
        simp only [hn, if_false]
        have h2 := Reads.map (g := some) (reads_readN d)
        have hd : normBytes (some d) = some d := by
          cases d with
          | nil => simp at h0
          | cons x xs => rfl
        rw [hd]
        exact h2

theorem reads_readString {s bs : Bytes} (h : writeString s = .ok bs) : Reads readString bs s := by
  unfold writeString at h
  unfold readString
  by_cases hs : s.isEmpty
  · simp only [hs, if_true] at h
    cases h
    have : s = [] := by simpa using hs
    subst this
    have h1 : Reads readBytes (leBytes 4 null32) (normBytes none) := reads_readBytes (b := none) rfl
    have := Reads.map (g := fun b => b.getD []) h1
    simpa [normBytes] using this
  · simp only [hs, Bool.false_eq_true, if_false] at h
    have h1 := reads_readBytes h
    have := Reads.map (g := fun (b : Option Bytes) => b.getD []) h1
    have hn : (normBytes (some s)).getD [] = s := by
      cases s with
      | nil => simp at hs
      | cons x xs => rfl
    rw [hn] at this
    exact this

theorem writeString_ok (s : Bytes) (h : wtStr s = true) : ∃ bs, writeString s = .ok bs := by
  unfold writeString writeByteString
  simp only [wtStr, decide_eq_true_eq] at h
  by_cases hs : s.isEmpty
  · simp [hs]
  · have : ¬ s.length > maxInt32 := by omega
    simp [hs, this]

theorem writeByteString_ok (b : Option Bytes) (h : (b.getD []).length ≤ maxInt32) :
    ∃ bs, writeByteString b = .ok bs := by
  cases b with
  | none => exact ⟨_, rfl⟩
  | some d =>
    have : ¬ d.length > maxInt32 := by simp at h; omega
    simp [writeByteString, this]

theorem toInt64_emod (y : Int) (h2 : -9223372036854775808 ≤ y) (h3 : y < 9223372036854775808) :
    toInt64 (y % 18446744073709551616).toNat = y := by
  unfold toInt64
  split <;> omega

theorem ticksTime_aux (q : Int) (hq : -92233720368547758 ≤ q ∧ q ≤ 92233720368547758) :
    ticksTime ((q + epochTicks) % 18446744073709551616).toNat = some (q * 100) := by
  unfold ticksTime epochTicks
  have h1 : ((q + 116444736000000000) % 18446744073709551616).toNat ≠ 0 := by omega
  rw [if_neg h1]
  have h2 : ((((q + 116444736000000000) % 18446744073709551616).toNat : Int) - 116444736000000000) = q := by omega
  rw [h2]
  rw [toInt64_emod (q * 100) (by omega) (by omega)]

theorem ticksTime_timeTicks (t : Option Int) (h : wtTime t = true) : ticksTime (timeTicks t) = normTime t := by
  cases t with
  | none => rfl
  | some ns =>
    simp only [wtTime, decide_eq_true_eq] at h
    have hq : -92233720368547758 ≤ Int.tdiv ns 100 ∧ Int.tdiv ns 100 ≤ 92233720368547758 := by
      rcases Int.le_total 0 ns with h0 | h0
      · rw [Int.tdiv_eq_ediv_of_nonneg h0]; omega
      · have : Int.tdiv ns 100 = -((-ns) / 100) := by
          have := Int.neg_tdiv (-ns) 100
          rw [Int.neg_neg] at this
          rw [this, Int.tdiv_eq_ediv_of_nonneg (by omega)]
        rw [this]; omega
    simp only [timeTicks, normTime]
    exact ticksTime_aux _ hq

theorem reads_readTime (t : Option Int) (h : wtTime t = true) : Reads readTime (writeTime t) (normTime t) := by
  unfold readTime writeTime
  have hlt : timeTicks t < 256 ^ 8 := by
    cases t with
    | none => simp [timeTicks]
    | some ns =>
      simp only [timeTicks]
      have : (256:Nat) ^ 8 = 18446744073709551616 := by decide
      omega
  have h1 := reads_readUInt 8 (timeTicks t) hlt
  have := Reads.map (g := ticksTime) h1
  rw [ticksTime_timeTicks t h] at this
  exact this

end Opcua.Codec
