import OpcuaModel.Model.CodecWt
/-
  Further parts of the codec model:

  * `wfTy`        — a type descriptor is one the reflective walk of the Go code
                    treats the way the model does (what `Gen/Types.lean` must satisfy)
  * `zeroVal`     — the value `decode` builds from the shortest valid encoding
                    of a type: shows that every registered type has values in the
                    domain of the round-trip theorem
  * `newVariant`  — `ua.NewVariant` (`sliceDim`, `set`)
  * `decService`  — `ua.DecodeService`
-/
namespace Opcua.Codec
open Opcua

/-! ### well-formed descriptors -/

mutual
/-- * a pointer never points to a pointer or to a type with a hand-written codec
      (`decodeStruct` / `decodeSlice` allocate exactly one level; the hand-written
      codecs have pointer receivers and are represented by their own constructors)
    * `[]byte` is `.bytes`, never `.slice (.int 1)` (the fast path)
    * integers have 1, 2, 4 or 8 bytes -/
def wfTy : Ty → Bool
  | .int w => w == 1 || w == 2 || w == 4 || w == 8
  | .slice e => (match e with
      | .int 1 => false
      | _ => true) && wfTy e
  | .ptr e => (match e with
      | .ptr _ | .guid | .nodeId | .expNodeId | .locText | .diag | .dataValue | .variant | .extObj => false
      | _ => true) && wfTy e
  | .struct fs => wfTys fs
  | _ => true
def wfTys : List Ty → Bool
  | [] => true
  | t :: ts => wfTy t && wfTys ts
end

/-! ### a value of every type -/

def zeroFields (rec : Ty → Val) : List Ty → List Val
  | [] => []
  | t :: ts => rec t :: zeroFields rec ts

/-- zero value with every pointer allocated (what `Decode` builds from zero bytes of payload) -/
def zeroVal : Nat → Ty → Val
  | 0, _ => .nil
  | fuel + 1, t =>
    match t with
    | .bool => .bool false
    | .int _ => .int 0
    | .f32 => .f32 0
    | .f64 => .f64 0
    | .string => .str []
    | .time => .time none
    | .bytes => .bytes none
    | .slice _ => .slice true []
    | .ptr e => .ptr (zeroVal fuel e)
    | .struct fs => .struct (zeroFields (zeroVal fuel) fs)
    | .guid => .guid ⟨0, 0, 0, [0, 0, 0, 0, 0, 0, 0, 0]⟩
    | .nodeId => .nodeId twoByteZero
    | .expNodeId => .expNodeId ⟨some twoByteZero, [], 0⟩
    | .locText => .locText ⟨0, [], []⟩
    | .diag => .diag [⟨0, 0, 0, 0, 0, [], 0⟩]
    | .dataValue => .dataValue 0 zeroVariant 0 none 0 none 0
    | .variant => zeroVariant
    | .extObj => emptyExtObj

/-! ### NewVariant -/

/-- `len(val)` of an element that is itself a slice -/
def sliceLen : Val → Nat
  | .slice _ xs => xs.length
  | .bytes b => (b.getD []).length
  | _ => 0

/-- `sliceDim`: (element type, dimensions, element count as an int32 bit pattern), for a value of Go
    type `slice^depth(T_base)`.  Only the first element of every level is followed (as in the code). -/
def sliceDim (base : Nat) : Nat → Val → Except Fail (VTag × List Nat × Nat)
  | 0, _ => .ok (⟨base, 0⟩, [], 1)
  | k + 1, .slice true _ => .ok (⟨base, k⟩, [], 4294967295)
  | k + 1, .slice false [] => .ok (⟨base, k⟩, [0], 0)
  | k + 1, .slice false (x :: xs) =>
    -- `if val.Index(0).Kind() == reflect.Slice && val.Index(0).Type() != []byte`: the elements are rows iff k > 0
    -- (the elements of an array of ByteString are values; until the repair of C01.variant-bytestring-array they
    -- were compared like rows)
    if k > 0 ∧ ¬ (x :: xs).all (fun y => sliceLen y == sliceLen x) then .error .err
    else do
      let (et, dim, count) ← sliceDim base k x
      -- a nil inner slice (count −1) is refused (since the repair of C01.variant-nil-inner-slice)
      if count = 4294967295 then .error .err
      else pure (et, (xs.length + 1) :: dim, (count * (xs.length + 1)) % 4294967296)
  | _ + 1, _ => .error .illTyped

/-- `ua.NewVariant(x)` for `x` of Go type `vt` (`⟨0, 0⟩` with `.nil`: the nil interface; `[]byte` is
    `⟨15, 0⟩`, `ByteArray` is `⟨3, 1⟩`) -/
def newVariant (vt : VTag) (x : Val) : Except Fail Val :=
  if vt.base = 0 then .ok (.variant 0 0 0 none ⟨0, 0⟩ .nil)
  else do
    let (et, dim, count) ← sliceDim vt.base vt.depth x
    let typeid := if et.depth = 0 then et.base else 24
    if dim.length > 1 then
      pure (.variant (0xc0 + typeid) count dim.length (some dim) vt x)
    else if dim.length > 0 ∨ count = 4294967295 then
      pure (.variant (0x80 + typeid) count 0 none vt x)
    else
      pure (.variant typeid 0 0 none vt x)

/-! ### DecodeService -/

/-- `ua.DecodeService`: the type id, then the registered service struct (`svcs` is the service registry) -/
def decService (svcs : List RegEntry) (rec : Ty → Dec Val) : Dec (ExpNodeId × String × Val) := do
  let tid ← decExpNodeId
  match tid.nodeId.bind regKey |>.bind (fun k => findIdx (·.id == k) svcs 0) with
  | none => Dec.fail .err
  | some i => do
    let v ← rec (.ptr (svcs.getD i default).ty)
    pure (tid, (svcs.getD i default).name, v)

end Opcua.Codec
