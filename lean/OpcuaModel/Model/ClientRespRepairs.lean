import OpcuaModel.Model.ClientResp
/-
  C21 — which of the recorded defects have been repaired in /repo.

  The model `outcome` describes the unrepaired code.  When a `fix:` commit adds
  the missing length check / comma-ok assertion for one of the findings, add its
  signature here (and a `fixed:` line to the findings file): the driver then
  expects an error instead of a panic on exactly the shapes of that signature,
  and `C21_nopanic_when_repaired` says what is gained.
-/
namespace Opcua.ClientResp

/-- signatures repaired in the working tree (none on the unchanged tree) -/
def repairedSigs : List String := []

/-- all finding signatures of C21 -/
def allSigs : List String :=
  ["C21.delete-empty-results", "C21.monitor-fewer-results", "C21.modify-more-results", "C21.recreate-fewer-results",
   "C21.transfer-more-results", "C21.browse-empty-results", "C21.browsenext-empty-results",
   "C21.browsename-type-assertion", "C21.description-type-assertion", "C21.displayname-type-assertion",
   "C21.accesslevel-type-assertion", "C21.useraccesslevel-type-assertion", "C21.nodeclass-empty-int-array"]

/-- outcome when the defects in `R` are repaired by returning an error where
    the unrepaired code panics (the monitor loop drops that error: `value`) -/
def outcomeR (R : List String) (op : Op) (s : Shape) : Outcome :=
  match sigOf op s with
  | some sig =>
    if R.contains sig then
      (if op == .recreateItems || op == .transferOnReconnect || op == .nodeClass then .value else .error)
    else outcome op s
  | none => outcome op s

end Opcua.ClientResp
