import OpcuaModel.Model.SendSeqInv
/-
  C16(b): invariants of the UNGUARDED sender / renewal system (every
  interleaving, aborted sends and failed renewals included): mutual exclusion,
  wait-group bookkeeping, one renewal per token, and absence of deadlock.
-/
namespace Opcua.SendSeq

@[grind] def RPC.holdsOld : RPC → Bool
  | .idle => false
  | .gateLocked => false
  | .waiting => false
  | .waited => false
  | .wantOld => false
  | .holdOld => true
  | .copied _ => true
  | .sent _ => true
  | .installed _ => true
  | .failed _ => true
  | .releasedOld => false

structure InvM (s : St) : Prop where
  mutexA : ∀ t i, holds (s.pc t) = some i → s.holder i = some (.s t)
  mutexB : ∀ t i, s.holder i = some (.s t) → holds (s.pc t) = some i
  rhold : ∀ i, s.holder i = some .r → s.rpc.holdsOld = true ∧ i = s.old
  rholdB : s.rpc.holdsOld = true → s.holder s.old = some .r
  holdB : ∀ i, s.holder i ≠ none → i < s.nInst
  instB : ∀ t i, instOf (s.pc t) = some i → i < s.nInst
  pendS : ∀ t, Who.s t ∈ s.pend → counted (s.pc t) = true
  pendR : Who.r ∉ s.pend
  pendN : s.pend.Nodup
  wbound : ∀ t i req idx cnt, s.pc t = .writing i req idx cnt → idx ≤ cnt
  onceN : s.renewed.Nodup
  onceS : ∀ i, i ∈ s.renewed → s.sched i = false ∧ i ≤ s.active
  schedA : ∀ i, s.sched i = true → i ≤ s.active
  actB : s.active < s.nInst
  oldB : s.old < s.nInst
  freshB : ∀ j, s.rpc.fresh = some j → s.active < j ∧ j < s.nInst

theorem invM_init (b : Int) (tk : Nat) : InvM (init b tk) := by
  constructor <;> simp [init, holds, instOf, RPC.fresh, RPC.holdsOld]

macro "invm_close" : tactic => `(tactic| (constructor <;> (try simp only [RPC.fresh, RPC.holdsOld]) <;> grind))

theorem invM_settle {s : St} (hi : InvM s) : InvM (settle s) := by
  unfold settle
  split
  · obtain ⟨a1,a2,a3,a3b,a3c,a3d,a4,a5,a6,a7,a9,a10,a11,a12,a12b,a13⟩ := hi
    invm_close
  · exact hi

theorem invM_spawn {s s' : St}  (hi : InvM s) (h : step? s .spawn = some s') : InvM s' := by
  obtain ⟨a1,a2,a3,a3b,a3c,a3d,a4,a5,a6,a7,a9,a10,a11,a12,a12b,a13⟩ := hi
  simp only [step?] at h
  (repeat' split at h) <;> simp at h <;> subst h <;> invm_close

theorem invM_gate {s s' : St} {t : Nat} (hi : InvM s) (h : step? s (.gate t) = some s') : InvM s' := by
  obtain ⟨a1,a2,a3,a3b,a3c,a3d,a4,a5,a6,a7,a9,a10,a11,a12,a12b,a13⟩ := hi
  simp only [step?] at h
  (repeat' split at h) <;> simp at h <;> subst h <;> invm_close

theorem invM_getActive {s s' : St} {t : Nat} (hi : InvM s) (h : step? s (.getActive t) = some s') : InvM s' := by
  obtain ⟨a1,a2,a3,a3b,a3c,a3d,a4,a5,a6,a7,a9,a10,a11,a12,a12b,a13⟩ := hi
  simp only [step?] at h
  (repeat' split at h) <;> simp at h <;> subst h <;> invm_close

theorem invM_pendAdd {s s' : St} {t : Nat} (hi : InvM s) (h : step? s (.pendAdd t) = some s') : InvM s' := by
  obtain ⟨a1,a2,a3,a3b,a3c,a3d,a4,a5,a6,a7,a9,a10,a11,a12,a12b,a13⟩ := hi
  simp only [step?] at h
  (repeat' split at h) <;> simp at h <;> subst h <;> invm_close

theorem invM_respGetActive {s s' : St} {t : Nat} (hi : InvM s) (h : step? s (.respGetActive t) = some s') : InvM s' := by
  obtain ⟨a1,a2,a3,a3b,a3c,a3d,a4,a5,a6,a7,a9,a10,a11,a12,a12b,a13⟩ := hi
  simp only [step?] at h
  (repeat' split at h) <;> simp at h <;> subst h <;> invm_close

theorem invM_lockInst {s s' : St} {t : Nat} (hi : InvM s) (h : step? s (.lockInst t) = some s') : InvM s' := by
  obtain ⟨a1,a2,a3,a3b,a3c,a3d,a4,a5,a6,a7,a9,a10,a11,a12,a12b,a13⟩ := hi
  simp only [step?] at h
  (repeat' split at h) <;> simp at h <;> subst h <;> invm_close

theorem invM_newMsg {s s' : St} {t cnt : Nat} (hi : InvM s) (h : step? s (.newMsg t cnt) = some s') : InvM s' := by
  obtain ⟨a1,a2,a3,a3b,a3c,a3d,a4,a5,a6,a7,a9,a10,a11,a12,a12b,a13⟩ := hi
  simp only [step?] at h
  (repeat' split at h) <;> simp at h <;> subst h <;> invm_close

theorem invM_write {s s' : St} {t : Nat} {sq : Int} (hi : InvM s) (h : step? s (.write t sq) = some s') : InvM s' := by
  obtain ⟨a1,a2,a3,a3b,a3c,a3d,a4,a5,a6,a7,a9,a10,a11,a12,a12b,a13⟩ := hi
  simp only [step?] at h
  (repeat' split at h) <;> simp at h <;> subst h <;> invm_close

theorem invM_abort {s s' : St} {t : Nat} (hi : InvM s) (h : step? s (.abort t) = some s') : InvM s' := by
  obtain ⟨a1,a2,a3,a3b,a3c,a3d,a4,a5,a6,a7,a9,a10,a11,a12,a12b,a13⟩ := hi
  simp only [step?] at h
  (repeat' split at h) <;> simp at h <;> subst h <;> invm_close

theorem invM_unlockInst {s s' : St} {t : Nat} (hi : InvM s) (h : step? s (.unlockInst t) = some s') : InvM s' := by
  obtain ⟨a1,a2,a3,a3b,a3c,a3d,a4,a5,a6,a7,a9,a10,a11,a12,a12b,a13⟩ := hi
  simp only [step?] at h
  (repeat' split at h) <;> simp at h <;> subst h <;> invm_close

theorem invM_rLock {s s' : St}  (hi : InvM s) (h : step? s .rLock = some s') : InvM s' := by
  obtain ⟨a1,a2,a3,a3b,a3c,a3d,a4,a5,a6,a7,a9,a10,a11,a12,a12b,a13⟩ := hi
  simp only [step?] at h
  (repeat' split at h) <;> simp at h <;> subst h <;> invm_close

theorem invM_rWaitDone {s s' : St}  (hi : InvM s) (h : step? s .rWaitDone = some s') : InvM s' := by
  obtain ⟨a1,a2,a3,a3b,a3c,a3d,a4,a5,a6,a7,a9,a10,a11,a12,a12b,a13⟩ := hi
  simp only [step?] at h
  (repeat' split at h) <;> simp at h <;> subst h <;> invm_close

theorem invM_rLockOld {s s' : St}  (hi : InvM s) (h : step? s .rLockOld = some s') : InvM s' := by
  obtain ⟨a1,a2,a3,a3b,a3c,a3d,a4,a5,a6,a7,a9,a10,a11,a12,a12b,a13⟩ := hi
  simp only [step?] at h
  (repeat' split at h) <;> simp at h <;> subst h <;> invm_close

theorem invM_rCopy {s s' : St}  (hi : InvM s) (h : step? s .rCopy = some s') : InvM s' := by
  obtain ⟨a1,a2,a3,a3b,a3c,a3d,a4,a5,a6,a7,a9,a10,a11,a12,a12b,a13⟩ := hi
  simp only [step?] at h
  (repeat' split at h) <;> simp at h <;> subst h <;> invm_close

theorem invM_rSendOPN {s s' : St} {sq : Int} (hi : InvM s) (h : step? s (.rSendOPN sq) = some s') : InvM s' := by
  obtain ⟨a1,a2,a3,a3b,a3c,a3d,a4,a5,a6,a7,a9,a10,a11,a12,a12b,a13⟩ := hi
  simp only [step?] at h
  (repeat' split at h) <;> simp at h <;> subst h <;> invm_close

theorem invM_rInstall {s s' : St} {tk : Nat} (hi : InvM s) (h : step? s (.rInstall tk) = some s') : InvM s' := by
  obtain ⟨a1,a2,a3,a3b,a3c,a3d,a4,a5,a6,a7,a9,a10,a11,a12,a12b,a13⟩ := hi
  simp only [step?] at h
  (repeat' split at h) <;> simp at h <;> subst h <;> invm_close

theorem invM_rFail {s s' : St}  (hi : InvM s) (h : step? s .rFail = some s') : InvM s' := by
  obtain ⟨a1,a2,a3,a3b,a3c,a3d,a4,a5,a6,a7,a9,a10,a11,a12,a12b,a13⟩ := hi
  simp only [step?] at h
  (repeat' split at h) <;> simp at h <;> subst h <;> invm_close

theorem invM_rUnlockOld {s s' : St}  (hi : InvM s) (h : step? s .rUnlockOld = some s') : InvM s' := by
  obtain ⟨a1,a2,a3,a3b,a3c,a3d,a4,a5,a6,a7,a9,a10,a11,a12,a12b,a13⟩ := hi
  simp only [step?] at h
  (repeat' split at h) <;> simp at h <;> subst h <;> invm_close

theorem invM_rUnlock {s s' : St}  (hi : InvM s) (h : step? s .rUnlock = some s') : InvM s' := by
  obtain ⟨a1,a2,a3,a3b,a3c,a3d,a4,a5,a6,a7,a9,a10,a11,a12,a12b,a13⟩ := hi
  simp only [step?] at h
  (repeat' split at h) <;> simp at h <;> subst h <;> invm_close

theorem invM_pendDone {s s' : St} {t : Nat} (hi : InvM s) (h : step? s (.pendDone t) = some s') : InvM s' := by
  obtain ⟨a1,a2,a3,a3b,a3c,a3d,a4,a5,a6,a7,a9,a10,a11,a12,a12b,a13⟩ := hi
  simp only [step?] at h
  split at h
  · simp at h; subst h
    apply invM_settle
    have he : ∀ x, x ∈ s.pend.erase (Who.s t) ↔ x ≠ Who.s t ∧ x ∈ s.pend := fun x => a6.mem_erase_iff
    have hn := a6.erase (Who.s t)
    invm_close
  · simp at h

theorem invM_rWaitBegin {s s' : St} (hi : InvM s) (h : step? s .rWaitBegin = some s') : InvM s' := by
  obtain ⟨a1,a2,a3,a3b,a3c,a3d,a4,a5,a6,a7,a9,a10,a11,a12,a12b,a13⟩ := hi
  simp only [step?] at h
  split at h
  · simp at h; subst h
    apply invM_settle
    invm_close
  · simp at h

theorem invM_step {s s' : St} {l : Label} (hi : InvM s) (h : step? s l = some s') : InvM s' := by
  cases l with
  | spawn  => exact invM_spawn hi h
  | gate t => exact invM_gate hi h
  | getActive t => exact invM_getActive hi h
  | pendAdd t => exact invM_pendAdd hi h
  | respGetActive t => exact invM_respGetActive hi h
  | lockInst t => exact invM_lockInst hi h
  | newMsg t cnt => exact invM_newMsg hi h
  | write t sq => exact invM_write hi h
  | abort t => exact invM_abort hi h
  | unlockInst t => exact invM_unlockInst hi h
  | rLock  => exact invM_rLock hi h
  | rWaitDone  => exact invM_rWaitDone hi h
  | rLockOld  => exact invM_rLockOld hi h
  | rCopy  => exact invM_rCopy hi h
  | rSendOPN sq => exact invM_rSendOPN hi h
  | rInstall tk => exact invM_rInstall hi h
  | rFail  => exact invM_rFail hi h
  | rUnlockOld  => exact invM_rUnlockOld hi h
  | rUnlock  => exact invM_rUnlock hi h
  | pendDone t => exact invM_pendDone hi h
  | rWaitBegin  => exact invM_rWaitBegin hi h

/-- while the renewer waits the wait group is not empty (otherwise `Wait` has returned) -/
theorem reachable_waitNE {s : St} (h : Reachable s) : s.rpc = .waiting → s.pend ≠ [] := by
  induction h with
  | init b tk => simp [init]
  | step l _ hs ih =>
    cases l <;> simp only [step?] at hs
    case pendDone t =>
      split at hs
      · simp at hs; subst hs; unfold settle; split <;> simp_all
      · simp at hs
    case rWaitBegin =>
      split at hs
      · simp at hs; subst hs; unfold settle; split <;> simp_all
      · simp at hs
    all_goals ((repeat' split at hs) <;> simp at hs <;> subst hs <;> simp_all)

theorem reachable_invM {s : St} (h : Reachable s) : InvM s := by
  induction h with
  | init b tk => exact invM_init b tk
  | step l _ hs ih => exact invM_step ih hs

end Opcua.SendSeq

namespace Opcua.SendSeq

/-- some step other than `spawn` is enabled -/
def CanMove (s : St) : Prop := ∃ l, l ≠ Label.spawn ∧ (step? s l).isSome = true

theorem renewer_moves {s : St} (hr : s.rpc.holdsOld = true) : CanMove s := by
  cases hrpc : s.rpc <;> simp [hrpc, RPC.holdsOld] at hr
  · exact ⟨.rCopy, by simp, by simp [step?, hrpc]⟩
  · next j => exact ⟨.rSendOPN (next (s.seq j)), by simp, by simp [step?, hrpc]⟩
  · next j => exact ⟨.rInstall 0, by simp, by simp [step?, hrpc]⟩
  · next j => exact ⟨.rUnlockOld, by simp, by simp [step?, hrpc]⟩
  · next j => exact ⟨.rUnlockOld, by simp, by simp [step?, hrpc]⟩

theorem lockholder_moves {s : St} (hi : InvM s) {t i : Nat} (hh : holds (s.pc t) = some i) : CanMove s := by
  cases hp : s.pc t <;> simp [hp, holds] at hh
  · next i' req => exact ⟨.newMsg t 1, by simp, by simp [step?, hp]⟩
  · next i' req idx cnt =>
    have hb := hi.wbound t _ _ _ _ hp
    by_cases hlt : idx < cnt
    · exact ⟨.write t (if idx = 0 then s.seq i' else next (s.seq i')), by simp, by simp [step?, hp, hlt]⟩
    · have : idx = cnt := by omega
      exact ⟨.unlockInst t, by simp, by simp [step?, hp, this]⟩

theorem holder_moves {s : St} (hi : InvM s) {i : Nat} {w : Who} (hh : s.holder i = some w) : CanMove s := by
  cases w with
  | s t => exact lockholder_moves hi (hi.mutexB t i hh)
  | r => exact renewer_moves (hi.rhold i hh).1

/-- a sender that is past the gate and not finished can move, or the thread that blocks it can -/
theorem thread_moves {s : St} (hi : InvM s) {t : Nat} (h1 : s.pc t ≠ .start) (h2 : s.pc t ≠ .done) : CanMove s := by
  cases hp : s.pc t
  · exact absurd hp h1
  · exact ⟨.getActive t, by simp, by simp [step?, hp]⟩
  · exact ⟨.pendAdd t, by simp, by simp [step?, hp]⟩
  · next i =>
    cases hh : s.holder i with
    | none => exact ⟨.lockInst t, by simp, by simp [step?, hp, hh]⟩
    | some w => exact holder_moves hi hh
  · next i =>
    cases hh : s.holder i with
    | none => exact ⟨.lockInst t, by simp, by simp [step?, hp, hh]⟩
    | some w => exact holder_moves hi hh
  · next i req => exact lockholder_moves hi (t := t) (i := i) (by simp [hp, holds])
  · next i req idx cnt => exact lockholder_moves hi (t := t) (i := i) (by simp [hp, holds])
  · exact ⟨.pendDone t, by simp, by simp [step?, hp]⟩
  · exact absurd hp h2

/-- something is going on: a renewal, or a sender between the gate and its return -/
def Busy (s : St) : Prop := s.rpc ≠ .idle ∨ ∃ t, s.pc t ≠ .start ∧ s.pc t ≠ .done

/-- NO DEADLOCK (every interleaving, provided the peer answers the OPN request —
    `rInstall` is always available to the renewer): while a renewal or a send is
    in progress some thread can take a step. -/
theorem no_deadlock {s : St} (h : Reachable s) (hb : Busy s) : CanMove s := by
  have hi := reachable_invM h
  cases hrpc : s.rpc
  case idle =>
    rcases hb with hb | ⟨t, h1, h2⟩
    · exact absurd hrpc hb
    · exact thread_moves hi h1 h2
  case gateLocked => exact ⟨.rWaitBegin, by simp, by simp [step?, hrpc]⟩
  case waiting =>
    have hne := reachable_waitNE h hrpc
    cases hpd : s.pend with
    | nil => exact absurd hpd hne
    | cons x rest =>
      have hx : x ∈ s.pend := by simp [hpd]
      cases x with
      | r => exact absurd hx hi.pendR
      | s t =>
        have hc := hi.pendS t hx
        apply thread_moves hi (t := t) <;> intro hp <;> simp [hp, counted] at hc
  case waited => exact ⟨.rWaitDone, by simp, by simp [step?, hrpc]⟩
  case wantOld =>
    cases hh : s.holder s.old with
    | none => exact ⟨.rLockOld, by simp, by simp [step?, hrpc, hh]⟩
    | some w => exact holder_moves hi hh
  case holdOld => exact renewer_moves (by simp [hrpc, RPC.holdsOld])
  case copied j => exact renewer_moves (by simp [hrpc, RPC.holdsOld])
  case sent j => exact renewer_moves (by simp [hrpc, RPC.holdsOld])
  case installed j => exact renewer_moves (by simp [hrpc, RPC.holdsOld])
  case failed j => exact renewer_moves (by simp [hrpc, RPC.holdsOld])
  case releasedOld => exact ⟨.rUnlock, by simp, by simp [step?, hrpc]⟩

end Opcua.SendSeq
