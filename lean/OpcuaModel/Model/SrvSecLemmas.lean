import OpcuaModel.Model.SrvSec
/-
  Helper lemmas for Props/C30 (not property statements).
-/
namespace Opcua.SrvSec

theorem enableSecurity_mem (e : List Sec) (p : String) (m : Nat) (s : Sec) :
    s ∈ enableSecurity e p m ↔ s ∈ e ∨ (supported p = true ∧ s = ⟨p, m⟩) := by
  unfold enableSecurity
  by_cases hs : supported p = true
  · by_cases ha : (e.any fun s => s.policy == p && s.mode == m) = true
    · simp only [hs, ha, Bool.not_true, Bool.false_eq_true, if_false, if_true]
      constructor
      · intro h; exact Or.inl h
      · rintro (h | ⟨_, rfl⟩)
        · exact h
        · rcases List.any_eq_true.mp ha with ⟨x, hx, hxe⟩
          simp only [Bool.and_eq_true, beq_iff_eq] at hxe
          have : x = ⟨p, m⟩ := by cases x; simp_all
          exact this ▸ hx
    · simp only [hs, ha, Bool.not_true, Bool.false_eq_true, if_false, List.mem_append, List.mem_singleton, true_and]
  · simp [hs]

theorem enableSecurity_nodup (e : List Sec) (p : String) (m : Nat) (h : e.Nodup) :
    (enableSecurity e p m).Nodup := by
  unfold enableSecurity
  by_cases hs : supported p = true
  · by_cases ha : (e.any fun s => s.policy == p && s.mode == m) = true
    · simpa [hs, ha] using h
    · simp only [hs, ha, Bool.not_true, Bool.false_eq_true, if_false]
      refine List.nodup_append.mpr ⟨h, by simp, ?_⟩
      intro a ha' b hb
      rw [List.mem_singleton] at hb
      subst hb
      intro hab
      subst hab
      apply ha
      exact List.any_eq_true.mpr ⟨_, ha', by simp⟩
  · simpa [hs] using h

theorem foldl_enable_mem (calls : List (String × Nat)) (acc : List Sec) (s : Sec) :
    s ∈ calls.foldl (fun acc c => enableSecurity acc c.1 c.2) acc ↔
      s ∈ acc ∨ ∃ c ∈ calls, supported c.1 = true ∧ s = ⟨c.1, c.2⟩ := by
  induction calls generalizing acc with
  | nil => simp
  | cons c cs ih =>
    simp only [List.foldl_cons, ih, enableSecurity_mem, List.mem_cons, exists_eq_or_imp]
    constructor
    · rintro ((h | h) | h)
      · exact Or.inl h
      · exact Or.inr (Or.inl h)
      · exact Or.inr (Or.inr h)
    · rintro (h | h | h)
      · exact Or.inl (Or.inl h)
      · exact Or.inl (Or.inr h)
      · exact Or.inr h

theorem foldl_enable_nodup (calls : List (String × Nat)) (acc : List Sec) (h : acc.Nodup) :
    (calls.foldl (fun acc c => enableSecurity acc c.1 c.2) acc).Nodup := by
  induction calls generalizing acc with
  | nil => simpa using h
  | cons c cs ih => exact ih _ (enableSecurity_nodup _ _ _ h)

theorem serverOpn_eq (srv : SrvCfg) (o : Opn) :
    serverOpn srv o = if acceptable srv o = true then .accept ⟨o.policy, o.mode⟩ else .reject := by
  unfold serverOpn readChunkOpn handleOpen acceptable freshChan
  by_cases hp : o.policy = policyNone
  · by_cases hb : o.body = .plain <;> by_cases hv : o.protoVer = 0 <;> by_cases ha : o.authTok = 0 <;>
      by_cases hm : o.mode = modeNone <;> cases hs : supported policyNone <;>
      simp [hp, hb, hv, ha, hm, hs, certUsable]
  · cases hc : o.cert <;> by_cases hb : o.body = .secured <;> by_cases hv : o.protoVer = 0 <;>
      by_cases ha : o.authTok = 0 <;> by_cases hs : supported o.policy = true <;>
      simp [hp, hb, hv, ha, hs, certUsable]

end Opcua.SrvSec
