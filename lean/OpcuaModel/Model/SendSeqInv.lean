import OpcuaModel.Model.SendSeq
/-
  The guarded system of C11 / C16(b) and its inductive invariant.

  Guard (decidable): a renewal only starts (`rLock`) when no sender is between
  the gate and `pendingReq.Add` (`gated`, `hasActive`) and no response sender
  is in flight; response senders only start while no renewal runs; no send is
  aborted between drawing its number and writing the chunk; the renewal is
  answered (`rFail` does not occur).
-/
namespace Opcua.SendSeq

@[grind] def instOf : PC → Option Nat
  | .start => none
  | .gated => none
  | .hasActive i => some i
  | .added i => some i
  | .respActive i => some i
  | .locked i _ => some i
  | .writing i _ _ _ => some i
  | .unlocked i => some i
  | .done => none

@[grind] def holds : PC → Option Nat
  | .start => none
  | .gated => none
  | .hasActive _ => none
  | .added _ => none
  | .respActive _ => none
  | .locked i _ => some i
  | .writing i _ _ _ => some i
  | .unlocked _ => none
  | .done => none

/-- in flight but not (yet) counted by `pendingReq` -/
@[grind] def uncounted : PC → Bool
  | .start => false
  | .gated => true
  | .hasActive _ => true
  | .added _ => false
  | .respActive _ => true
  | .locked _ req => !req
  | .writing _ req _ _ => !req
  | .unlocked _ => false
  | .done => false

@[grind] def counted : PC → Bool
  | .start => false
  | .gated => false
  | .hasActive _ => false
  | .added _ => true
  | .respActive _ => false
  | .locked _ req => req
  | .writing _ req _ _ => req
  | .unlocked _ => true
  | .done => false

@[grind] def quietPC : PC → Bool
  | .start => true
  | .gated => false
  | .hasActive _ => false
  | .added _ => false
  | .respActive _ => false
  | .locked _ _ => false
  | .writing _ _ _ _ => false
  | .unlocked _ => false
  | .done => true

@[grind] def isW0 : PC → Bool
  | .start => false
  | .gated => false
  | .hasActive _ => false
  | .added _ => false
  | .respActive _ => false
  | .locked _ _ => false
  | .writing _ _ idx _ => decide (idx = 0)
  | .unlocked _ => false
  | .done => false

@[grind] def isMid : PC → Bool
  | .start => false
  | .gated => false
  | .hasActive _ => false
  | .added _ => false
  | .respActive _ => false
  | .locked _ _ => false
  | .writing _ _ idx cnt => decide (0 < idx ∧ idx < cnt)
  | .unlocked _ => false
  | .done => false

@[grind] def RPC.early : RPC → Bool
  | .idle => false
  | .gateLocked => true
  | .waiting => true
  | .waited => false
  | .wantOld => false
  | .holdOld => false
  | .copied _ => false
  | .sent _ => false
  | .installed _ => false
  | .failed _ => false
  | .releasedOld => false

@[grind] def RPC.quiet : RPC → Bool
  | .idle => false
  | .gateLocked => false
  | .waiting => false
  | .waited => true
  | .wantOld => true
  | .holdOld => true
  | .copied _ => true
  | .sent _ => true
  | .installed _ => true
  | .failed _ => false
  | .releasedOld => true

@[grind] def RPC.preCopy : RPC → Bool
  | .idle => false
  | .gateLocked => true
  | .waiting => true
  | .waited => true
  | .wantOld => true
  | .holdOld => true
  | .copied _ => false
  | .sent _ => false
  | .installed _ => false
  | .failed _ => false
  | .releasedOld => false

@[grind] def RPC.fresh : RPC → Option Nat
  | .idle => none
  | .gateLocked => none
  | .waiting => none
  | .waited => none
  | .wantOld => none
  | .holdOld => none
  | .copied j => some j
  | .sent j => some j
  | .installed _ => none
  | .failed _ => none
  | .releasedOld => none

@[grind →] theorem fresh_quiet (r : RPC) (j : Nat) (h : r.fresh = some j) : r.quiet = true := by
  cases r <;> simp_all [RPC.fresh, RPC.quiet]

@[grind →] theorem quiet_not_idle (r : RPC) (h : r.quiet = true) : r ≠ .idle ∧ r.early = false := by
  cases r <;> simp_all [RPC.quiet, RPC.early]

@[grind →] theorem early_not_idle (r : RPC) (h : r.early = true) : r ≠ .idle ∧ r.quiet = false ∧ r.fresh = none ∧ r.preCopy = true := by
  cases r <;> simp_all [RPC.quiet, RPC.early, RPC.fresh, RPC.preCopy]

@[grind →] theorem quiet_pc (p : PC) (h : quietPC p = true) :
    instOf p = none ∧ holds p = none ∧ uncounted p = false ∧ counted p = false ∧ isW0 p = false ∧ isMid p = false := by
  cases p <;> simp_all [quietPC, instOf, holds, uncounted, counted, isW0, isMid]

def Guard (s : St) : Label → Prop
  | .rLock => ∀ t, t < s.n → uncounted (s.pc t) = false
  | .respGetActive _ => s.rpc = .idle
  | .abort _ => False
  | .rFail => False
  | _ => True

instance (s : St) (l : Label) : Decidable (Guard s l) := by
  cases l <;> simp only [Guard] <;> exact inferInstance

/-- reachable without leaving the guard -/
inductive ReachableG : St → Prop where
  | init (b : Int) (tk : Nat) : ReachableG (init b tk)
  | step {s s' : St} (l : Label) : ReachableG s → Guard s l → step? s l = some s' → ReachableG s'

/-- counter of instance i in terms of the wire -/
def seqOK (s : St) (i : Nat) : Prop :=
  s.seq i = match s.holder i with
    | some (.s t) => if isW0 (s.pc t) then next (lastSeq s.base s.wire) else lastSeq s.base s.wire
    | _ => lastSeq s.base s.wire

structure InvG (s : St) : Prop where
  gate : s.rpc = .idle ↔ s.reqLocked = false
  mention : ∀ t i, instOf (s.pc t) = some i → i = s.active
  early : s.rpc.early = true → ∀ t, uncounted (s.pc t) = false
  quiet : s.rpc.quiet = true → ∀ t, quietPC (s.pc t) = true
  pend : ∀ t, counted (s.pc t) = true → Who.s t ∈ s.pend
  mutexA : ∀ t i, holds (s.pc t) = some i → s.holder i = some (.s t)
  mutexB : ∀ t i, s.holder i = some (.s t) → holds (s.pc t) = some i
  seqA : s.rpc.fresh = none → seqOK s s.active
  seqF : ∀ j, s.rpc.fresh = some j → s.seq j = lastSeq s.base s.wire ∧ s.holder j = none
  w0 : ∀ t i req idx cnt, s.pc t = .writing i req idx cnt → idx ≤ cnt ∧ 0 < cnt
  w1 : ∀ t i req k cnt, s.pc t = .writing i req (k + 1) cnt → headIs s.wire t k cnt
  midA : ∀ t, s.mid = some t → isMid (s.pc t) = true
  midB : ∀ t, isMid (s.pc t) = true → s.mid = some t
  midN : s.mid = none → headFinal s.wire
  linked : Linked s.base s.wire
  oldAct : s.rpc.preCopy = true → s.old = s.active
  nofail : ∀ j, s.rpc ≠ .failed j
  bound : ∀ t, s.pc t ≠ .start → t < s.n

theorem invG_init (b : Int) (tk : Nat) : InvG (init b tk) := by
  constructor <;> simp [init, seqOK, lastSeq, Linked, headFinal, instOf, holds, uncounted, counted, quietPC, isMid, RPC.early, RPC.quiet, RPC.fresh, RPC.preCopy]

macro "inv_close" : tactic => `(tactic| (constructor <;> simp only [seqOK] at * <;> grind))

theorem invG_spawn {s s' : St} (hi : InvG s) (h : step? s .spawn = some s') : InvG s' := by
  simp only [step?] at h
  simp at h; subst h
  obtain ⟨a1,a2,a3,a4,a5,a6,a7,a8,a9,a10,a11,a12,a13,a14,a15,a16,a17,a18⟩ := hi
  constructor <;> simp only [seqOK] at * <;> grind

theorem invG_gate {s s' : St} {t : Nat} (hi : InvG s) (h : step? s (.gate t) = some s') : InvG s' := by
  simp only [step?] at h
  obtain ⟨a1,a2,a3,a4,a5,a6,a7,a8,a9,a10,a11,a12,a13,a14,a15,a16,a17,a18⟩ := hi
  split at h
  · split at h
    · split at h
      · simp at h
      · simp at h; subst h
        constructor <;> simp only [seqOK] at * <;> grind
    · simp at h
  · simp at h

theorem invG_getActive {s s' : St} {t : Nat} (hi : InvG s) (h : step? s (.getActive t) = some s') : InvG s' := by
  simp only [step?] at h
  obtain ⟨a1,a2,a3,a4,a5,a6,a7,a8,a9,a10,a11,a12,a13,a14,a15,a16,a17,a18⟩ := hi
  split at h
  · simp at h; subst h
    constructor <;> simp only [seqOK] at * <;> grind
  · simp at h

theorem invG_pendAdd {s s' : St} {t : Nat} (hi : InvG s) (h : step? s (.pendAdd t) = some s') : InvG s' := by
  simp only [step?] at h
  obtain ⟨a1,a2,a3,a4,a5,a6,a7,a8,a9,a10,a11,a12,a13,a14,a15,a16,a17,a18⟩ := hi
  split at h
  · simp at h; subst h; inv_close
  · simp at h

theorem invG_respGetActive {s s' : St} {t : Nat} (hi : InvG s) (hg : Guard s (.respGetActive t))
    (h : step? s (.respGetActive t) = some s') : InvG s' := by
  simp only [step?] at h
  simp only [Guard] at hg
  obtain ⟨a1,a2,a3,a4,a5,a6,a7,a8,a9,a10,a11,a12,a13,a14,a15,a16,a17,a18⟩ := hi
  split at h
  · split at h
    · simp at h; subst h; inv_close
    · simp at h
  · simp at h

theorem invG_lockInst {s s' : St} {t : Nat} (hi : InvG s) (h : step? s (.lockInst t) = some s') : InvG s' := by
  simp only [step?] at h
  obtain ⟨a1,a2,a3,a4,a5,a6,a7,a8,a9,a10,a11,a12,a13,a14,a15,a16,a17,a18⟩ := hi
  split at h
  · split at h
    · simp at h; subst h; inv_close
    · simp at h
  · split at h
    · simp at h; subst h; inv_close
    · simp at h
  · simp at h

theorem invG_newMsg {s s' : St} {t cnt : Nat} (hi : InvG s) (h : step? s (.newMsg t cnt) = some s') : InvG s' := by
  simp only [step?] at h
  obtain ⟨a1,a2,a3,a4,a5,a6,a7,a8,a9,a10,a11,a12,a13,a14,a15,a16,a17,a18⟩ := hi
  split at h
  · next i req hpc =>
    split at h
    · simp at h
    · simp at h; subst h
      have hact : i = s.active := a2 t i (by simp [hpc, instOf])
      have hh : s.holder i = some (.s t) := a6 t i (by simp [hpc, holds])
      subst hact
      inv_close
  · simp at h

theorem invG_unlockInst {s s' : St} {t : Nat} (hi : InvG s) (h : step? s (.unlockInst t) = some s') : InvG s' := by
  simp only [step?] at h
  obtain ⟨a1,a2,a3,a4,a5,a6,a7,a8,a9,a10,a11,a12,a13,a14,a15,a16,a17,a18⟩ := hi
  split at h
  · next i req hpc =>
    simp at h; subst h
    have hact : i = s.active := a2 t i (by simp [hpc, instOf])
    have hh : s.holder i = some (.s t) := a6 t i (by simp [hpc, holds])
    subst hact
    cases req <;> inv_close
  · next i req idx cnt hpc =>
    split at h
    · simp at h; subst h
      have hact : i = s.active := a2 t i (by simp [hpc, instOf])
      have hh : s.holder i = some (.s t) := a6 t i (by simp [hpc, holds])
      subst hact
      cases req <;> inv_close
    · simp at h
  · simp at h

theorem invG_write {s s' : St} {t : Nat} {sq : Int} (hi : InvG s) (h : step? s (.write t sq) = some s') : InvG s' := by
  simp only [step?] at h
  obtain ⟨a1,a2,a3,a4,a5,a6,a7,a8,a9,a10,a11,a12,a13,a14,a15,a16,a17,a18⟩ := hi
  split at h
  · next i req idx cnt hpc =>
    split at h
    · next hlt =>
      by_cases hv : (if idx = 0 then s.seq i else next (s.seq i)) = sq
      · simp only [hv, if_true] at h
        simp only [Option.some.injEq] at h; subst h
        have hact : i = s.active := a2 t i (by simp [hpc, instOf])
        have hh : s.holder i = some (.s t) := a6 t i (by simp [hpc, holds])
        subst hact
        have hnq : s.rpc.quiet = false := by
          cases hq : s.rpc.quiet
          · rfl
          · have := a4 hq t; simp [hpc, quietPC] at this
        have hfr : s.rpc.fresh = none := by
          cases hf : s.rpc.fresh
          · rfl
          · have := fresh_quiet _ _ hf; simp [hnq] at this
        have hseq := a8 hfr
        simp only [seqOK, hh] at hseq
        -- the new chunk links to the wire
        have hlink : Linked s.base ({ inst := s.active, tok := s.tok s.active, seq := sq, msg := t, opn := false, idx := idx, cnt := cnt } :: s.wire) := by
          apply linked_cons a15
          · simp only
            rw [← hv]
            cases idx with
            | zero => simp [hpc, isW0] at hseq; simp [hseq]
            | succ k => simp [hpc, isW0] at hseq; simp [hseq]
          · intro h0
            simp only at h0
            subst h0
            apply a14
            cases hm : s.mid with
            | none => rfl
            | some t' =>
              have m1 := a12 t' hm
              have : holds (s.pc t') = some s.active := by
                cases hp : s.pc t' <;> simp [hp, isMid] at m1
                next i' r' x' c' => simp [holds]; exact a2 t' i' (by simp [hp, instOf])
              have := a6 t' _ this
              rw [hh] at this
              simp at this; subst this
              simp [hpc, isMid] at m1
          · intro hne
            simp only at hne
            cases idx with
            | zero => exact absurd rfl hne
            | succ k => exact ⟨k, rfl, a11 t _ _ _ _ hpc, rfl⟩
        have excl : ∀ t1 i, holds (s.pc t1) = some i → t1 = t := by
          intro t1 i hh1
          have e1 : i = s.active := a2 t1 i (by cases hp : s.pc t1 <;> simp [hp, holds, instOf] at hh1 ⊢ <;> exact hh1)
          subst e1
          have := a6 t1 _ hh1
          rw [hh] at this
          simp at this; exact this.symm
        constructor
        case linked => exact hlink
        case seqA =>
          intro _
          simp [seqOK, hh, lastSeq, isW0]
        case w1 =>
          intro t1 i1 r1 k c1 hp1
          simp only [upd_apply] at hp1
          by_cases ht : t1 = t
          · subst ht
            simp at hp1
            obtain ⟨_, _, hk, hc⟩ := hp1
            simp [headIs]; omega
          · simp [ht] at hp1
            exact absurd (excl t1 i1 (by simp [hp1, holds])) ht
        case midB =>
          intro t1 hm1
          simp only [upd_apply] at hm1
          by_cases ht : t1 = t
          · subst ht
            simp [isMid] at hm1
            simp [hm1]
          · simp [ht] at hm1
            have : ∃ i, holds (s.pc t1) = some i := by
              cases hp : s.pc t1 <;> simp [hp, isMid] at hm1
              simp [holds]
            obtain ⟨i1, hi1⟩ := this
            exact absurd (excl t1 i1 hi1) ht
        case midN =>
          intro hm
          simp only at hm
          simp only [headFinal]
          by_cases hl : idx + 1 < cnt
          · simp [hl] at hm
          · omega
        all_goals (simp only [seqOK] at * ; grind)
      · simp [hv] at h
    · simp at h
  · simp at h

theorem invG_settle {s : St} (hi : InvG s) (hq : s.rpc = .waiting → s.pend = [] → ∀ t, quietPC (s.pc t) = true) : InvG (settle s) := by
  unfold settle
  split
  · next hc =>
    obtain ⟨a1,a2,a3,a4,a5,a6,a7,a8,a9,a10,a11,a12,a13,a14,a15,a16,a17,a18⟩ := hi
    have hq' := hq hc.1 hc.2
    constructor <;> simp only [seqOK] at * <;> grind
  · exact hi

theorem invG_pendDone {s s' : St} {t : Nat} (hi : InvG s) (h : step? s (.pendDone t) = some s') : InvG s' := by
  simp only [step?] at h
  split at h
  · next i hpc =>
    simp at h; subst h
    apply invG_settle
    · obtain ⟨a1,a2,a3,a4,a5,a6,a7,a8,a9,a10,a11,a12,a13,a14,a15,a16,a17,a18⟩ := hi
      inv_close
    · intro hw he t1
      obtain ⟨a1,a2,a3,a4,a5,a6,a7,a8,a9,a10,a11,a12,a13,a14,a15,a16,a17,a18⟩ := hi
      simp only at hw he ⊢
      have e3 := a3 (by simp [hw, RPC.early]) t1
      simp only [upd_apply]
      by_cases ht : t1 = t
      · simp [ht, quietPC]
      · simp only [ht, if_false]
        have e5 : counted (s.pc t1) = false := by
          cases hc : counted (s.pc t1)
          · rfl
          · have m := a5 t1 hc
            have : Who.s t1 ∈ s.pend.erase (Who.s t) := (List.mem_erase_of_ne (by simp [ht])).2 m
            rw [he] at this; simp at this
        cases hp : s.pc t1 <;> simp_all [quietPC, counted, uncounted]
  · simp at h

theorem invG_rLock {s s' : St} (hi : InvG s) (hg : Guard s .rLock) (h : step? s .rLock = some s') : InvG s' := by
  simp only [step?] at h
  simp only [Guard] at hg
  obtain ⟨a1,a2,a3,a4,a5,a6,a7,a8,a9,a10,a11,a12,a13,a14,a15,a16,a17,a18⟩ := hi
  have hg' : ∀ t, uncounted (s.pc t) = false := by
    intro t
    by_cases hs : s.pc t = .start
    · simp [hs, uncounted]
    · exact hg t (a18 t hs)
  split at h
  · split at h
    · simp at h; subst h; inv_close
    · simp at h
  · simp at h

theorem invG_rWaitDone {s s' : St} (hi : InvG s) (h : step? s .rWaitDone = some s') : InvG s' := by
  simp only [step?] at h
  obtain ⟨a1,a2,a3,a4,a5,a6,a7,a8,a9,a10,a11,a12,a13,a14,a15,a16,a17,a18⟩ := hi
  split at h
  · simp at h; subst h; inv_close
  · simp at h

theorem invG_rLockOld {s s' : St} (hi : InvG s) (h : step? s .rLockOld = some s') : InvG s' := by
  simp only [step?] at h
  obtain ⟨a1,a2,a3,a4,a5,a6,a7,a8,a9,a10,a11,a12,a13,a14,a15,a16,a17,a18⟩ := hi
  split at h
  · split at h
    · simp at h; subst h; inv_close
    · simp at h
  · simp at h

theorem invG_rInstall {s s' : St} {tk : Nat} (hi : InvG s) (h : step? s (.rInstall tk) = some s') : InvG s' := by
  simp only [step?] at h
  obtain ⟨a1,a2,a3,a4,a5,a6,a7,a8,a9,a10,a11,a12,a13,a14,a15,a16,a17,a18⟩ := hi
  split at h
  · simp at h; subst h; inv_close
  · simp at h

theorem invG_rUnlockOld {s s' : St} (hi : InvG s) (h : step? s .rUnlockOld = some s') : InvG s' := by
  simp only [step?] at h
  obtain ⟨a1,a2,a3,a4,a5,a6,a7,a8,a9,a10,a11,a12,a13,a14,a15,a16,a17,a18⟩ := hi
  split at h
  · simp at h; subst h; inv_close
  · next j hr => exact absurd hr (a17 j)
  · simp at h

theorem invG_rUnlock {s s' : St} (hi : InvG s) (h : step? s .rUnlock = some s') : InvG s' := by
  simp only [step?] at h
  obtain ⟨a1,a2,a3,a4,a5,a6,a7,a8,a9,a10,a11,a12,a13,a14,a15,a16,a17,a18⟩ := hi
  split at h
  · simp at h; subst h; inv_close
  · simp at h

theorem invG_rWaitBegin {s s' : St} (hi : InvG s) (h : step? s .rWaitBegin = some s') : InvG s' := by
  simp only [step?] at h
  split at h
  · next hr =>
    simp at h; subst h
    obtain ⟨a1,a2,a3,a4,a5,a6,a7,a8,a9,a10,a11,a12,a13,a14,a15,a16,a17,a18⟩ := hi
    apply invG_settle
    · inv_close
    · intro _ he t1
      simp only at he ⊢
      have e3 := a3 (by simp [hr, RPC.early]) t1
      have e5 : counted (s.pc t1) = false := by
        cases hc : counted (s.pc t1)
        · rfl
        · have m := a5 t1 hc
          rw [he] at m; simp at m
      cases hp : s.pc t1 <;> simp_all [quietPC, counted, uncounted]
  · simp at h

theorem invG_rCopy {s s' : St} (hi : InvG s) (h : step? s .rCopy = some s') : InvG s' := by
  simp only [step?] at h
  obtain ⟨a1,a2,a3,a4,a5,a6,a7,a8,a9,a10,a11,a12,a13,a14,a15,a16,a17,a18⟩ := hi
  split at h
  · next hr =>
    simp at h; subst h
    have hq := a4 (by simp [hr, RPC.quiet])
    have ho := a16 (by simp [hr, RPC.preCopy])
    have hs := a8 (by simp [hr, RPC.fresh])
    have hnone : ∀ t i, s.holder i ≠ some (Who.s t) := by
      intro t i hh
      have := a7 t i hh
      have q := quiet_pc _ (hq t)
      rw [q.2.1] at this; simp at this
    have hseq : s.seq s.old = lastSeq s.base s.wire := by
      rw [ho]
      simp only [seqOK] at hs
      rw [hs]
      split
      · next t hh => exact absurd hh (hnone t _)
      · rfl
    constructor
    case seqF =>
      intro j hj
      simp [RPC.fresh] at hj
      subst hj
      simp [hseq]
    all_goals (simp only [seqOK] at * ; grind)
  · simp at h

theorem invG_rSendOPN {s s' : St} {sq : Int} (hi : InvG s) (h : step? s (.rSendOPN sq) = some s') : InvG s' := by
  simp only [step?] at h
  obtain ⟨a1,a2,a3,a4,a5,a6,a7,a8,a9,a10,a11,a12,a13,a14,a15,a16,a17,a18⟩ := hi
  split at h
  · next j hr =>
    split at h
    · next hv =>
      simp at h; subst h
      have hq := a4 (by simp [hr, RPC.quiet])
      have hf := a9 j (by simp [hr, RPC.fresh])
      have hmid : s.mid = none := by
        cases hm : s.mid with
        | none => rfl
        | some t' =>
          have := a12 t' hm
          have q := quiet_pc _ (hq t')
          rw [q.2.2.2.2.2] at this; simp at this
      have hlink : Linked s.base ({ inst := j, tok := 0, seq := next (s.seq j), msg := 0, opn := true, idx := 0, cnt := 1 } :: s.wire) := by
        apply linked_cons a15
        · simp [hf.1]
        · intro _; exact a14 hmid
        · intro hne; simp at hne
      constructor
      case linked => exact hlink
      case seqF =>
        intro j' hj'
        simp [RPC.fresh] at hj'
        subst hj'
        simp [lastSeq, hf.2]
      case midN => intro _; simp [headFinal]
      case w1 =>
        intro t1 i1 r1 k c1 hp1
        have q := hq t1
        simp only at hp1
        rw [hp1] at q
        simp [quietPC] at q
      all_goals (simp only [seqOK] at * ; grind)
    · simp at h
  · simp at h

theorem invG_step {s s' : St} {l : Label} (hi : InvG s) (hg : Guard s l) (h : step? s l = some s') : InvG s' := by
  cases l with
  | spawn => exact invG_spawn hi h
  | gate t => exact invG_gate hi h
  | getActive t => exact invG_getActive hi h
  | pendAdd t => exact invG_pendAdd hi h
  | respGetActive t => exact invG_respGetActive hi hg h
  | lockInst t => exact invG_lockInst hi h
  | newMsg t cnt => exact invG_newMsg hi h
  | write t sq => exact invG_write hi h
  | abort t => exact absurd hg (by simp [Guard])
  | unlockInst t => exact invG_unlockInst hi h
  | pendDone t => exact invG_pendDone hi h
  | rLock => exact invG_rLock hi hg h
  | rWaitBegin => exact invG_rWaitBegin hi h
  | rWaitDone => exact invG_rWaitDone hi h
  | rLockOld => exact invG_rLockOld hi h
  | rCopy => exact invG_rCopy hi h
  | rSendOPN sq => exact invG_rSendOPN hi h
  | rInstall tk => exact invG_rInstall hi h
  | rFail => exact absurd hg (by simp [Guard])
  | rUnlockOld => exact invG_rUnlockOld hi h
  | rUnlock => exact invG_rUnlock hi h

/-- the invariant holds in every state reachable under the guard -/
theorem reachableG_inv {s : St} (h : ReachableG s) : InvG s := by
  induction h with
  | init b tk => exact invG_init b tk
  | step l _ hg hs ih => exact invG_step ih hg hs

theorem reachableG_reachable {s : St} (h : ReachableG s) : Reachable s := by
  induction h with
  | init b tk => exact Reachable.init b tk
  | step l _ _ hs ih => exact Reachable.step l ih hs

end Opcua.SendSeq
