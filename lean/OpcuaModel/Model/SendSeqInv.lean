import OpcuaModel.Model.SendSeq
/-
  The guarded system of C11 / C16(b) and its inductive invariant.

  Guard (decidable): a renewal only starts (`rLock`) when no sender is between
  the gate and `pendingReq.Add` (`gated`, `hasActive`) and no response sender
  is in flight; response senders only start while no renewal runs; no send is
  aborted between drawing its number and writing the chunk; the renewal is
  answered (`rFail` does not occur).
-/
namespace Opcua.SendSeq

@[grind] def instOf : PC → Option Nat
  | .start => none
  | .gated => none
  | .hasActive i => some i
  | .added i => some i
  | .respActive i => some i
  | .locked i _ => some i
  | .writing i _ _ _ => some i
  | .unlocked i => some i
  | .done => none

@[grind] def holds : PC → Option Nat
  | .start => none
  | .gated => none
  | .hasActive _ => none
  | .added _ => none
  | .respActive _ => none
  | .locked i _ => some i
  | .writing i _ _ _ => some i
  | .unlocked _ => none
  | .done => none

/-- in flight but not (yet) counted by `pendingReq` -/
@[grind] def uncounted : PC → Bool
  | .start => false
  | .gated => true
  | .hasActive _ => true
  | .added _ => false
  | .respActive _ => true
  | .locked _ req => !req
  | .writing _ req _ _ => !req
  | .unlocked _ => false
  | .done => false

@[grind] def counted : PC → Bool
  | .start => false
  | .gated => false
  | .hasActive _ => false
  | .added _ => true
  | .respActive _ => false
  | .locked _ req => req
  | .writing _ req _ _ => req
  | .unlocked _ => true
  | .done => false

@[grind] def quietPC : PC → Bool
  | .start => true
  | .gated => false
  | .hasActive _ => false
  | .added _ => false
  | .respActive _ => false
  | .locked _ _ => false
  | .writing _ _ _ _ => false
  | .unlocked _ => false
  | .done => true

@[grind] def isW0 : PC → Bool
  | .start => false
  | .gated => false
  | .hasActive _ => false
  | .added _ => false
  | .respActive _ => false
  | .locked _ _ => false
  | .writing _ _ idx _ => decide (idx = 0)
  | .unlocked _ => false
  | .done => false

@[grind] def isMid : PC → Bool
  | .start => false
  | .gated => false
  | .hasActive _ => false
  | .added _ => false
  | .respActive _ => false
  | .locked _ _ => false
  | .writing _ _ idx cnt => decide (0 < idx ∧ idx < cnt)
  | .unlocked _ => false
  | .done => false

@[grind] def RPC.early : RPC → Bool
  | .idle => false
  | .gateLocked => true
  | .waiting => true
  | .waited => false
  | .wantOld => false
  | .holdOld => false
  | .copied _ => false
  | .sent _ => false
  | .installed _ => false
  | .failed _ => false
  | .releasedOld => false

@[grind] def RPC.quiet : RPC → Bool
  | .idle => false
  | .gateLocked => false
  | .waiting => false
  | .waited => true
  | .wantOld => true
  | .holdOld => true
  | .copied _ => true
  | .sent _ => true
  | .installed _ => true
  | .failed _ => false
  | .releasedOld => true

@[grind] def RPC.preCopy : RPC → Bool
  | .idle => false
  | .gateLocked => true
  | .waiting => true
  | .waited => true
  | .wantOld => true
  | .holdOld => true
  | .copied _ => false
  | .sent _ => false
  | .installed _ => false
  | .failed _ => false
  | .releasedOld => false

@[grind] def RPC.fresh : RPC → Option Nat
  | .idle => none
  | .gateLocked => none
  | .waiting => none
  | .waited => none
  | .wantOld => none
  | .holdOld => none
  | .copied j => some j
  | .sent j => some j
  | .installed _ => none
  | .failed _ => none
  | .releasedOld => none

@[grind →] theorem fresh_quiet (r : RPC) (j : Nat) (h : r.fresh = some j) : r.quiet = true := by
  cases r <;> simp_all [RPC.fresh, RPC.quiet]

@[grind →] theorem quiet_not_idle (r : RPC) (h : r.quiet = true) : r ≠ .idle ∧ r.early = false := by
  cases r <;> simp_all [RPC.quiet, RPC.early]

@[grind →] theorem early_not_idle (r : RPC) (h : r.early = true) : r ≠ .idle ∧ r.quiet = false ∧ r.fresh = none ∧ r.preCopy = true := by
  cases r <;> simp_all [RPC.quiet, RPC.early, RPC.fresh, RPC.preCopy]

@[grind →] theorem quiet_pc (p : PC) (h : quietPC p = true) :
    instOf p = none ∧ holds p = none ∧ uncounted p = false ∧ counted p = false ∧ isW0 p = false ∧ isMid p = false := by
  cases p <;> simp_all [quietPC, instOf, holds, uncounted, counted, isW0, isMid]

def Guard (s : St) : Label → Prop
  | .rLock => ∀ t, t < s.n → uncounted (s.pc t) = false
  | .respGetActive _ => s.rpc = .idle
  | .abort _ => False
  | .rFail => False
  | _ => True

instance (s : St) (l : Label) : Decidable (Guard s l) := by
  cases l <;> simp only [Guard] <;> exact inferInstance

/-- reachable without leaving the guard -/
inductive ReachableG : St → Prop where
  | init (b : Int) (tk : Nat) : ReachableG (init b tk)
  | step {s s' : St} (l : Label) : ReachableG s → Guard s l → step? s l = some s' → ReachableG s'

/-- counter of instance i in terms of the wire -/
def seqOK (s : St) (i : Nat) : Prop :=
  s.seq i = match s.holder i with
    | some (.s t) => if isW0 (s.pc t) then next (lastSeq s.base s.wire) else lastSeq s.base s.wire
    | _ => lastSeq s.base s.wire

structure InvG (s : St) : Prop where
  gate : s.rpc = .idle ↔ s.reqLocked = false
  mention : ∀ t i, instOf (s.pc t) = some i → i = s.active
  early : s.rpc.early = true → ∀ t, uncounted (s.pc t) = false
  quiet : s.rpc.quiet = true → ∀ t, quietPC (s.pc t) = true
  pend : ∀ t, counted (s.pc t) = true → Who.s t ∈ s.pend
  mutexA : ∀ t i, holds (s.pc t) = some i → s.holder i = some (.s t)
  mutexB : ∀ t i, s.holder i = some (.s t) → holds (s.pc t) = some i
  seqA : s.rpc.fresh = none → seqOK s s.active
  seqF : ∀ j, s.rpc.fresh = some j → s.seq j = lastSeq s.base s.wire ∧ s.holder j = none
  w0 : ∀ t i req idx cnt, s.pc t = .writing i req idx cnt → idx ≤ cnt ∧ 0 < cnt
  w1 : ∀ t i req k cnt, s.pc t = .writing i req (k + 1) cnt → headIs s.wire t k cnt
  midA : ∀ t, s.mid = some t → isMid (s.pc t) = true
  midB : ∀ t, isMid (s.pc t) = true → s.mid = some t
  midN : s.mid = none → headFinal s.wire
  linked : Linked s.base s.wire
  oldAct : s.rpc.preCopy = true → s.old = s.active
  nofail : ∀ j, s.rpc ≠ .failed j
  bound : ∀ t, s.pc t ≠ .start → t < s.n

theorem invG_init (b : Int) (tk : Nat) : InvG (init b tk) := by
  constructor <;> simp [init, seqOK, lastSeq, Linked, headFinal, instOf, holds, uncounted, counted, quietPC, isMid, RPC.early, RPC.quiet, RPC.fresh, RPC.preCopy]

end Opcua.SendSeq
