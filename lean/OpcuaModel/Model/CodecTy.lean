/-
  Type universe of the binary codec model (properties C01–C03).

  `Ty` describes a Go type exactly as `ua/encode.go` / `ua/decode.go` walk it
  by reflection.  `Gen/Types.lean` (regenerated from the `ua` type registries
  on every run) contains one descriptor per registered type.

  * `int w`        every integer kind of `w` bytes (values are bit patterns)
  * `bytes`        `[]byte` (the fast path of writeSlice / decodeSlice)
  * `slice e`      any other slice
  * `ptr e`        a pointer whose type does not implement BinaryEncoder
  * `struct fs`    a struct, fields in declaration order
  * the last eight constructors are the pointer types with hand-written
    codecs (`*ua.GUID`, `*ua.NodeID`, …); the pointer is part of the type.
-/
namespace Opcua.Codec

inductive Ty where
  | bool
  | int (w : Nat)
  | f32
  | f64
  | string
  | time
  | bytes
  | slice (e : Ty)
  | ptr (e : Ty)
  | struct (fs : List Ty)
  | guid
  | nodeId
  | expNodeId
  | locText
  | diag
  | dataValue
  | variant
  | extObj
  deriving Repr, Inhabited

/-- One entry of a `ua.TypeRegistry`: the numeric id `N` of the key `i=N`, the
    Go name of the registered struct (`*ua.<name>`) and its descriptor. -/
structure RegEntry where
  id : Nat
  name : String
  ty : Ty
  deriving Repr, Inhabited

end Opcua.Codec
