import OpcuaModel.Base.Bytes
import OpcuaModel.Gen.SecPolicy
/-
  Model of `opcua.SelectEndpoint` (client.go) and `ua.FormatSecurityPolicyURI`
  (ua/enums.go), statement by statement.  Go strings are byte strings
  (`Bytes`); `SecurityLevel` is a byte, `MessageSecurityMode` a uint32 — both
  are only compared, so `Nat` carries them.

      func SelectEndpoint(endpoints, policy, mode) {
          if len(endpoints) == 0 { return nil, err }
          sort.Sort(sort.Reverse(bySecurityLevel(endpoints)))
          policy = ua.FormatSecurityPolicyURI(policy)
          if policy == "" && mode == Invalid { return endpoints[0], nil }
          for _, p := range endpoints {
              if policy == "" && p.SecurityMode == mode { return p, nil }
              if p.SecurityPolicyURI == policy && mode == Invalid { return p, nil }
              if p.SecurityPolicyURI == policy && p.SecurityMode == mode { return p, nil }
          }
          return nil, err
      }

  `sort.Sort` is not stable and its algorithm is not part of its contract: the
  model is parametric in the sorted list — ANY permutation of the input whose
  levels are non-increasing — and the theorems quantify over all of them.
-/
namespace Opcua.EndpointSel
open Opcua

structure Endpoint where
  uri : Bytes
  mode : Nat
  level : Nat
  deriving DecidableEq, Repr

/-- `ua.FormatSecurityPolicyURI` over an arbitrary table / prefix -/
def formatWith (tbl : List (Bytes × Bytes)) (pre : Bytes) (policy : Bytes) : Bytes :=
  if policy = [] then []
  else match tbl.lookup policy with
    | some u => u
    | none => if ¬ pre.isPrefixOf policy then pre ++ policy else policy

/-- `ua.FormatSecurityPolicyURI` with the table and prefix generated from package `ua` -/
def formatPolicy (policy : Bytes) : Bytes :=
  formatWith Gen.secPolicyTable Gen.secPolicyPrefix policy

/-- the three `if`s of the loop body, in the code's order -/
def loopCond (policy : Bytes) (mode : Nat) (p : Endpoint) : Bool :=
  (policy == [] && p.mode == mode) ||
  (p.uri == policy && mode == Gen.modeInvalid) ||
  (p.uri == policy && p.mode == mode)

/-- everything after `sort.Sort`: `sorted` is the slice as the sort left it -/
def selectSorted (sorted : List Endpoint) (policy0 : Bytes) (mode : Nat) : Option Endpoint :=
  let policy := formatPolicy policy0
  if policy = [] ∧ mode = Gen.modeInvalid then sorted.head?
  else sorted.find? (loopCond policy mode)

/-- the whole function, parametric in the sort; `none` = the error return -/
def selectWith (sort : List Endpoint → List Endpoint) (eps : List Endpoint) (policy0 : Bytes) (mode : Nat) :
    Option Endpoint :=
  if eps.length = 0 then none else selectSorted (sort eps) policy0 mode

/-- the sort the driver runs (insertion sort, descending by level): one
    admissible instance of `sort.Sort(sort.Reverse(…))` -/
def insDesc (a : Endpoint) : List Endpoint → List Endpoint
  | [] => [a]
  | b :: r => if b.level ≤ a.level then a :: b :: r else b :: insDesc a r

def sortDesc : List Endpoint → List Endpoint
  | [] => []
  | a :: r => insDesc a (sortDesc r)

/-- what the sort guarantees: a permutation with non-increasing levels -/
def SortedDescOf (l' l : List Endpoint) : Prop :=
  l'.Perm l ∧ l'.Pairwise (fun a b => b.level ≤ a.level)

/-- the SPECIFICATION of "matches the request" (policy already normalised):
    each criterion is either "don't care" or met -/
def Matches (policy : Bytes) (mode : Nat) (e : Endpoint) : Prop :=
  (policy = [] ∨ e.uri = policy) ∧ (mode = Gen.modeInvalid ∨ e.mode = mode)

instance (policy : Bytes) (mode : Nat) (e : Endpoint) : Decidable (Matches policy mode e) := by
  unfold Matches; infer_instance

/-! ### lemmas -/

theorem insDesc_perm (a : Endpoint) : ∀ l : List Endpoint, (insDesc a l).Perm (a :: l)
  | [] => List.Perm.refl _
  | b :: r => by
    simp only [insDesc]
    split
    · exact List.Perm.refl _
    · exact ((insDesc_perm a r).cons b).trans (List.Perm.swap a b r)

theorem insDesc_sorted (a : Endpoint) : ∀ l : List Endpoint, l.Pairwise (fun x y => y.level ≤ x.level) →
    (insDesc a l).Pairwise (fun x y => y.level ≤ x.level)
  | [], _ => by simp [insDesc]
  | b :: r, h => by
    simp only [insDesc]
    rw [List.pairwise_cons] at h
    split
    · rename_i hba
      rw [List.pairwise_cons]
      refine ⟨?_, List.pairwise_cons.mpr h⟩
      intro y hy
      rcases List.mem_cons.mp hy with rfl | hr
      · exact hba
      · exact Nat.le_trans (h.1 y hr) hba
    · rename_i hba
      rw [List.pairwise_cons]
      refine ⟨?_, insDesc_sorted a r h.2⟩
      intro y hy
      have := (insDesc_perm a r).mem_iff.mp hy
      rcases List.mem_cons.mp this with rfl | hr
      · omega
      · exact h.1 y hr

theorem sortDesc_contract : ∀ l : List Endpoint, SortedDescOf (sortDesc l) l
  | [] => ⟨List.Perm.refl _, List.Pairwise.nil⟩
  | a :: r => by
    have ih := sortDesc_contract r
    exact ⟨(insDesc_perm a _).trans (ih.1.cons a), insDesc_sorted a _ ih.2⟩

/-- whenever the loop is entered (not both criteria "don't care"), its condition
    is exactly the specification's `Matches` -/
theorem loopCond_iff (policy : Bytes) (mode : Nat) (p : Endpoint)
    (hentered : ¬ (policy = [] ∧ mode = Gen.modeInvalid)) :
    loopCond policy mode p = true ↔ Matches policy mode p := by
  simp only [loopCond, Matches, Bool.or_eq_true, Bool.and_eq_true, beq_iff_eq]
  constructor
  · rintro ((⟨h1, h2⟩ | ⟨h1, h2⟩) | ⟨h1, h2⟩)
    · exact ⟨Or.inl h1, Or.inr h2⟩
    · exact ⟨Or.inr h1, Or.inl h2⟩
    · exact ⟨Or.inr h1, Or.inr h2⟩
  · rintro ⟨h1 | h1, h2 | h2⟩
    · exact absurd ⟨h1, h2⟩ hentered
    · exact Or.inl (Or.inl ⟨h1, h2⟩)
    · exact Or.inl (Or.inr ⟨h1, h2⟩)
    · exact Or.inr ⟨h1, h2⟩

/-- in a list with non-increasing levels the first element satisfying `p` has
    the highest level among those satisfying `p` -/
theorem find_sorted_max {p : Endpoint → Bool} :
    ∀ {l : List Endpoint} {e : Endpoint}, l.Pairwise (fun a b => b.level ≤ a.level) →
      l.find? p = some e → ∀ e' ∈ l, p e' = true → e'.level ≤ e.level
  | [], _, _, h => by simp at h
  | a :: r, e, hs, h => by
    intro e' he' hp
    rw [List.pairwise_cons] at hs
    rw [List.find?_cons] at h
    cases hpa : p a with
    | true =>
      rw [hpa] at h
      cases h
      rcases List.mem_cons.mp he' with rfl | hr
      · exact Nat.le_refl _
      · exact hs.1 e' hr
    | false =>
      rw [hpa] at h
      rcases List.mem_cons.mp he' with rfl | hr
      · rw [hpa] at hp; cases hp
      · exact find_sorted_max hs.2 h e' hr hp

theorem head_sorted_max :
    ∀ {l : List Endpoint} {e : Endpoint}, l.Pairwise (fun a b => b.level ≤ a.level) →
      l.head? = some e → ∀ e' ∈ l, e'.level ≤ e.level
  | [], _, _, h => by simp at h
  | a :: r, e, hs, h => by
    intro e' he'
    rw [List.pairwise_cons] at hs
    simp only [List.head?_cons, Option.some.injEq] at h
    subst h
    rcases List.mem_cons.mp he' with rfl | hr
    · exact Nat.le_refl _
    · exact hs.1 e' hr

/-! ### normalisation -/

theorem lookup_mem {k : Bytes} {u : Bytes} : ∀ {tbl : List (Bytes × Bytes)}, tbl.lookup k = some u → (k, u) ∈ tbl
  | [], h => by simp at h
  | (a, b) :: r, h => by
    rw [List.lookup_cons] at h
    cases hk : (k == a) with
    | true =>
      rw [hk] at h
      simp only [Option.some.injEq] at h
      have : k = a := by simpa using hk
      subst this; subst h; exact List.mem_cons_self
    | false =>
      rw [hk] at h
      exact List.mem_cons_of_mem _ (lookup_mem h)

/-- the three facts about the table the normalisation lemmas need; decided on
    the generated table in Props/C24 -/
structure TableOk (tbl : List (Bytes × Bytes)) (pre : Bytes) : Prop where
  /-- every value is a URI under the prefix, with a non-empty fragment -/
  vals : ∀ kv ∈ tbl, pre.isPrefixOf kv.2 = true ∧ kv.2 ≠ pre
  /-- no key looks like a URI -/
  keys : ∀ kv ∈ tbl, pre.isPrefixOf kv.1 = false
  /-- the prefix is not empty -/
  pre_ne : pre ≠ []

theorem lookup_none_of_prefix {tbl : List (Bytes × Bytes)} {pre p : Bytes} (ok : TableOk tbl pre)
    (hp : pre.isPrefixOf p = true) : tbl.lookup p = none := by
  cases h : tbl.lookup p with
  | none => rfl
  | some u =>
    have := ok.keys _ (lookup_mem h)
    simp only [hp] at this
    cases this

theorem isPrefixOf_append_self (pre p : Bytes) : pre.isPrefixOf (pre ++ p) = true := by
  rw [List.isPrefixOf_iff_prefix]; exact List.prefix_append _ _

section
variable {tbl : List (Bytes × Bytes)} {pre : Bytes}

theorem formatWith_nil : formatWith tbl pre [] = [] := by simp [formatWith]

theorem formatWith_key {k u : Bytes} (hk : k ≠ []) (h : tbl.lookup k = some u) : formatWith tbl pre k = u := by
  simp [formatWith, hk, h]

theorem formatWith_uri (ok : TableOk tbl pre) {p : Bytes} (hp : pre.isPrefixOf p = true) :
    formatWith tbl pre p = p := by
  have hne : p ≠ [] := by
    intro h; subst h
    have := ok.pre_ne
    cases pre with
    | nil => exact this rfl
    | cons a r => simp [List.isPrefixOf] at hp
  simp [formatWith, hne, lookup_none_of_prefix ok hp, hp]

theorem formatWith_other {p : Bytes} (hne : p ≠ []) (hl : tbl.lookup p = none)
    (hp : pre.isPrefixOf p = false) : formatWith tbl pre p = pre ++ p := by
  simp [formatWith, hne, hl, hp]

/-- the result is empty exactly for the empty request -/
theorem formatWith_eq_nil_iff (ok : TableOk tbl pre) (p : Bytes) : formatWith tbl pre p = [] ↔ p = [] := by
  constructor
  · intro h
    by_cases hne : p = []
    · exact hne
    · exfalso
      simp only [formatWith, hne, if_false] at h
      split at h
      · rename_i u hu
        have := (ok.vals _ (lookup_mem hu)).1
        subst h
        have hpre := ok.pre_ne
        cases pre with
        | nil => exact hpre rfl
        | cons a r => simp [List.isPrefixOf] at this
      · split at h
        · have : pre = [] := (List.append_eq_nil_iff.mp h).1
          exact ok.pre_ne this
        · exact hne h
  · intro h; subst h; exact formatWith_nil

/-- every non-empty request is normalised to a URI under the prefix -/
theorem formatWith_prefixed (ok : TableOk tbl pre) {p : Bytes} (hne : p ≠ []) :
    pre.isPrefixOf (formatWith tbl pre p) = true := by
  simp only [formatWith, hne, if_false]
  split
  · rename_i u hu; exact (ok.vals _ (lookup_mem hu)).1
  · split
    · exact isPrefixOf_append_self _ _
    · rename_i h; simpa using h

theorem formatWith_idem (ok : TableOk tbl pre) (p : Bytes) :
    formatWith tbl pre (formatWith tbl pre p) = formatWith tbl pre p := by
  by_cases hne : p = []
  · subst hne; simp [formatWith]
  · exact formatWith_uri ok (formatWith_prefixed ok hne)

end

end Opcua.EndpointSel
