import OpcuaModel.Model.ChunkLemmas
/-
  Specification side of the secured MessageChunk (C08), written from OPC UA
  Part 6 §6.7.2 (Figure "MessageChunk structure", Tables "Message header",
  "Symmetric / Asymmetric algorithm Security header", "Sequence header",
  "Message footer") independently of the Go code: the chunk is BUILT from its
  parts, front to back, instead of being patched in place.

    MessageHeader     MessageType(3) IsFinal(1) MessageSize(4) SecureChannelId(4)
    SecurityHeader    TokenId(4)  |  PolicyUri, SenderCertificate, ReceiverThumbprint
    --- everything below is encrypted (SignAndEncrypt, and always for asymmetric) ---
    SequenceHeader    SequenceNumber(4) RequestId(4)
    Body
    PaddingSize(1)  Padding(PaddingSize bytes, each = PaddingSize)  [ExtraPaddingSize(1)]
    Signature         over everything before it, computed BEFORE encryption

  MessageSize is the size of the chunk as sent (after encryption).
  ExtraPaddingSize (the high byte of the padding count) is present iff the key
  used to ENCRYPT — the receiver's — is longer than 2048 bits.  The padding count
  makes SequenceHeader ‖ Body ‖ footer a whole number of plaintext blocks; a
  sender may add `k` further whole blocks of padding (`k = 0` is what §6.7.2.5
  computes for the minimum, other stacks also emit a full block).
-/
namespace Opcua.Spec
open Opcua Opcua.Chunk

/-- the parts of one chunk before protection -/
structure Parts where
  msgType : Bytes          -- "MSG" | "CLO" | "OPN"
  isFinal : UInt8          -- 'C' | 'F' | 'A'
  channelId : Nat
  secHeader : Bytes        -- the encoded security header
  seqNum : Nat
  requestId : Nat
  body : Bytes
  deriving Repr, DecidableEq

/-- the algorithm suite of the sending direction -/
structure Suite where
  plainBlock : Nat         -- PlainTextBlockSize
  cipherBlock : Nat        -- CipherTextBlockSize
  sigSize : Nat            -- SignatureSize
  extraPadding : Bool      -- receiver's key longer than 2048 bits
  crypto : Crypto

def header (p : Parts) (messageSize : Nat) : Bytes :=
  p.msgType ++ [p.isFinal] ++ leBytes 4 messageSize ++ leBytes 4 p.channelId

def sequenceHeader (p : Parts) : Bytes := leBytes 4 p.seqNum ++ leBytes 4 p.requestId

/-- padding count: the least count that fills the last plaintext block, plus `k` whole blocks -/
def paddingSize (s : Suite) (bytesToWrite k : Nat) : Nat :=
  let overhead := if s.extraPadding then 2 else 1
  (s.plainBlock - (bytesToWrite + s.sigSize + overhead) % s.plainBlock) % s.plainBlock + k * s.plainBlock

/-- PaddingSize, Padding, [ExtraPaddingSize] -/
def footer (s : Suite) (ps : Nat) : Bytes :=
  [UInt8.ofNat ps] ++ List.replicate ps (UInt8.ofNat ps) ++ (if s.extraPadding then [UInt8.ofNat (ps / 256)] else [])

/-- the secured chunk; `encrypted` = SignAndEncrypt or an asymmetric (OPN)
    chunk, `signed` = Sign or SignAndEncrypt.  `none` = a primitive failed. -/
def secureChunk (s : Suite) (signed encrypted : Bool) (p : Parts) (k : Nat) : Option Bytes :=
  let clear := sequenceHeader p ++ p.body
  if !signed && !encrypted then
    some (header p (12 + p.secHeader.length + clear.length) ++ p.secHeader ++ clear)
  else if !encrypted then
    let hdr := header p (12 + p.secHeader.length + clear.length + s.sigSize) ++ p.secHeader
    match s.crypto.sign (hdr ++ clear) with
    | none => none
    | some sig => some (hdr ++ clear ++ sig)
  else
    let plain := clear ++ footer s (paddingSize s clear.length k)
    let cipherLen := (plain.length + s.sigSize) / s.plainBlock * s.cipherBlock
    let hdr := header p (12 + p.secHeader.length + cipherLen) ++ p.secHeader
    match s.crypto.sign (hdr ++ plain) with
    | none => none
    | some sig =>
      match s.crypto.enc (plain ++ sig) with
      | none => none
      | some c => some (hdr ++ c)

/-- read the padding count from the end of the signed plaintext:
    (count, number of count bytes at the very end) -/
def readFooter (extra : Bool) (sp : Bytes) : Option (Nat × Nat) :=
  if extra then
    if sp.length < 2 then none else
    some ((sp.getD (sp.length - 1) 0).toNat * 256 + (sp.getD (sp.length - 2) 0).toNat, 2)
  else
    if sp.length < 1 then none else some ((sp.getD (sp.length - 1) 0).toNat, 1)

/-- remove PaddingSize ‖ Padding ‖ [ExtraPaddingSize] after checking that
    every padding byte carries the count -/
def stripFooter (extra : Bool) (sp : Bytes) : Option Bytes :=
  match readFooter extra sp with
  | none => none
  | some (ps, fl) =>
    if sp.length < ps + fl then none else
    let pad := (sp.drop (sp.length - (ps + fl))).take (ps + 1)   -- PaddingSize byte + Padding
    if pad.all (fun b => b == UInt8.ofNat ps) then some (sp.take (sp.length - (ps + fl))) else none

/-- what a receiver that follows the specification extracts from a chunk:
    decrypt everything after the security header, split off and verify the
    signature, read the padding count from the end (ExtraPaddingSize iff ITS OWN
    key is longer than 2048 bits), check that every padding byte carries the
    count, and return SequenceHeader ‖ Body.  `hl` = 12 + security header length. -/
def openChunk (s : Suite) (signed encrypted : Bool) (hl : Nat) (w : Bytes) : Option Bytes :=
  if w.length < hl then none else
  if (leVal ((w.drop 4).take 4)) ≠ w.length then none else
  if !signed && !encrypted then some (w.drop hl) else
  let plainOpt : Option Bytes := if encrypted then s.crypto.dec (w.drop hl) else some (w.drop hl)
  match plainOpt with
  | none => none
  | some plain =>
    if plain.length < s.sigSize then none else
    let sig := plain.drop (plain.length - s.sigSize)
    let signedPart := plain.take (plain.length - s.sigSize)
    if s.crypto.verify (w.take hl ++ signedPart) sig = false then none else
    if !encrypted then some signedPart else stripFooter s.extraPadding signedPart

end Opcua.Spec
