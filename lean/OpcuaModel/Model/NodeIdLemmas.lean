import OpcuaModel.Model.NodeIdParse
/-
  Lemmas about the NodeID string form (C04): the namespace wrapper is
  injective and is undone by the parser's SplitN / Atoi steps; each identifier
  rendering is undone by its branch of the parser.
-/
namespace Opcua.NodeIdText

/-! ### SplitN -/

theorem splitFirst_none {sep : Nat} : ∀ {s : Text}, sep ∉ s → splitFirst sep s = (s, none)
  | [], _ => rfl
  | c :: r, h => by
    have hc : c ≠ sep := fun e => h (by simp [e])
    have hr : sep ∉ r := fun e => h (List.mem_cons_of_mem _ e)
    simp [splitFirst, hc, splitFirst_none hr]

theorem splitFirst_app {sep : Nat} : ∀ {a : Text} (b : Text), sep ∉ a → splitFirst sep (a ++ sep :: b) = (a, some b)
  | [], b, _ => by simp [splitFirst]
  | c :: r, b, h => by
    have hc : c ≠ sep := fun e => h (by simp [e])
    have hr : sep ∉ r := fun e => h (List.mem_cons_of_mem _ e)
    simp [splitFirst, hc, splitFirst_app b hr]

theorem splitFirst_of_mem {sep : Nat} : ∀ {s : Text}, sep ∈ s → ∃ a b, splitFirst sep s = (a, some b)
  | [], h => by simp at h
  | c :: r, h => by
    by_cases hc : c = sep
    · exact ⟨[], r, by simp [splitFirst, hc]⟩
    · have hr : sep ∈ r := by
        rcases List.mem_cons.mp h with e | e
        · exact absurd e.symm hc
        · exact e
      obtain ⟨a, b, hab⟩ := splitFirst_of_mem hr
      exact ⟨c :: a, b, by simp [splitFirst, hc, hab]⟩

theorem dec_no_semicolon (n : Nat) : 59 ∉ dec n := by
  intro h
  have := dec_isDigit n 59 h
  simp [isDigit] at this

/-! ### the namespace wrapper -/

theorem withNs_injective {n1 n2 l1 l2 : Nat} {b1 b2 : Text} (h1 : l1 ≠ 110) (h2 : l2 ≠ 110)
    (h : withNs n1 l1 b1 = withNs n2 l2 b2) : n1 = n2 ∧ l1 = l2 ∧ b1 = b2 := by
  unfold withNs at h
  by_cases z1 : n1 = 0 <;> by_cases z2 : n2 = 0
  · simp only [z1, z2, if_true, List.cons.injEq] at h
    exact ⟨by omega, h.1, h.2.2⟩
  · simp only [z1, z2, if_true, if_false, List.cons_append, List.cons.injEq] at h
    exact absurd h.1 h1
  · simp only [z1, z2, if_true, if_false, List.cons_append, List.cons.injEq] at h
    exact absurd h.1.symm h2
  · simp only [z1, z2, if_false, List.cons_append, List.nil_append, List.cons.injEq, true_and,
      List.append_assoc] at h
    have s1 := splitFirst_app (l1 :: 61 :: b1) (dec_no_semicolon n1)
    have s2 := splitFirst_app (l2 :: 61 :: b2) (dec_no_semicolon n2)
    rw [h, s2] at s1
    simp only [Prod.mk.injEq, Option.some.injEq, List.cons.injEq, true_and] at s1
    exact ⟨(dec_injective s1.1).symm, s1.2.1.symm, s1.2.2.symm⟩

theorem atoiNs_dec (n : Nat) (h : n ≤ 65535) : atoiNs (dec n) = some n := by
  cases hd : dec n with
  | nil => exact absurd hd (dec_ne_nil n)
  | cons c r =>
    have hc : isDigit c = true := dec_isDigit n c (by rw [hd]; exact List.mem_cons_self)
    have h43 : c ≠ 43 := by intro e; subst e; simp [isDigit] at hc
    have h45 : c ≠ 45 := by intro e; subst e; simp [isDigit] at hc
    simp only [atoiNs, h43, h45, if_false]
    rw [← hd, digitsVal_dec]
    simp [h]

theorem parseNs_default (tbl : Option (List Text)) : parseNs [110, 115, 61, 48] tbl = some (0, []) := by
  simp [parseNs, List.isPrefixOf, atoiNs, digitsVal, digitsAcc, isDigit]

theorem parseNs_dec (n : Nat) (h : n ≤ 65535) (tbl : Option (List Text)) :
    parseNs (110 :: 115 :: 61 :: dec n) tbl = some (n, []) := by
  simp [parseNs, List.isPrefixOf, atoiNs_dec n h]

/-- the parser undoes the namespace wrapper (needs: no ';' in an unwrapped body,
    unless the body follows the string prefix "s=", which is never split) -/
theorem parseExpanded_withNs (ns l : Nat) (body : Text) (hns : ns ≤ 65535) (hl : l ≠ 59) (hl' : l ≠ 110)
    (hbody : ns = 0 → l ≠ 115 → 59 ∉ body) (tbl : Option (List Text)) :
    parseExpanded (withNs ns l body) tbl = parseIdent ns [] (l :: 61 :: body) := by
  unfold withNs
  by_cases z : ns = 0
  · subst z
    by_cases hs : l = 115
    · subst hs
      simp [parseExpanded, List.isPrefixOf, parseNs_default]
    · have hno : (59 : Nat) ∉ l :: 61 :: body := by
        intro h
        rcases List.mem_cons.mp h with e | h
        · exact hl e.symm
        · rcases List.mem_cons.mp h with e | h
          · omega
          · exact hbody rfl hs h
      have hpre : [115, 61].isPrefixOf (l :: 61 :: body) = false := by
        simp [List.isPrefixOf]; intro e; exact absurd e.symm hs
      simp only [if_true, parseExpanded, hpre, splitFirst_none hno]
      simp [parseNs_default]
  · simp only [z, if_false]
    have hno : (59 : Nat) ∉ 110 :: 115 :: 61 :: dec ns := by
      intro h
      rcases List.mem_cons.mp h with e | h
      · omega
      · rcases List.mem_cons.mp h with e | h
        · omega
        · rcases List.mem_cons.mp h with e | h
          · omega
          · exact dec_no_semicolon ns h
    have hs : [110, 115, 61] ++ dec ns ++ [59] ++ (l :: 61 :: body) =
        (110 :: 115 :: 61 :: dec ns) ++ 59 :: (l :: 61 :: body) := by simp
    rw [hs]
    have hpre : [115, 61].isPrefixOf ((110 :: 115 :: 61 :: dec ns) ++ 59 :: (l :: 61 :: body)) = false := by
      simp [List.isPrefixOf]
    simp only [parseExpanded, hpre, splitFirst_app _ hno]
    simp [parseNs_dec ns hns]

/-! ### the identifier branches -/

theorem newExpanded_plain (n : NodeID) : newExpanded n [] 0 = ⟨n, [], 0⟩ := by
  simp [newExpanded]

theorem parseIdent_num (ns v : Nat) (hv : v < 4294967296) :
    parseIdent ns [] (105 :: 61 :: dec v) =
      some ⟨(if ns = 0 ∧ v < 256 then newTwoByte v
             else if ns < 256 ∧ v < 65535 then newFourByte ns v else newNumeric ns v), [], 0⟩ := by
  simp only [parseIdent, List.isPrefixOf, List.drop, digitsVal_dec, newExpanded_plain, beq_self_eq_true,
    Bool.and_self, if_true]
  split
  · rfl
  · split
    · rfl
    · rw [if_pos (by omega)]

theorem parseIdent_str (ns : Nat) (s : Text) :
    parseIdent ns [] (115 :: 61 :: s) = some ⟨newString ns s, [], 0⟩ := by
  simp [parseIdent, List.isPrefixOf, newExpanded_plain]

theorem parseIdent_guid (ns : Nat) (g : List Nat) (hl : g.length = 16) (hb : ∀ b ∈ g, b < 256) :
    parseIdent ns [] (103 :: 61 :: guidText g) = some ⟨⟨4, ns, 0, [], some g⟩, [], 0⟩ := by
  have hne := guidText_ne_nil g
  simp [parseIdent, List.isPrefixOf, newExpanded_plain, newGUIDNode, newGUID_guidText g hl hb, stringID,
    NodeID.typ, hne]

theorem parseIdent_opaque (ns : Nat) (b : List Nat) (hb : ∀ x ∈ b, x < 256) :
    parseIdent ns [] (98 :: 61 :: b64enc b) = some ⟨newByteString ns b, [], 0⟩ := by
  simp [parseIdent, List.isPrefixOf, newExpanded_plain, b64dec_b64enc b hb]

/-! ### letter / body view of `toString` -/

def letterOf (n : NodeID) : Nat :=
  match n.typ with
  | 3 => 115
  | 4 => 103
  | 5 => 98
  | _ => 105

def bodyOf (n : NodeID) : Text :=
  match n.typ with
  | 3 => stringID n
  | 4 => stringID n
  | 5 => stringID n
  | _ => dec n.nid

theorem toString_eq (n : NodeID) (h : WF n) : toString n = some (withNs n.ns (letterOf n) (bodyOf n)) := by
  rcases h with ⟨t, z, _⟩ | ⟨t, _⟩ | ⟨t, _⟩ | ⟨t, _⟩ | ⟨t, _⟩ | ⟨t, _⟩ <;>
    simp [toString, letterOf, bodyOf, withNs, *]

theorem letterOf_ne (n : NodeID) : letterOf n ≠ 110 ∧ letterOf n ≠ 59 := by
  unfold letterOf; split <;> omega

/-- same letter and body ⇔ same identifier, for well-formed nodes -/
theorem ident_eq_iff (a b : NodeID) (ha : WF a) (hb : WF b) :
    ident a = ident b ↔ (letterOf a = letterOf b ∧ bodyOf a = bodyOf b) := by
  rcases ha with ⟨ta, _, _⟩ | ⟨ta, _, _⟩ | ⟨ta, _, _⟩ | ⟨ta, _⟩ | ⟨ta, _, ga, hga, gla, gba⟩ | ⟨ta, _, oa⟩ <;>
  rcases hb with ⟨tb, _, _⟩ | ⟨tb, _, _⟩ | ⟨tb, _, _⟩ | ⟨tb, _⟩ | ⟨tb, _, gb, hgb, glb, gbb⟩ | ⟨tb, _, ob⟩ <;>
  simp only [ident, letterOf, bodyOf, stringID, ta, tb, Ident.num.injEq, Ident.str.injEq, Ident.guid.injEq,
    Ident.opaque.injEq, reduceCtorEq, true_and, false_and, Nat.reduceEqDiff] <;>
  first
    | exact ⟨fun h => by rw [h], fun h => dec_injective h⟩
    | (rw [hga, hgb]; simp only [Option.getD_some]
       exact ⟨fun h => by rw [h], fun h => guidText_injective ⟨gla, gba⟩ ⟨glb, gbb⟩ h⟩)
    | exact ⟨fun h => by rw [h], fun h => b64enc_injective oa ob h⟩
    | simp

/-! ### namespace URIs -/

/-- namespace index and identifier of a parse result -/
def nodeKey (e : Expanded) : Nat × Ident := (e.node.ns, ident e.node)

theorem setURIFlag_key (n : NodeID) : (setURIFlag n).ns = n.ns ∧ ident (setURIFlag n) = ident n := by
  have ht : (setURIFlag n).typ = n.typ := by
    simp only [setURIFlag, NodeID.typ]; split <;> omega
  refine ⟨rfl, ?_⟩
  unfold ident
  rw [ht]
  rfl

theorem nodeKey_newExpanded (n : NodeID) (u : Text) : nodeKey (newExpanded n u 0) = (n.ns, ident n) := by
  simp only [nodeKey, newExpanded, Nat.lt_irrefl, if_false]
  split
  · rw [(setURIFlag_key n).1, (setURIFlag_key n).2]
  · rfl

/-- the namespace URI only sets the flag bit: index and identifier of the
    result do not depend on it -/
theorem parseIdent_nsu_key (k : Nat) (u rest : Text) :
    (parseIdent k u rest).map nodeKey = (parseIdent k [] rest).map nodeKey := by
  unfold parseIdent
  repeat' split
  all_goals first
    | (simp only [Option.map_some, Option.map_none, nodeKey_newExpanded]; done)
    | (simp only []; split <;> simp only [Option.map_some, Option.map_none, nodeKey_newExpanded])

theorem unescNsu_escNsu : ∀ (u : Text), unescNsu (escNsu u) = u
  | [] => rfl
  | c :: r => by
    have ih := unescNsu_escNsu r
    simp only [escNsu]
    split
    · rename_i h; subst h; simp [unescNsu, ih]
    · split
      · rename_i h; subst h; simp [unescNsu, ih]
      · rename_i h1 h2; simp [unescNsu, h2, ih]

theorem escNsu_no_semicolon : ∀ (u : Text), 59 ∉ escNsu u
  | [] => by simp [escNsu]
  | c :: r => by
    have ih := escNsu_no_semicolon r
    simp only [escNsu]
    split
    · simp [ih]
    · split
      · simp [ih]
      · rename_i h1 h2
        simp only [List.mem_cons, not_or]
        exact ⟨fun e => h1 e.symm, ih⟩

/-- `nsu=<w>;<rest>` with no ';' in `w`: the table is searched for the unescaped `w` -/
theorem parseExpanded_nsu (w rest : Text) (tbl : List Text) (hw : 59 ∉ w) :
    parseExpanded ([110, 115, 117, 61] ++ w ++ 59 :: rest) (some tbl) =
      match tbl.findIdx? (· == unescNsu w) with
      | none => none
      | some k => parseIdent (k % 65536) (unescNsu w) rest := by
  have hno : (59 : Nat) ∉ 110 :: 115 :: 117 :: 61 :: w := by
    intro h
    simp only [List.mem_cons] at h
    rcases h with e | e | e | e | h
    · omega
    · omega
    · omega
    · omega
    · exact hw h
  have hs : [110, 115, 117, 61] ++ w ++ 59 :: rest = (110 :: 115 :: 117 :: 61 :: w) ++ 59 :: rest := by simp
  rw [hs]
  have hpre : [115, 61].isPrefixOf ((110 :: 115 :: 117 :: 61 :: w) ++ 59 :: rest) = false := by
    simp [List.isPrefixOf]
  simp only [parseExpanded, hpre, splitFirst_app _ hno]
  simp only [List.cons_append, reduceCtorEq, if_false, parseNs, List.isPrefixOf, beq_self_eq_true, Bool.and_self,
    Bool.true_and, if_true, List.drop_succ_cons, List.drop_zero]
  cases tbl.findIdx? (· == unescNsu w) <;> rfl

theorem parseExpanded_nsIdx (k : Nat) (hk : k ≤ 65535) (rest : Text) (tbl : Option (List Text)) :
    parseExpanded ([110, 115, 61] ++ dec k ++ 59 :: rest) tbl = parseIdent k [] rest := by
  have hno : (59 : Nat) ∉ 110 :: 115 :: 61 :: dec k := by
    intro h
    simp only [List.mem_cons] at h
    rcases h with e | e | e | h
    · omega
    · omega
    · omega
    · exact dec_no_semicolon k h
  have hs : [110, 115, 61] ++ dec k ++ 59 :: rest = (110 :: 115 :: 61 :: dec k) ++ 59 :: rest := by simp
  rw [hs]
  have hpre : [115, 61].isPrefixOf ((110 :: 115 :: 61 :: dec k) ++ 59 :: rest) = false := by
    simp [List.isPrefixOf]
  simp only [parseExpanded, hpre, splitFirst_app _ hno]
  simp [parseNs_dec k hk]

end Opcua.NodeIdText
