import OpcuaModel.Model.LinearLemmas
/-
  C34, part 3: the embedding application touches nodes OUTSIDE the dispatcher.

  `Node.SetAttribute(Value, dv)` called by the application is one store of the
  word `n.val` (no access check, no lock); `node.Value()` and the background
  `go ChangeNotification` (which calls `ns.Attribute`) are loads of that word.
  `Node.SetAttribute(other attribute, dv)` is a write of the Go map `n.attr`.

  `XOp` adds these application steps to the client requests; `stepX` gives
  each an atomic meaning.  The client handlers themselves are NOT atomic with
  respect to application steps: a handler first runs the access check (loads of
  `n.attr[17]`, `n.attr[18]`) and later loads / stores `n.val`; application
  steps can fall in between.  `chk` / `act` split the handler at that point.

  Results (Props/C34.lean): application steps that only touch the value word
  commute with the check, so the split handler equals the atomic handler run at
  the moment of its value access (`act_after_value_steps`) — all such histories
  are linearizable, the linearization point of every operation being its single
  access to `n.val`.  An application write of AccessLevel / UserAccessLevel in
  between does not commute, and a concrete three-operation history that the
  split handler produces has no linearization (`linB … = false`).
-/
namespace Opcua.Linear
open Opcua.Access

/-- requests of clients and steps of the embedding application -/
inductive XOp where
  | client (op : Op)
  /-- `node.SetAttribute(ua.AttributeIDValue, dv)` by the application: one store, no check -/
  | appSetValue (i k : Nat) (d : DV)
  /-- `node.Value()` / `go ChangeNotification` → `ns.Attribute(id, Value)`: a load (the access check of
      the notification path only decides what is reported, it stores nothing) -/
  | appGetValue (i k : Nat)
  /-- `node.SetAttribute(attr, dv)` for another attribute: a write of the map `n.attr` -/
  | appSetAttr (i k a : Nat) (d : DV)
  deriving Repr, DecidableEq

def updNode (sv : Server) (i k : Nat) (f : Node → Node) : Server :=
  match sv i with
  | none => sv
  | some s => match s k with
    | none => sv
    | some n => sv.set i (s.set k (f n))

/-- atomic meaning of every step -/
def stepX (sv : Server) : XOp → Res × Server
  | .client op => step sv op
  | .appSetValue i k d => (.status .ok, updNode sv i k (fun n => { n with val := d }))
  | .appGetValue i k =>
    (match sv.node i k with
     | some n => (match n.val with | .nilPtr => .status .badAttributeIDInvalid | d => .value d)
     | none => .status .badNodeIDUnknown, sv)
  | .appSetAttr i k a d => (.status .ok, updNode sv i k (fun n => { n with attrs := setAttr n.attrs a d }))

/-- the application step touches nothing but the value word -/
def XOp.valueOnly : XOp → Bool
  | .appSetValue _ _ _ => true
  | .appGetValue _ _ => true
  | _ => false

def runX (sv : Server) : List XOp → Server
  | [] => sv
  | x :: r => runX (stepX sv x).2 r

/-- first half of a client handler: look the node up and run the access check -/
def chk (sv : Server) : Op → Option Acc
  | .read i k _ => (sv.node i k).map (access · fRead)
  | .write i k _ _ => (sv.node i k).map (access · fWrite)

/-- `NodeNameSpace.Attribute` after the check, with the decision taken earlier -/
def nsAttributeWith (acc : Acc) (n : Node) (attr : Nat) : Res × Node :=
  match acc with
  | .panic => (.panic, n)
  | .deny => (.status .badUserAccessDenied, n)
  | .allow =>
    if attr = aNodeID then (.value (.v tyNodeID 0), n)
    else if attr = aEventNotifier then (.value (.v tyByte 0), n)
    else if attr = aNodeClass then
      match n.get aNodeClass with
      | .nilPtr => (.status .badAttributeIDInvalid, n)
      | .noVariant => (.panic, n)
      | .v ty p =>
        if ty = tyUInt32 then
          (.value (.v tyInt32 p), { n with attrs := setAttr n.attrs aNodeClass (.v tyInt32 p) })
        else (.value (.v ty p), n)
    else if attr = aValue then
      match n.val with
      | .nilPtr => (.status .badAttributeIDInvalid, n)
      | d => (.value d, n)
    else
      match n.get attr with
      | .nilPtr => (.status .badAttributeIDInvalid, n)
      | d => (.value d, n)

def nsSetAttributeWith (acc : Acc) (n : Node) (attr : Nat) (d : DV) : Res × Node :=
  match acc with
  | .panic => (.panic, n)
  | .deny => (.status .badUserAccessDenied, n)
  | .allow => (.status .ok, nodeSet n attr d)

theorem nsAttributeWith_eq (n : Node) (attr : Nat) : nsAttributeWith (access n fRead) n attr = nsAttribute n attr := by
  unfold nsAttributeWith nsAttribute; rfl

theorem nsSetAttributeWith_eq (n : Node) (attr : Nat) (d : DV) :
    nsSetAttributeWith (access n fWrite) n attr d = nsSetAttribute n attr d := by
  unfold nsSetAttributeWith nsSetAttribute; rfl

/-- second half of a client handler, run on the state as it is THEN, with the decision `dec`
    the first half took (none: the node lookup failed — the handler answered already) -/
def act (sv : Server) (op : Op) (dec : Option Acc) : Res × Server :=
  match dec with
  | none => step sv op
  | some acc =>
    match op with
    | .read i k a =>
      match sv i with
      | none => (.status .bad, sv)
      | some s => match s k with
        | none => (.status .badNodeIDUnknown, sv)
        | some n => let (r, n') := nsAttributeWith acc n a; (r, sv.set i (s.set k n'))
    | .write i k a d =>
      match sv i with
      | none => (.status .badNodeIDUnknown, sv)
      | some s => match s k with
        | none => (.status .badNodeIDUnknown, sv)
        | some n => let (r, n') := nsSetAttributeWith acc n a d; (r, sv.set i (s.set k n'))

/-- without anything in between the two halves are the atomic handler -/
theorem act_chk (sv : Server) (op : Op) : act sv op (chk sv op) = step sv op := by
  cases op with
  | read i k a =>
    cases hs : sv i with
    | none => simp [act, chk, Server.node, hs]
    | some s =>
      cases hk : s k with
      | none => simp [act, chk, Server.node, hs, hk]
      | some n => simp [act, chk, step, Server.node, hs, hk, nsAttributeWith_eq]
  | write i k a d =>
    cases hs : sv i with
    | none => simp [act, chk, Server.node, hs]
    | some s =>
      cases hk : s k with
      | none => simp [act, chk, Server.node, hs, hk]
      | some n => simp [act, chk, step, Server.node, hs, hk, nsSetAttributeWith_eq]

theorem updNode_some (sv : Server) (i k : Nat) (f : Node → Node) (s : Store) (n : Node)
    (hs : sv i = some s) (hk : s k = some n) : updNode sv i k f = sv.set i (s.set k (f n)) := by
  simp [updNode, hs, hk]

theorem updNode_none (sv : Server) (i k : Nat) (f : Node → Node) (h : sv.node i k = none) :
    updNode sv i k f = sv := by
  cases hs : sv i with
  | none => simp [updNode, hs]
  | some s =>
    cases hk : s k with
    | none => simp [updNode, hs, hk]
    | some n => simp [Server.node, hs, hk] at h

theorem node_updNode (sv : Server) (i k : Nat) (f : Node → Node) (i' k' : Nat) :
    (updNode sv i k f).node i' k' =
      if i' = i ∧ k' = k then (sv.node i k).map f else sv.node i' k' := by
  cases hn : sv.node i k with
  | none =>
    rw [updNode_none sv i k f hn]
    by_cases h : i' = i ∧ k' = k
    · obtain ⟨rfl, rfl⟩ := h; simp [hn]
    · simp [h]
  | some n =>
    have hsv : ∃ s, sv i = some s ∧ s k = some n := by
      unfold Server.node at hn
      cases hs : sv i with
      | none => simp [hs] at hn
      | some s => exact ⟨s, rfl, by simpa [hs] using hn⟩
    obtain ⟨s, hs, hk⟩ := hsv
    rw [updNode_some sv i k f s n hs hk]
    by_cases h : i' = i ∧ k' = k
    · obtain ⟨rfl, rfl⟩ := h; simp [node_set_same]
    · simp only [h, ↓reduceIte]
      exact node_set_other sv i' k' i k s (f n) hs (fun ⟨a, b⟩ => h ⟨a.symm, b.symm⟩)

/-- a step that touches only the value word leaves the outcome of every access check as it was -/
theorem chk_valueOnly (sv : Server) (x : XOp) (hx : x.valueOnly = true) (op : Op) :
    chk (stepX sv x).2 op = chk sv op := by
  have key : ∀ (i k : Nat) (d : DV) (i' k' : Nat) (f : Nat),
      ((updNode sv i k (fun n => { n with val := d })).node i' k').map (access · f) =
        (sv.node i' k').map (access · f) := by
    intro i k d i' k' f
    rw [node_updNode]
    by_cases h : i' = i ∧ k' = k
    · obtain ⟨rfl, rfl⟩ := h
      simp only [and_self, ↓reduceIte, Option.map_map]
      cases sv.node i' k' with
      | none => rfl
      | some n => simp [access, Node.get]
    · simp [h]
  cases x with
  | client o => simp [XOp.valueOnly] at hx
  | appSetAttr i k a d => simp [XOp.valueOnly] at hx
  | appGetValue i k => cases op <;> simp [stepX, chk]
  | appSetValue i k d =>
    cases op with
    | read i' k' a => simpa [stepX, chk] using key i k d i' k' fRead
    | write i' k' a d' => simpa [stepX, chk] using key i k d i' k' fWrite

theorem chk_runX_valueOnly (xs : List XOp) (sv : Server) (h : ∀ x ∈ xs, x.valueOnly = true) (op : Op) :
    chk (runX sv xs) op = chk sv op := by
  induction xs generalizing sv with
  | nil => rfl
  | cons x r ih =>
    simp only [runX]
    rw [ih (stepX sv x).2 (fun y hy => h y (by simp [hy])), chk_valueOnly sv x (h x (by simp)) op]

-- ---------------------------------------------------------------- a brute-force linearizability test (tiny histories)

/-- a completed operation of a history: what was done, what came back, when -/
structure HEv where
  op : XOp
  res : Res
  inv : Nat
  resp : Nat
  deriving Repr, DecidableEq

def insertions (x : α) : List α → List (List α)
  | [] => [[x]]
  | y :: r => (x :: y :: r) :: (insertions x r).map (y :: ·)

def perms : List α → List (List α)
  | [] => [[]]
  | x :: r => (perms r).flatMap (insertions x)

/-- no operation is placed before one that had responded before it was invoked -/
def respectsTime : List HEv → Bool
  | [] => true
  | e :: r => r.all (fun later => !(later.resp < e.inv)) && respectsTime r

def legalSeq (sv : Server) : List HEv → Bool
  | [] => true
  | e :: r => let (x, sv') := stepX sv e.op; x == e.res && legalSeq sv' r

/-- does the history have a linearization w.r.t. the atomic meaning `stepX`? -/
def linB (sv : Server) (h : List HEv) : Bool := (perms h).any (fun p => respectsTime p && legalSeq sv p)

end Opcua.Linear
