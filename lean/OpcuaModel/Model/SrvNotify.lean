import OpcuaModel.Gen.SrvRobust
/-
  C29 — the notification path from a Write to a subscription:

    AttributeService.Write → NodeNameSpace.SetAttribute → Server.ChangeNotification
      → MonitoredItemService.ChangeNotification:  s.Mu.Lock(); defer s.Mu.Unlock();
            for every item monitoring the node:  item.Sub.NotifyChannel <- val      (plain send)

  all of it on the single dispatcher goroutine (`setAttributeNotifiesInline`), the send under the
  mutex (`notifySendUnderLock`), the channel buffered with `notifyChanCap` entries (regenerated
  facts).  The only receiver of the channel is the subscription's goroutine (`Subscription.run`),
  which also SENDS the PublishResponses to the subscription's connection, without deadline: a
  connection that is not read stalls it.  When it ends, its deferred `DeleteSubscription` needs the
  same mutex (`MonitoredItemService.DeleteSub`) before the items are unregistered.
-/
namespace Opcua.Notify
open Opcua.Gen.SrvRobust

inductive Consumer where
  | running     -- in its select loop: drains NotifyChannel
  | stalled     -- blocked in SendResponse to a connection that is not read
  | exited      -- run() returned; the deferred DeleteSubscription wants MonitoredItemService.Mu
  deriving DecidableEq, Repr

structure NState where
  /-- len(sub.NotifyChannel) -/
  queued : Nat := 0
  consumer : Consumer := .running
  /-- the monitored item is still registered for the node (Nodes[nodeid]) -/
  registered : Bool := true
  /-- the dispatcher sits in `item.Sub.NotifyChannel <- val`, holding MonitoredItemService.Mu -/
  blocked : Bool := false
  deriving DecidableEq, Repr

inductive Ev where
  | write       -- any client writes the monitored node
  | request     -- any other request of any client
  | drain       -- the subscription goroutine receives one notification
  | stall       -- the subscription goroutine starts a send to its connection, which is not read
  | connClosed  -- the stalled connection is closed: the send fails, run() returns
  deriving DecidableEq, Repr

/-- one event; the Bool says whether a request (write / request) was answered -/
def stepN (s : NState) : Ev → NState × Bool
  | .write =>
    if s.blocked then (s, false)                                    -- the dispatcher is not there to take it
    else if !s.registered then (s, true)                            -- nobody monitors the node
    else if !(notifySendUnderLock && setAttributeNotifiesInline) then (s, true)   -- send not on the dispatcher / not blocking
    else if s.queued < notifyChanCap then ({ s with queued := s.queued + 1 }, true)
    else ({ s with blocked := true }, false)                        -- channel full: blocks, Mu held
  | .request => (s, !s.blocked)
  | .drain =>
    match s.consumer with
    | .running =>
      if s.blocked then ({ s with blocked := false }, true)         -- the pending send completes, Mu is released
      else ({ s with queued := s.queued - 1 }, true)
    | _ => (s, true)
  | .stall => if s.consumer == .running then ({ s with consumer := .stalled }, true) else (s, true)
  | .connClosed =>
    match s.consumer with
    | .stalled =>
      -- run() returns; DeleteSubscription → MonitoredItemService.DeleteSub → s.Mu.Lock():
      -- granted only if the dispatcher does not hold it
      if s.blocked then ({ s with consumer := .exited }, true)
      else ({ s with consumer := .exited, registered := false, queued := 0 }, true)
    | _ => (s, true)

def runN (s : NState) : List Ev → NState × List Bool
  | [] => (s, [])
  | e :: rest =>
    let (s', a) := stepN s e
    let (s'', as) := runN s' rest
    (s'', a :: as)

end Opcua.Notify
