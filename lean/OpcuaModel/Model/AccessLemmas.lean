import OpcuaModel.Model.Access
/-
  Helper lemmas about the access model (used by Props/C31.lean).
-/
namespace Opcua.Access

theorem accessSlot_allow_iff (d : DV) (f : Nat) : accessSlot d f = .allow ↔ slotLacks d f = false := by
  cases d with
  | nilPtr => simp [accessSlot, slotLacks]
  | noVariant => simp [accessSlot, slotLacks]
  | v ty p =>
    by_cases h : ty = tyByte <;> by_cases h2 : p &&& f = 0 <;> simp [accessSlot, slotLacks, h, h2]

/-- the part of a node the property talks about -/
def core (n : Node) : DV × DV × DV := (n.val, n.get aAccessLevel, n.get aUserAccessLevel)

theorem core_read (n : Node) (attr : Nat) : core (nsAttribute n attr).2 = core n := by
  unfold nsAttribute
  cases access n fRead <;> simp only []
  repeat' split
  all_goals first
    | rfl
    | (simp [core, Node.get, lookup_setAttr_other, aNodeClass, aAccessLevel, aUserAccessLevel])

theorem lacks_of_core {n m : Node} (h : core n = core m) (f : Nat) : lacks n f = lacks m f := by
  simp only [core, Prod.mk.injEq] at h
  simp [lacks, h.2.1, h.2.2]

/-- a write that does not target an access attribute keeps both access attributes -/
theorem access_attrs_write (n : Node) (attr : Nat) (d : DV)
    (h : ¬ (attr = aAccessLevel ∨ attr = aUserAccessLevel)) :
    (nsSetAttribute n attr d).2.get aAccessLevel = n.get aAccessLevel ∧
    (nsSetAttribute n attr d).2.get aUserAccessLevel = n.get aUserAccessLevel := by
  have h1 : aAccessLevel ≠ attr := fun e => h (Or.inl e.symm)
  have h2 : aUserAccessLevel ≠ attr := fun e => h (Or.inr e.symm)
  unfold nsSetAttribute
  cases access n fWrite <;> simp only [and_self]
  unfold nodeSet
  split
  · simp [Node.get]
  · simp [Node.get, lookup_setAttr_other _ _ _ _ h1, lookup_setAttr_other _ _ _ _ h2]

theorem node_set_same (sv : Server) (i k : Nat) (s : Store) (n : Node) :
    (sv.set i (s.set k n)).node i k = some n := by
  simp [Server.node, Server.set, Store.set]

theorem node_set_other (sv : Server) (i k i' k' : Nat) (s : Store) (n : Node) (hs : sv i' = some s)
    (h : ¬ (i' = i ∧ k' = k)) :
    (sv.set i' (s.set k' n)).node i k = sv.node i k := by
  by_cases hi : i = i'
  · subst hi
    have hk : k ≠ k' := fun e => h ⟨rfl, e.symm⟩
    simp [Server.node, Server.set, Store.set, hk, hs]
  · simp [Server.node, Server.set, hi]

/-- what one step does to the node (i,k) -/
theorem step_node (sv : Server) (op : Op) (i k : Nat) (n : Node) (hn : sv.node i k = some n) :
    ∃ n', (step sv op).2.node i k = some n' ∧
      ((∀ a d, op = .write i k a d → n' = (nsSetAttribute n a d).2 ∧ (step sv op).1 = (nsSetAttribute n a d).1) ∧
       (∀ a, op = .read i k a → n' = (nsAttribute n a).2 ∧ (step sv op).1 = (nsAttribute n a).1) ∧
       ((∀ a d, op ≠ .write i k a d) → (∀ a, op ≠ .read i k a) → n' = n)) := by
  have hsv : ∃ s, sv i = some s ∧ s k = some n := by
    unfold Server.node at hn
    cases hs : sv i with
    | none => simp [hs] at hn
    | some s => exact ⟨s, rfl, by simpa [hs] using hn⟩
  obtain ⟨s, hs, hk⟩ := hsv
  cases op with
  | read i' k' a =>
    by_cases hik : i' = i ∧ k' = k
    · obtain ⟨rfl, rfl⟩ := hik
      refine ⟨(nsAttribute n a).2, ?_, ?_, ?_, ?_⟩
      · simp [step, hs, hk, node_set_same]
      · intro a' d h; cases h
      · intro a' h; cases h; simp [step, hs, hk]
      · intro _ h2; exact absurd rfl (h2 a)
    · refine ⟨n, ?_, ?_, ?_, ?_⟩
      · cases hs' : sv i' with
        | none => simpa [step, hs'] using hn
        | some s' =>
          cases hk' : s' k' with
          | none => simpa [step, hs', hk'] using hn
          | some m => simp only [step, hs', hk']; rw [node_set_other sv i k i' k' s' _ hs' hik]; exact hn
      · intro a' d h; cases h
      · intro a' h; cases h; exact absurd ⟨rfl, rfl⟩ hik
      · intros; rfl
  | write i' k' a d =>
    by_cases hik : i' = i ∧ k' = k
    · obtain ⟨rfl, rfl⟩ := hik
      refine ⟨(nsSetAttribute n a d).2, ?_, ?_, ?_, ?_⟩
      · simp [step, hs, hk, node_set_same]
      · intro a' d' h; cases h; simp [step, hs, hk]
      · intro a' h; cases h
      · intro h1 _; exact absurd rfl (h1 a d)
    · refine ⟨n, ?_, ?_, ?_, ?_⟩
      · cases hs' : sv i' with
        | none => simpa [step, hs'] using hn
        | some s' =>
          cases hk' : s' k' with
          | none => simpa [step, hs', hk'] using hn
          | some m => simp only [step, hs', hk']; rw [node_set_other sv i k i' k' s' _ hs' hik]; exact hn
      · intro a' d' h; cases h; exact absurd ⟨rfl, rfl⟩ hik
      · intro a' h; cases h
      · intros; rfl

theorem run_length (sv : Server) (ops : List Op) : (run sv ops).1.length = ops.length := by
  induction ops generalizing sv with
  | nil => rfl
  | cons op r ih => simp [run, ih]

end Opcua.Access
