import OpcuaModel.Model.CodecRT2
/-
  `split` (ua/variant.go) rebuilds a rectangular multi-dimensional array from its
  flattened elements: for a value `v` of shape `ds` (every dimension ≥ 1, at
  least one dimension) `split ds (flatten v) = v`, element-wise under any leaf
  map `f` (the normalisation).
-/
namespace Opcua.Codec
open Opcua

def prodL : List Nat → Nat
  | [] => 1
  | d :: ds => d * prodL ds

theorem foldl_mul (ds : List Nat) (a : Nat) : ds.foldl (· * ·) a = a * prodL ds := by
  induction ds generalizing a with
  | nil => simp [prodL]
  | cons d ds ih => simp [List.foldl_cons, ih, prodL, Nat.mul_assoc]

theorem prodNat_eq (ds : List Nat) : prodNat ds = prodL ds := by
  simp [prodNat, foldl_mul]

theorem prodL_pos {ds : List Nat} (h : ∀ d ∈ ds, 1 ≤ d) : 1 ≤ prodL ds := by
  induction ds with
  | nil => simp [prodL]
  | cons d ds ih =>
    have h1 := h d (List.mem_cons_self ..)
    have h2 := ih (fun x hx => h x (List.mem_cons_of_mem _ hx))
    simp only [prodL]
    exact Nat.mul_le_mul h1 h2

/-- `v` is a rectangular nest of non-nil slices of shape `ds` over values that are not slices -/
def Shaped : List Nat → Val → Prop
  | [], v => leaves v = [v]
  | d :: ds, v => ∃ xs, v = .slice false xs ∧ xs.length = d ∧ ∀ x ∈ xs, Shaped ds x

theorem leavesL_cons (x : Val) (xs : List Val) : leavesL (x :: xs) = leaves x ++ leavesL xs := rfl

theorem leaves_slice (n : Bool) (xs : List Val) : leaves (.slice n xs) = leavesL xs := rfl

theorem shaped_leaves_length : ∀ (ds : List Nat) (v : Val), Shaped ds v → (leaves v).length = prodL ds := by
  intro ds
  induction ds with
  | nil => intro v h; simp only [Shaped] at h; simp [h, prodL]
  | cons d ds ih =>
    intro v h
    obtain ⟨xs, rfl, hl, hx⟩ := h
    rw [leaves_slice, prodL, ← hl]
    clear hl
    induction xs with
    | nil => simp [leavesL]
    | cons x xs ihx =>
      rw [leavesL_cons, List.length_append, ih x (hx x (List.mem_cons_self ..)),
        ihx (fun y hy => hx y (List.mem_cons_of_mem _ hy)), List.length_cons, Nat.succ_mul, Nat.add_comm]

theorem wtArr_shaped {leaf : Val → Bool} (hleaf : ∀ x, leaf x = true → leaves x = [x]) :
    ∀ (ds : List Nat) (v : Val), wtArr leaf ds v = true → Shaped ds v ∧ ∀ x ∈ leaves v, leaf x = true := by
  intro ds
  induction ds with
  | nil =>
    intro v h
    simp only [wtArr] at h
    have := hleaf v h
    exact ⟨this, by simp [this, h]⟩
  | cons d ds ih =>
    intro v h
    match v, h with
    | .slice false xs, h =>
      simp only [wtArr, Bool.and_eq_true, decide_eq_true_eq, List.all_eq_true] at h
      refine ⟨⟨xs, rfl, h.1, fun x hx => (ih x (h.2 x hx)).1⟩, ?_⟩
      rw [leaves_slice]
      have hall := h.2
      clear h
      induction xs with
      | nil => simp [leavesL]
      | cons x xs ihx =>
        intro y hy
        rw [leavesL_cons, List.mem_append] at hy
        rcases hy with hy | hy
        · exact (ih x (hall x (List.mem_cons_self ..))).2 y hy
        · exact ihx (fun z hz => hall z (List.mem_cons_of_mem _ hz)) y hy

theorem normArr_zero (f : Val → Val) (v : Val) : normArr f 0 v = f v := rfl
theorem normArr_slice (f : Val → Val) (k : Nat) (n : Bool) (xs : List Val) :
    normArr f (k + 1) (.slice n xs) = .slice n (xs.map (normArr f k)) := rfl

/-- the loop over the rows of one level -/
theorem splitLoop_rows {g : List Val → Nat → Nat → Dec Val} {f : Val → Val} {Q : Val → Prop} {k p : Nat} (hp : 1 ≤ p) (s : St)
    (hrow : ∀ (x : Val) (pre post : List Val), Q x →
      g (pre ++ (leaves x).map f ++ post) pre.length (pre.length + p) s = .ok (normArr f k x) s) :
    ∀ (xs : List Val) (pre post : List Val) (fuel : Nat), (∀ x ∈ xs, Q x ∧ (leaves x).length = p) → xs.length ≤ fuel →
      splitLoop (g (pre ++ (leavesL xs).map f ++ post)) p fuel pre.length (pre.length + xs.length * p) s
        = .ok (xs.map (normArr f k)) s := by
  intro xs
  induction xs with
  | nil =>
    intro pre post fuel _ _
    cases fuel with
    | zero => rfl
    | succ n => simp [splitLoop]
  | cons x xs ih =>
    intro pre post fuel hl hf
    cases fuel with
    | zero => simp at hf
    | succ n =>
      have hx := hl x (List.mem_cons_self ..)
      have hlt : pre.length < pre.length + (xs.length + 1) * p := by
        have : 1 ≤ (xs.length + 1) * p := Nat.mul_le_mul (Nat.succ_le_succ (Nat.zero_le _)) hp
        omega
      have hvals : pre ++ (leavesL (x :: xs)).map f ++ post
          = pre ++ (leaves x).map f ++ ((leavesL xs).map f ++ post) := by
        simp [leavesL_cons, List.append_assoc]
      have hvals2 : pre ++ (leavesL (x :: xs)).map f ++ post
          = (pre ++ (leaves x).map f) ++ (leavesL xs).map f ++ post := by
        simp [leavesL_cons, List.append_assoc]
      simp only [splitLoop, List.length_cons, hlt, if_true, Dec.bind_apply, List.map_cons]
      rw [show g (pre ++ (leavesL (x :: xs)).map f ++ post) pre.length (pre.length + p) s
            = .ok (normArr f k x) s from by rw [hvals]; exact hrow x pre _ hx.1]
      simp only
      have hpre : (pre ++ (leaves x).map f).length = pre.length + p := by simp [hx.2]
      have := ih (pre ++ (leaves x).map f) post n (fun y hy => hl y (List.mem_cons_of_mem _ hy)) (by simpa using hf)
      rw [hpre, ← hvals2] at this
      have harith : pre.length + p + xs.length * p = pre.length + (xs.length + 1) * p := by
        rw [Nat.succ_mul]; omega
      rw [harith] at this
      rw [this]
      rfl

theorem splitM_shaped (env : Env) (hlim : env.limit = none) (f : Val → Val) :
    ∀ (ds : List Nat) (v : Val) (pre post : List Val) (s : St), ds ≠ [] → (∀ d ∈ ds, 1 ≤ d) → Shaped ds v →
      splitM env (pre ++ (leaves v).map f ++ post) false ds pre.length (pre.length + prodL ds) s
        = .ok (normArr f ds.length v) s := by
  intro ds
  induction ds with
  | nil => intro v pre post s h; exact absurd rfl h
  | cons d ds ih =>
    intro v pre post s _ hpos hsh
    obtain ⟨xs, rfl, hlen, hrows⟩ := hsh
    have hd : 1 ≤ d := hpos d (List.mem_cons_self ..)
    have hpos' : ∀ x ∈ ds, 1 ≤ x := fun x hx => hpos x (List.mem_cons_of_mem _ hx)
    cases ds with
    | nil =>
      -- last level: vals.Slice(i, j)
      have hleaves : leavesL xs = xs := leavesL_eq (fun x hx => hrows x hx)
      simp only [splitM, splitLeaf, prodL, Nat.mul_one, leaves_slice, hleaves]
      have h1 : ¬ (pre.length + d < pre.length ∨ (pre ++ List.map f xs ++ post).length < pre.length + d) := by
        simp only [List.length_append, List.length_map, hlen]; omega
      simp only [h1, if_false, Dec.pure_apply, List.length_cons, List.length_nil, normArr_slice]
      congr 2
      have : pre ++ List.map f xs ++ post = pre ++ (List.map f xs ++ post) := by simp
      rw [this, List.drop_left, Nat.add_sub_cancel_left]
      have : (List.map f xs).length = d := by simp [hlen]
      rw [← this, List.take_left]
      simp [normArr_zero]
    | cons d' ds' =>
      have hp : 1 ≤ prodL (d' :: ds') := prodL_pos hpos'
      have hlenrow : ∀ x ∈ xs, (leaves x).length = prodL (d' :: ds') :=
        fun x hx => shaped_leaves_length _ x (hrows x hx)
      have hvlen : (pre ++ (leaves (Val.slice false xs)).map f ++ post).length > 0 := by
        have : (leaves (Val.slice false xs)).length = prodL (d :: d' :: ds') :=
          shaped_leaves_length _ _ ⟨xs, rfl, hlen, hrows⟩
        have h2 : 1 ≤ prodL (d :: d' :: ds') := prodL_pos hpos
        simp only [List.length_append, List.length_map, this]; omega
      have hstep : (pre.length + prodL (d :: d' :: ds') - pre.length) / d = prodL (d' :: ds') := by
        rw [Nat.add_sub_cancel_left]
        show d * prodL (d' :: ds') / d = prodL (d' :: ds')
        exact Nat.mul_div_cancel_left _ (by omega)
      rw [splitM]
      simp only [hvlen, if_true, hstep]
      have hne : ¬ prodL (d' :: ds') = 0 := by omega
      simp only [hne, if_false, Dec.bind_apply, requestAt_none hlim]
      have hloop := splitLoop_rows (g := fun vals a b => splitM env vals false (d' :: ds') a b) (f := f)
        (Q := Shaped (d' :: ds')) (k := (d' :: ds').length) hp s
        (fun x pre post hx => ih x pre post s (by simp) hpos' hx) xs pre post
        (pre.length + prodL (d :: d' :: ds') - pre.length) (fun x hx => ⟨hrows x hx, hlenrow x hx⟩) (by
            rw [Nat.add_sub_cancel_left]
            show xs.length ≤ d * prodL (d' :: ds')
            rw [hlen]
            exact Nat.le_mul_of_pos_right _ (by omega))
      have hj : pre.length + prodL (d :: d' :: ds') = pre.length + xs.length * prodL (d' :: ds') := by
        rw [hlen]; rfl
      rw [leaves_slice, hj]
      rw [hj] at hloop
      rw [hloop]
      simp only
      simp only [List.length_cons, normArr_slice]
      have hne2 : ¬ (List.map (normArr f (ds'.length + 1)) xs).isEmpty = true := by
        cases xs with
        | nil => simp at hlen; omega
        | cons x xs => simp
      rw [if_neg hne2]
      rfl

end Opcua.Codec
