import OpcuaModel.Gen.SubsFacts
/-
  Labelled transition system of the client's publish loop and the API calls that
  signal it (client_sub.go, client.go):

    * `monitorSubscriptions` — the publish loop: outer `select` (resumech, pausech,
      `default:` publish), inner paused `select`, and the self-signalled pause after
      a failed `publish()`;
    * `publish` — takes `subMux` (RLock before sending, Lock to handle a response);
    * `Subscribe` — plain blocking send on `resumech`, then registers under `subMux`;
    * `ForgetSubscription` / `Subscription.Cancel` — `subMux.Lock`, delete, and *while the
      lock is held* `pauseSubscriptions` when the registry is empty;
    * `Client.monitor` (reconnect) — `pauseSubscriptions`, later maybe `resumeSubscriptions`.

  Threads of the same kind at the same program point are interchangeable, so the
  state counts them.  The channel capacities and the initial pause token come from the
  generated facts.  Calls use a context that is never cancelled (`context.Background()`
  for API calls; the loop's own context is only cancelled by `Close`).
-/
namespace Opcua.PubLoop

def pauseCap : Nat := Gen.Subs.pauseCap
def resumeCap : Nat := Gen.Subs.resumeCap

/-- program counter of `monitorSubscriptions` -/
inductive Loop where
  | sel        -- at the outer select
  | paused     -- in the inner (paused) select
  | pubStart   -- `default:` chosen, about to RLock subMux and send the PublishRequest
  | inflight   -- PublishRequest sent, waiting for the response / timeout
  | wantLock   -- good response without data (keep-alive, unknown subscription): about to `subMux.Lock()`
  | wantLockD  -- good response with a data notification: about to `subMux.Lock()` to handle it
  | notifying  -- lock released; `notifySubscription` hands the data to the application (`s.Notifs <- data`)
  | selfPause  -- publish() failed: about to send on pausech (blocks while it is full)
  deriving DecidableEq, Repr

/-- holder of the write lock `subMux` across a blocking operation (short critical
    sections are atomic steps that need the lock to be free) -/
inductive Mux where
  | free
  | forgetSending   -- forgetSubscription_NeedsSubMuxLock is about to send on pausech (context never ends)
  | forgetSendingD  -- the same, called with a context that has a deadline
  deriving DecidableEq, Repr

def Mux.n : Mux → Nat
  | .free => 0
  | _ => 1

structure St where
  pause : Nat      -- len(pausech)
  resume : Nat     -- len(resumech)
  mux : Mux
  loop : Loop
  subSend : Nat    -- Subscribe calls before `c.resumech <- struct{}{}`
  subLock : Nat    -- Subscribe calls before `c.subMux.Lock()`
  fgStart : Nat    -- ForgetSubscription calls (registered id) before `c.subMux.Lock()`
  fgStale : Nat    -- ForgetSubscription calls for an id that is not registered (repeated Cancel)
  fgStaleD : Nat   -- … called with a context that has a deadline
  monPause : Nat   -- reconnect rounds of Client.monitor before pauseSubscriptions
  monResume : Nat  -- … after the actions, before the `activeSubs > 0` switch
  nsubs : Nat      -- len(c.subs)
  deriving DecidableEq, Repr

inductive Label where
  | selTakeResume | selTakePause | selDefault
  | pubStart | respOk | respData | respIgnored | respErr | handle | handleD | appTake | selfPause
  | pausedTakeResume | pausedTakePause
  | subSendResume | subRegister
  | fgLock | fgStaleLock | fgSendPause | fgStaleDLock | fgSendPauseD | fgGiveUp
  | monSendPause | monSendResume | monSkipResume
  deriving DecidableEq, Repr

def Label.all : List Label :=
  [.selTakeResume, .selTakePause, .selDefault, .pubStart, .respOk, .respData, .respIgnored, .respErr, .handle,
   .handleD, .appTake, .selfPause, .pausedTakeResume, .pausedTakePause, .subSendResume, .subRegister, .fgLock,
   .fgStaleLock, .fgSendPause, .fgStaleDLock, .fgSendPauseD, .fgGiveUp, .monSendPause, .monSendResume,
   .monSkipResume]

/-- environment steps: the server (or the timeout) ends an outstanding publish, the
    application takes a notification, a context deadline passes -/
def Label.isEnv : Label → Bool
  | .respOk | .respData | .respIgnored | .respErr | .appTake | .fgGiveUp => true
  | _ => false

def step (s : St) : Label → Option St
  -- outer select: `default:` only when neither channel is ready
  | .selTakeResume => if s.loop = .sel ∧ 0 < s.resume then some { s with resume := s.resume - 1 } else none
  | .selTakePause => if s.loop = .sel ∧ 0 < s.pause then some { s with pause := s.pause - 1, loop := .paused } else none
  | .selDefault => if s.loop = .sel ∧ s.pause = 0 ∧ s.resume = 0 then some { s with loop := .pubStart } else none
  -- publish(): RLock / RUnlock around reading pendingAcks, then the request is sent
  | .pubStart => if s.loop = .pubStart ∧ s.mux = .free then some { s with loop := .inflight } else none
  | .respOk => if s.loop = .inflight then some { s with loop := .wantLock } else none
  | .respIgnored => if s.loop = .inflight then some { s with loop := .sel } else none
  | .respErr => if s.loop = .inflight then some { s with loop := .selfPause } else none
  | .respData => if s.loop = .inflight then some { s with loop := .wantLockD } else none
  | .handle => if s.loop = .wantLock ∧ s.mux = .free then some { s with loop := .sel } else none
  -- Lock; handleAcks; handleNotification; Unlock — and only then notifySubscription
  | .handleD => if s.loop = .wantLockD ∧ s.mux = .free then some { s with loop := .notifying } else none
  | .appTake => if s.loop = .notifying then some { s with loop := .sel } else none
  | .selfPause => if s.loop = .selfPause ∧ s.pause < pauseCap then some { s with pause := s.pause + 1, loop := .sel } else none
  -- inner select
  | .pausedTakeResume => if s.loop = .paused ∧ 0 < s.resume then some { s with resume := s.resume - 1, loop := .sel } else none
  | .pausedTakePause => if s.loop = .paused ∧ 0 < s.pause then some { s with pause := s.pause - 1 } else none
  -- Subscribe
  | .subSendResume => if 0 < s.subSend ∧ s.resume < resumeCap then
      some { s with resume := s.resume + 1, subSend := s.subSend - 1, subLock := s.subLock + 1 } else none
  | .subRegister => if 0 < s.subLock ∧ s.mux = .free then
      some { s with subLock := s.subLock - 1, nsubs := s.nsubs + 1 } else none
  -- ForgetSubscription: Lock; delete; if len(c.subs) == 0 { pauseSubscriptions } ; Unlock
  | .fgLock => if 0 < s.fgStart ∧ s.mux = .free then
      (if s.nsubs - 1 = 0 then some { s with fgStart := s.fgStart - 1, nsubs := 0, mux := .forgetSending }
       else some { s with fgStart := s.fgStart - 1, nsubs := s.nsubs - 1 }) else none
  -- the same call for an id that is not in the registry: nothing is deleted
  | .fgStaleLock => if 0 < s.fgStale ∧ s.mux = .free then
      (if s.nsubs = 0 then some { s with fgStale := s.fgStale - 1, mux := .forgetSending }
       else some { s with fgStale := s.fgStale - 1 }) else none
  | .fgSendPause => if s.mux = .forgetSending ∧ s.pause < pauseCap then
      some { s with pause := s.pause + 1, mux := .free } else none
  -- the same call with a context that has a deadline: `pauseSubscriptions` selects on
  -- ctx.Done() as well, so it gives up (and the lock is released) when the deadline passes
  | .fgStaleDLock => if 0 < s.fgStaleD ∧ s.mux = .free then
      (if s.nsubs = 0 then some { s with fgStaleD := s.fgStaleD - 1, mux := .forgetSendingD }
       else some { s with fgStaleD := s.fgStaleD - 1 }) else none
  | .fgSendPauseD => if s.mux = .forgetSendingD ∧ s.pause < pauseCap then
      some { s with pause := s.pause + 1, mux := .free } else none
  | .fgGiveUp => if s.mux = .forgetSendingD then some { s with mux := .free } else none
  -- Client.monitor
  | .monSendPause => if 0 < s.monPause ∧ s.pause < pauseCap then
      some { s with pause := s.pause + 1, monPause := s.monPause - 1, monResume := s.monResume + 1 } else none
  | .monSendResume => if 0 < s.monResume ∧ s.resume < resumeCap then
      some { s with resume := s.resume + 1, monResume := s.monResume - 1 } else none
  | .monSkipResume => if 0 < s.monResume then some { s with monResume := s.monResume - 1 } else none

def run : St → List Label → Option St
  | s, [] => some s
  | s, l :: ls => match step s l with
    | some s' => run s' ls
    | none => none

/-- some thread (or the environment) can move -/
def canStep (s : St) : Bool := Label.all.any fun l => (step s l).isSome

/-- every API call has returned, the reconnect code is done, and the loop waits in
    its paused select with nothing to read -/
def atRest (s : St) : Bool :=
  s.subSend = 0 ∧ s.subLock = 0 ∧ s.fgStart = 0 ∧ s.fgStale = 0 ∧ s.fgStaleD = 0 ∧ s.mux = .free ∧ s.monPause = 0 ∧ s.monResume = 0 ∧
  s.loop = .paused ∧ s.pause = 0 ∧ s.resume = 0

/-- everything is quiet and the loop is paused although subscriptions are registered:
    no PublishRequest will be sent until somebody subscribes again -/
def stalled (s : St) : Bool := atRest s && decide (0 < s.nsubs)

/-- a fresh client (`NewClient` queues `newClientPauses` tokens) whose publish loop has
    just been started by `Connect`, with the given API calls about to happen -/
def init (subscribes forgets stale staleD reconnects nsubs : Nat) : St :=
  { pause := Gen.Subs.newClientPauses, resume := 0, mux := .free, loop := .sel,
    subSend := subscribes, subLock := 0, fgStart := forgets, fgStale := stale, fgStaleD := staleD, monPause := reconnects, monResume := 0,
    nsubs := nsubs }

inductive Reachable (s₀ : St) : St → Prop where
  | refl : Reachable s₀ s₀
  | step {s s' : St} (l : Label) : Reachable s₀ s → step s l = some s' → Reachable s₀ s'

/-- reachability without a failing publish -/
inductive ReachableNoErr (s₀ : St) : St → Prop where
  | refl : ReachableNoErr s₀ s₀
  | step {s s' : St} (l : Label) : ReachableNoErr s₀ s → l ≠ .respErr → step s l = some s' → ReachableNoErr s₀ s'

/-- the loop has consumed the initial pause token and waits; `n` Subscribe calls follow -/
def started (n : Nat) : St :=
  { pause := 0, resume := 0, mux := .free, loop := .paused, subSend := n, subLock := 0, fgStart := 0,
    fgStale := 0, fgStaleD := 0, monPause := 0, monResume := 0, nsubs := 0 }

/-- threads that may still send a pause signal (the loop itself not counted) -/
def pausers (s : St) : Nat := s.fgStart + s.fgStale + s.fgStaleD + s.mux.n + s.monPause

/-! #### quiescence closure (used by the driver for the correspondence runs) -/

def internalLabels : List Label := Label.all.filter fun l => !l.isEnv

def succs (s : St) : List St := internalLabels.filterMap (step s)

/-- all states in which no internal step is enabled that can be reached from the
    frontier by internal steps (fuel bounds the search) -/
def quiesce : Nat → List St → List St → List St
  | 0, _, acc => acc
  | fuel + 1, frontier, acc =>
    match frontier with
    | [] => acc
    | s :: rest =>
      let n := succs s
      if n.isEmpty then quiesce fuel rest (if acc.contains s then acc else acc ++ [s])
      else quiesce fuel (rest ++ n.filter (fun x => !rest.contains x)) acc

end Opcua.PubLoop
