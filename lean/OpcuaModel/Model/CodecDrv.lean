import OpcuaModel.Base.Loop
import OpcuaModel.Model.CodecText
import OpcuaModel.Model.CodecWt
import OpcuaModel.Model.CodecExtra
import OpcuaModel.Gen.Types
/-
  Line-protocol handler of the codec drivers (C01, C02, C03).
    enc <fuel> <type> <value>            → ok <hex> | fail <kind>
    dec <fuel> <limit|-> <type> <hex>    → ok <consumed> <value> | fail <kind>
    wt <fuel> <type> <value>             → true | false      (domain of the round-trip theorem)
    norm <fuel> <type> <value>           → <value>           (normal form of the round-trip theorem)
    allocsite <fuel> <limit> <type> <hex> → slice | vararray | dims | split | mixed | none
                                           (the allocation site whose requests alone exceed the budget)
    decsvc <fuel> <limit|-> <hex>        → ok <type id> <name> <value> | fail <kind>   (ua.DecodeService)
    newvar <base> <depth> <value>        → ok <variant> | fail <kind>   (ua.NewVariant on a value of Go type slice^depth(T_base))
-/
namespace Opcua.CodecDrv
open Opcua Opcua.Codec

def named (n : String) : Option Ty := (Gen.namedTypes.find? (·.1 == n)).map (·.2)

def envOf (limit : Option Nat) : Env := { limit := limit, exts := Gen.extObjTypes }

def handle : List String → String
  | "enc" :: fuel :: rest =>
    match fuel.toNat?, pTy named rest with
    | some f, some (ty, rest) =>
      match pVal rest with
      | some (v, []) =>
        match encode (envOf none) f ty v with
        | .ok b => "ok " ++ toHex b
        | .error e => "fail " ++ failName e
      | _ => "bad-value"
    | _, _ => "bad-op"
  | "dec" :: fuel :: limit :: rest =>
    match fuel.toNat?, pTy named rest with
    | some f, some (ty, [hex]) =>
      match fromHex hex with
      | some b =>
        match decode (envOf limit.toNat?) f ty ⟨b, 0⟩ with
        | .ok v s => s!"ok {b.length - s.buf.length} {printVal v}"
        | .fail e => "fail " ++ failName e
      | none => "bad-hex"
    | _, _ => "bad-op"
  | "allocsite" :: fuel :: limit :: rest =>
    match fuel.toNat?, limit.toNat?, pTy named rest with
    | some f, some l, some (ty, [hex]) =>
      match fromHex hex with
      | some b =>
        let isAlloc (exempt : List Site) : Bool :=
          match decode { limit := some l, exts := Gen.extObjTypes, exempt := exempt } f ty ⟨b, 0⟩ with
          | .fail .alloc => true
          | _ => false
        if !isAlloc [] then "none"
        else if isAlloc [.slice, .varArray, .dims] then "split"
        else if isAlloc [.varArray, .dims, .split] then "slice"
        else if isAlloc [.slice, .dims, .split] then "vararray"
        else if isAlloc [.slice, .varArray, .split] then "dims"
        else "mixed"
      | none => "bad-hex"
    | _, _, _ => "bad-op"
  | ["decsvc", fuel, limit, hex] =>
    match fuel.toNat?, fromHex hex with
    | some f, some b =>
      match decService Gen.serviceTypes (decode (envOf limit.toNat?) f) ⟨b, 0⟩ with
      | .ok (tid, name, v) _ => s!"ok {printVal (.expNodeId tid)} {name} {printVal v}"
      | .fail e => "fail " ++ failName e
    | _, _ => "bad-op"
  | "wt" :: fuel :: rest =>
    match fuel.toNat?, pTy named rest with
    | some f, some (ty, rest) =>
      match pVal rest with
      | some (v, []) => toString (wt (envOf none) f ty v)
      | _ => "bad-value"
    | _, _ => "bad-op"
  | "norm" :: fuel :: rest =>
    match fuel.toNat?, pTy named rest with
    | some f, some (ty, rest) =>
      match pVal rest with
      | some (v, []) => printVal (norm (envOf none) f ty v)
      | _ => "bad-value"
    | _, _ => "bad-op"
  | "newvar" :: base :: depth :: rest =>
    match base.toNat?, depth.toNat?, pVal rest with
    | some b, some d, some (v, []) =>
      match newVariant ⟨b, d⟩ v with
      | .ok m => "ok " ++ printVal m
      | .error e => "fail " ++ failName e
    | _, _, _ => "bad-op"
  | _ => "bad-op"

end Opcua.CodecDrv
