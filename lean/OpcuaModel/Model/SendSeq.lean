import OpcuaModel.Gen.SeqNum
/-
  C11 / C16(b) — numbering and writing of chunks by concurrent senders and the
  token renewal of a client secure channel, as a labelled transition system.

  Threads: any number of senders (spawned at any time; request senders go
  through `SendRequestWithTimeout`, response senders through
  `sendResponseWithContext`/`SendMsgWithContext`) and the renewer
  (`renew` → `open` → OPN request → `handleOpenSecureChannelResponse`).
  Shared: `activeInstance`, per instance the counter `sequenceNumber`, the
  embedded mutex and the token id, the gate `reqLocker`, the wait group
  `pendingReq` (as the list of threads that did `Add` and not yet `Done`), the
  wire.  One label per critical section / gate operation / write; which lock
  protects what is in `Gen.SendFacts` (theorem `C11_facts`).

    spawn                a new thread
    gate t               `s.reqLocker.waitIfLock()` returns          (needs the gate open)
    getActive t          `getActiveChannelInstance()` in SendRequestWithTimeout
    pendAdd t            `s.pendingReq.Add(1)`
    respGetActive t      `getActiveChannelInstance()` of a response sender
    lockInst t           `instance.Lock()`                           (needs the mutex free)
    newMsg t cnt         `newRequestMessage`/`newMessage`: draws the first number; the message has cnt chunks
    write t sq           one loop iteration: draws the next number if idx > 0, writes the chunk; sq = number seen on the wire
    abort t              the loop returns early (`ctx.Done()`, encode / sign / write error)
    unlockInst t         deferred `instance.Unlock()` (after the last chunk, after an abort, or straight
                         after `lockInst` when the context is already done: no number is drawn then)
    pendDone t           `s.pendingReq.Done()`
    rLock                `s.reqLocker.lock()` of the renewal scheduled for the active token (one per installed token)
    rWaitBegin/rWaitDone `s.pendingReq.Wait()`  (it returns once the wait group was empty after the call)
    rLockOld             `instance.Lock()` of the token being renewed
    rCopy                `open`: new instance, `sequenceNumber` copied from the old one
    rSendOPN sq          the OPN request is numbered from the new instance and written
    rInstall tok         `handleOpenSecureChannelResponse`: the new instance becomes active
    rFail                `open` returns an error (timeout, bad response): nothing is installed
    rUnlockOld, rUnlock  deferred `instance.Unlock()`, `s.reqLocker.unlock()`
-/
namespace Opcua.SendSeq

def upd {α : Type} (f : Nat → α) (k : Nat) (v : α) : Nat → α := fun j => if j = k then v else f j

@[simp, grind =] theorem upd_apply {α : Type} (f : Nat → α) (k : Nat) (v : α) (j : Nat) :
    upd f k v j = if j = k then v else f j := rfl

/-- `channelInstance.nextSequenceNumber` (machine translated) -/
def next (n : Int) : Int := (Gen.nextSequenceNumber n).2

inductive Who where
  | s (t : Nat)
  | r
  deriving DecidableEq, Repr

structure Chunk where
  inst : Nat
  tok : Nat
  seq : Int
  msg : Nat
  opn : Bool
  idx : Nat
  cnt : Nat
  deriving DecidableEq, Repr

inductive PC where
  | start
  | gated
  | hasActive (i : Nat)
  | added (i : Nat)
  | respActive (i : Nat)
  | locked (i : Nat) (req : Bool)
  /-- numbered; `idx` chunks are written, `idx = cnt`: finished (or aborted) -/
  | writing (i : Nat) (req : Bool) (idx cnt : Nat)
  | unlocked (i : Nat)
  | done
  deriving DecidableEq, Repr

inductive RPC where
  | idle | gateLocked | waiting | waited | wantOld | holdOld
  | copied (j : Nat) | sent (j : Nat) | installed (j : Nat) | failed (j : Nat) | releasedOld
  deriving DecidableEq, Repr

structure St where
  n : Nat
  pc : Nat → PC
  rpc : RPC
  old : Nat
  active : Nat
  nInst : Nat
  seq : Nat → Int
  tok : Nat → Nat
  holder : Nat → Option Who
  reqLocked : Bool
  pend : List Who
  /-- newest chunk first -/
  wire : List Chunk
  /-- counter of the first token before anything was sent -/
  base : Int
  /-- ghost: the thread that is in the middle of a multi-chunk message -/
  mid : Option Nat
  /-- ghost: instances (tokens) for which a renewal was started, newest first -/
  renewed : List Nat
  /-- a renewal is still scheduled for this instance (`go s.scheduleRenewal(instance)` ran and
      its renewal has not started yet) -/
  sched : Nat → Bool

def init (b : Int) (tk : Nat) : St :=
  { n := 0, pc := fun _ => .start, rpc := .idle, old := 0, active := 0, nInst := 1,
    seq := fun _ => b, tok := fun _ => tk, holder := fun _ => none, reqLocked := false, pend := [],
    wire := [], base := b, mid := none, renewed := [], sched := fun i => decide (i = 0) }

inductive Label where
  | spawn
  | gate (t : Nat) | getActive (t : Nat) | pendAdd (t : Nat) | respGetActive (t : Nat)
  | lockInst (t : Nat) | newMsg (t : Nat) (cnt : Nat) | write (t : Nat) (sq : Int) | abort (t : Nat)
  | unlockInst (t : Nat) | pendDone (t : Nat)
  | rLock | rWaitBegin | rWaitDone | rLockOld | rCopy | rSendOPN (sq : Int)
  | rInstall (tok : Nat) | rFail | rUnlockOld | rUnlock
  deriving DecidableEq, Repr

/-- `pendingReq.Wait()` has returned (logically) as soon as the wait group is
    empty while the renewer waits -/
def settle (s : St) : St :=
  if s.rpc = .waiting ∧ s.pend = [] then { s with rpc := .waited } else s

def step? (s : St) : Label → Option St
  | .spawn => some { s with n := s.n + 1 }
  | .gate t =>
    if t < s.n then
      match s.pc t with
      | .start => if s.reqLocked then none else some { s with pc := upd s.pc t .gated }
      | _ => none
    else none
  | .getActive t =>
    match s.pc t with
    | .gated => some { s with pc := upd s.pc t (.hasActive s.active) }
    | _ => none
  | .pendAdd t =>
    match s.pc t with
    | .hasActive i => some { s with pc := upd s.pc t (.added i), pend := .s t :: s.pend }
    | _ => none
  | .respGetActive t =>
    if t < s.n then
      match s.pc t with
      | .start => some { s with pc := upd s.pc t (.respActive s.active) }
      | _ => none
    else none
  | .lockInst t =>
    match s.pc t with
    | .added i =>
      if s.holder i = none then some { s with pc := upd s.pc t (.locked i true), holder := upd s.holder i (some (.s t)) } else none
    | .respActive i =>
      if s.holder i = none then some { s with pc := upd s.pc t (.locked i false), holder := upd s.holder i (some (.s t)) } else none
    | _ => none
  | .newMsg t cnt =>
    match s.pc t with
    | .locked i req =>
      if cnt = 0 then none
      else some { s with seq := upd s.seq i (next (s.seq i)), pc := upd s.pc t (.writing i req 0 cnt) }
    | _ => none
  | .write t sq =>
    match s.pc t with
    | .writing i req idx cnt =>
      if idx < cnt then
        let v := if idx = 0 then s.seq i else next (s.seq i)
        if v = sq then
          some { s with seq := upd s.seq i v,
                        wire := { inst := i, tok := s.tok i, seq := v, msg := t, opn := false, idx := idx, cnt := cnt } :: s.wire,
                        pc := upd s.pc t (.writing i req (idx + 1) cnt),
                        mid := if idx + 1 < cnt then some t else none }
        else none
      else none
    | _ => none
  | .abort t =>
    match s.pc t with
    | .writing i req idx cnt =>
      if idx < cnt then some { s with pc := upd s.pc t (.writing i req cnt cnt), mid := if s.mid = some t then none else s.mid } else none
    | _ => none
  | .unlockInst t =>
    match s.pc t with
    | .locked i req =>
      -- the context was already done: the function returns before a number is drawn
      some { s with holder := upd s.holder i none, pc := upd s.pc t (if req then .unlocked i else .done) }
    | .writing i req idx cnt =>
      if idx = cnt then
        some { s with holder := upd s.holder i none, pc := upd s.pc t (if req then .unlocked i else .done) }
      else none
    | _ => none
  | .pendDone t =>
    match s.pc t with
    | .unlocked _ => some (settle { s with pend := s.pend.erase (.s t), pc := upd s.pc t .done })
    | _ => none
  | .rLock =>
    match s.rpc with
    | .idle =>
      if s.sched s.active then
        some { s with rpc := .gateLocked, reqLocked := true, old := s.active, renewed := s.active :: s.renewed,
                      sched := upd s.sched s.active false }
      else none
    | _ => none
  | .rWaitBegin =>
    match s.rpc with
    | .gateLocked => some (settle { s with rpc := .waiting })
    | _ => none
  | .rWaitDone =>
    match s.rpc with
    | .waited => some { s with rpc := .wantOld }
    | _ => none
  | .rLockOld =>
    match s.rpc with
    | .wantOld => if s.holder s.old = none then some { s with rpc := .holdOld, holder := upd s.holder s.old (some .r) } else none
    | _ => none
  | .rCopy =>
    match s.rpc with
    | .holdOld =>
      some { s with rpc := .copied s.nInst, nInst := s.nInst + 1, seq := upd s.seq s.nInst (s.seq s.old),
                    tok := upd s.tok s.nInst 0, holder := upd s.holder s.nInst none }
    | _ => none
  | .rSendOPN sq =>
    match s.rpc with
    | .copied j =>
      if next (s.seq j) = sq then
        some { s with rpc := .sent j, seq := upd s.seq j (next (s.seq j)),
                      wire := { inst := j, tok := 0, seq := next (s.seq j), msg := 0, opn := true, idx := 0, cnt := 1 } :: s.wire }
      else none
    | _ => none
  | .rInstall tk =>
    match s.rpc with
    | .sent j => some { s with rpc := .installed j, active := j, tok := upd s.tok j tk, sched := upd s.sched j true }
    | _ => none
  | .rFail =>
    match s.rpc with
    | .sent j => some { s with rpc := .failed j }
    | _ => none
  | .rUnlockOld =>
    match s.rpc with
    | .installed _ => some { s with rpc := .releasedOld, holder := upd s.holder s.old none }
    | .failed _ => some { s with rpc := .releasedOld, holder := upd s.holder s.old none }
    | _ => none
  | .rUnlock =>
    match s.rpc with
    | .releasedOld => some { s with rpc := .idle, reqLocked := false }
    | _ => none

def run? (s : St) : List Label → Option St
  | [] => some s
  | l :: ls => match step? s l with
    | some s' => run? s' ls
    | none => none

/-- every interleaving -/
inductive Reachable : St → Prop where
  | init (b : Int) (tk : Nat) : Reachable (init b tk)
  | step {s s' : St} (l : Label) : Reachable s → step? s l = some s' → Reachable s'

theorem reachable_run {s s' : St} (tr : List Label) (h : Reachable s) (hr : run? s tr = some s') : Reachable s' := by
  induction tr generalizing s with
  | nil => simp [run?] at hr; exact hr ▸ h
  | cons l ls ih =>
    simp only [run?] at hr
    split at hr
    · next s1 h1 => exact ih (Reachable.step l h h1) hr
    · exact absurd hr (by simp)

/-! ### the property on the wire -/

/-- the newer chunk continues the message of the older one, or starts a new
    message right after a final chunk -/
def Adj (newer older : Chunk) : Prop :=
  if newer.idx = 0 then older.idx + 1 = older.cnt
  else older.msg = newer.msg ∧ older.opn = newer.opn ∧ older.idx + 1 = newer.idx ∧ older.cnt = newer.cnt

instance (a b : Chunk) : Decidable (Adj a b) := by unfold Adj; exact inferInstance

/-- sequence numbers go up by `nextSequenceNumber` from chunk to chunk, starting
    after `base`, and the chunks of a message are adjacent (wire newest first) -/
def Linked (base : Int) : List Chunk → Prop
  | [] => True
  | [c] => c.seq = next base ∧ c.idx = 0
  | c2 :: c1 :: rest => c2.seq = next c1.seq ∧ Adj c2 c1 ∧ Linked base (c1 :: rest)

instance (b : Int) : (w : List Chunk) → Decidable (Linked b w)
  | [] => isTrue trivial
  | [c] => by unfold Linked; exact inferInstance
  | c2 :: c1 :: rest => by
    unfold Linked
    have := instDecidableLinked b (c1 :: rest)
    exact inferInstance

/-- number of the newest chunk (or the base) -/
def lastSeq (base : Int) : List Chunk → Int
  | [] => base
  | c :: _ => c.seq

def headFinal : List Chunk → Prop
  | [] => True
  | c :: _ => c.idx + 1 = c.cnt

def headIs (w : List Chunk) (t k cnt : Nat) : Prop :=
  match w with
  | [] => False
  | c :: _ => c.msg = t ∧ c.opn = false ∧ c.idx = k ∧ c.cnt = cnt

theorem linked_cons {base : Int} {w : List Chunk} {c : Chunk} (hl : Linked base w)
    (hs : c.seq = next (lastSeq base w))
    (h0 : c.idx = 0 → headFinal w)
    (h1 : c.idx ≠ 0 → ∃ k, c.idx = k + 1 ∧ headIs w c.msg k c.cnt ∧ c.opn = false) : Linked base (c :: w) := by
  cases w with
  | nil =>
    simp only [Linked, lastSeq] at *
    refine ⟨hs, ?_⟩
    by_cases hc : c.idx = 0
    · exact hc
    · obtain ⟨k, _, hh, _⟩ := h1 hc
      simp [headIs] at hh
  | cons c1 rest =>
    simp only [Linked, lastSeq] at *
    refine ⟨hs, ?_, hl⟩
    unfold Adj
    by_cases hc : c.idx = 0
    · simp only [hc, if_true]
      exact h0 hc
    · simp only [hc, if_false]
      obtain ⟨k, hk, hh, ho⟩ := h1 hc
      simp only [headIs] at hh
      refine ⟨hh.1, ?_, ?_, hh.2.2.2⟩
      · rw [hh.2.1, ho]
      · omega

end Opcua.SendSeq
