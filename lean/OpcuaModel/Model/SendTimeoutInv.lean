import OpcuaModel.Model.SendTimeout
/-
  Invariants of the C19 LTS: bounded return and slot release (every
  interleaving), absence of the receive-gate wedge (inside the guard).
-/
namespace Opcua.SendTimeout

theorem leniency_pos : 0 < leniency := by decide

@[grind] def isIdle : CPC → Bool
  | .idle => true
  | .waiting _ _ => false
  | .returned _ _ _ => false
  | .finished _ _ => false

/-- time at which the call returned (from its select, or with a send error) -/
@[grind] def leftAt : CPC → Option Nat
  | .idle => none
  | .waiting _ _ => none
  | .returned t _ _ => some t
  | .finished t _ => some t

@[grind] def dpcOf : DPC → Option Nat
  | .recv => none
  | .popped k _ => some k
  | .lockedD k => some k
  | .sent _ _ => none

structure InvT (s : St) : Prop where
  bound : ∀ k, s.cpc k ≠ .idle → k < s.n
  dl : ∀ k dl opn, s.cpc k = .waiting dl opn → dl = s.t0 k + s.tmo k + leniency ∧ s.now < dl + s.slack
  left : ∀ k t, leftAt (s.cpc k) = some t → t < s.t0 k + s.tmo k + leniency + s.slack ∧ s.handlers k = false
  idleH : ∀ k, s.cpc k = .idle → s.handlers k = false ∧ s.box k = false
  boxH : ∀ k, s.box k = true → s.handlers k = false
  dpcH : ∀ k, dpcOf s.dpc = some k → s.handlers k = false ∧ s.box k = false ∧ s.cpc k ≠ .idle

theorem invT_init (n slack : Nat) : InvT (init n slack) := by
  constructor <;> simp [init, leftAt, dpcOf]

theorem anyBelow_false_iff {n : Nat} {p : Nat → Bool} : anyBelow n p = false ↔ ∀ k, k < n → p k = false := by
  unfold anyBelow
  constructor
  · intro h k hk
    cases hp : p k
    · rfl
    · have : (List.range n).any p = true := List.any_eq_true.2 ⟨k, List.mem_range.2 hk, hp⟩
      rw [h] at this; cases this
  · intro h
    cases ha : (List.range n).any p
    · rfl
    · obtain ⟨k, hk, hp⟩ := List.any_eq_true.1 ha
      rw [h k (List.mem_range.1 hk)] at hp; cases hp

macro "invt_close" : tactic => `(tactic| (constructor <;> grind))

theorem invT_step {s s' : St} {l : Label} (hi : InvT s) (h : step? s l = some s') : InvT s' := by
  obtain ⟨a1, a2, a3, a4, a5, a6⟩ := hi
  have lp := leniency_pos
  cases l <;> simp only [step?] at h
  case cSend k tmo opn => split at h <;> simp at h; subst h; invt_close
  case cSendFail k => split at h <;> simp at h; subst h; invt_close
  case cRecv k => (repeat' split at h) <;> simp at h <;> subst h <;> invt_close
  case cTimeout k hit => (repeat' split at h) <;> simp at h <;> subst h <;> invt_close
  case cCancel k hit => (repeat' split at h) <;> simp at h <;> subst h <;> invt_close
  case cUnlock k => (repeat' split at h) <;> simp at h <;> subst h <;> invt_close
  case dRecv id opn hit => (repeat' split at h) <;> simp at h <;> subst h <;> invt_close
  case dRcvLock => (repeat' split at h) <;> simp at h <;> subst h <;> invt_close
  case dSend => (repeat' split at h) <;> simp at h <;> subst h <;> invt_close
  case dWait => (repeat' split at h) <;> simp at h <;> subst h <;> invt_close
  case tick d =>
    split at h
    · simp at h
    · next hov =>
      simp at h; subst h
      have hov' := anyBelow_false_iff.1 (by simpa using hov)
      constructor
      case dl =>
        intro k dl opn hk
        simp only at hk
        have h2 := a2 k dl opn hk
        refine ⟨h2.1, ?_⟩
        have := hov' k (a1 k (by simp [hk]))
        simp only [overdue] at this
        rw [hk] at this
        simp at this
        exact this
      all_goals grind

theorem reachable_invT {s : St} (h : Reachable s) : InvT s := by
  induction h with
  | init n slack => exact invT_init n slack
  | step l _ hs ih => exact invT_step ih hs

/-! ### inside the guard: the gate is only ever locked on behalf of an `open()` that will unlock it -/

/-- a conforming peer: an OpenSecureChannelResponse answers an OpenSecureChannel request -/
def PeerOK (s : St) : Label → Prop
  | .dRecv id true true => ∃ dl, s.cpc id = .waiting dl true
  | _ => True

structure InvW (s : St) : Prop where
  bound : ∀ k, s.cpc k ≠ .idle → k < s.n
  one : ∀ k k', openBusy s k = true → openBusy s k' = true → k = k'
  popped : ∀ k, s.dpc = .popped k true → ∃ dl, s.cpc k = .waiting dl true
  dpcN : ∀ k, dpcOf s.dpc = some k → s.cpc k ≠ .idle ∧ s.handlers k = false ∧ s.box k = false
  boxH : ∀ k, s.box k = true → s.handlers k = false
  lockA : s.rcvLocked = true → ∃ k, s.lockFor = some k
  lockB : ∀ k, s.lockFor = some k → openBusy s k = true
  boxI : ∀ k, s.cpc k = .idle → s.box k = false ∧ s.handlers k = false

inductive ReachableGP : St → Prop where
  | init (n slack : Nat) : ReachableGP (init n slack)
  | step {s s' : St} (l : Label) : ReachableGP s → Guard s l → PeerOK s l → step? s l = some s' → ReachableGP s'

theorem invW_init (n slack : Nat) : InvW (init n slack) := by
  constructor <;> simp [init, openBusy, dpcOf]

theorem invW_step {s s' : St} {l : Label} (hi : InvW s) (hg : Guard s l) (hp : PeerOK s l) (h : step? s l = some s') : InvW s' := by
  obtain ⟨a1, a2, a3, a4, a4b, a5, a6, a7⟩ := hi
  cases l <;> simp only [step?] at h <;> simp only [Guard, PeerOK] at hg hp
  case cSendFail k => (repeat' split at h) <;> simp at h <;> subst h <;> (constructor <;> simp only [openBusy] at * <;> grind)
  case cSend k tmo opn =>
    split at h <;> simp at h; subst h
    next hc =>
    have hb : opn = true → ∀ j, j < s.n → openBusy s j = false := fun ho => anyBelow_false_iff.1 (hc.2.2 ho)
    have hb' : opn = true → ∀ j, openBusy s j = false := by
      intro ho j
      by_cases hj : j < s.n
      · exact hb ho j hj
      · have : s.cpc j = .idle := by
          cases hcj : s.cpc j <;> first | rfl | exact absurd (a1 j (by simp [hcj])) hj
        simp [openBusy, this]
    constructor <;> simp only [openBusy] at * <;> grind
  case cRecv k => (repeat' split at h) <;> simp at h <;> subst h <;> (constructor <;> simp only [openBusy] at * <;> grind)
  case cTimeout k hit => (repeat' split at h) <;> simp at h <;> subst h <;> (constructor <;> simp only [openBusy] at * <;> grind)
  case cCancel k hit => (repeat' split at h) <;> simp at h <;> subst h <;> (constructor <;> simp only [openBusy] at * <;> grind)
  case cUnlock k => (repeat' split at h) <;> simp at h <;> subst h <;> (constructor <;> simp only [openBusy] at * <;> grind)
  case dRecv id opn hit =>
    cases opn <;> cases hit <;> simp only [PeerOK] at hp <;>
      (repeat' split at h) <;> simp at h <;> (try subst h) <;> (constructor <;> simp only [openBusy] at * <;> grind)
  case dRcvLock => (repeat' split at h) <;> simp at h <;> subst h <;> (constructor <;> simp only [openBusy] at * <;> grind)
  case dSend => (repeat' split at h) <;> simp at h <;> subst h <;> (constructor <;> simp only [openBusy] at * <;> grind)
  case dWait => (repeat' split at h) <;> simp at h <;> subst h <;> (constructor <;> simp only [openBusy] at * <;> grind)
  case tick d => (repeat' split at h) <;> simp at h <;> subst h <;> (constructor <;> simp only [openBusy] at * <;> grind)

theorem reachableGP_invW {s : St} (h : ReachableGP s) : InvW s := by
  induction h with
  | init n slack => exact invW_init n slack
  | step l _ hg hp hs ih => exact invW_step ih hg hp hs

theorem reachableGP_reachable {s : St} (h : ReachableGP s) : Reachable s := by
  induction h with
  | init n slack => exact Reachable.init n slack
  | step l _ _ _ hs ih => exact Reachable.step l ih hs

end Opcua.SendTimeout
