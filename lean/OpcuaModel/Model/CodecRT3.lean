import OpcuaModel.Model.CodecSplit
/-
  Round-trip lemma for Variant (all shapes) and ExtensionObject.
-/
namespace Opcua.Codec
open Opcua

section
variable {encT : Ty → Val → Enc} {decT : Ty → Dec Val} {wtT : Ty → Val → Bool} {normT : Ty → Val → Val}

theorem rt_leafList (hrec : RecOk encT decT wtT normT)
    (hshape : ∀ tid ty v, vElemTy tid = some ty → wtT ty v = true → IsLeafVal v)
    (tid : Nat) (xs : List Val) (hx : ∀ x ∈ xs, wtLeaf wtT tid x = true) :
    ∃ bs, encElems (encVarLeaf encT tid) xs = .ok bs ∧
      Reads (decElems (decVarValue decT tid) xs.length) bs (xs.map (normLeaf normT tid)) :=
  rt_elems xs (fun x hxm => (rt_varLeaf hrec hshape tid x (hx x hxm)).2)

theorem toInt32_alen {alen : Nat} (h : alen ≤ 65535) : toInt32 alen = (alen : Int) :=
  toInt32_small (by omega)

/-- the flattened elements of an array Variant with `alen` elements -/
theorem reads_decVarElems (env : Env) (hlim : env.limit = none) {elem : Dec Val} {bs : Bytes} {xs : List Val} {alen : Nat}
    (hal : alen ≤ 65535) (r : Reads (decElems elem alen) bs xs) :
    Reads (decVarElems env elem (toInt32 alen)) bs xs := by
  unfold decVarElems
  rw [toInt32_alen hal]
  have h1 : ¬ ((alen : Int) = -1) := by omega
  simp only [h1, if_false, Int.toNat_natCast]
  exact Reads.congr (Reads.bind (reads_requestAt hlim _ alen) r) (List.nil_append _) rfl

/-- 1-D array value: `.slice false xs` whose elements are leaves -/
theorem wtArr_one {leaf : Val → Bool} {alen : Nat} {value : Val} (h : wtArr leaf [alen] value = true) :
    ∃ xs, value = .slice false xs ∧ xs.length = alen ∧ ∀ x ∈ xs, leaf x = true := by
  match value, h with
  | .slice false xs, h =>
    simp only [wtArr, Bool.and_eq_true, decide_eq_true_eq, List.all_eq_true] at h
    exact ⟨xs, rfl, h.1, h.2⟩

theorem normArr_one (f : Val → Val) (xs : List Val) : normArr f 1 (.slice false xs) = .slice false (xs.map f) := by
  simp [normArr_slice, normArr_zero]

/-- the bytes and the decoders of the dimension part -/
theorem rt_dims (env : Env) (hlim : env.limit = none) (c : Bool) (dlen : Nat) (dims : Option (List Nat))
    (h : if c then (∃ ds, dims = some ds ∧ ds.length = dlen ∧ dlen < 2147483648 ∧ ∀ d ∈ ds, 1 ≤ d ∧ d < 2147483648)
         else dlen = 0 ∧ dims = none) :
    ∃ b1 b2, optEnc c (encDimList dlen dims) = .ok (b1 ++ b2) ∧
      Reads (optDec c (readUInt 4) 0) b1 dlen ∧ Reads (optDec c (decDimList env dlen) none) b2 dims ∧
      ¬ toInt32 dlen < 0 := by
  cases c with
  | false =>
    simp only [Bool.false_eq_true, if_false] at h
    obtain ⟨rfl, rfl⟩ := h
    refine ⟨[], [], rfl, ?_, ?_, by simp [toInt32]⟩
    · unfold optDec; simpa using Reads.ret 0
    · unfold optDec; simpa using Reads.ret (none : Option (List Nat))
  | true =>
    simp only [if_true] at h
    obtain ⟨ds, rfl, hl, hd, hds⟩ := h
    have h1 : toInt32 dlen = (dlen : Int) := toInt32_small hd
    refine ⟨leBytes 4 dlen, ds.flatMap (leBytes 4), ?_, ?_, ?_, by rw [h1]; omega⟩
    · simp only [optEnc, if_true, encDimList, h1, Int.toNat_natCast, Option.getD_some, hl, Nat.lt_irrefl, if_false]
      rw [← hl, List.take_length]
    · unfold optDec
      simp only [if_true]
      exact reads_readUInt 4 dlen (by have : (256:Nat)^4 = 4294967296 := by decide
                                      omega)
    · unfold optDec decDimList
      simp only [if_true]
      have r1 := reads_requestAt hlim .dims dlen
      have r2 := reads_decDims ds hds
      rw [hl] at r2
      have r3 := Reads.map (g := some) r2
      have r4 := Reads.congr (Reads.bind (f := fun _ => decDims dlen >>= fun a => pure (some a)) r1 r3) (List.nil_append _) rfl
      intro rest a
      have hlen : (ds.flatMap (leBytes 4)).length = 4 * dlen := by
        rw [← hl]
        clear r2 r3 r4 hds hl
        induction ds with
        | nil => rfl
        | cons d ds ih => simp [List.flatMap_cons, ih]; omega
      have hc : ¬ dlen > (ds.flatMap (leBytes 4) ++ rest).length / 4 := by
        rw [List.length_append, hlen]; omega
      simp only [Dec.bind_apply, checkDimCount, hc, if_false]
      exact r4 rest a

theorem encVarValue_eq (tid k : Nat) (value : Val) (ht : tid ≠ 0) :
    encVarValue encT tid ⟨tid, k⟩ value = encElems (encVarLeaf encT tid) (leaves value) := by
  unfold encVarValue
  simp only
  rw [if_neg]
  intro h
  exact ht h.2

theorem rt_variant_array (env : Env) (hlim : env.limit = none) (hrec : RecOk encT decT wtT normT)
    (hshape : ∀ tid ty v, vElemTy tid = some ty → wtT ty v = true → IsLeafVal v)
    (mask alen dlen : Nat) (dims : Option (List Nat)) (value : Val)
    (hm : mask < 256) (t0 : ¬ mask % 64 = 0) (t25 : ¬ mask % 64 > 25) (harr : has mask 0x80 = true)
    (hal : alen ≤ 65535)
    (hdims : if has mask 0x40 then
        (∃ ds, dims = some ds ∧ ds.length = dlen ∧ dlen < 2147483648 ∧ (∀ d ∈ ds, 1 ≤ d ∧ d < 2147483648) ∧
          (dlen = 0 ∨ prodNat ds = alen))
      else dlen = 0 ∧ dims = none)
    (L : List Val) (hL : leaves value = L) (hLlen : L.length = alen) (hLw : ∀ x ∈ L, wtLeaf wtT (mask % 64) x = true)
    (hval : if dlen < 2 then value = .slice false L else Shaped (dims.getD []) value) :
    RTv (encVariant encT mask alen dlen dims ⟨mask % 64, max 1 dlen⟩ value) (decVariant env decT)
      (.variant mask alen dlen dims ⟨mask % 64, max 1 dlen⟩
        (normArr (normLeaf normT (mask % 64)) (max 1 dlen) value)) := by
  obtain ⟨eb, heb, reb⟩ := rt_leafList hrec hshape (mask % 64) L hLw
  have hdims' : if has mask 0x40 then
      (∃ ds, dims = some ds ∧ ds.length = dlen ∧ dlen < 2147483648 ∧ ∀ d ∈ ds, 1 ≤ d ∧ d < 2147483648)
      else dlen = 0 ∧ dims = none := by
    by_cases c : has mask 0x40 = true
    · simp only [c, if_true] at hdims ⊢
      obtain ⟨ds, h1, h2, h3, h4, _⟩ := hdims
      exact ⟨ds, h1, h2, h3, h4⟩
    · simp only [c, Bool.false_eq_true, if_false] at hdims ⊢
      exact hdims
  obtain ⟨b1, b2, hd, r1, r2, hneg⟩ := rt_dims env hlim (has mask 0x40) dlen dims hdims'
  -- facts about the dimension list
  have hprod : dlen > 0 → True ∧ prodL (dims.getD []) = alen ∧ (dims.getD []).length = dlen
      ∧ ∀ d ∈ dims.getD [], 1 ≤ d := by
    intro hpos
    by_cases c : has mask 0x40 = true
    · simp only [c, if_true] at hdims
      obtain ⟨ds, rfl, h2, _, h4, h5⟩ := hdims
      have hp : prodNat ds = alen := by
        rcases h5 with h5 | h5
        · omega
        · exact h5
      exact ⟨trivial, by rw [← prodNat_eq]; exact hp, h2, fun d hd => (h4 d hd).1⟩
    · simp only [c, Bool.false_eq_true, if_false] at hdims
      omega
  have hmis : dlen > 0 → ¬ dimsMismatch (dims.getD []) alen = true := by
    intro hpos
    have hp := hprod hpos
    unfold dimsMismatch
    have h1 : ¬ toInt32 alen < 0 := by rw [toInt32_alen hal]; omega
    have h2 : (dims.getD []).foldl (· * ·) 1 = alen := by
      have := hp.2.1
      rw [← prodNat_eq] at this
      exact this
    have h3 : (toInt32 alen).toNat = alen := by rw [toInt32_alen hal]; simp
    simp [h1, h2, h3]
  -- the encoder
  have henc : encVarValue encT (mask % 64) ⟨mask % 64, max 1 dlen⟩ value = .ok eb := by
    rw [encVarValue_eq _ _ _ t0, hL]
    exact heb
  refine ⟨leBytes 1 mask ++ leBytes 4 alen ++ eb ++ (b1 ++ b2), ?_, ?_⟩
  · simp only [encVariant, t0, if_false, henc, Enc.bind_ok, harr, Bool.true_and, hd, Enc.pure_eq, optBytes, if_true]
  · unfold decVariant
    have hassoc : leBytes 1 mask ++ leBytes 4 alen ++ eb ++ (b1 ++ b2)
        = leBytes 1 mask ++ (leBytes 4 alen ++ (eb ++ (b1 ++ (b2 ++ [])))) := by simp
    rw [hassoc]
    refine Reads.bind (reads_readUInt 1 mask (mask_lt hm)) ?_
    have hnarr : ¬ (¬ has mask 0x80 = true) := by simp [harr]
    simp only [t0, t25, hnarr, if_false]
    refine Reads.bind (reads_readUInt 4 alen (by have : (256:Nat)^4 = 4294967296 := by decide
                                                 omega)) ?_
    have hn1 : ¬ toInt32 alen > maxVariantArrayLength := by
      rw [toInt32_alen hal]; simp only [maxVariantArrayLength]; omega
    have hn2 : ¬ toInt32 alen < -1 := by rw [toInt32_alen hal]; omega
    simp only [hn1, hn2, if_false]
    have reb' : Reads (decElems (decVarValue decT (mask % 64)) alen) eb (L.map (normLeaf normT (mask % 64))) := by
      rw [← hLlen]; exact reb
    refine Reads.bind (reads_decVarElems env hlim hal reb') ?_
    refine Reads.bind r1 ?_
    simp only [hneg, if_false]
    refine Reads.bind r2 ?_
    have hnil : decide (toInt32 alen = -1) = false := by
      rw [toInt32_alen hal]; simp
    by_cases hd2 : dlen < 2
    · simp only [hd2, if_true] at hval
      subst hval
      have hcheck : ¬ (dlen > 0 ∧ dimsMismatch (dims.getD []) alen = true) := by
        intro hc
        exact hmis hc.1 hc.2
      simp only [hcheck, if_false, hd2, if_true, hnil]
      have hmax : max 1 dlen = 1 := by omega
      rw [hmax, normArr_one]
      exact Reads.ret _
    · simp only [hd2, if_false] at hval
      have hp := hprod (by omega)
      have hcheck : ¬ (dlen > 0 ∧ dimsMismatch (dims.getD []) alen = true) := fun hc => hmis hc.1 hc.2
      simp only [hcheck, if_false, hd2, hnil]
      have hmax : max 1 dlen = dlen := by omega
      rw [hmax]
      intro rest a
      have hne : dims.getD [] ≠ [] := by
        intro he
        have := hp.2.2.1
        rw [he] at this
        simp at this
        omega
      have hsplit := splitM_shaped env hlim (normLeaf normT (mask % 64)) (dims.getD []) value [] [] ⟨[] ++ rest, a⟩ hne hp.2.2.2 hval
      simp only [List.nil_append, List.append_nil, List.length_nil, Nat.zero_add, hL] at hsplit
      have hlen : (L.map (normLeaf normT (mask % 64))).length = prodL (dims.getD []) := by
        rw [List.length_map, hLlen, hp.2.1]
      simp only [Dec.bind_apply, List.nil_append, hlen, hsplit, Dec.pure_apply, hp.2.2.1]

theorem rt_variant (env : Env) (hlim : env.limit = none) (hrec : RecOk encT decT wtT normT)
    (hshape : ∀ tid ty v, vElemTy tid = some ty → wtT ty v = true → IsLeafVal v)
    (mask alen dlen : Nat) (dims : Option (List Nat)) (vt : VTag) (value : Val)
    (h : wtVariant wtT mask alen dlen dims vt value = true) :
    RTv (encVariant encT mask alen dlen dims vt value) (decVariant env decT)
      (normVariant normT mask alen dlen dims vt value) := by
  unfold wtVariant at h
  simp only [Bool.and_eq_true, decide_eq_true_eq] at h
  obtain ⟨hm, h⟩ := h
  have rm := reads_readUInt 1 mask (mask_lt hm)
  have hleaf1 : ∀ x, wtLeaf wtT (mask % 64) x = true → leaves x = [x] :=
    fun x hx => (rt_varLeaf hrec hshape (mask % 64) x hx).1
  by_cases t0 : mask % 64 = 0
  · -- Null
    simp only [t0, if_true, Bool.and_eq_true, decide_eq_true_eq] at h
    obtain ⟨⟨rfl, rfl, rfl, rfl⟩, hv⟩ := h
    have hvn : value = .nil := by
      cases value <;> first | rfl | simp [Val.isNil] at hv
    subst hvn
    refine ⟨leBytes 1 mask, by simp [encVariant, t0], ?_⟩
    unfold decVariant
    refine Reads.congr (x := Val.variant mask 0 0 none ⟨0, 0⟩ .nil) (Reads.bind rm ?_) (List.append_nil _) ?_
    · simp only [t0, if_true]; exact Reads.ret _
    · simp only [normVariant, t0, if_true]
  · simp only [t0, if_false] at h
    by_cases t25 : mask % 64 > 25
    · simp [t25] at h
    · simp only [t25, if_false] at h
      cases harr : has mask 0x80 with
      | true =>
        simp only [harr, not_true_eq_false, if_false] at h
        by_cases hnil : alen = 4294967295
        · -- nil array
          simp only [hnil, if_true, Bool.and_eq_true, Bool.not_eq_true', decide_eq_true_eq] at h
          obtain ⟨⟨h40, rfl, rfl, rfl⟩, hv⟩ := h
          have hvn : value = .slice true [] := by
            match value, hv with
            | .slice true [], _ => rfl
          subst hvn
          subst hnil
          have henc : encVarValue encT (mask % 64) ⟨mask % 64, 1⟩ (.slice true []) = .ok [] := by
            rw [encVarValue_eq _ _ _ t0]
            rfl
          refine ⟨leBytes 1 mask ++ leBytes 4 4294967295, ?_, ?_⟩
          · simp [encVariant, t0, henc, optBytes, optEnc, harr, h40]
          · unfold decVariant
            refine Reads.bind rm ?_
            simp only [t0, t25, harr, not_true_eq_false, if_false]
            refine Reads.congr (Reads.bind (reads_readUInt 4 4294967295 (by decide)) ?_) (List.append_nil _) rfl
            intro rest a
            simp [maxVariantArrayLength, decVarElems, optDec, h40, toInt32, normVariant, t0, normArr_slice]
        · simp only [hnil, if_false, Bool.and_eq_true, decide_eq_true_eq] at h
          obtain ⟨hal, h⟩ := h
          cases h40 : has mask 0x40 with
          | false =>
            simp only [h40, Bool.false_eq_true, not_false_eq_true, if_true, Bool.and_eq_true, decide_eq_true_eq] at h
            obtain ⟨⟨rfl, rfl, rfl⟩, harr1⟩ := h
            obtain ⟨xs, rfl, hxl, hxw⟩ := wtArr_one harr1
            have hL : leaves (.slice false xs) = xs := by
              rw [leaves_slice]; exact leavesL_eq (fun x hx => hleaf1 x (hxw x hx))
            have := rt_variant_array env hlim hrec hshape mask alen 0 none (.slice false xs) hm t0 t25 harr hal
              (by simp [h40]) xs hL hxl hxw (by simp)
            simpa [normVariant, t0] using this
          | true =>
            simp only [h40, not_true_eq_false, if_false] at h
            cases dims with
            | none => simp at h
            | some ds =>
              simp only [Bool.and_eq_true, decide_eq_true_eq, List.all_eq_true] at h
              obtain ⟨⟨⟨⟨hdl, hd31, rfl⟩, hds⟩, hprod⟩, hval⟩ := h
              have hdimsH : if has mask 0x40 then
                  (∃ ds', some ds = some ds' ∧ ds'.length = dlen ∧ dlen < 2147483648 ∧ (∀ d ∈ ds', 1 ≤ d ∧ d < 2147483648) ∧
                    (dlen = 0 ∨ prodNat ds' = alen))
                  else dlen = 0 ∧ some ds = none := by
                simp only [h40, if_true]
                exact ⟨ds, rfl, hdl, hd31, hds, hprod⟩
              by_cases hd2 : dlen < 2
              · simp only [hd2, if_true] at hval
                obtain ⟨xs, rfl, hxl, hxw⟩ := wtArr_one hval
                have hL : leaves (.slice false xs) = xs := by
                  rw [leaves_slice]; exact leavesL_eq (fun x hx => hleaf1 x (hxw x hx))
                have := rt_variant_array env hlim hrec hshape mask alen dlen (some ds) (.slice false xs) hm t0 t25 harr hal
                  hdimsH xs hL hxl hxw (by simp [hd2])
                simpa [normVariant, t0] using this
              · simp only [hd2, if_false] at hval
                obtain ⟨hsh, hlw⟩ := wtArr_shaped hleaf1 ds value hval
                have hlen : (leaves value).length = alen := by
                  rw [shaped_leaves_length ds value hsh, ← prodNat_eq]
                  rcases hprod with h0 | hp
                  · omega
                  · exact hp
                have := rt_variant_array env hlim hrec hshape mask alen dlen (some ds) value hm t0 t25 harr hal
                  hdimsH (leaves value) rfl hlen hlw (by simp [hd2, hsh])
                simpa [normVariant, t0] using this
      | false =>
        -- scalar
        simp only [harr, Bool.false_eq_true, not_false_eq_true, if_true, Bool.and_eq_true, Bool.not_eq_true', decide_eq_true_eq] at h
        obtain ⟨⟨rfl, rfl, rfl, rfl⟩, hl⟩ := h
        obtain ⟨hlv, b, hb, rb⟩ := rt_varLeaf hrec hshape (mask % 64) value hl
        have henc : encVarValue encT (mask % 64) ⟨mask % 64, 0⟩ value = .ok b := by
          rw [encVarValue_eq _ _ _ t0, hlv]
          simp only [encElems, hb, Enc.bind_ok, Enc.pure_eq, List.append_nil]
        refine ⟨leBytes 1 mask ++ b, ?_, ?_⟩
        · simp [encVariant, t0, henc, optBytes, optEnc, harr]
        · unfold decVariant
          refine Reads.bind rm ?_
          simp only [t0, t25, harr, if_false, Bool.false_eq_true, not_false_eq_true, if_true]
          have := Reads.map (g := fun v => Val.variant mask 0 0 none ⟨mask % 64, 0⟩ v) rb
          refine Reads.congr this rfl ?_
          simp [normVariant, t0, normArr_zero]

end

/-! ### ExtensionObject -/

theorem reads_onBody {α : Type} {d : Dec α} {body : Bytes} {x : α} (h : Reads d body x) : Reads (onBody body d) [] x := by
  intro rest a
  have := h [] a
  rw [List.append_nil] at this
  simp [onBody, this]

theorem bodyOk_ok {e : Enc} (h : bodyOk e = true) : ∃ b, e = .ok b ∧ b ≠ [] ∧ b.length < 4294967295 := by
  cases e with
  | error _ => simp [bodyOk] at h
  | ok b =>
    simp only [bodyOk, Bool.and_eq_true, Bool.not_eq_true', decide_eq_true_eq] at h
    refine ⟨b, rfl, ?_, h.2⟩
    intro hb
    subst hb
    simp at h

/-- length prefix and body, decoded with `d` -/
theorem reads_body {d : Dec Val} {body : Bytes} {v : Val} (hne : body ≠ []) (hlen : body.length < 4294967295)
    (r : Reads d body v) {k : Val → Dec Val} {z : Dec Val} {out : Val}
    (hk : Reads (k v) [] out) :
    Reads (readUInt 4 >>= fun len =>
      if len = 0 ∨ len = null32 then z
      else readN len >>= fun body => onBody body d >>= fun v => k v) (leBytes 4 body.length ++ body) out := by
  refine Reads.bind (reads_readUInt 4 body.length (by have : (256:Nat)^4 = 4294967296 := by decide
                                                      omega)) ?_
  have h0 : ¬ (body.length = 0 ∨ body.length = null32) := by
    have : body.length ≠ 0 := fun h => hne (List.eq_nil_of_length_eq_zero h)
    unfold null32
    omega
  simp only [h0, if_false]
  refine Reads.congr (Reads.bind (reads_readN body) (Reads.bind (reads_onBody r) hk)) (by simp) rfl

theorem emptyExt_reads : Reads decExpNodeId (leBytes 2 0) ⟨some twoByteZero, [], 0⟩ := by
  obtain ⟨bs, hbs, r⟩ := reads_decExpNodeId ⟨none, [], 0⟩ (by decide)
  have : encExpNodeId ⟨none, [], 0⟩ = .ok (leBytes 2 0) := rfl
  rw [this] at hbs
  cases hbs
  exact r

theorem rt_extObj (env : Env) (fuel : Nat)
    (hrec : RecOk (encode env fuel) (decode env fuel) (wt env fuel) (norm env fuel))
    (mask : Nat) (typeId : Option ExpNodeId) (vname : String) (value : Val)
    (h : wtExtObj env fuel (wt env fuel) mask typeId vname value = true) :
    RTv (encExtObj env (encode env fuel) mask typeId vname value) (decExtObj env (decode env fuel))
      (.extObj mask (typeId.map normExp) vname (normExtValue env (norm env fuel) mask vname value)) := by
  unfold wtExtObj at h
  unfold normExtValue
  simp only [Bool.and_eq_true, decide_eq_true_eq] at h
  obtain ⟨hm, h⟩ := h
  cases typeId with
  | none => simp at h
  | some e =>
    simp only [Bool.and_eq_true] at h
    obtain ⟨he, h⟩ := h
    obtain ⟨tb, htb, rt⟩ := reads_decExpNodeId e he
    have rm := reads_readUInt 1 mask (mask_lt hm)
    by_cases m0 : mask = 0
    · subst m0
      simp only [if_true, Bool.and_eq_true] at h
      obtain ⟨hn, hv⟩ := h
      have hvn : value = .nil := by
        cases value <;> first | rfl | simp [Val.isNil] at hv
      have hnn : vname = "" := by simpa using hn
      subst hvn hnn
      refine ⟨tb ++ leBytes 1 0, by simp [encExtObj, encTypeId, htb, isPanic], ?_⟩
      unfold decExtObj
      refine Reads.bind rt ?_
      refine Reads.congr (Reads.bind rm ?_) (List.append_nil _) rfl
      simp only [if_true]
      exact Reads.ret _
    · simp only [m0, if_false] at h
      by_cases hnv : (vname.isEmpty && value.isNil) = true
      · -- no value (unknown type id / no body): a null body
        simp only [Bool.and_eq_true] at hnv
        have hvn : value = .nil := by
          cases value <;> first | rfl | simp [Val.isNil] at hnv
        have hnn : vname = "" := by simpa using hnv.1
        subst hvn hnn
        refine ⟨tb ++ leBytes 1 mask ++ leBytes 4 null32, by simp [encExtObj, encTypeId, htb, isPanic, m0, Val.isNil], ?_⟩
        unfold decExtObj
        have hassoc : tb ++ leBytes 1 mask ++ leBytes 4 null32 = tb ++ (leBytes 1 mask ++ (leBytes 4 null32 ++ [])) := by simp
        rw [hassoc]
        refine Reads.bind rt ?_
        refine Reads.bind rm ?_
        simp only [m0, if_false]
        refine Reads.bind (reads_readUInt 4 null32 (by decide)) ?_
        simp only [or_true, if_true]
        refine Reads.congr (Reads.ret _) rfl ?_
        have hp : ∀ e', norm env fuel (.ptr e') .nil = .nil := by
          intro e'; cases fuel <;> simp [norm]
        have hx : norm env fuel xmlElementPtr .nil = .nil := hp _
        simp only [Option.map_some, hx]
        cases lookupName env "" with
        | none => simp
        | some i => simp [hp]
      have hnv' : ¬ (vname.isEmpty = true ∧ value.isNil = true) := by simpa using hnv
      simp only [Bool.and_eq_true, hnv', if_false] at h
      by_cases m2 : mask = 2
      · subst m2
        simp only [if_true, Bool.and_eq_true, beq_iff_eq] at h
        obtain ⟨⟨hn, hw⟩, hbody⟩ := h
        subst hn
        obtain ⟨body, hb, hne, hlen⟩ := bodyOk_ok hbody
        obtain ⟨body', hb', rbody⟩ := hrec xmlElementPtr value hw
        rw [hb] at hb'
        cases hb'
        refine ⟨tb ++ leBytes 1 2 ++ leBytes 4 body.length ++ body, ?_, ?_⟩
        · simp [encExtObj, encTypeId, htb, isPanic, encExtBody, hb, xmlName, Val.isNil]
        · unfold decExtObj
          have hassoc : tb ++ leBytes 1 2 ++ leBytes 4 body.length ++ body
              = tb ++ (leBytes 1 2 ++ (leBytes 4 body.length ++ body)) := by simp
          rw [hassoc]
          refine Reads.bind rt ?_
          refine Reads.bind rm ?_
          simp only [show ¬ (2:Nat) = 0 by decide, if_false, if_true]
          exact reads_body hne hlen rbody (k := fun v => pure (Val.extObj 2 (some (normExp e)) xmlName v)) (Reads.ret _)
      · simp only [m2, if_false, Bool.and_eq_true, Bool.not_eq_true'] at h
        obtain ⟨hxn, h⟩ := h
        cases hl : lookupName env vname with
        | none => simp [hl] at h
        | some i =>
          cases hk : (normExp e).nodeId.bind regKey with
          | none => simp [hl, hk] at h
          | some key =>
            simp only [hl, hk, Bool.and_eq_true, beq_iff_eq] at h
            obtain ⟨⟨⟨hid, hname⟩, hw⟩, hbody⟩ := h
            obtain ⟨body, hb, hne, hlen⟩ := bodyOk_ok hbody
            obtain ⟨body', hb', rbody⟩ := hrec (.ptr (entry env i).ty) value hw
            rw [hb] at hb'
            cases hb'
            have hvp : ∃ x, value = .ptr x := by
              cases fuel with
              | zero => simp [wt] at hw
              | succ n => cases value <;> simp [wt] at hw; exact ⟨_, rfl⟩
            obtain ⟨x, rfl⟩ := hvp
            refine ⟨tb ++ leBytes 1 mask ++ leBytes 4 body.length ++ body, ?_, ?_⟩
            · simp [encExtObj, encTypeId, htb, isPanic, m0, encExtBody, hxn, hl, hb, Val.isNil]
            · unfold decExtObj
              have hassoc : tb ++ leBytes 1 mask ++ leBytes 4 body.length ++ body
                  = tb ++ (leBytes 1 mask ++ (leBytes 4 body.length ++ body)) := by simp
              rw [hassoc]
              refine Reads.bind rt ?_
              refine Reads.bind rm ?_
              simp only [m0, m2, if_false, hk, Option.bind_some, hid]
              have := reads_body hne hlen rbody (z := pure (Val.extObj mask (some (normExp e)) "" .nil))
                (k := fun v => pure (Val.extObj mask (some (normExp e)) (entry env i).name v)) (Reads.ret _)
              exact Reads.congr this rfl (by simp [hname])

end Opcua.Codec
