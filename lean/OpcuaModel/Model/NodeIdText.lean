/-
  Text codecs the NodeID string form is built from (C04), with proved round
  trips.  A Go string / []byte is a list of byte values; they are carried as
  `Nat` (omega friendly) — the well-formedness predicate of a NodeID requires
  `< 256` where the arithmetic depends on it.

    dec / digitsVal      fmt "%d"              / the digit loop of strconv.Atoi, ParseUint
    guidText / newGUID   (*ua.GUID).String     / ua.NewGUID  (hex.DecodeString after removing '-')
    b64enc / b64dec      base64.StdEncoding.EncodeToString / DecodeString
-/
namespace Opcua.NodeIdText

abbrev Text := List Nat

/-! ### decimal -/

/-- digits of `n`, least significant first (`f` = fuel, `n < f` suffices) -/
def decRev : Nat → Nat → List Nat
  | 0, _ => []
  | f + 1, n => if n < 10 then [n] else (n % 10) :: decRev f (n / 10)

/-- `fmt.Sprintf("%d", n)` for an unsigned `n` -/
def dec (n : Nat) : Text := ((decRev (n + 1) n).reverse).map (48 + ·)

def isDigit (c : Nat) : Bool := 48 ≤ c && c ≤ 57

/-- the digit loop of `strconv.ParseUint(s, 10, 64)` / `Atoi` without the
    overflow check (the callers' range checks subsume it) -/
def digitsAcc : Nat → Text → Option Nat
  | acc, [] => some acc
  | acc, c :: r => if isDigit c then digitsAcc (acc * 10 + (c - 48)) r else none

/-- a non-empty all-digit text and its value -/
def digitsVal (s : Text) : Option Nat := if s = [] then none else digitsAcc 0 s

def valRev : List Nat → Nat
  | [] => 0
  | d :: r => d + 10 * valRev r

theorem decRev_val : ∀ (f n : Nat), n < f → valRev (decRev f n) = n
  | 0, n, h => by omega
  | f + 1, n, h => by
    simp only [decRev]
    split
    · simp [valRev]
    · simp only [valRev]
      rw [decRev_val f (n / 10) (by omega)]
      omega

theorem decRev_digits : ∀ (f n : Nat), ∀ d ∈ decRev f n, d < 10
  | 0, _, d, h => by simp [decRev] at h
  | f + 1, n, d, h => by
    simp only [decRev] at h
    split at h
    · simp at h; omega
    · rcases List.mem_cons.mp h with rfl | h'
      · omega
      · exact decRev_digits f (n / 10) d h'

theorem decRev_ne_nil : ∀ (f n : Nat), n < f → decRev f n ≠ []
  | 0, n, h => by omega
  | f + 1, n, _ => by
    simp only [decRev]
    split <;> simp

theorem digitsAcc_append (acc : Nat) (l : Text) (c : Nat) :
    digitsAcc acc (l ++ [c]) = (digitsAcc acc l).bind (fun v => if isDigit c then some (v * 10 + (c - 48)) else none) := by
  induction l generalizing acc with
  | nil => simp [digitsAcc]
  | cons a r ih =>
    simp only [List.cons_append, digitsAcc]
    split
    · exact ih _
    · rfl

theorem digitsAcc_revDigits : ∀ (l : List Nat), (∀ d ∈ l, d < 10) →
    digitsAcc 0 (l.reverse.map (48 + ·)) = some (valRev l)
  | [], _ => by simp [digitsAcc, valRev]
  | d :: r, h => by
    have hd : d < 10 := h d List.mem_cons_self
    have ih := digitsAcc_revDigits r (fun x hx => h x (List.mem_cons_of_mem _ hx))
    simp only [List.reverse_cons, List.map_append, List.map_cons, List.map_nil]
    rw [digitsAcc_append, ih]
    have : isDigit (48 + d) = true := by simp [isDigit]; omega
    simp only [Option.bind_some, this, if_true, valRev]
    congr 1; omega

/-- parsing the decimal rendering gives the number back -/
theorem digitsVal_dec (n : Nat) : digitsVal (dec n) = some n := by
  unfold digitsVal dec
  have hne : decRev (n + 1) n ≠ [] := decRev_ne_nil _ _ (by omega)
  rw [if_neg (by simpa using hne)]
  rw [digitsAcc_revDigits _ (decRev_digits _ _), decRev_val _ _ (by omega)]

theorem dec_isDigit (n : Nat) : ∀ c ∈ dec n, isDigit c = true := by
  intro c hc
  simp only [dec, List.mem_map, List.mem_reverse] at hc
  obtain ⟨d, hd, rfl⟩ := hc
  have := decRev_digits _ _ d hd
  simp [isDigit]; omega

theorem dec_ne_nil (n : Nat) : dec n ≠ [] := by
  have hne : decRev (n + 1) n ≠ [] := decRev_ne_nil _ _ (by omega)
  simpa [dec] using hne

theorem dec_injective {a b : Nat} (h : dec a = dec b) : a = b := by
  have ha := digitsVal_dec a
  rw [h, digitsVal_dec b] at ha
  exact (Option.some.inj ha).symm

/-! ### hexadecimal and the GUID text -/

/-- upper-case hex digit, as `%X` prints it -/
def hexUp (d : Nat) : Nat := if d < 10 then 48 + d else 55 + d

def hexBytes (bs : List Nat) : Text := bs.flatMap fun b => [hexUp (b / 16), hexUp (b % 16)]

/-- `fromHexChar` of encoding/hex: both cases accepted -/
def unhex (c : Nat) : Option Nat :=
  if 48 ≤ c ∧ c ≤ 57 then some (c - 48)
  else if 97 ≤ c ∧ c ≤ 102 then some (c - 87)
  else if 65 ≤ c ∧ c ≤ 70 then some (c - 55)
  else none

/-- `hex.DecodeString`: odd length and foreign characters are errors -/
def hexDecode : Text → Option (List Nat)
  | [] => some []
  | [_] => none
  | a :: b :: r =>
    match unhex a, unhex b, hexDecode r with
    | some x, some y, some t => some ((x * 16 + y) :: t)
    | _, _, _ => none

/-- `(*GUID).String()`: `%08X-%04X-%04X-%04X-%012X` of Data1, Data2, Data3,
    Data4[:2], Data4[2:]; `g` are the 16 bytes in this (big-endian text) order -/
def guidText (g : List Nat) : Text :=
  hexBytes (g.take 4) ++ [45] ++ hexBytes ((g.drop 4).take 2) ++ [45] ++ hexBytes ((g.drop 6).take 2) ++ [45] ++
    hexBytes ((g.drop 8).take 2) ++ [45] ++ hexBytes (g.drop 10)

/-- `ua.NewGUID`: drop every '-', hex-decode, demand 16 bytes (`none` = the nil result) -/
def newGUID (t : Text) : Option (List Nat) :=
  match hexDecode (t.filter (· ≠ 45)) with
  | some b => if b.length = 16 then some b else none
  | none => none

theorem unhex_hexUp (d : Nat) (h : d < 16) : unhex (hexUp d) = some d := by
  unfold unhex hexUp
  split
  · rw [if_pos (by omega)]; congr 1; omega
  · rw [if_neg (by omega), if_neg (by omega), if_pos (by omega)]; congr 1; omega

theorem hexDecode_hexBytes : ∀ (bs : List Nat), (∀ b ∈ bs, b < 256) → hexDecode (hexBytes bs) = some bs
  | [], _ => rfl
  | b :: r, h => by
    have hb : b < 256 := h b List.mem_cons_self
    have ih := hexDecode_hexBytes r (fun x hx => h x (List.mem_cons_of_mem _ hx))
    simp only [hexBytes, List.flatMap_cons, List.cons_append, List.nil_append, hexDecode] at ih ⊢
    rw [unhex_hexUp _ (by omega), unhex_hexUp _ (by omega), ih]
    simp only [Option.some.injEq, List.cons.injEq, and_true]
    omega

theorem hexUp_not (d : Nat) : hexUp d ≠ 45 ∧ hexUp d ≠ 59 := by
  unfold hexUp; split <;> omega

theorem hexBytes_mem {bs : List Nat} {c : Nat} (h : c ∈ hexBytes bs) : c ≠ 45 ∧ c ≠ 59 := by
  simp only [hexBytes, List.mem_flatMap, List.mem_cons, List.not_mem_nil, or_false] at h
  obtain ⟨b, _, rfl | rfl⟩ := h <;> exact hexUp_not _

theorem hexBytes_append (a b : List Nat) : hexBytes (a ++ b) = hexBytes a ++ hexBytes b := by
  simp [hexBytes]

theorem filter_hexBytes (bs : List Nat) : (hexBytes bs).filter (· ≠ 45) = hexBytes bs := by
  rw [List.filter_eq_self]
  intro c hc
  simpa using (hexBytes_mem hc).1

theorem guid_regroup (g : List Nat) :
    g.take 4 ++ ((g.drop 4).take 2 ++ ((g.drop 6).take 2 ++ ((g.drop 8).take 2 ++ g.drop 10))) = g := by
  have h8 : (g.drop 8).take 2 ++ g.drop 10 = g.drop 8 := by
    have := List.take_append_drop 2 (g.drop 8); rwa [List.drop_drop] at this
  have h6 : (g.drop 6).take 2 ++ g.drop 8 = g.drop 6 := by
    have := List.take_append_drop 2 (g.drop 6); rwa [List.drop_drop] at this
  have h4 : (g.drop 4).take 2 ++ g.drop 6 = g.drop 4 := by
    have := List.take_append_drop 2 (g.drop 4); rwa [List.drop_drop] at this
  rw [h8, h6, h4, List.take_append_drop]

theorem filter_guidText (g : List Nat) : (guidText g).filter (· ≠ 45) = hexBytes g := by
  simp only [guidText, List.filter_append, filter_hexBytes]
  have : List.filter (fun x => decide (x ≠ 45)) [45] = [] := by decide
  simp only [this, List.append_nil, List.append_assoc, ← hexBytes_append]
  rw [guid_regroup]

/-- `NewGUID(g.String()) = g` for every 16-byte GUID -/
theorem newGUID_guidText (g : List Nat) (hl : g.length = 16) (hb : ∀ b ∈ g, b < 256) :
    newGUID (guidText g) = some g := by
  unfold newGUID
  rw [filter_guidText, hexDecode_hexBytes g hb]
  simp [hl]

theorem guidText_no_semicolon (g : List Nat) : 59 ∉ guidText g := by
  intro h
  simp only [guidText, List.mem_append, List.mem_cons, List.not_mem_nil, or_false] at h
  rcases h with (((((((h | h) | h) | h) | h) | h) | h) | h) | h
  all_goals first
    | exact (hexBytes_mem h).2 rfl
    | omega

theorem guidText_ne_nil (g : List Nat) : guidText g ≠ [] := by
  simp [guidText]

/-! ### base64 (standard alphabet, padded) -/

/-- the alphabet `A-Z a-z 0-9 + /` -/
def b64Char (i : Nat) : Nat :=
  if i < 26 then 65 + i else if i < 52 then 71 + i else if i < 62 then i - 4 else if i = 62 then 43 else 47

def b64Val (c : Nat) : Option Nat :=
  if 65 ≤ c ∧ c ≤ 90 then some (c - 65)
  else if 97 ≤ c ∧ c ≤ 122 then some (c - 71)
  else if 48 ≤ c ∧ c ≤ 57 then some (c + 4)
  else if c = 43 then some 62
  else if c = 47 then some 63
  else none

/-- `base64.StdEncoding.EncodeToString` -/
def b64enc : List Nat → Text
  | [] => []
  | [a] => [b64Char (a / 4), b64Char (a % 4 * 16), 61, 61]
  | [a, b] => [b64Char (a / 4), b64Char (a % 4 * 16 + b / 16), b64Char (b % 16 * 4), 61]
  | a :: b :: c :: r =>
    b64Char (a / 4) :: b64Char (a % 4 * 16 + b / 16) :: b64Char (b % 16 * 4 + c / 64) :: b64Char (c % 64) :: b64enc r

/-- the last quantum: `xx==`, `xxx=` or `xxxx` (non-strict: the unused low
    bits of a padded quantum are not checked) -/
def b64Final (a b c d : Nat) : Option (List Nat) :=
  match b64Val a, b64Val b with
  | some x, some y =>
    if c = 61 then
      if d = 61 then some [x * 4 + y / 16] else none
    else match b64Val c with
      | none => none
      | some z =>
        if d = 61 then some [x * 4 + y / 16, y % 16 * 16 + z / 4]
        else match b64Val d with
          | none => none
          | some w => some [x * 4 + y / 16, y % 16 * 16 + z / 4, z % 4 * 64 + w]
  | _, _ => none

/-- the quantum loop of `Encoding.Decode`; input already freed of CR / LF.
    Padding is only accepted in the last quantum and nothing may follow it. -/
def b64decQ : Text → Option (List Nat)
  | [] => some []
  | a :: b :: c :: d :: r =>
    match r with
    | [] => b64Final a b c d
    | e :: r' =>
      match b64Val a, b64Val b, b64Val c, b64Val d, b64decQ (e :: r') with
      | some x, some y, some z, some w, some t =>
        some ((x * 4 + y / 16) :: (y % 16 * 16 + z / 4) :: (z % 4 * 64 + w) :: t)
      | _, _, _, _, _ => none
  | _ => none

/-- `base64.StdEncoding.DecodeString`: CR and LF are skipped anywhere -/
def b64dec (t : Text) : Option (List Nat) := b64decQ (t.filter fun c => c ≠ 13 ∧ c ≠ 10)

theorem b64Val_b64Char (i : Nat) (h : i < 64) : b64Val (b64Char i) = some i := by
  unfold b64Val b64Char
  split
  · rw [if_pos (by omega)]; congr 1; omega
  · split
    · rw [if_neg (by omega), if_pos (by omega)]; congr 1; omega
    · split
      · rw [if_neg (by omega), if_neg (by omega), if_pos (by omega)]; congr 1; omega
      · split
        · simp; omega
        · simp; omega

theorem b64Char_not (i : Nat) : b64Char i ≠ 61 ∧ b64Char i ≠ 13 ∧ b64Char i ≠ 10 ∧ b64Char i ≠ 59 := by
  unfold b64Char
  split
  · omega
  · split
    · omega
    · split
      · omega
      · split <;> omega

theorem b64enc_mem : ∀ {bs : List Nat} {c : Nat}, c ∈ b64enc bs → c ≠ 13 ∧ c ≠ 10 ∧ c ≠ 59
  | [], c, h => by simp [b64enc] at h
  | [a], c, h => by
    simp only [b64enc, List.mem_cons, List.not_mem_nil, or_false] at h
    rcases h with rfl | rfl | rfl | rfl
    all_goals first
      | (have := b64Char_not (a / 4); omega)
      | (have := b64Char_not (a % 4 * 16); omega)
      | omega
  | [a, b], c, h => by
    simp only [b64enc, List.mem_cons, List.not_mem_nil, or_false] at h
    rcases h with rfl | rfl | rfl | rfl
    all_goals first
      | (have := b64Char_not (a / 4); omega)
      | (have := b64Char_not (a % 4 * 16 + b / 16); omega)
      | (have := b64Char_not (b % 16 * 4); omega)
      | omega
  | a :: b :: d :: r, c, h => by
    simp only [b64enc, List.mem_cons] at h
    rcases h with rfl | rfl | rfl | rfl | h
    · have := b64Char_not (a / 4); omega
    · have := b64Char_not (a % 4 * 16 + b / 16); omega
    · have := b64Char_not (b % 16 * 4 + d / 64); omega
    · have := b64Char_not (d % 64); omega
    · exact b64enc_mem h

theorem b64enc_eq_nil {bs : List Nat} (h : b64enc bs = []) : bs = [] := by
  match bs, h with
  | [], _ => rfl
  | [_], h => simp [b64enc] at h
  | [_, _], h => simp [b64enc] at h
  | _ :: _ :: _ :: _, h => simp [b64enc] at h

theorem b64decQ_b64enc : ∀ (bs : List Nat), (∀ b ∈ bs, b < 256) → b64decQ (b64enc bs) = some bs
  | [], _ => rfl
  | [a], h => by
    have ha : a < 256 := h a (by simp)
    simp only [b64enc, b64decQ, b64Final]
    rw [b64Val_b64Char _ (by omega), b64Val_b64Char _ (by omega)]
    simp only [if_true, Option.some.injEq, List.cons.injEq, and_true]
    omega
  | [a, b], h => by
    have ha : a < 256 := h a (by simp)
    have hb : b < 256 := h b (by simp)
    simp only [b64enc, b64decQ, b64Final]
    rw [b64Val_b64Char _ (by omega), b64Val_b64Char _ (by omega)]
    have h3 := (b64Char_not (b % 16 * 4)).1
    simp only [h3, if_false, b64Val_b64Char _ (show b % 16 * 4 < 64 by omega), if_true,
      Option.some.injEq, List.cons.injEq, and_true]
    omega
  | a :: b :: c :: r, h => by
    have ha : a < 256 := h a (by simp)
    have hb : b < 256 := h b (by simp)
    have hc : c < 256 := h c (by simp)
    have ih := b64decQ_b64enc r (fun x hx => h x (by simp [hx]))
    have v1 := b64Val_b64Char (a / 4) (by omega)
    have v2 := b64Val_b64Char (a % 4 * 16 + b / 16) (by omega)
    have v3 := b64Val_b64Char (b % 16 * 4 + c / 64) (by omega)
    have v4 := b64Val_b64Char (c % 64) (by omega)
    simp only [b64enc]
    cases her : b64enc r with
    | nil =>
      have : r = [] := b64enc_eq_nil her
      subst this
      have n3 := (b64Char_not (b % 16 * 4 + c / 64)).1
      have n4 := (b64Char_not (c % 64)).1
      simp only [b64decQ, b64Final, v1, v2, v3, v4, n3, n4, if_false, Option.some.injEq, List.cons.injEq, and_true]
      omega
    | cons e r' =>
      rw [her] at ih
      simp only [b64decQ, v1, v2, v3, v4, ih, Option.some.injEq, List.cons.injEq, and_true]
      omega

/-- `DecodeString(EncodeToString(b)) = b` for every byte string -/
theorem b64dec_b64enc (bs : List Nat) (h : ∀ b ∈ bs, b < 256) : b64dec (b64enc bs) = some bs := by
  unfold b64dec
  have : (b64enc bs).filter (fun c => c ≠ 13 ∧ c ≠ 10) = b64enc bs := by
    rw [List.filter_eq_self]
    intro c hc
    have := b64enc_mem hc
    simp [this.1, this.2.1]
  rw [this]
  exact b64decQ_b64enc bs h

theorem b64enc_no_semicolon (bs : List Nat) : 59 ∉ b64enc bs := fun h => (b64enc_mem h).2.2 rfl

theorem b64enc_injective {a b : List Nat} (ha : ∀ x ∈ a, x < 256) (hb : ∀ x ∈ b, x < 256)
    (h : b64enc a = b64enc b) : a = b := by
  have := b64dec_b64enc a ha
  rw [h, b64dec_b64enc b hb] at this
  exact (Option.some.inj this).symm

theorem guidText_injective {a b : List Nat} (ha : a.length = 16 ∧ ∀ x ∈ a, x < 256)
    (hb : b.length = 16 ∧ ∀ x ∈ b, x < 256) (h : guidText a = guidText b) : a = b := by
  have := newGUID_guidText a ha.1 ha.2
  rw [h, newGUID_guidText b hb.1 hb.2] at this
  exact (Option.some.inj this).symm

end Opcua.NodeIdText
