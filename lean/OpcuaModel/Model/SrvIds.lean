/-
  Model of subscription / monitored item id allocation and of the ownership
  checks of the server (C32).

    server/subscription_service.go   CreateSubscription, DeleteSubscriptions, DeleteSubscription
    server/monitored_item_service.go NextID, CreateMonitoredItems, SetMonitoringMode,
                                     DeleteMonitoredItems, DeleteSub, DeleteMonitoredItem
    server/session_broker.go         Session (nil for an unknown token)

  The code as it is (after the repair of the id allocation and of the two item
  services):
    * a new subscription id comes from a counter that only grows (skipping 0);
    * `DeleteSubscriptions` only *spawns* `DeleteSubscription(id)` calls (by id,
      in the background); the goroutine of a subscription that is shut down calls
      `DeleteSubscription(s.ID)` once more when it exits — both are `pending`
      calls here, applied by the explicit step `apply`;
    * `SetMonitoringMode` / `DeleteMonitoredItems` answer
      BadMonitoredItemIdInvalid for an unknown id and BadSessionIdInvalid for an
      item of another session and go on to the next id without touching it;
    * monitored item ids come from an atomic counter that skips 0.
  Sessions are numbers; 0 stands for "no such session" (`Session()` returns nil): every
  handler answers BadSessionIdInvalid then (the nil-session branches further down are kept as
  the code has them, they can no longer be reached).
-/
namespace Opcua.SrvIds

/-- a `*Subscription` object -/
structure SubObj where
  /-- identity of the object (pointer) -/
  uid : Nat
  id : Nat
  /-- `sub.Session` (0 = nil) -/
  owner : Nat
  deriving Repr, DecidableEq

/-- a `*MonitoredItem`; `sub` is the object `item.Sub` points to -/
structure Item where
  id : Nat
  sub : SubObj
  mode : Nat
  deriving Repr, DecidableEq

structure St where
  /-- `SubscriptionService.Subs` (unique keys) -/
  subs : List (Nat × SubObj)
  /-- `MonitoredItemService.Items` -/
  items : List Item
  /-- `MonitoredItemService.id` -/
  itemCtr : Nat
  /-- `SubscriptionService.lastSubID` -/
  subCtr : Nat
  nextUid : Nat
  /-- `DeleteSubscription(id)` calls that have been spawned and not yet run -/
  pending : List Nat
  deriving Repr, DecidableEq

def St.init (ctr : Nat) (sctr : Nat := 0) : St := ⟨[], [], ctr, sctr, 1, []⟩

def lookupSub (l : List (Nat × SubObj)) (id : Nat) : Option SubObj :=
  match l with
  | [] => none
  | (k, o) :: r => if k = id then some o else lookupSub r id

/-- `Subs[id] = obj` -/
def putSub (l : List (Nat × SubObj)) (id : Nat) (o : SubObj) : List (Nat × SubObj) :=
  match l with
  | [] => [(id, o)]
  | (k, x) :: r => if k = id then (k, o) :: r else (k, x) :: putSub r id o

def eraseSub (l : List (Nat × SubObj)) (id : Nat) : List (Nat × SubObj) := l.filter (·.1 ≠ id)

def lookupItem (l : List Item) (id : Nat) : Option Item := l.find? (·.id = id)

inductive Status where
  | ok | badSubscriptionIdInvalid | badSessionIdInvalid | badMonitoredItemIdInvalid
  deriving Repr, DecidableEq

inductive Out where
  | subId (id : Nat)
  | statuses (l : List Status)
  | itemIds (l : List Nat)
  | errNoSub          -- "sub doesn't exist"      → ServiceFault BadUnexpectedError
  | errNotYours       -- "not your subscription"  → ServiceFault BadUnexpectedError
  | panic             -- nil dereference in the handler
  | errNoSession      -- no session for the authentication token → ServiceFault BadSessionIdInvalid
  | applied (hit : Bool)
  | noSuchPending
  deriving Repr, DecidableEq

inductive Op where
  | createSub (sess : Nat)
  | deleteSubs (sess : Nat) (ids : List Nat)
  /-- the k-th pending `DeleteSubscription` call runs to completion -/
  | apply (k : Nat)
  | createItems (sess sub n : Nat)
  | setMode (sess mode : Nat) (ids : List Nat)
  | deleteItems (sess : Nat) (ids : List Nat)
  deriving Repr, DecidableEq

/-- `MonitoredItemService.NextID`, and the same scheme for subscription ids:
    an atomic / locked 32-bit counter that skips 0 -/
def nextID (ctr : Nat) : Nat :=
  let i := (ctr + 1) % 4294967296
  if i = 0 then 1 else i

/-- `CreateSubscription`: `s.lastSubID++ (skipping 0); newsubid := s.lastSubID; … s.Subs[newsubid] = sub` -/
def createSub (st : St) (sess : Nat) : Out × St :=
  let id := nextID st.subCtr
  (.subId id, { st with subs := putSub st.subs id ⟨st.nextUid, id, sess⟩, subCtr := id, nextUid := st.nextUid + 1 })

/-- the loop of `DeleteSubscriptions` on the table as it is when the handler runs.
    Returns the statuses, the spawned ids, and whether it panicked. -/
def deleteSubsLoop (subs : List (Nat × SubObj)) (sess : Nat) : List Nat → List Status × List Nat × Bool
  | [] => ([], [], false)
  | id :: rest =>
    match lookupSub subs id with
    | none =>
      let (ss, sp, p) := deleteSubsLoop subs sess rest
      (.badSubscriptionIdInvalid :: ss, sp, p)
    | some o =>
      -- session.AuthTokenID.String() != sub.Session.AuthTokenID.String()
      if sess = 0 ∨ o.owner = 0 then ([], [], true)
      else if sess ≠ o.owner then
        let (ss, sp, p) := deleteSubsLoop subs sess rest
        (.badSessionIdInvalid :: ss, sp, p)
      else
        let (ss, sp, p) := deleteSubsLoop subs sess rest
        (.ok :: ss, id :: sp, p)

def deleteSubs (st : St) (sess : Nat) (ids : List Nat) : Out × St :=
  let (ss, sp, p) := deleteSubsLoop st.subs sess ids
  (if p then .panic else .statuses ss, { st with pending := st.pending ++ sp })

/-- `DeleteSubscription(id)` (a pending call runs): shut the subscription down if
    there is one under that id NOW, drop the map entry, `DeleteSub(id)` removes the
    monitored items registered under that subscription id; the goroutine of the
    subscription that was shut down will call `DeleteSubscription(id)` again -/
def applyDelete (st : St) (k : Nat) : Out × St :=
  match st.pending[k]? with
  | none => (.noSuchPending, st)
  | some id =>
    let pend := st.pending.eraseIdx k
    let items := st.items.filter (·.sub.id ≠ id)
    match lookupSub st.subs id with
    | none => (.applied false, { st with items := items, pending := pend })
    | some _ => (.applied true, { st with subs := eraseSub st.subs id, items := items, pending := pend ++ [id] })

def allocIds : Nat → Nat → List Nat × Nat
  | 0, ctr => ([], ctr)
  | n + 1, ctr => let i := nextID ctr; let (l, c) := allocIds n i; (i :: l, c)

/-- `CreateMonitoredItems` -/
def createItems (st : St) (sess sub n : Nat) : Out × St :=
  match lookupSub st.subs sub with
  | none => (.errNoSub, st)
  | some o =>
    if o.owner = 0 ∨ sess = 0 then (.panic, st)
    else if o.owner ≠ sess then (.errNotYours, st)
    else
      let (ids, ctr) := allocIds n st.itemCtr
      (.itemIds ids, { st with items := st.items ++ ids.map (fun i => ⟨i, o, 0⟩), itemCtr := ctr })

/-- `item.Mode = mode` for the table entry `id` (ids are map keys: first match) -/
def setItemMode : List Item → Nat → Nat → List Item
  | [], _, _ => []
  | it :: r, id, mode => if it.id = id then { it with mode := mode } :: r else it :: setItemMode r id mode

/-- the loop of `SetMonitoringMode`:
    ```
    item, ok := s.Items[id]
    if !ok { results[i] = BadMonitoredItemIDInvalid; continue }
    if item.Sub.Session.AuthTokenID.String() != sess.AuthTokenID.String() { results[i] = BadSessionIDInvalid; continue }
    item.Mode = req.MonitoringMode
    results[i] = ua.StatusOK
    ``` -/
def setModeLoop (items : List Item) (sess mode : Nat) : List Nat → List Status × List Item × Bool
  | [] => ([], items, false)
  | id :: rest =>
    match lookupItem items id with
    | none =>
      let (ss, items', p) := setModeLoop items sess mode rest
      (.badMonitoredItemIdInvalid :: ss, items', p)
    | some it =>
      if it.sub.owner = 0 ∨ sess = 0 then ([], items, true)   -- nil session: nil dereference
      else if it.sub.owner ≠ sess then
        let (ss, items', p) := setModeLoop items sess mode rest
        (.badSessionIdInvalid :: ss, items', p)
      else
        let (ss, items', p) := setModeLoop (setItemMode items id mode) sess mode rest
        (.ok :: ss, items', p)

def setMode (st : St) (sess mode : Nat) (ids : List Nat) : Out × St :=
  let (ss, items, p) := setModeLoop st.items sess mode ids
  (if p then .panic else .statuses ss, { st with items := items })

/-- the loop of `DeleteMonitoredItems` (look-ups see the table as it is when the
    handler runs: the deletions are spawned and happen after it returns):
    ```
    item, ok := s.Items[id]
    if !ok { results[i] = BadMonitoredItemIDInvalid; continue }
    if item.Sub.Session.AuthTokenID.String() != sess.AuthTokenID.String() { results[i] = BadSessionIDInvalid; continue }
    go s.DeleteMonitoredItem(id)
    results[i] = ua.StatusOK
    ``` -/
def deleteItemsLoop (items : List Item) (sess : Nat) : List Nat → List Status × List Nat × Bool
  | [] => ([], [], false)
  | id :: rest =>
    match lookupItem items id with
    | none =>
      let (ss, del, p) := deleteItemsLoop items sess rest
      (.badMonitoredItemIdInvalid :: ss, del, p)
    | some it =>
      if it.sub.owner = 0 ∨ sess = 0 then ([], [], true)
      else if it.sub.owner ≠ sess then
        let (ss, del, p) := deleteItemsLoop items sess rest
        (.badSessionIdInvalid :: ss, del, p)
      else
        let (ss, del, p) := deleteItemsLoop items sess rest
        (.ok :: ss, id :: del, p)

def deleteItems (st : St) (sess : Nat) (ids : List Nat) : Out × St :=
  let (ss, del, p) := deleteItemsLoop st.items sess ids
  (if p then .panic else .statuses ss, { st with items := st.items.filter (fun it => !del.contains it.id) })

/-- the session that issues a request (`apply` is nobody's request) -/
def Op.session : Op → Option Nat
  | .createSub s => some s
  | .deleteSubs s _ => some s
  | .apply _ => none
  | .createItems s _ _ => some s
  | .setMode s _ _ => some s
  | .deleteItems s _ => some s

/-- every handler first looks the session up (`srv.Session(req.RequestHeader)`); without one the
    request is answered with BadSessionIdInvalid and nothing happens -/
def step (st : St) (op : Op) : Out × St :=
  if op.session = some 0 then (.errNoSession, st)
  else match op with
    | .createSub s => createSub st s
    | .deleteSubs s ids => deleteSubs st s ids
    | .apply k => applyDelete st k
    | .createItems s sub n => createItems st s sub n
    | .setMode s m ids => setMode st s m ids
    | .deleteItems s ids => deleteItems st s ids

def run (st : St) : List Op → List Out × St
  | [] => ([], st)
  | op :: r => let (o, st') := step st op; let (os, st'') := run st' r; (o :: os, st'')

-- ---------------------------------------------------------------- specification vocabulary

def liveSubIds (st : St) : List Nat := st.subs.map (·.1)
def liveItemIds (st : St) : List Nat := st.items.map (·.id)

/-- subscription ids in use and ids named by pending background calls are in
    1..counter (so the next id is new to both) -/
def SubInv (st : St) : Prop :=
  (∀ id, id ∈ liveSubIds st → 1 ≤ id ∧ id ≤ st.subCtr) ∧ (∀ id, id ∈ st.pending → 1 ≤ id ∧ id ≤ st.subCtr)

/-- item ids in use are non-zero, not above the counter, and pairwise distinct -/
def ItemInv (st : St) : Prop :=
  (∀ it ∈ st.items, 1 ≤ it.id ∧ it.id ≤ st.itemCtr) ∧ (st.items.map (·.id)).Nodup

end Opcua.SrvIds
