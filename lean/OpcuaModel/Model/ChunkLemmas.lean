import OpcuaModel.Model.Chunk
/-
  Lemmas about the byte-level chunk model (`Model/Chunk.lean`):
  little-endian field access, the padding arithmetic, and the round trip of ONE
  chunk through `signAndEncrypt` / `verifyAndDecrypt` for abstract crypto that
  satisfies the contract `Paired`.
-/
namespace Opcua.Chunk
open Opcua

/-! ### byte helpers -/

@[simp] theorem u32_length (v : Nat) : (u32 v).length = 4 := by simp [u32]

theorem putU32_length (b : Bytes) (off v : Nat) (h : off + 4 ≤ b.length) :
    (putU32 b off v).length = b.length := by
  simp [putU32, List.length_take, List.length_drop]; omega

theorem putU32_append (b t : Bytes) (off v : Nat) (h : off + 4 ≤ b.length) :
    putU32 (b ++ t) off v = putU32 b off v ++ t := by
  simp only [putU32]
  rw [List.take_append_of_le_length (by omega), List.drop_append_of_le_length (by omega)]
  simp [List.append_assoc]

theorem putU32_drop (b : Bytes) (off v n : Nat) (h : off + 4 ≤ b.length) (hn : off + 4 ≤ n) :
    (putU32 b off v).drop n = b.drop n := by
  simp only [putU32]
  have h1 : (b.take off ++ u32 v).length = off + 4 := by simp [List.length_take]; omega
  rw [show n = (off + 4) + (n - (off + 4)) by omega, ← List.drop_drop, List.drop_left' h1, List.drop_drop]

theorem putU32_take (b : Bytes) (off v n : Nat) (h : off + 4 ≤ n) (hn : n ≤ b.length) :
    (putU32 b off v).take n = putU32 (b.take n) off v := by
  have : b = b.take n ++ b.drop n := (List.take_append_drop n b).symm
  conv => lhs; rw [this]
  rw [putU32_append _ _ _ _ (by simp [List.length_take]; omega)]
  rw [List.take_left']
  rw [putU32_length _ _ _ (by simp [List.length_take]; omega)]
  simp [List.length_take]; omega

/-- patching a field inside the first `n` bytes splits as patched head ‖ tail -/
theorem putU32_split (b : Bytes) (off v n : Nat) (h : off + 4 ≤ n) (hn : n ≤ b.length) :
    putU32 b off v = putU32 (b.take n) off v ++ b.drop n := by
  rw [← putU32_take b off v n h hn, ← putU32_drop b off v n (by omega) h, List.take_append_drop]

theorem u32At_putU32 (b : Bytes) (off v : Nat) (h : off ≤ b.length) :
    u32At (putU32 b off v) off = v % 4294967296 := by
  simp only [u32At, putU32]
  have h1 : (b.take off).length = off := by simp [List.length_take]; omega
  rw [List.append_assoc, List.drop_left' h1, List.take_left' (by simp)]
  simp [u32, leVal_leBytes]

theorem u32At_append_left (x y : Bytes) (off : Nat) (h : off + 4 ≤ x.length) :
    u32At (x ++ y) off = u32At x off := by
  simp only [u32At]
  rw [List.drop_append_of_le_length (by omega), List.take_append_of_le_length (by simp [List.length_drop]; omega)]

/-! ### padding arithmetic -/

/-- the padding fills the plaintext to a whole number of blocks -/
theorem pad_aligned (n pbs : Nat) (h : 0 < pbs) :
    (n + (if n % pbs ≠ 0 then pbs - n % pbs else 0)) % pbs = 0 := by
  split
  · have h1 := Nat.mod_lt n h
    have h2 := Nat.div_add_mod n pbs
    have : n + (pbs - n % pbs) = pbs * (n / pbs + 1) := by
      rw [Nat.mul_add, Nat.mul_one]; omega
    rw [this]; exact Nat.mul_mod_right _ _
  · rename_i h0
    simp only [ne_eq, Decidable.not_not] at h0
    simpa using h0

theorem paddingLength_lt (s : Side) (n : Nat) (h : 0 < s.algo.plaintextBlockSize.toNat) :
    paddingLength s n < s.algo.plaintextBlockSize.toNat := by
  simp only [paddingLength]
  have := Nat.mod_lt (n + s.algo.signatureLength.toNat + paddingBytes s) h
  split <;> omega

theorem padTail_length (s : Side) (n : Nat) : (padTail s n).length = paddingLength s n + paddingBytes s := by
  simp only [padTail, paddingBytes]
  split <;> simp

/-- plaintext handed to the cipher: body part, padding, signature -/
def plainLen (s : Side) (n : Nat) : Nat :=
  n + (paddingLength s n + paddingBytes s) + s.algo.signatureLength.toNat

theorem plainLen_aligned (s : Side) (n : Nat) (h : 0 < s.algo.plaintextBlockSize.toNat) :
    plainLen s n % s.algo.plaintextBlockSize.toNat = 0 := by
  have := pad_aligned (n + s.algo.signatureLength.toNat + paddingBytes s) _ h
  rw [← this]
  simp only [plainLen, paddingLength]
  congr 1
  omega

/-! ### the crypto contract and the round trip of one chunk -/

/-- the contract between a sending side and the matching receiving side -/
structure Paired (S R : Side) : Prop where
  mode : R.mode = S.mode
  pbs_pos : 0 < S.algo.plaintextBlockSize.toNat
  rsl : R.algo.remoteSignatureLength.toNat = S.algo.signatureLength.toNat
  extra : (R.algo.signatureLength > 256) ↔ (S.algo.remoteSignatureLength > 256)
  pad_fits : S.algo.plaintextBlockSize.toNat ≤ (if S.algo.remoteSignatureLength > 256 then 65536 else 256)
  sign_ok : ∀ m, ∃ sg, S.crypto.sign m = some sg ∧ sg.length = S.algo.signatureLength.toNat ∧
      R.crypto.verify m sg = true
  enc_ok : ∀ p : Bytes, 0 < p.length → p.length % S.algo.plaintextBlockSize.toNat = 0 →
      ∃ q, S.crypto.enc p = some q ∧
        q.length = p.length / S.algo.plaintextBlockSize.toNat * S.algo.blockSize.toNat ∧
        R.crypto.dec q = some p

theorem Paired.encrypts {S R : Side} (hp : Paired S R) (asym : Bool) : R.encrypts asym = S.encrypts asym := by
  simp [Side.encrypts, hp.mode]

theorem toNat_ofNat_small (n : Nat) (h : n < 256) : (UInt8.ofNat n).toNat = n := by
  simp [UInt8.toNat_ofNat']; omega

theorem paddingOf_padTail {S R : Side} (hp : Paired S R) (asym : Bool) (henc : S.encrypts asym = true)
    (X : Bytes) (n : Nat) :
    paddingOf R asym (X ++ padTail S n) = .ok (padTail S n).length := by
  have hlt := paddingLength_lt S n hp.pbs_pos
  have hfit := hp.pad_fits
  simp only [paddingOf, hp.encrypts, henc, if_true]
  by_cases hx : S.algo.remoteSignatureLength > 256
  · have hr : R.algo.signatureLength > 256 := hp.extra.mpr hx
    simp only [hx, if_true] at hfit
    simp only [padTail, hx, hr, if_true, List.length_append, List.length_replicate, List.length_cons, List.length_nil]
    rw [if_neg (by omega)]
    rw [← List.append_assoc]
    rw [List.getElem?_append_right (by simp)]
    have e1 : X.length + (paddingLength S n + 1 + (0 + 1)) - 1 - (X ++ List.replicate (paddingLength S n + 1) (UInt8.ofNat (paddingLength S n))).length = 0 := by
      simp
    rw [e1]
    simp only [List.getElem?_cons_zero]
    rw [if_neg (by omega)]
    rw [List.getElem?_append_left (by simp; omega)]
    rw [List.getElem?_append_right (by omega)]
    rw [List.getElem?_replicate, if_pos (by omega)]
    simp only [UInt8.toNat_ofNat', Nat.shiftLeft_eq, Nat.shiftRight_eq_div_pow]
    congr 1
    omega
  · simp only [hx, if_false] at hfit
    have hr : ¬ R.algo.signatureLength > 256 := fun h => hx (hp.extra.mp h)
    simp only [padTail, hx, hr, if_false, List.append_nil, List.length_append, List.length_replicate]
    rw [if_neg (by omega)]
    rw [List.getElem?_append_right (by omega)]
    rw [List.getElem?_replicate, if_pos (by omega)]
    simp only [UInt8.toNat_ofNat']
    congr 1
    omega
/-- length of what follows the security header in the secured chunk -/
def tailLen (S : Side) (asym : Bool) (n : Nat) : Nat :=
  if S.encrypts asym then plainLen S n / S.algo.plaintextBlockSize.toNat * S.algo.blockSize.toNat
  else n + S.algo.signatureLength.toNat

theorem verifyTail_ok {S R : Side} (hp : Paired S R) (asym : Bool) (hl n : Nat) (H X sg : Bytes)
    (hH : H.length = hl) (hsg : sg.length = S.algo.signatureLength.toNat)
    (hver : R.crypto.verify (H ++ X ++ (if S.encrypts asym then padTail S n else [])) sg = true) :
    verifyTail R asym hl (H ++ X ++ (if S.encrypts asym then padTail S n else []) ++ sg) = .ok X := by
  generalize hT : (if S.encrypts asym then padTail S n else []) = T at *
  have hlen : (H ++ X ++ T ++ sg).length - R.algo.remoteSignatureLength.toNat = (H ++ X ++ T).length := by
    rw [hp.rsl]; simp only [List.length_append]; omega
  have hpad : paddingOf R asym (H ++ X ++ T) = .ok T.length := by
    by_cases henc : S.encrypts asym = true
    · simp only [henc, if_true] at hT
      subst hT
      exact paddingOf_padTail hp asym henc (H ++ X) n
    · simp only [henc] at hT
      subst hT
      simp [paddingOf, hp.encrypts, henc]
  simp only [verifyTail]
  rw [if_neg (by rw [hp.rsl]; simp only [List.length_append]; omega)]
  rw [if_neg (by rw [hp.rsl]; simp only [List.length_append]; omega)]
  rw [hlen, List.drop_left' rfl, List.take_left' rfl, hver]
  simp only [Bool.true_eq_false, if_false, hpad]
  rw [if_neg (by simp only [List.length_append]; omega)]
  rw [if_neg (by simp only [List.length_append]; omega)]
  have : (H ++ X ++ T).length - T.length = (H ++ X).length := by simp only [List.length_append]; omega
  rw [this, List.take_left' rfl, List.drop_left' hH]

theorem secure_roundtrip {S R : Side} (hp : Paired S R) (asym : Bool) (hl : Nat) (hl8 : 8 ≤ hl)
    (b : Bytes) (hb : hl ≤ b.length) (hm : S.mode ≠ .none) :
    ∃ q, q.length = tailLen S asym (b.length - hl) ∧
      signAndEncrypt S asym hl b = .ok (putU32 (b.take hl) 4 (hl + q.length) ++ q) ∧
      verifyAndDecrypt R asym hl (putU32 (b.take hl) 4 (hl + q.length) ++ q) = .ok (b.drop hl) := by
  have hRm : ¬ (R.mode = .none ∧ (R.policyNone = true ∨ asym = false)) := by
    rw [hp.mode]; exact fun h => hm h.1
  by_cases henc : S.encrypts asym = true
  · -- sign and encrypt
    obtain ⟨T, hT⟩ : ∃ T, T = padTail S (b.length - hl) := ⟨_, rfl⟩
    obtain ⟨sz, hsz⟩ : ∃ sz, sz = hl + ((b ++ T).length - hl + S.algo.signatureLength.toNat) /
        S.algo.plaintextBlockSize.toNat * S.algo.blockSize.toNat := ⟨_, rfl⟩
    obtain ⟨sg, hsign, hsgl, hver⟩ := hp.sign_ok (putU32 (b ++ T) 4 sz)
    have hsplit : putU32 (b ++ T) 4 sz = putU32 (b.take hl) 4 sz ++ b.drop hl ++ T := by
      rw [putU32_append _ _ _ _ (by omega), putU32_split b 4 sz hl (by omega) hb]
    have hHl : (putU32 (b.take hl) 4 sz).length = hl := by
      rw [putU32_length _ _ _ (by simp [List.length_take]; omega)]; simp [List.length_take]; omega
    have hpl : (b.drop hl ++ T ++ sg).length = plainLen S (b.length - hl) := by
      simp only [List.length_append, List.length_drop, hsgl, plainLen, hT, padTail_length]
    have hpl2 : (b ++ T).length - hl + S.algo.signatureLength.toNat = plainLen S (b.length - hl) := by
      simp only [List.length_append, plainLen, hT, padTail_length]; omega
    obtain ⟨q, henc', hql, hdec⟩ := hp.enc_ok (b.drop hl ++ T ++ sg)
      (by rw [hpl]; simp only [plainLen, paddingBytes]; split <;> omega)
      (by rw [hpl]; exact plainLen_aligned S _ hp.pbs_pos)
    have hszq : sz = hl + q.length := by rw [hql, hpl, hsz, hpl2]
    refine ⟨q, ?_, ?_, ?_⟩
    · rw [hql, hpl]; simp [tailLen, henc]
    · simp only [signAndEncrypt, if_neg hm, henc, if_true]
      rw [if_neg (by omega)]
      simp only [← hT, ← hsz, hsign]
      rw [hsplit]
      simp only [List.append_assoc]
      rw [List.drop_left' hHl, List.take_left' hHl]
      simp only [← List.append_assoc] at henc' ⊢
      rw [henc', hszq]
    · simp only [verifyAndDecrypt, if_neg hRm, hp.encrypts, henc, if_true]
      rw [← hszq]
      rw [if_neg (by simp only [List.length_append, hHl]; omega)]
      rw [List.drop_left' hHl, List.take_left' hHl, hdec]
      simp only
      have := verifyTail_ok hp asym hl (b.length - hl) (putU32 (b.take hl) 4 sz) (b.drop hl) sg hHl hsgl
        (by simp only [henc, if_true]; rw [← hT, ← hsplit]; exact hver)
      simp only [henc, if_true] at this
      rw [← hT] at this
      simpa only [List.append_assoc] using this
  · -- sign only
    obtain ⟨sz, hsz⟩ : ∃ sz, sz = hl + (b.length - hl + S.algo.signatureLength.toNat) := ⟨_, rfl⟩
    obtain ⟨sg, hsign, hsgl, hver⟩ := hp.sign_ok (putU32 b 4 sz)
    have hsplit : putU32 b 4 sz = putU32 (b.take hl) 4 sz ++ b.drop hl := putU32_split b 4 sz hl (by omega) hb
    have hHl : (putU32 (b.take hl) 4 sz).length = hl := by
      rw [putU32_length _ _ _ (by simp [List.length_take]; omega)]; simp [List.length_take]; omega
    have hql : (b.drop hl ++ sg).length = b.length - hl + S.algo.signatureLength.toNat := by
      simp [List.length_drop, hsgl]
    refine ⟨b.drop hl ++ sg, ?_, ?_, ?_⟩
    · rw [hql]; simp [tailLen, henc]
    · simp only [signAndEncrypt, if_neg hm, henc, Bool.false_eq_true, if_false]
      rw [if_neg (by omega)]
      simp only [← hsz, hsign, hql]
      rw [hsplit]
      simp only [List.append_assoc]
      rw [List.drop_left' hHl, List.take_left' hHl]
    · simp only [verifyAndDecrypt, if_neg hRm, hp.encrypts, henc]
      rw [hql, ← hsz]
      rw [if_neg (by simp only [List.length_append, hHl]; omega)]
      have := verifyTail_ok hp asym hl (b.length - hl) (putU32 (b.take hl) 4 sz) (b.drop hl) sg hHl hsgl
        (by simp only [henc]; simp only [Bool.false_eq_true, if_false, List.append_nil]; rw [← hsplit]; exact hver)
      simp only [henc, Bool.false_eq_true, if_false, List.append_nil] at this
      simpa only [List.append_assoc, Bool.false_eq_true, if_false] using this
end Opcua.Chunk
