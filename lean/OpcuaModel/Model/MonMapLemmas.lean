import OpcuaModel.Model.MonMap
/-
  Lemmas about the node-monitor model (used by Props/C28.lean).
-/
namespace Opcua.Mon

/-! ### (A) handles -/

theorem mem_assign {next : Nat} : ∀ {reqs : List Req} {r : Req} {h : Nat},
    (r, h) ∈ assign next reqs → r ∈ reqs ∧ next < h ∧ h ≤ next + reqs.length
  | [], _, _, hm => by simp [assign] at hm
  | r0 :: rs, r, h, hm => by
    simp only [assign, List.mem_cons, Prod.mk.injEq] at hm
    rcases hm with ⟨rfl, rfl⟩ | hm
    · exact ⟨by simp, by omega, by simp only [List.length_cons]; omega⟩
    · have := mem_assign (next := next + 1) hm
      simp only [List.mem_cons, List.length_cons]
      exact ⟨Or.inr this.1, by omega, by omega⟩

theorem addHandles_other : ∀ (l : List (Req × Nat)) (m : Nat → Option Node) (k : Nat),
    (∀ r h, (r, h) ∈ l → h ≠ k) → addHandles m l k = m k
  | [], _, _, _ => rfl
  | (r, h) :: rest, m, k, hn => by
    simp only [addHandles]
    rw [addHandles_other rest _ k fun r' h' hm => hn r' h' (List.mem_cons_of_mem _ hm)]
    have : h ≠ k := hn r h (by simp)
    simp [setKey, Ne.symm this]

theorem addHandles_mem {next : Nat} : ∀ (reqs : List Req) (m : Nat → Option Node) (r : Req) (h : Nat),
    (r, h) ∈ assign next reqs →
    addHandles m (assign next reqs) h = some r.node
  | [], _, _, _, hm => by simp [assign] at hm
  | r0 :: rs, m, r, h, hm => by
    simp only [assign, List.mem_cons, Prod.mk.injEq] at hm
    simp only [assign, addHandles]
    rcases hm with ⟨rfl, rfl⟩ | hm
    · rw [addHandles_other]
      · simp [setKey]
      · intro r' h' hm'
        have := (mem_assign hm').2.1
        omega
    · exact addHandles_mem rs _ r h hm

/-- a (node, client handle) pair is safe w.r.t. the monitor's map: the handle has been
    handed out, and if it is mapped at all it is mapped to that node -/
def Safe (next : Nat) (m : Nat → Option Node) (node : Node) (h : Nat) : Prop :=
  h ≤ next ∧ ∀ n, m h = some n → n = node

theorem safe_del {next : Nat} {m : Nat → Option Node} {node : Node} {h k : Nat}
    (hs : Safe next m node h) : Safe next (setKey m k none) node h := by
  refine ⟨hs.1, ?_⟩
  intro n hn
  simp only [setKey] at hn
  split at hn
  · simp at hn
  · exact hs.2 n hn

/-- the invariant behind `C28_node`: every item alive on the server and every stored
    create request carries a safe (node, handle) pair -/
def InvA (s : St) : Prop :=
  (∀ k n, s.handles k = some n → k ≤ s.next) ∧
  (∀ it ∈ s.srv, Safe s.next s.handles it.node it.handle) ∧
  (∀ e ∈ s.stored, Safe s.next s.handles e.node e.handle)

theorem invA_empty : InvA St.empty := by
  simp [InvA, St.empty]

theorem mem_storePut {l : List Stored} {e x : Stored} (h : x ∈ storePut l e) : x ∈ l ∨ x = e := by
  simp only [storePut, List.mem_append, List.mem_filter, List.mem_singleton] at h
  rcases h with h | h
  · exact Or.inl h.1
  · exact Or.inr h

/-- what the result loop preserves: every handle of this call is either still mapped to
    its own node or deleted -/
theorem addResults_inv (all : List (Req × Nat)) (bound : Nat)
    (hb : ∀ r h, (r, h) ∈ all → h ≤ bound) :
    ∀ (l : List (Req × Nat)) (oks : List Bool) (s : St),
      (∀ r h, (r, h) ∈ l → (r, h) ∈ all) →
      s.next = bound →
      (∀ r h, (r, h) ∈ all → s.handles h = some r.node ∨ s.handles h = none) →
      InvA s →
      InvA (addResults l oks s)
  | [], _, s, _, _, _, hi => by simpa [addResults] using hi
  | (r, h) :: rest, [], s, _, _, _, hi => by simpa [addResults] using hi
  | (r, h) :: rest, ok :: oks, s, hsub, hn, hk, hi => by
    have hmem : (r, h) ∈ all := hsub r h (by simp)
    have hsub' : ∀ r' h', (r', h') ∈ rest → (r', h') ∈ all :=
      fun r' h' hm => hsub r' h' (List.mem_cons_of_mem _ hm)
    have hsafe : Safe s.next s.handles r.node h := by
      refine ⟨by rw [hn]; exact hb r h hmem, ?_⟩
      intro n hs
      rcases hk r h hmem with h1 | h1
      · rw [h1] at hs; simp at hs; exact hs.symm
      · rw [h1] at hs; simp at hs
    simp only [addResults]
    split
    · -- Good: the item exists on the server with its own handle, the request is stored
      apply addResults_inv all bound hb rest oks _ hsub' (by simpa using hn) (by simpa using hk)
      refine ⟨hi.1, ?_, ?_⟩
      · intro it hit
        simp only [List.mem_append, List.mem_singleton] at hit
        rcases hit with hit | rfl
        · exact hi.2.1 it hit
        · exact hsafe
      · intro e he
        rcases mem_storePut he with he | rfl
        · exact hi.2.2 e he
        · exact hsafe
    · -- failed: the handle is deleted, the request is stored all the same
      apply addResults_inv all bound hb rest oks _ hsub' (by simpa using hn)
      · intro r' h' hm'
        simp only [setKey]
        split
        · exact Or.inr rfl
        · exact hk r' h' hm'
      · refine ⟨?_, ?_, ?_⟩
        · intro k n hs
          simp only [setKey] at hs
          split at hs
          · simp at hs
          · exact hi.1 k n hs
        · intro it hit
          exact safe_del (hi.2.1 it hit)
        · intro e he
          rcases mem_storePut he with he | rfl
          · exact safe_del (hi.2.2 e he)
          · exact safe_del hsafe

/-- registering fresh handles (all above `next`) keeps old pairs safe -/
theorem safe_addHandles {s : St} {reqs : List Req} {node : Node} {h : Nat}
    (hs : Safe s.next s.handles node h) :
    Safe (s.next + reqs.length) (addHandles s.handles (assign s.next reqs)) node h := by
  refine ⟨by have := hs.1; omega, ?_⟩
  intro n hn
  rw [addHandles_other] at hn
  · exact hs.2 n hn
  · intro r h' hm he
    have := (mem_assign hm).2.1
    have := hs.1
    omega

theorem handles_bound_add {s : St} {reqs : List Req} (hi : InvA s) (k : Nat) (n : Node)
    (hs : addHandles s.handles (assign s.next reqs) k = some n) : k ≤ s.next + reqs.length := by
  by_cases hk : ∃ r, (r, k) ∈ assign s.next reqs
  · obtain ⟨r, hm⟩ := hk
    exact (mem_assign hm).2.2
  · rw [addHandles_other] at hs
    · have := hi.1 k n hs; omega
    · intro r h hm he; subst he; exact hk ⟨r, hm⟩

theorem invA_add {s : St} {reqs : List Req} {oks : List Bool}
    (hi : InvA s) : InvA (add s reqs oks) := by
  unfold add
  apply addResults_inv (assign s.next reqs) (s.next + reqs.length)
    (fun r h hm => (mem_assign hm).2.2) _ oks _ (fun _ _ hm => hm) rfl
  · intro r h hm
    exact Or.inl (addHandles_mem reqs s.handles r h hm)
  · exact ⟨fun k n hs => handles_bound_add hi k n hs,
      fun it hit => safe_addHandles (hi.2.1 it hit),
      fun e he => safe_addHandles (hi.2.2 e he)⟩

theorem invA_addErr {s : St} {reqs : List Req} (hi : InvA s) : InvA (addErr s reqs) := by
  unfold addErr
  exact ⟨fun k n hs => handles_bound_add hi k n hs,
    fun it hit => safe_addHandles (hi.2.1 it hit),
    fun e he => safe_addHandles (hi.2.2 e he)⟩

theorem removeLocal_inv : ∀ (ids : List Nat) (s : St) (acc : List Nat), InvA s →
    InvA (removeLocal ids s acc).1 ∧ (removeLocal ids s acc).1.srv = s.srv ∧
    (removeLocal ids s acc).1.stored = s.stored
  | [], s, acc, hi => by simp [removeLocal, hi]
  | id :: ids, s, acc, hi => by
    simp only [removeLocal]
    split
    · exact ⟨hi, rfl, rfl⟩
    · rename_i it _
      have hi' : InvA { s with items := s.items.filter (·.id != id), handles := setKey s.handles it.handle none } := by
        refine ⟨?_, fun x hx => safe_del (hi.2.1 x hx), fun e he => safe_del (hi.2.2 e he)⟩
        intro k n hs
        simp only [setKey] at hs
        split at hs
        · simp at hs
        · exact hi.1 k n hs
      have := removeLocal_inv ids _ (acc ++ [id]) hi'
      exact ⟨this.1, by rw [this.2.1], by rw [this.2.2]⟩

theorem invA_remove {s : St} {ids : List Nat} (hi : InvA s) : InvA (remove s ids) := by
  unfold remove
  have h := removeLocal_inv ids s [] hi
  generalize removeLocal ids s [] = res at h
  obtain ⟨s', gone, ok⟩ := res
  simp only at h ⊢
  split
  · refine ⟨h.1.1, ?_, ?_⟩
    · intro it hit
      simp only [List.mem_filter] at hit
      exact h.1.2.1 it hit.1
    · intro e he
      simp only [List.mem_filter] at he
      exact h.1.2.2 e he.1
  · exact h.1

theorem mem_freshIds {next : Nat} : ∀ {l : List Stored} {x : Stored}, x ∈ freshIds next l →
    ∃ e ∈ l, x.node = e.node ∧ x.handle = e.handle
  | [], _, h => by simp [freshIds] at h
  | e :: es, x, h => by
    simp only [freshIds, List.mem_cons] at h
    rcases h with rfl | h
    · exact ⟨e, by simp, rfl, rfl⟩
    · obtain ⟨e', he', h1, h2⟩ := mem_freshIds h
      exact ⟨e', List.mem_cons_of_mem _ he', h1, h2⟩

/-- a recreation re-sends stored requests: the new server items and the new store carry
    (node, handle) pairs that were stored — and therefore safe — before -/
theorem invA_recreate {s : St} {order : List Nat} {ok : Bool} (hi : InvA s) :
    InvA (recreate s order ok) := by
  unfold recreate
  have hsub : ∀ x ∈ freshIds s.nextItem (order.filterMap fun k => s.stored.find? (·.key == k)),
      Safe s.next s.handles x.node x.handle := by
    intro x hx
    obtain ⟨e, he, h1, h2⟩ := mem_freshIds hx
    simp only [List.mem_filterMap] at he
    obtain ⟨k, _, hf⟩ := he
    have := hi.2.2 e (List.mem_of_find?_eq_some hf)
    rw [h1, h2]
    exact this
  split
  · refine ⟨hi.1, ?_, hsub⟩
    intro it hit
    simp only [List.mem_map] at hit
    obtain ⟨x, hx, rfl⟩ := hit
    exact hsub x hx
  · exact ⟨hi.1, by simp, by simp⟩

theorem invA_runOps : ∀ (ops : List Op) (s : St), InvA s → InvA (runOps s ops)
  | [], s, hi => hi
  | o :: os, s, hi => by
    simp only [runOps]
    apply invA_runOps os _
    cases o with
    | add reqs oks => exact invA_add hi
    | addErr reqs => exact invA_addErr hi
    | remove ids => exact invA_remove hi
    | recreate order ok => exact invA_recreate hi

/-! ### (B) change notifications -/

theorem orr_none_left {α : Type} (b : Option α) : orr none b = b := rfl

theorem foldl_last_init (h : Nat) : ∀ (c : List (Nat × Int)) (a : Option Int),
    c.foldl (fun acc e => if e.1 = h then some e.2 else acc) a = orr (chanLast c h) a
  | [], a => by simp [chanLast, orr]
  | e :: rest, a => by
    simp only [List.foldl_cons, chanLast]
    rw [foldl_last_init h rest, foldl_last_init h rest (if e.1 = h then some e.2 else none)]
    cases hr : chanLast rest h <;> simp [orr] <;> split <;> simp

theorem chanLast_cons (e : Nat × Int) (rest : List (Nat × Int)) (h : Nat) :
    chanLast (e :: rest) h = orr (chanLast rest h) (if e.1 = h then some e.2 else none) := by
  simp only [chanLast, List.foldl_cons]
  exact foldl_last_init h rest _

theorem chanLast_append (a b : List (Nat × Int)) (h : Nat) :
    chanLast (a ++ b) h = orr (chanLast b h) (chanLast a h) := by
  simp only [chanLast, List.foldl_append]
  exact foldl_last_init h b _

/-- entries that all carry the same value `v`: the last one for `h` is `v` iff some entry has key `h` -/
theorem chanLast_const (l : List (Nat × Node)) (v : Int) (h : Nat) :
    chanLast (l.map fun it => (it.1, v)) h = if l.any (·.1 = h) then some v else none := by
  induction l with
  | nil => simp [chanLast]
  | cons x xs ih =>
    simp only [List.map_cons, chanLast_cons, ih, List.any_cons]
    by_cases h1 : x.1 = h <;> by_cases h2 : (xs.any fun y => decide (y.1 = h)) = true <;> simp [h1, h2, orr]

/-- the invariant behind `C28_converge`: handles are distinct, and for an item whose
    node has no notification pending, the newest value under way is the current one -/
def InvB (s : Srv) : Prop :=
  (s.items.map (·.1)).Nodup ∧
  ∀ it ∈ s.items, it.2 ∉ s.pending → latest s it.1 = some (s.vals it.2)

theorem invB_empty : InvB Srv.empty := by
  simp [InvB, Srv.empty]

theorem nodup_key_unique {items : List (Nat × Node)} (hnd : (items.map (·.1)).Nodup)
    {a b : Nat × Node} (ha : a ∈ items) (hb : b ∈ items) (hk : a.1 = b.1) : a = b := by
  induction items with
  | nil => simp at ha
  | cons x xs ih =>
    simp only [List.map_cons, List.nodup_cons] at hnd
    simp only [List.mem_cons] at ha hb
    rcases ha with rfl | ha <;> rcases hb with rfl | hb
    · rfl
    · exact absurd (by rw [hk]; exact List.mem_map_of_mem hb) hnd.1
    · exact absurd (by rw [← hk]; exact List.mem_map_of_mem ha) hnd.1
    · exact ih hnd.2 ha hb

theorem mem_eraseIdx_of_ne {l : List Node} {i : Nat} {n m : Node} (hi : l[i]? = some n) (hne : m ≠ n)
    (hm : m ∈ l) : m ∈ l.eraseIdx i := by
  induction l generalizing i with
  | nil => simp at hm
  | cons x xs ih =>
    cases i with
    | zero =>
      simp only [List.getElem?_cons_zero, Option.some.injEq] at hi
      simp only [List.eraseIdx_cons_zero]
      simp only [List.mem_cons] at hm
      rcases hm with rfl | hm
      · exact absurd hi hne
      · exact hm
    | succ j =>
      simp only [List.getElem?_cons_succ] at hi
      simp only [List.eraseIdx_cons_succ, List.mem_cons] at hm ⊢
      rcases hm with rfl | hm
      · exact Or.inl rfl
      · exact Or.inr (ih hi hm)

theorem invB_step {s s' : Srv} {e : Ev} (hi : InvB s) (hf : freshCreate s e = true)
    (hs : sstep s e = some s') : InvB s' := by
  obtain ⟨hnd, hl⟩ := hi
  cases e with
  | write n v =>
    simp only [sstep, Option.some.injEq] at hs
    subst hs
    refine ⟨hnd, ?_⟩
    intro it hit hp
    simp only [List.mem_append, List.mem_singleton, not_or] at hp
    have := hl it hit hp.1
    simp only [latest] at this ⊢
    simp [this, hp.2]
  | cn i =>
    simp only [sstep] at hs
    split at hs
    · simp at hs
    · rename_i n hn
      simp only [Option.some.injEq] at hs
      subst hs
      refine ⟨hnd, ?_⟩
      intro it hit hp
      simp only [latest, chanLast_append, chanLast_const]
      by_cases hnode : it.2 = n
      · -- an entry for this handle has just been sent with the current value
        have hany : ((s.items.filter fun x => decide (x.2 = n)).any fun y => decide (y.1 = it.1)) = true := by
          simp only [List.any_eq_true, List.mem_filter, decide_eq_true_eq]
          exact ⟨it, ⟨hit, hnode⟩, rfl⟩
        simp only [hany]
        simp [orr, hnode]
      · -- no entry with this handle was sent: another item with the same handle does not exist
        have hany : ((s.items.filter fun x => decide (x.2 = n)).any fun y => decide (y.1 = it.1)) = false := by
          simp only [List.any_eq_false, List.mem_filter, decide_eq_true_eq]
          intro y ⟨hy, hyn⟩ hk
          have := nodup_key_unique hnd hy hit hk
          subst this
          exact hnode hyn
        have hpend : it.2 ∉ s.pending := fun hm => hp (mem_eraseIdx_of_ne hn hnode hm)
        have hlat := hl it hit hpend
        simp only [latest] at hlat
        simp only [hany]
        simpa [orr] using hlat
  | collect =>
    simp only [sstep] at hs
    split at hs
    · simp at hs
    · rename_i h0 v0 rest hc
      simp only [Option.some.injEq] at hs
      subst hs
      refine ⟨hnd, ?_⟩
      intro it hit hp
      have := hl it hit hp
      simp only [latest, hc, chanLast_cons] at this
      simp only [latest]
      by_cases hk : it.1 = h0
      · subst hk
        cases hr : chanLast rest it.1 <;> simp [hr, orr] at this ⊢ <;> exact this
      · have hk' : ¬ h0 = it.1 := fun h => hk h.symm
        cases hr : chanLast rest it.1 <;> simp [hr, orr, hk, hk'] at this ⊢ <;> exact this
  | publish =>
    simp only [sstep, Option.some.injEq] at hs
    subst hs
    refine ⟨hnd, ?_⟩
    intro it hit hp
    have := hl it hit hp
    simp only [latest] at this ⊢
    cases hc : chanLast s.chan it.1 <;> cases hq : s.queue it.1 <;> simp [hc, hq, orr] at this ⊢ <;> exact this
  | create h n =>
    simp only [sstep, Option.some.injEq] at hs
    subst hs
    simp only [freshCreate, Bool.not_eq_true', List.any_eq_false, decide_eq_true_eq] at hf
    refine ⟨?_, ?_⟩
    · simp only [List.map_append, List.map_cons, List.map_nil]
      rw [List.nodup_append]
      refine ⟨hnd, by simp, ?_⟩
      intro a ha b hb
      simp only [List.mem_singleton] at hb
      subst hb
      intro he
      subst he
      simp only [List.mem_map] at ha
      obtain ⟨x, hx, hxa⟩ := ha
      exact hf x hx hxa
    · intro it hit hp
      simp only [List.mem_append, List.mem_singleton, not_or] at hit hp
      rcases hit with hit | rfl
      · have := hl it hit hp.1
        simpa [latest] using this
      · exact absurd rfl hp.2

theorem invB_reach {s : Srv} (hr : SReach s) : InvB s := by
  induction hr with
  | init => exact invB_empty
  | step e _ hf hs ih => exact invB_step ih hf hs

end Opcua.Mon
