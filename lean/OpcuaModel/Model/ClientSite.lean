/-
  C21 — a syntactic panic site of the client code: an index expression, a
  slice expression or an unchecked type assertion inside a function of the
  anchored files.  `Gen/ClientSites.lean` lists them from the source (go/ast).
-/
namespace Opcua.ClientResp

structure Site where
  file : String
  fn   : String
  kind : String   -- "index" | "slice" | "assert"
  expr : String
  deriving Repr, DecidableEq

end Opcua.ClientResp
