import OpcuaModel.Model.Subs
/-
  Model of `Client.sendRepublishRequests` / `republishSubscription` (client_sub.go): after
  TransferSubscriptions the client asks the server to send again the notifications it
  still holds (its retransmission queue), one sequence number at a time, starting with
  the subscription's `nextSeq`.

      for {
        res, err := Republish(subID, RetransmitSequenceNumber: sub.nextSeq)
        err == BadMessageNotAvailable      → return nil
        err != nil                         → return err
        res.ServiceResult != OK            → return status
        res.NotificationMessage != nil     → notifySubscription; lastSeq = msg.Seq; nextSeq = lastSeq+1
                                             if len(avail) > 0 && nextSeq ∉ avail → return nil
        time.Sleep(time.Second)
      }

  The republished message is handed to the application and — since the repair of
  C26.republished-never-acknowledged — a SubscriptionAcknowledgement for it is appended
  to `pendingAcks` under `subMux`, as `handleNotification` does for a message received
  through Publish.
-/
namespace Opcua.Rep

/-- what the server answers to one RepublishRequest -/
inductive Answer where
  | msg (seq : Nat)      -- RepublishResponse with a NotificationMessage
  | noMessage            -- Good, but NotificationMessage == nil
  | notAvailable         -- BadMessageNotAvailable
  | failSession          -- BadSessionIDInvalid
  | failSub              -- BadSubscriptionIDInvalid
  | failOther            -- any other error / bad ServiceResult
  deriving DecidableEq, Repr

inductive Outcome where
  | done           -- returned nil
  | failSession | failSub | failOther
  | running        -- fuel exhausted (the loop has no bound of its own)
  deriving DecidableEq, Repr

structure Result where
  delivered : List Nat   -- sequence numbers handed to the application, in order
  requested : List Nat   -- RetransmitSequenceNumber of every request sent
  nextSeq : Nat
  outcome : Outcome
  deriving DecidableEq, Repr

/-- `sendRepublishRequests`; `avail` = AvailableSequenceNumbers of the transfer result -/
def loop (avail : List Nat) (srv : Nat → Answer) : Nat → Nat → List Nat → List Nat → Result
  | 0, n, del, req => ⟨del, req, n, .running⟩
  | fuel + 1, n, del, req =>
    match srv n with
    | .notAvailable => ⟨del, req ++ [n], n, .done⟩
    | .failSession => ⟨del, req ++ [n], n, .failSession⟩
    | .failSub => ⟨del, req ++ [n], n, .failSub⟩
    | .failOther => ⟨del, req ++ [n], n, .failOther⟩
    | .noMessage => loop avail srv fuel n del (req ++ [n])
    | .msg s =>
      if avail ≠ [] ∧ s + 1 ∉ avail then ⟨del ++ [s], req ++ [n], s + 1, .done⟩
      else loop avail srv fuel (s + 1) (del ++ [s]) (req ++ [n])

def republish (avail : List Nat) (srv : Nat → Answer) (fuel nextSeq : Nat) : Result :=
  loop avail srv fuel nextSeq [] []

/-- `republishSubscription`: which outcomes make `monitor` fall back to recreating the
    subscription (BadSessionIDInvalid is swallowed) -/
def republishOk : Outcome → Bool
  | .done => true
  | .failSession => true
  | _ => false

/-- a server that answers from its retransmission queue -/
def honest (q : List Nat) (n : Nat) : Answer := if n ∈ q then .msg n else .notAvailable

/-- the queue holds a gap-free run of sequence numbers from `n` on: everything the server
    sent after the client's last received message is still there -/
def contiguousFrom (q : List Nat) (n : Nat) : Prop := ∀ s ∈ q, n ≤ s → ∀ t, n ≤ t → t ≤ s → t ∈ q

/-- what the loop leaves in the client's bookkeeping: `lastSeq` / `nextSeq` of the
    subscription advance and one acknowledgement per republished message is queued, in
    the order of delivery -/
def intoClient (c : Subs.Client) (id : Nat) (r : Result) : Subs.Client :=
  match Subs.findSub c.subs id with
  | some s =>
    if r.delivered = [] then c
    else { pending := c.pending ++ r.delivered.map (fun q => ⟨id, q⟩),
           subs := Subs.setSub c.subs { s with lastSeq := r.nextSeq - 1, nextSeq := r.nextSeq } }
  | none => c

end Opcua.Rep
