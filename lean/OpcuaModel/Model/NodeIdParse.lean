import OpcuaModel.Model.NodeIdText
/-
  Model of the NodeID string form (C04): `(*ua.NodeID).String`,
  `ua.ParseExpandedNodeID`, `ua.ParseNodeID`, `(*ua.NodeID).Equal`, statement
  by statement (state after the repairs of C04.string-ns0-semicolon — a text
  starting with "s=" is not split at ';' — and C04.nsu-uri-semicolon — the URI
  part is unescaped).  The record mirrors the Go struct

      type NodeID struct { mask NodeIDType; ns uint16; nid uint32; bid []byte; gid *GUID }

  (`gid` = the 16 bytes Data1|Data2|Data3|Data4 in text order, `none` = nil
  pointer).  Text is a list of byte values; the character constants are
    ';' 59  '=' 61  '+' 43  '-' 45  '0' 48
    'b' 98  'g' 103  'i' 105  'n' 110  's' 115  'u' 117
-/
namespace Opcua.NodeIdText

structure NodeID where
  mask : Nat
  ns : Nat
  nid : Nat
  bid : List Nat
  gid : Option (List Nat)
  deriving DecidableEq, Repr

/-- `n.Type()` = `mask & 0xf` -/
def NodeID.typ (n : NodeID) : Nat := n.mask % 16

def newTwoByte (id : Nat) : NodeID := ⟨0, 0, id, [], none⟩
def newFourByte (ns id : Nat) : NodeID := ⟨1, ns, id, [], none⟩
def newNumeric (ns id : Nat) : NodeID := ⟨2, ns, id, [], none⟩
def newString (ns : Nat) (s : Text) : NodeID := ⟨3, ns, 0, s, none⟩
/-- `NewGUIDNodeID(ns, text)`: `gid` is nil when the text is not a GUID -/
def newGUIDNode (ns : Nat) (t : Text) : NodeID := ⟨4, ns, 0, [], newGUID t⟩
def newByteString (ns : Nat) (b : List Nat) : NodeID := ⟨5, ns, 0, b, none⟩

/-- `n.StringID()` -/
def stringID (n : NodeID) : Text :=
  match n.typ with
  | 4 => match n.gid with
    | none => []
    | some g => guidText g
  | 3 => n.bid
  | 5 => b64enc n.bid
  | _ => []

/-- `"<L>=<body>"` when `ns == 0`, else `"ns=<ns>;<L>=<body>"` -/
def withNs (ns : Nat) (letter : Nat) (body : Text) : Text :=
  if ns = 0 then letter :: 61 :: body
  else [110, 115, 61] ++ dec ns ++ [59] ++ (letter :: 61 :: body)

/-- `n.String()` for a non-nil receiver; `none` = the panic of the default case -/
def toString (n : NodeID) : Option Text :=
  match n.typ with
  | 0 => some (105 :: 61 :: dec n.nid)
  | 1 => some (withNs n.ns 105 (dec n.nid))
  | 2 => some (withNs n.ns 105 (dec n.nid))
  | 3 => some (withNs n.ns 115 (stringID n))
  | 4 => some (withNs n.ns 103 (stringID n))
  | 5 => some (withNs n.ns 98 (stringID n))
  | _ => none

/-- `a.Equal(b)` = `a.String() == b.String()` (both non-nil, valid types) -/
def equal (a b : NodeID) : Bool := toString a == toString b

/-- `ua.TypeRegistry` (typereg.go): `Register` stores under the key `id.String()`, `New` looks the
    key `id.String()` up — `entries` = (key, registered type) in registration order -/
def regLookup (entries : List (Option Text × Nat)) (id : NodeID) : Option Nat :=
  (entries.find? fun e => e.1 == toString id).map (·.2)

structure Expanded where
  node : NodeID
  nsu : Text
  serverIndex : Nat
  deriving DecidableEq, Repr

def hasURIFlag (n : NodeID) : Bool := n.mask / 128 % 2 == 1
def hasIndexFlag (n : NodeID) : Bool := n.mask / 64 % 2 == 1
/-- `mask |= 0x80` -/
def setURIFlag (n : NodeID) : NodeID := { n with mask := if n.mask / 128 % 2 = 1 then n.mask else n.mask + 128 }
/-- `mask |= 0x40` -/
def setIndexFlag (n : NodeID) : NodeID := { n with mask := if n.mask / 64 % 2 = 1 then n.mask else n.mask + 64 }

/-- `NewExpandedNodeID(nodeID, uri, idx)` -/
def newExpanded (n : NodeID) (uri : Text) (idx : Nat) : Expanded :=
  let n1 := if uri ≠ [] then setURIFlag n else n
  let n2 := if idx > 0 then setIndexFlag n1 else n1
  ⟨n2, uri, idx⟩

/-- `strings.SplitN(s, sep, 2)`: `(s, none)` = one part, `(a, some b)` = two -/
def splitFirst (sep : Nat) : Text → Text × Option Text
  | [] => ([], none)
  | c :: r =>
    if c = sep then ([], some r)
    else match splitFirst sep r with
      | (a, b) => (c :: a, b)

/-- `strconv.Atoi` followed by the range check `0..65535` (`none` = either error) -/
def atoiNs (t : Text) : Option Nat :=
  match t with
  | [] => none
  | c :: r =>
    if c = 43 then (digitsVal r).bind fun v => if v ≤ 65535 then some v else none
    else if c = 45 then (digitsVal r).bind fun v => if v = 0 then some 0 else none
    else (digitsVal (c :: r)).bind fun v => if v ≤ 65535 then some v else none

/-- `nsuUnescaper.Replace`: one left-to-right pass replacing `%3B`, `%3b` by ';' and `%25` by '%'
    (the escapes of the reserved characters of a namespace URI, Part 6 5.3.1.10) -/
def unescNsu : Text → Text
  | [] => []
  | 37 :: 51 :: 66 :: r => 59 :: unescNsu r
  | 37 :: 51 :: 98 :: r => 59 :: unescNsu r
  | 37 :: 50 :: 53 :: r => 37 :: unescNsu r
  | c :: r => c :: unescNsu r

/-- the text form of a namespace URI: ';' ↦ `%3B`, '%' ↦ `%25` (what a conforming writer emits;
    the library itself never renders a URI) -/
def escNsu : Text → Text
  | [] => []
  | c :: r =>
    if c = 59 then 37 :: 51 :: 66 :: escNsu r
    else if c = 37 then 37 :: 50 :: 53 :: escNsu r
    else c :: escNsu r

/-- the "parse namespace" switch: `(nsid, nsu)` -/
def parseNs (nsval : Text) (tbl : Option (List Text)) : Option (Nat × Text) :=
  if [110, 115, 117, 61].isPrefixOf nsval then
    match tbl with
    | none => none
    | some ns =>
      let nsuval := unescNsu (nsval.drop 4)
      match ns.findIdx? (· == nsuval) with
      | some id => some (id % 65536, nsuval)
      | none => none
  else if [110, 115, 61].isPrefixOf nsval then
    (atoiNs (nsval.drop 3)).map fun n => (n, [])
  else none

/-- the "parse identifier" switch, in the code's order -/
def parseIdent (nsid : Nat) (nsu : Text) (idval : Text) : Option Expanded :=
  if [105, 61].isPrefixOf idval then
    match digitsVal (idval.drop 2) with
    | none => none
    | some id =>          -- (ParseUint's own 2^64 range error is subsumed by the last case)
      if nsid = 0 ∧ id < 256 then some (newExpanded (newTwoByte id) [] 0)
      else if nsid < 256 ∧ id < 65535 then some (newExpanded (newFourByte nsid id) nsu 0)
      else if id ≤ 4294967295 then some (newExpanded (newNumeric nsid id) nsu 0)
      else none
  else if [115, 61].isPrefixOf idval then some (newExpanded (newString nsid (idval.drop 2)) nsu 0)
  else if [103, 61].isPrefixOf idval then
    let n := newGUIDNode nsid (idval.drop 2)
    if stringID n = [] then none else some (newExpanded n nsu 0)
  else if [98, 61].isPrefixOf idval then
    match b64dec (idval.drop 2) with
    | none => none
    | some b => some (newExpanded (newByteString nsid b) nsu 0)
  else if [110, 115, 61].isPrefixOf idval then none
  else some (newExpanded (newString nsid idval) nsu 0)

/-- `ua.ParseExpandedNodeID(s, ns)`; `tbl = none` is the nil namespace table -/
def parseExpanded (s : Text) (tbl : Option (List Text)) : Option Expanded :=
  if s = [] then some ⟨newTwoByte 0, [], 0⟩
  else
    -- a text starting with "s=" has no namespace part (the identifier may contain ';')
    let p := if [115, 61].isPrefixOf s then ([110, 115, 61, 48], s)
      else match splitFirst 59 s with
        | (a, none) => ([110, 115, 61, 48], a)
        | (a, some b) => (a, b)
    match parseNs p.1 tbl with
    | none => none
    | some (nsid, nsu) => parseIdent nsid nsu p.2

/-- `ua.ParseNodeID(s)` -/
def parseNodeID (s : Text) : Option NodeID :=
  match parseExpanded s none with
  | none => none
  | some e => if hasURIFlag e.node then none else if hasIndexFlag e.node then none else some e.node

/-! ### specification side -/

/-- the NodeIDs the library can build: a valid type, fields in the range of
    their Go types (and of the constructors), a GUID of 16 bytes -/
def WF (n : NodeID) : Prop :=
  (n.typ = 0 ∧ n.ns = 0 ∧ n.nid < 256) ∨
  (n.typ = 1 ∧ n.ns < 256 ∧ n.nid < 65536) ∨
  (n.typ = 2 ∧ n.ns < 65536 ∧ n.nid < 4294967296) ∨
  (n.typ = 3 ∧ n.ns < 65536) ∨
  (n.typ = 4 ∧ n.ns < 65536 ∧ ∃ g, n.gid = some g ∧ g.length = 16 ∧ ∀ b ∈ g, b < 256) ∨
  (n.typ = 5 ∧ n.ns < 65536 ∧ ∀ b ∈ n.bid, b < 256)

/-- what a NodeID identifies inside its namespace -/
inductive Ident where
  | num (v : Nat)
  | str (s : Text)
  | guid (g : List Nat)
  | opaque (b : List Nat)
  | invalid
  deriving DecidableEq, Repr

def ident (n : NodeID) : Ident :=
  match n.typ with
  | 0 => .num n.nid
  | 1 => .num n.nid
  | 2 => .num n.nid
  | 3 => .str n.bid
  | 4 => .guid (n.gid.getD [])
  | 5 => .opaque n.bid
  | _ => .invalid

/-- same node: same namespace and same identifier; the numeric encoding
    (two-byte / four-byte / numeric) and the flag bits of the mask do not matter -/
def SameNode (a b : NodeID) : Prop := a.ns = b.ns ∧ ident a = ident b

/-- what parsing the string form returns: the smallest numeric encoding, the
    flag bits cleared -/
def canon (n : NodeID) : NodeID :=
  match n.typ with
  | 3 => newString n.ns n.bid
  | 4 => ⟨4, n.ns, 0, [], n.gid⟩
  | 5 => newByteString n.ns n.bid
  | _ =>
    if n.ns = 0 ∧ n.nid < 256 then newTwoByte n.nid
    else if n.ns < 256 ∧ n.nid < 65535 then newFourByte n.ns n.nid
    else newNumeric n.ns n.nid

end Opcua.NodeIdText
