import OpcuaModel.Model.Republish
namespace Opcua.Rep

/-- what the loop guarantees against an honest server -/
def Good (q : List Nat) (n : Nat) (del : List Nat) (r : Result) : Prop :=
  (∀ s, s ∈ r.delivered ↔ s ∈ del ∨ (n ≤ s ∧ s < r.nextSeq)) ∧
  (∀ t, n ≤ t → t < r.nextSeq → t ∈ q) ∧
  n ≤ r.nextSeq ∧
  (r.outcome = .done ∨ r.outcome = .running) ∧
  (r.outcome = .done → r.nextSeq ∉ q)

theorem good_stop (q : List Nat) (n : Nat) (del req : List Nat) (o : Outcome)
    (ho : o = .done ∨ o = .running) (hq : o = .done → n ∉ q) : Good q n del ⟨del, req, n, o⟩ := by
  refine ⟨?_, ?_, Nat.le_refl _, ho, hq⟩
  · intro s; constructor
    · intro h; exact Or.inl h
    · rintro (h | ⟨h1, h2⟩)
      · exact h
      · exact absurd h2 (by show ¬ s < n; omega)
  · intro t h1 h2; exact absurd h2 (by show ¬ t < n; omega)

/-- generalised invariant of the loop against an honest server whose transfer result
    listed exactly the queue (or nothing) -/
theorem loop_honest (q avail : List Nat) (ha : avail = [] ∨ ∀ x, x ∈ avail ↔ x ∈ q) :
    ∀ (fuel n : Nat) (del req : List Nat), Good q n del (loop avail (honest q) fuel n del req)
  | 0, n, del, req => by
    unfold loop
    exact good_stop q n del req .running (Or.inr rfl) (by intro h; cases h)
  | fuel + 1, n, del, req => by
    unfold loop
    by_cases hn : n ∈ q
    · have hs : honest q n = .msg n := by simp [honest, hn]
      simp only [hs]
      split
      · rename_i hstop
        refine ⟨?_, ?_, Nat.le_succ _, Or.inl rfl, ?_⟩
        · intro s
          show s ∈ del ++ [n] ↔ s ∈ del ∨ (n ≤ s ∧ s < n + 1)
          simp only [List.mem_append, List.mem_singleton]
          constructor
          · rintro (h | h)
            · exact Or.inl h
            · exact Or.inr ⟨by omega, by omega⟩
          · rintro (h | ⟨h1, h2⟩)
            · exact Or.inl h
            · exact Or.inr (by omega)
        · intro t h1 h2
          have h2' : t < n + 1 := h2
          have : t = n := by omega
          exact this ▸ hn
        · intro _
          show n + 1 ∉ q
          rcases ha with ha | ha
          · exact absurd ha hstop.1
          · exact fun h => hstop.2 ((ha _).mpr h)
      · obtain ⟨h1, h2, h3, h4, h5⟩ := loop_honest q avail ha fuel (n + 1) (del ++ [n]) (req ++ [n])
        refine ⟨?_, ?_, by omega, h4, h5⟩
        · intro s
          rw [h1 s]
          simp only [List.mem_append, List.mem_singleton]
          constructor
          · rintro ((h | h) | ⟨ha1, ha2⟩)
            · exact Or.inl h
            · exact Or.inr ⟨by omega, by omega⟩
            · exact Or.inr ⟨by omega, ha2⟩
          · rintro (h | ⟨ha1, ha2⟩)
            · exact Or.inl (Or.inl h)
            · by_cases hs : s = n
              · exact Or.inl (Or.inr hs)
              · exact Or.inr ⟨by omega, ha2⟩
        · intro t ht1 ht2
          by_cases hs : t = n
          · exact hs ▸ hn
          · exact h2 t (by omega) ht2
    · have hs : honest q n = .notAvailable := by simp [honest, hn]
      simp only [hs]
      exact good_stop q n del (req ++ [n]) .done (Or.inl rfl) (fun _ => hn)

/-- the loop appends to `delivered` in strictly increasing order -/
theorem loop_sorted (q avail : List Nat) :
    ∀ (fuel n : Nat) (del req : List Nat), del.Pairwise (· < ·) → (∀ x ∈ del, x < n) →
      (loop avail (honest q) fuel n del req).delivered.Pairwise (· < ·)
  | 0, n, del, req, hp, _ => by unfold loop; exact hp
  | fuel + 1, n, del, req, hp, hb => by
    unfold loop
    have hp' : (del ++ [n]).Pairwise (· < ·) := by
      rw [List.pairwise_append]
      exact ⟨hp, by simp, by intro a ha b hb'; simp at hb'; subst hb'; exact hb a ha⟩
    by_cases hn : n ∈ q
    · have hs : honest q n = .msg n := by simp [honest, hn]
      simp only [hs]
      split
      · exact hp'
      · apply loop_sorted q avail fuel (n + 1) _ _ hp'
        intro x hx
        simp only [List.mem_append, List.mem_singleton] at hx
        rcases hx with hx | hx
        · have := hb x hx; omega
        · omega
    · have hs : honest q n = .notAvailable := by simp [honest, hn]
      simp only [hs]
      exact hp

theorem filter_succ_le (q : List Nat) (n : Nat) :
    (q.filter (fun x => decide (n + 1 ≤ x))).length ≤ (q.filter (fun x => decide (n ≤ x))).length := by
  induction q with
  | nil => simp
  | cons a as ih =>
    simp only [List.filter_cons]
    by_cases h1 : n + 1 ≤ a
    · have h2 : n ≤ a := by omega
      simp [h1, h2]; omega
    · by_cases h2 : n ≤ a
      · simp [h1, h2]; omega
      · simp [h1, h2]; omega

theorem filter_ge_succ_lt {q : List Nat} {n : Nat} (hn : n ∈ q) :
    (q.filter (fun x => decide (n + 1 ≤ x))).length < (q.filter (fun x => decide (n ≤ x))).length := by
  induction q with
  | nil => simp at hn
  | cons a as ih =>
    simp only [List.filter_cons]
    simp only [List.mem_cons] at hn
    by_cases ha : a = n
    · subst ha
      have h1 : decide (a + 1 ≤ a) = false := by simp
      have h2 : decide (a ≤ a) = true := by simp
      simp only [h1, h2, if_true, List.length_cons, Bool.false_eq_true, if_false]
      have := filter_succ_le as a
      omega
    · have hmem : n ∈ as := by
        rcases hn with h | h
        · exact absurd h.symm ha
        · exact h
      have := ih hmem
      by_cases h1 : n + 1 ≤ a
      · have h2 : n ≤ a := by omega
        simp [h1, h2]; omega
      · by_cases h2 : n ≤ a
        · simp [h1, h2]; omega
        · simp [h1, h2]; omega

/-- with enough fuel the loop against an honest server ends -/
theorem loop_terminates (q avail : List Nat) :
    ∀ (fuel n : Nat) (del req : List Nat), (q.filter (fun x => decide (n ≤ x))).length < fuel →
      (loop avail (honest q) fuel n del req).outcome = .done
  | 0, _, _, _, h => by omega
  | fuel + 1, n, del, req, h => by
    unfold loop
    by_cases hn : n ∈ q
    · have hs : honest q n = .msg n := by simp [honest, hn]
      simp only [hs]
      split
      · rfl
      · apply loop_terminates q avail fuel (n + 1)
        have := filter_ge_succ_lt hn
        omega
    · have hs : honest q n = .notAvailable := by simp [honest, hn]
      simp only [hs]

end Opcua.Rep
