import OpcuaModel.Model.Republish
namespace Opcua.Rep

/-- generalised invariant of the loop against an honest server whose transfer result
    listed exactly the queue (or nothing) -/
theorem loop_honest (q avail : List Nat) (ha : avail = [] ∨ ∀ x, x ∈ avail ↔ x ∈ q) :
    ∀ (fuel n : Nat) (del req : List Nat),
      let r := loop avail (honest q) fuel n del req
      (∀ s, s ∈ r.delivered ↔ s ∈ del ∨ (n ≤ s ∧ s < r.nextSeq)) ∧
      (∀ t, n ≤ t → t < r.nextSeq → t ∈ q) ∧
      n ≤ r.nextSeq ∧
      (r.outcome = .done ∨ r.outcome = .running) ∧
      (r.outcome = .done → r.nextSeq ∉ q)
  | 0, n, del, req => by
    simp only [loop]
    refine ⟨?_, ?_, Nat.le_refl _, Or.inr rfl, by simp⟩
    · intro s; constructor
      · intro h; exact Or.inl h
      · rintro (h | ⟨h1, h2⟩)
        · exact h
        · omega
    · intro t h1 h2; omega
  | fuel + 1, n, del, req => by
    simp only [loop, honest]
    by_cases hn : n ∈ q
    · simp only [hn, if_true]
      by_cases hstop : avail ≠ [] ∧ n + 1 ∉ avail
      · simp only [hstop, not_false_eq_true, and_self, if_true]
        refine ⟨?_, ?_, by omega, Or.inl rfl, ?_⟩
        · intro s
          simp only [List.mem_append, List.mem_singleton]
          constructor
          · rintro (h | h)
            · exact Or.inl h
            · exact Or.inr ⟨by omega, by omega⟩
          · rintro (h | ⟨h1, h2⟩)
            · exact Or.inl h
            · exact Or.inr (by omega)
        · intro t h1 h2
          have : t = n := by omega
          exact this ▸ hn
        · intro _
          rcases ha with ha | ha
          · exact absurd ha hstop.1
          · exact fun h => hstop.2 ((ha _).mpr h)
      · simp only [hstop, if_false]
        have ih := loop_honest q avail ha fuel (n + 1) (del ++ [n]) (req ++ [n])
        simp only at ih
        obtain ⟨h1, h2, h3, h4, h5⟩ := ih
        refine ⟨?_, ?_, by omega, h4, h5⟩
        · intro s
          rw [h1 s]
          simp only [List.mem_append, List.mem_singleton]
          constructor
          · rintro ((h | h) | ⟨ha1, ha2⟩)
            · exact Or.inl h
            · exact Or.inr ⟨by omega, by omega⟩
            · exact Or.inr ⟨by omega, ha2⟩
          · rintro (h | ⟨ha1, ha2⟩)
            · exact Or.inl (Or.inl h)
            · by_cases hs : s = n
              · exact Or.inl (Or.inr hs)
              · exact Or.inr ⟨by omega, ha2⟩
        · intro t ht1 ht2
          by_cases hs : t = n
          · exact hs ▸ hn
          · exact h2 t (by omega) ht2
    · simp only [hn, if_false]
      refine ⟨?_, ?_, Nat.le_refl _, Or.inl rfl, fun _ => hn⟩
      · intro s; constructor
        · intro h; exact Or.inl h
        · rintro (h | ⟨h1, h2⟩)
          · exact h
          · omega
      · intro t h1 h2; omega

/-- the loop appends to `delivered` in strictly increasing order -/
theorem loop_sorted (q avail : List Nat) :
    ∀ (fuel n : Nat) (del req : List Nat), del.Pairwise (· < ·) → (∀ x ∈ del, x < n) →
      (loop avail (honest q) fuel n del req).delivered.Pairwise (· < ·)
  | 0, n, del, req, hp, _ => by simpa [loop] using hp
  | fuel + 1, n, del, req, hp, hb => by
    simp only [loop, honest]
    have hp' : (del ++ [n]).Pairwise (· < ·) := by
      rw [List.pairwise_append]
      exact ⟨hp, by simp, by intro a ha b hb'; simp at hb'; subst hb'; exact hb a ha⟩
    by_cases hn : n ∈ q
    · simp only [hn, if_true]
      split
      · exact hp'
      · apply loop_sorted q avail fuel (n + 1) _ _ hp'
        intro x hx
        simp only [List.mem_append, List.mem_singleton] at hx
        rcases hx with hx | hx
        · have := hb x hx; omega
        · omega
    · simpa [hn] using hp

/-- with enough fuel the loop against an honest server ends -/
theorem loop_terminates (q avail : List Nat) :
    ∀ (fuel n : Nat) (del req : List Nat), (q.filter (n ≤ ·)).length < fuel →
      (loop avail (honest q) fuel n del req).outcome = .done
  | 0, _, _, _, h => by omega
  | fuel + 1, n, del, req, h => by
    simp only [loop, honest]
    by_cases hn : n ∈ q
    · simp only [hn, if_true]
      split
      · rfl
      · apply loop_terminates q avail fuel (n + 1)
        -- n itself is counted in the filter for n but not in the filter for n+1
        have hlt : (q.filter (n + 1 ≤ ·)).length < (q.filter (n ≤ ·)).length := by
          have hsub : ∀ x, x ∈ q.filter (n + 1 ≤ ·) → x ∈ q.filter (n ≤ ·) := by
            intro x hx
            simp only [List.mem_filter, decide_eq_true_eq] at hx ⊢
            exact ⟨hx.1, by omega⟩
          have h1 : q.filter (n + 1 ≤ ·) = (q.filter (n ≤ ·)).filter (n + 1 ≤ ·) := by
            rw [List.filter_filter]
            congr 1
            funext x
            simp only [decide_eq_true_eq, Bool.and_eq_true, Bool.decide_and]
            by_cases hx : n + 1 ≤ x <;> simp [hx] <;> omega
          rw [h1]
          apply List.length_filter_lt_length_iff_exists.mpr
          exact ⟨n, by simp [hn], by simp⟩
        omega
    · simp [hn]

end Opcua.Rep
