import OpcuaModel.Model.SendSeqInv
/-
  Line protocol of the sender / renewal LTS (used by drv_C11 and drv_C16):
    reset <base> <token>     → ok
    lts <label> [args]       → ok | reject          (after a reject: rejected-before)
    guard <label> [args]     → in | out              is the label inside `SendSeq.Guard` in the current state
    wire                     → <inst:tok:seq:msg:opn:idx:cnt,…> oldest first | -
    linked                   → true | false          `Linked base wire`
    renewed                  → tokens for which a renewal was started, oldest first
    state                    → rpc / reqLocked / pend size / active
-/
namespace Opcua.SendSeq

def parseLabel : List String → Option Label
  | ["spawn"] => some .spawn
  | ["gate", t] => t.toNat? >>= fun t => some (.gate t)
  | ["getActive", t] => t.toNat? >>= fun t => some (.getActive t)
  | ["pendAdd", t] => t.toNat? >>= fun t => some (.pendAdd t)
  | ["respGetActive", t] => t.toNat? >>= fun t => some (.respGetActive t)
  | ["lockInst", t] => t.toNat? >>= fun t => some (.lockInst t)
  | ["newMsg", t, c] => do let t ← t.toNat?; let c ← c.toNat?; some (.newMsg t c)
  | ["write", t, q] => do let t ← t.toNat?; let q ← q.toInt?; some (.write t q)
  | ["abort", t] => t.toNat? >>= fun t => some (.abort t)
  | ["unlockInst", t] => t.toNat? >>= fun t => some (.unlockInst t)
  | ["pendDone", t] => t.toNat? >>= fun t => some (.pendDone t)
  | ["rLock"] => some .rLock
  | ["rWaitBegin"] => some .rWaitBegin
  | ["rWaitDone"] => some .rWaitDone
  | ["rLockOld"] => some .rLockOld
  | ["rCopy"] => some .rCopy
  | ["rSendOPN", q] => q.toInt? >>= fun q => some (.rSendOPN q)
  | ["rInstall", k] => k.toNat? >>= fun k => some (.rInstall k)
  | ["rFail"] => some .rFail
  | ["rUnlockOld"] => some .rUnlockOld
  | ["rUnlock"] => some .rUnlock
  | _ => none

def showChunk (c : Chunk) : String :=
  s!"{c.inst}:{c.tok}:{c.seq}:{c.msg}:{if c.opn then 1 else 0}:{c.idx}:{c.cnt}"

def showRpc : RPC → String
  | .idle => "idle" | .gateLocked => "gateLocked" | .waiting => "waiting" | .waited => "waited"
  | .wantOld => "wantOld" | .holdOld => "holdOld" | .copied _ => "copied" | .sent _ => "sent"
  | .installed _ => "installed" | .failed _ => "failed" | .releasedOld => "releasedOld"

def handleSeq (st : Option St) : List String → Option (Option St × String)
  | ["reset", b, k] =>
    match b.toInt?, k.toNat? with
    | some b, some k => some (some (init b k), "ok")
    | _, _ => some (st, "bad-op")
  | "lts" :: rest =>
    match st with
    | none => some (none, "rejected-before")
    | some s =>
      match parseLabel rest with
      | none => some (st, "bad-op")
      | some l =>
        match step? s l with
        | some s' => some (some s', "ok")
        | none => some (none, "reject")
  | "guard" :: rest =>
    match st, parseLabel rest with
    | some s, some l => some (st, if decide (Guard s l) then "in" else "out")
    | _, _ => some (st, "bad-op")
  | ["wire"] =>
    match st with
    | none => some (st, "rejected-before")
    | some s => some (st, if s.wire.isEmpty then "-" else String.intercalate "," (s.wire.reverse.map showChunk))
  | ["linked"] =>
    match st with
    | none => some (st, "rejected-before")
    | some s => some (st, if decide (Linked s.base s.wire) then "true" else "false")
  | ["renewed"] =>
    match st with
    | none => some (st, "rejected-before")
    | some s => some (st, if s.renewed.isEmpty then "-" else String.intercalate "," (s.renewed.reverse.map toString))
  | ["state"] =>
    match st with
    | none => some (st, "rejected-before")
    | some s => some (st, s!"rpc={showRpc s.rpc} locked={s.reqLocked} pend={s.pend.length} active={s.active} tok={s.tok s.active}")
  | _ => none

end Opcua.SendSeq
