/-
  C16(a): the float64 step of `time.Duration(float64(lifetime) * 0.75)`.

  `lifetime` is an int64 number of nanoseconds x.  For x < 2^53 the conversion
  `float64(x)` is exact.  0.75 = 3·2^-2 is a float64.  IEEE-754 multiplication
  returns the exact product 3x/4 rounded to 53 significant bits, ties to even;
  the conversion to `time.Duration` truncates toward zero.  Everything is done
  in quarter nanoseconds (V = 3x stands for V/4), so only naturals are needed.
-/
namespace Opcua.SendFloat

/-- v rounded to the nearest multiple of u, ties to the even multiple -/
def roundNE (v u : Nat) : Nat :=
  let q := v / u
  let r := v % u
  if 2 * r < u then q * u
  else if u < 2 * r then (q + 1) * u
  else if q % 2 = 0 then q * u else (q + 1) * u

/-- unit in the last place of a 53-bit significand for the value V (in the unit of V) -/
def ulp53 (V : Nat) : Nat := if V < 2 ^ 53 then 1 else 2 ^ (Nat.log2 V - 52)

/-- `int64(float64(x) * 0.75)` for 0 ≤ x < 2^53 -/
def f64mul075 (x : Nat) : Nat := roundNE (3 * x) (ulp53 (3 * x)) / 4

theorem ulp53_small {V : Nat} (h : V < 2 ^ 53) : ulp53 V = 1 := by simp [ulp53, h]

theorem ulp53_mid {V : Nat} (h1 : 2 ^ 53 ≤ V) (h2 : V < 2 ^ 54) : ulp53 V = 2 := by
  have hne : V ≠ 0 := by omega
  have a : 53 ≤ Nat.log2 V := (Nat.le_log2 hne).2 h1
  have b : Nat.log2 V < 54 := (Nat.log2_lt hne).2 h2
  have : Nat.log2 V = 53 := by omega
  simp [ulp53, this]
  omega

theorem roundNE_one (v : Nat) : roundNE v 1 = v := by
  simp [roundNE, Nat.mod_one]

/-- exact below 2^53 quarter nanoseconds (lifetimes up to 2^53/3 ns ≈ 34.7 days) -/
theorem f64_exact_small (x : Nat) (h : 3 * x < 2 ^ 53) : f64mul075 x = 3 * x / 4 := by
  simp [f64mul075, ulp53_small h, roundNE_one]

/-- exact whenever 0.75·x is a whole number of nanoseconds, for every x below 2^54/3 -/
theorem f64_exact_div4 (x : Nat) (h : 3 * x < 2 ^ 54) (hd : 3 * x % 4 = 0) : f64mul075 x = 3 * x / 4 := by
  by_cases hs : 3 * x < 2 ^ 53
  · exact f64_exact_small x hs
  · have hu := ulp53_mid (Nat.le_of_not_lt hs) h
    simp only [f64mul075, hu, roundNE]
    have h2 : 3 * x % 2 = 0 := by omega
    simp [h2]
    omega

/-- in general the result is ⌊0.75·x⌋ or ⌊0.75·x⌋ + 1 -/
theorem f64_bound (x : Nat) (h : 3 * x < 2 ^ 54) : 3 * x / 4 ≤ f64mul075 x ∧ f64mul075 x ≤ 3 * x / 4 + 1 := by
  by_cases hs : 3 * x < 2 ^ 53
  · rw [f64_exact_small x hs]; omega
  · have hu := ulp53_mid (Nat.le_of_not_lt hs) h
    simp only [f64mul075, hu, roundNE]
    generalize 3 * x = V at *
    have : V % 2 = 0 ∨ V % 2 = 1 := by omega
    rcases this with h0 | h1
    · simp [h0]; omega
    · simp [h1]
      split <;> omega

/-- the +1 really occurs (0.75·x = k + 0.75 in the binade [2^51, 2^52) rounds up to k + 1) -/
theorem f64_plus_one_witness : f64mul075 3002399751580333 = 3 * 3002399751580333 / 4 + 1 := by decide

end Opcua.SendFloat
