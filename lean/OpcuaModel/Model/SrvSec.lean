import OpcuaModel.Gen.SrvSec
/-
  C30 — model of the server's security configuration and of the way a
  server-side secure channel treats the first OpenSecureChannel request of a
  connection.

  Sources mirrored (as they are, defects included):
    server/server_config.go  EnableSecurity, defaultChannelConfig
    server/server.go         initEndpoints
    server/discovery_service.go GetEndpoints
    server/channel_broker.go RegisterConn      (fresh channel: policy None, mode None)
    uasc/secure_channel.go   readChunk (case "OPN"), Receive, handleOpenSecureChannelRequest
    uasc/secure_channel_instance.go verifyAndDecrypt (the part that decides raw / decrypt)

  Policies are their short names ("None", "Basic256Sha256", …; anything else is
  an unsupported URI).  `ua.MessageSecurityMode` is a uint32 on the wire and is
  never validated by the decoder: 1 = None, 2 = Sign, 3 = SignAndEncrypt, any
  other number is an invalid mode.
-/
namespace Opcua.SrvSec

/-- one (policy, mode) pair: `server.security` -/
structure Sec where
  policy : String
  mode : Nat
  deriving DecidableEq, Repr

def policyNone : String := "None"
def modeNone : Nat := 1
def modeSign : Nat := 2
def modeSignAndEncrypt : Nat := 3

def supported (p : String) : Bool := Gen.SrvSec.supportedPolicies.contains p

/-! ### configuration: `EnableSecurity` -/

def uriPrefix : String := "http://opcfoundation.org/UA/SecurityPolicy#"

/-- `EnableSecurity` accepts the short and the long spelling and stores the long
    one (adds the prefix when it is missing); the model keeps short names, the
    driver strips the prefix from its input with this function (a bijection on
    spellings, not part of any theorem) -/
def normalize (p : String) : String :=
  if uriPrefix.isPrefixOf p then (p.drop uriPrefix.length).toString else p

/-- `EnableSecurity(secPolicy, secMode)` applied to `cfg.enabledSec`; `p` is the short name -/
def enableSecurity (enabled : List Sec) (p : String) (m : Nat) : List Sec :=
  if !supported p then enabled                       -- "… is unsupported": option ignored
  else if enabled.any (fun s => s.policy == p && s.mode == m) then enabled   -- already there
  else enabled ++ [⟨p, m⟩]

/-- the options of `server.New(...)` in order -/
def enabledOf (calls : List (String × Nat)) : List Sec :=
  calls.foldl (fun acc c => enableSecurity acc c.1 c.2) []

/-! ### advertised endpoints: `initEndpoints`, `GetEndpoints` -/

structure SrvCfg where
  enabled : List Sec
  urls : List String
  deriving Repr

structure Endpoint where
  url : String
  sec : Sec
  deriving DecidableEq, Repr

/-- `for _, sec := range enabledSec { for _, url := range endpoints { append } }` -/
def initEndpoints (cfg : SrvCfg) : List Endpoint :=
  cfg.enabled.flatMap fun sec => cfg.urls.map fun url => ⟨url, sec⟩

/-- `DiscoveryService.GetEndpoints`: the endpoints whose URL equals the request's
    URL ignoring case (`strings.ToLower` on both) -/
def getEndpoints (cfg : SrvCfg) (reqUrl : String) : List Endpoint :=
  (initEndpoints cfg).filter fun ep => ep.url.toLower == reqUrl.toLower

/-! ### the first OpenSecureChannel request on a connection -/

/-- what the code can find out about a DER blob in `SenderCertificate` /
    `cfg.RemoteCertificate` -/
inductive Cert where
  | absent        -- null / empty byte string
  | unparsable    -- `uapolicy.ParseCertificate` fails
  | nonRsa        -- parses, public key is not RSA
  | rsaBadSize    -- RSA, but the policy's constructor refuses the key length
  | good          -- RSA key the policy accepts
  deriving DecidableEq, Repr

/-- how the bytes after the asymmetric security header are protected -/
inductive Body where
  | plain         -- sequence header + request in the clear
  | secured       -- signed with the sender certificate's key and encrypted to the
                  -- server certificate's key with the header's policy
  | garbage       -- anything else
  deriving DecidableEq, Repr

/-- the incoming OPN chunk reduced to what the server code inspects -/
structure Opn where
  policy : String            -- AsymmetricSecurityHeader.SecurityPolicyURI (short name or anything)
  cert : Cert                -- AsymmetricSecurityHeader.SenderCertificate
  body : Body
  protoVer : Nat := 0        -- ClientProtocolVersion
  authTok : Nat := 0         -- RequestHeader.AuthenticationToken.IntID()
  mode : Nat                 -- SecurityMode field of the request
  deriving DecidableEq, Repr

/-- the fields of the per-connection `uasc.Config` this path reads and writes -/
structure ChanCfg where
  policy : String
  mode : Nat
  remoteCert : Cert
  deriving DecidableEq, Repr

/-- `defaultChannelConfig()`: every connection starts here, whatever the server enabled -/
def freshChan : ChanCfg := ⟨policyNone, modeNone, .absent⟩

inductive Outcome where
  | accept (s : Sec)    -- channel instance activated with this policy / mode
  | reject              -- Receive returned an error: RegisterConn drops the channel
  deriving DecidableEq, Repr

/-- `remoteCert, err := ParseCertificate(cfg.RemoteCertificate); remoteKey, ok := ….(*rsa.PublicKey)` -/
def certUsable : Cert → Bool
  | .absent | .unparsable | .nonRsa => false
  | .rsaBadSize | .good => true

/-- `readChunk`, case "OPN", on the channel configuration `c` -/
def readChunkOpn (_srv : SrvCfg) (c : ChanCfg) (o : Opn) : Option ChanCfg :=
  -- s.cfg.SecurityPolicyURI = m.SecurityPolicyURI
  let c := { c with policy := o.policy }
  if o.policy != policyNone then
    -- s.cfg.RemoteCertificate = m.AsymmetricSecurityHeader.SenderCertificate
    let c := { c with remoteCert := o.cert }
    if !certUsable c.remoteCert then none                 -- parse error / not RSA
    else if !supported c.policy then none                 -- uapolicy.Asymmetric: unsupported policy
    else if c.remoteCert == .rsaBadSize then none         -- uapolicy.Asymmetric: key size
    -- verifyAndDecrypt (asymmetric, policy ≠ None): decrypt with the server key, verify with the sender key
    -- (the server is configured with a private key; a server without one is a C29 case)
    else if o.body != .secured then none
    else some c
  else
    -- verifyAndDecrypt: raw iff the channel's mode still reads None; otherwise the
    -- instance's (absent) algorithm is applied — not reachable from a fresh channel
    if c.mode == modeNone then (if o.body == .plain then some c else none) else none

/-- `handleOpenSecureChannelRequest` -/
def handleOpen (c : ChanCfg) (o : Opn) : Option ChanCfg :=
  if o.protoVer != 0 then none                            -- BadProtocolVersionUnsupported
  else if o.authTok != 0 then none                        -- BadSecureChannelTokenUnknown
  else
    -- s.cfg.SecurityMode = req.SecurityMode
    let c := { c with mode := o.mode }
    if c.mode != modeNone && !certUsable c.remoteCert then none   -- ParseCertificate(cfg.RemoteCertificate)
    else if !supported c.policy then none                 -- uapolicy.Asymmetric / Symmetric
    else some c                                           -- response sent, instance active

/-- the server's reaction to the first OPN of a connection.  `srv.enabled` is a
    parameter and is **not used**: that is the code (`Gen.SrvSec.enabledSecReaders`). -/
def serverOpn (srv : SrvCfg) (o : Opn) : Outcome :=
  match readChunkOpn srv freshChan o with
  | none => .reject
  | some c =>
    match handleOpen c o with
    | none => .reject
    | some c => .accept ⟨c.policy, c.mode⟩

/-! ### second and later OpenSecureChannel requests on the same connection (renewal)

  The server keeps one `uasc.Config` and one channel instance per connection; a later OPN goes
  through the same two functions, starting from the configuration the previous one left behind. -/

/-- one OPN on a connection whose configuration is `c`; `none` = the channel is dropped -/
def opnFrom (srv : SrvCfg) (c : ChanCfg) (o : Opn) : Option ChanCfg :=
  match readChunkOpn srv c o with
  | none => none
  | some c' => handleOpen c' o

/-- a sequence of OPNs on one connection; after a refusal the connection is gone -/
def opnSeq (srv : SrvCfg) : Option ChanCfg → List Opn → List Outcome
  | _, [] => []
  | none, _ :: rest => .reject :: opnSeq srv none rest
  | some c, o :: rest =>
    match opnFrom srv c o with
    | none => .reject :: opnSeq srv none rest
    | some c' => .accept ⟨c'.policy, c'.mode⟩ :: opnSeq srv (some c') rest

/-- signature of a renewal that leaves the channel with a pair that is not enabled -/
def classifyRenew (srv : SrvCfg) (s : Sec) : String :=
  if srv.enabled.contains s then "enabled" else "C30.renew-switches-security"

/-! ### the explicit acceptance condition and the classes of wrongly accepted requests -/

/-- closed form of `serverOpn … = accept` (proved equivalent in Props/C30) -/
def acceptable (_srv : SrvCfg) (o : Opn) : Bool :=
  o.protoVer == 0 && o.authTok == 0 && supported o.policy &&
  (if o.policy == policyNone then o.body == .plain && o.mode == modeNone
   else o.cert == .good && o.body == .secured)

/-- a pair a conforming client can ask for -/
def validPair (s : Sec) : Bool :=
  supported s.policy &&
  (if s.policy == policyNone then s.mode == modeNone else s.mode == modeSign || s.mode == modeSignAndEncrypt)

/-- finding signature of an accepted request whose pair is not enabled (decidable on the case) -/
def classify (srv : SrvCfg) (s : Sec) : String :=
  if srv.enabled.contains s then "enabled"
  else if s.policy == policyNone && s.mode == modeNone then "C30.accept-none-not-enabled"
  else if s.policy == policyNone then "C30.accept-none-policy-with-mode"   -- no such channel is opened (C30_guarantees)
  else if s.mode == modeNone then "C30.accept-secure-policy-mode-none"
  else if s.mode != modeSign && s.mode != modeSignAndEncrypt then "C30.accept-invalid-mode"
  else if srv.enabled.any (fun e => e.policy == s.policy) then "C30.accept-mode-not-enabled"
  else "C30.accept-policy-not-enabled"

end Opcua.SrvSec
