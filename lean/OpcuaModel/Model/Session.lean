import OpcuaModel.Base.Algo
/-
  C22 — model of `Client.Connect` → `Dial` / `CreateSession` / `ActivateSession`
  / `UpdateNamespaces` / `Close` (client.go) and of
  `SecureChannel.VerifySessionSignature` (uasc/secure_channel_crypto.go) as a
  function of the server's behaviour.

  Every Go statement that decides the outcome is one match arm; the comments
  quote the source.  The booleans of `CodeFacts` are read from the source by
  the generator topic `sessionfacts` (`Gen/SessionFacts.lean`), so the model
  follows the code when the defect is repaired.
-/
namespace Opcua.Session

/-- what the CreateSessionResponse carries as `ServerCertificate` -/
inductive Cert where
  | own          -- the certificate the channel was opened with (RSA, size accepted by the policy)
  | otherRsa     -- a different RSA certificate of accepted size
  | wrongSize    -- an RSA certificate whose key size the policy refuses (`uapolicy.Asymmetric` errors)
  | unparsable   -- bytes that are not a DER certificate
  | empty        -- no bytes
  | nonRsa       -- a well-formed certificate with an ECDSA key
  | chainOwnOther  -- a DER chain: the channel's certificate followed by a foreign (non-CA) RSA certificate
  | chainOtherOwn  -- a DER chain: a foreign (non-CA) RSA certificate followed by the channel's certificate
  deriving Repr, DecidableEq

/-- the private key the server signed with -/
inductive SigKey where
  | own | other
  deriving Repr, DecidableEq

/-- the data the server signed -/
inductive SigData where
  | right        -- client certificate ‖ client nonce
  | wrongNonce   -- client certificate ‖ some other nonce
  | wrongCert    -- server certificate ‖ client nonce
  deriving Repr, DecidableEq

/-- what happened to the signature bytes afterwards -/
inductive Mangle where
  | intact | bitFlipped | truncated | empty
  deriving Repr, DecidableEq

/-- shape of an answer as `sendRequestWithTimeout` + the handler see it -/
inductive Resp where
  | ok           -- expected response type, ServiceResult Good
  | badStatus    -- expected response type, ServiceResult Bad…: handler runs, its result is dropped, the status is returned
  | fault        -- ServiceFault with a Bad status
  | wrongType    -- another response type with ServiceResult Good: `safeAssign` fails
  deriving Repr, DecidableEq

structure Server where
  create   : Resp
  cert     : Cert
  sigKey   : SigKey
  sigData  : SigData
  mangle   : Mangle
  activate : Resp
  nsRead   : Resp      -- the Read of Server_NamespaceArray issued by `UpdateNamespaces`
  nsIsStrings : Bool   -- the value read is a `[]string`
  deriving Repr, DecidableEq

/-- facts about the source the model depends on (generated) -/
structure CodeFacts where
  /-- `CreateSession`: the branch `if err != nil` after `VerifySessionSignature` returns the error -/
  verifyErrReturned : Bool
  /-- `VerifySessionSignature`: the public key type assertion is the comma-ok form -/
  rsaAssertChecked : Bool
  /-- `ActivateSession` or `Connect` returns an error for a nil session before using it -/
  nilSessionChecked : Bool
  deriving Repr, DecidableEq

inductive ConnState where
  | closed | connected | connecting | disconnected | reconnecting
  deriving Repr, DecidableEq

inductive Outcome where
  | ok | err | panic
  deriving Repr, DecidableEq

/-- the public key the certificate of the response carries, if it is an
    acceptable RSA certificate -/
def certKey : Cert → Option SigKey
  | .own => some .own
  | .otherRsa => some .other
  -- `uapolicy.ParseCertificate` returns the FIRST certificate of a chain (`certs[0]`): the
  -- certificate that identifies the sender; whatever follows it proves nothing
  | .chainOwnOther => some .own
  | .chainOtherOwn => some .other
  | _ => none

/-- the cryptographic fact: the signature verifies with the certificate of the
    response iff it was made with that certificate's private key over
    (client certificate ‖ client nonce) and reached the client unmodified.
    (Soundness of RSA-PKCS1v15 / PSS is the usual hypothesis; the C22 run
    evaluates the real primitive on every sampled point.) -/
def sigVerifies (s : Server) : Bool :=
  certKey s.cert == some s.sigKey && s.sigData == .right && s.mangle == .intact

/-- the property's notion "the server proved its identity": the signature
    verifies with the server certificate -/
def sigValid (s : Server) : Prop := sigVerifies s = true

instance (s : Server) : Decidable (sigValid s) := by unfold sigValid; infer_instance

inductive VerifyResult where
  | ok | err | panic
  deriving Repr, DecidableEq

/-- `SecureChannel.VerifySessionSignature(cert, nonce, signature)` -/
def verifySessionSignature (f : CodeFacts) (m : Mode) (s : Server) : VerifyResult :=
  -- if s.cfg.SecurityMode == ua.MessageSecurityModeNone { return nil }
  if m = .none then .ok else
  match s.cert with
  -- remoteX509Cert, err := uapolicy.ParseCertificate(cert); if err != nil { return err }
  | .unparsable | .empty => .err
  -- remoteKey := remoteX509Cert.PublicKey.(*rsa.PublicKey)
  | .nonRsa => if f.rsaAssertChecked then .err else .panic
  -- enc, err := uapolicy.Asymmetric(...); if err != nil { return err }
  | .wrongSize => .err
  -- err = enc.VerifySignature(append(s.cfg.Certificate, nonce...), signature)
  | .own | .otherRsa | .chainOwnOther | .chainOtherOwn => if sigVerifies s then .ok else .err

/-- result of `CreateSession`: the session pointer (nil or not) and the error -/
inductive Created where
  | session      -- (s, nil)
  | nilNoErr     -- (nil, nil)
  | error        -- (_, err)
  | panic
  deriving Repr, DecidableEq

/-- `Client.CreateSession` after a successful `Dial`; `v` is what
    `VerifySessionSignature` answers when the handler reaches it -/
def createSession (f : CodeFacts) (create : Resp) (v : VerifyResult) : Created :=
  match create with
  -- msg.Err != nil, msg.Response() is a *ServiceFault: h runs, safeAssign fails, result dropped; `return msg.Err`
  | .fault => .error
  -- h(msg.Response()): safeAssign(v, &res) fails → return err
  | .wrongType => .error
  -- msg.Err != nil but the response has the expected type: `_ = h(msg.Response())` runs the whole handler
  | .badStatus =>
    match v with
    | .panic => .panic
    | _ => .error
  | .ok =>
    match v with
    | .panic => .panic
    -- log.Printf("error verifying session signature: %s", err); return nil     ← s stays nil
    | .err => if f.verifyErrReturned then .error else .nilNoErr
    | .ok => .session

/-- result of `ActivateSession(ctx, s)` -/
inductive Activated where
  | ok | error | panic
  deriving Repr, DecidableEq

/-- `Client.ActivateSession`; `sessionNil` = the argument is a nil `*Session`.
    Second component: an ActivateSessionRequest was sent. -/
def activateSession (f : CodeFacts) (sessionNil : Bool) (activate : Resp) : Activated × Bool :=
  -- sig, sigAlg, err := sc.NewSessionSignature(s.serverCertificate, s.serverNonce)   ← nil dereference
  if sessionNil then (if f.nilSessionChecked then (.error, false) else (.panic, false)) else
  -- (the certificate was accepted by VerifySessionSignature, NewSessionSignature takes the same steps)
  match activate with
  | .ok => (.ok, true)
  | _ => (.error, true)

/-- `Client.UpdateNamespaces` → `NamespaceArray` → `Node.Value` → `Read` -/
def updateNamespaces (s : Server) : Bool :=
  match s.nsRead with
  | .ok => s.nsIsStrings   -- v.Value().([]string) is comma-ok: an error otherwise
  | _ => false

structure Result where
  outcome : Outcome
  /-- states handed to the `StateChangedFunc` callback, in order -/
  states : List ConnState
  /-- an ActivateSessionRequest reached the server -/
  activateSent : Bool
  deriving Repr, DecidableEq

def Result.final (r : Result) : ConnState := r.states.getLastD .closed

/-- `Client.Connect` when `Dial` succeeds, as a function of what the four
    exchanges answer -/
def connectCore (f : CodeFacts) (create : Resp) (v : VerifyResult) (activate : Resp) (ns : Bool) : Result :=
  -- c.setState(ctx, Connecting); c.Dial(ctx)
  match createSession f create v with
  | .panic => ⟨.panic, [.connecting], false⟩
  -- c.Close(ctx): setState(Closed); return err
  | .error => ⟨.err, [.connecting, .closed], false⟩
  | c =>
    match activateSession f (c == .nilNoErr) activate with
    | (.panic, sent) => ⟨.panic, [.connecting], sent⟩
    | (.error, sent) => ⟨.err, [.connecting, .closed], sent⟩
    | (.ok, sent) =>
      -- c.setState(ctx, Connected); go c.monitor(mctx); c.UpdateNamespaces(ctx)
      if ns then ⟨.ok, [.connecting, .connected], sent⟩
      -- c.Close(ctx) (the monitor goroutine then reports Closed once more)
      else ⟨.err, [.connecting, .connected, .closed], sent⟩

/-- `Client.Connect` against server behaviour `s` in mode `m` -/
def connect (f : CodeFacts) (m : Mode) (s : Server) : Result :=
  connectCore f s.create (verifySessionSignature f m s) s.activate (updateNamespaces s)

/-- the code as it is in the unchanged tree -/
def asIs : CodeFacts := ⟨false, false, false⟩

/-- the nil-session defect is repaired one way or the other -/
def CodeFacts.nilRepaired (f : CodeFacts) : Bool := f.verifyErrReturned || f.nilSessionChecked

/-! ### lemmas about the verification step (used by Props/C22) -/

theorem verify_none (f : CodeFacts) (s : Server) : verifySessionSignature f .none s = .ok := by
  simp [verifySessionSignature]

theorem verify_ne_ok (f : CodeFacts) (m : Mode) (s : Server) (hm : m ≠ .none) (h : ¬ sigValid s) :
    verifySessionSignature f m s ≠ .ok := by
  have h' : sigVerifies s = false := by simpa [sigValid] using h
  unfold verifySessionSignature
  simp only [hm, if_false]
  cases hc : s.cert <;> simp [h'] <;> split <;> simp

theorem verify_ok (f : CodeFacts) (m : Mode) (s : Server) (h : sigValid s) :
    verifySessionSignature f m s = .ok := by
  have h' : sigVerifies s = true := h
  unfold verifySessionSignature
  by_cases hm : m = .none
  · simp [hm]
  · simp only [hm, if_false]
    cases hc : s.cert <;> simp [h'] <;> simp [sigVerifies, certKey, hc] at h'

theorem verify_panic_iff (f : CodeFacts) (m : Mode) (s : Server) :
    verifySessionSignature f m s = .panic ↔ (m ≠ .none ∧ s.cert = .nonRsa ∧ f.rsaAssertChecked = false) := by
  unfold verifySessionSignature
  by_cases hm : m = .none
  · simp [hm]
  · simp only [hm, if_false]
    cases hc : s.cert <;> simp <;> (try split) <;> simp_all

end Opcua.Session
