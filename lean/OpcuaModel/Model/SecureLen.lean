import OpcuaModel.Base.Algo
/-
  Length-level model of `channelInstance.signAndEncrypt`
  (uasc/secure_channel_instance.go) for a symmetric MSG/CLO chunk.

  `rawLen` is the length of the unsecured chunk handed to signAndEncrypt:
  12 (header) + 4 (symmetric security header) + 8 (sequence header) + body.
  The function mirrors the Go code statement by statement; Go's `/` and `%`
  on `int` truncate toward zero (`Int.tdiv`, `Int.tmod`).
-/
namespace Opcua

structure SecLen where
  /-- bytes between the security header and the end, before encryption
      (sequence header + body + padding + signature) -/
  plainLen : Int
  /-- value written into the MessageSize field -/
  sizeField : Int
  /-- length of the slice signAndEncrypt returns (the cipher keeps lengths:
      AES-CBC maps a whole number of blocks to the same number of bytes and
      refuses anything else, see `encryptOk`) -/
  chunkLen : Int
  /-- `AES.Encrypt` accepts the plaintext (whole blocks) -/
  encryptOk : Bool
  deriving Repr, DecidableEq

def symHeaderLength : Int := 12 + 4

def secureLen (a : AlgoParams) (mode : Mode) (rawLen : Int) : SecLen :=
  match mode with
  | .none => { plainLen := rawLen - symHeaderLength, sizeField := rawLen, chunkLen := rawLen, encryptOk := true }
  | .sign =>
      let encryptedLength := (rawLen - symHeaderLength) + a.signatureLength
      { plainLen := encryptedLength, sizeField := symHeaderLength + encryptedLength,
        chunkLen := rawLen + a.signatureLength, encryptOk := true }
  | .signAndEncrypt =>
      let plaintextBlockSize := a.plaintextBlockSize
      let extraPadding := decide (a.remoteSignatureLength > 256)
      let paddingBytes : Int := if extraPadding then 2 else 1
      let remainder := Int.tmod ((rawLen - symHeaderLength) + a.signatureLength + paddingBytes) plaintextBlockSize
      let paddingLength : Int := if remainder ≠ 0 then plaintextBlockSize - remainder else 0
      -- `for i := 0; i <= paddingLength; i++ { b = append(b, …) }`
      let len1 := rawLen + (paddingLength + 1)
      let len2 := if extraPadding then len1 + 1 else len1
      let encryptedLength := Int.tdiv ((len2 - symHeaderLength) + a.signatureLength) plaintextBlockSize * a.blockSize
      let plain := (len2 - symHeaderLength) + a.signatureLength
      { plainLen := plain, sizeField := symHeaderLength + encryptedLength,
        chunkLen := symHeaderLength + plain,
        encryptOk := decide (Int.tmod plain a.blockSize = 0) }

/-- unsecured chunk length for a body of `n` bytes -/
def rawLenOfBody (n : Int) : Int := 24 + n

end Opcua
