import OpcuaModel.Model.SrvHandlers
/-
  Text form of the server model's states, requests and outcomes for the line
  protocol of the C35 / C29 drivers (not part of any theorem).

    state : S=<tok>:<act>:<queued>:<rsa>,…|-  U=<id>:<owner|->,…|-  I=<id>:<sub>,…|-  N=<nextItem>  L=<lastSub>  V=<value>  E=<0|1>  A=<attrv>  D=<attrv>
    req   : findservers | getendpoints | createsession <k> <sec> <rsa|nonrsa|unparsable> | activate <sec> <sigok>
            | close | read | write <v> | writeattr <Access|DataType> <attrv> | browse <plain|loop> <0|1>
            | createsub <subms|small|huge> | publish | delsubs <ids|-> | createitems <sub> <n>
            | setmode <ids|-> | delitems <ids|-> | other <RequestName>
    out   : ok <detail|-> | sessionerr | fault <code> | noresponse | crash <site>
-/
namespace Opcua.Srv

def splitList (s : String) : List String := if s = "-" || s = "" then [] else s.splitOn ","

def parseNats (s : String) : Option (List Nat) := (splitList s).mapM (·.toNat?)

def parseBool (s : String) : Option Bool :=
  match s with
  | "0" => some false | "1" => some true | _ => none

def parseAttrV : String → Option AttrV
  | "absent" => some .absent | "good" => some .good | "wrongtype" => some .wrongType | "novalue" => some .noValue
  | _ => none

def showAttrV : AttrV → String
  | .absent => "absent" | .good => "good" | .wrongType => "wrongtype" | .noValue => "novalue"

def parseSession (s : String) : Option Session :=
  match s.splitOn ":" with
  | [t, a, q, r] => do pure ⟨← t.toNat?, ← parseBool a, ← q.toNat?, ← parseBool r⟩
  | _ => none

def parseSub (s : String) : Option Sub :=
  match s.splitOn ":" with
  | [i, o] => do
    let id ← i.toNat?
    if o = "-" then pure ⟨id, none⟩ else pure ⟨id, some (← o.toNat?)⟩
  | _ => none

def parseItem (s : String) : Option Item :=
  match s.splitOn ":" with
  | [i, u] => do pure ⟨← i.toNat?, ← u.toNat?⟩
  | _ => none

def field (tag : String) (toks : List String) : Option String :=
  (toks.find? (fun t => (tag ++ "=").isPrefixOf t)).map fun t => (t.drop (tag.length + 1)).toString

def parseState (toks : List String) : Option St := do
  let ss ← (splitList (← field "S" toks)).mapM parseSession
  let us ← (splitList (← field "U" toks)).mapM parseSub
  let is ← (splitList (← field "I" toks)).mapM parseItem
  let n ← (← field "N" toks).toNat?
  let l ← (← field "L" toks).toNat?
  let v ← (← field "V" toks).toInt?
  let e ← parseBool (← field "E" toks)
  let a ← parseAttrV (← field "A" toks)
  let d ← parseAttrV (← field "D" toks)
  pure { sessions := ss, subs := us, items := is, nextItem := n, lastSub := l, value := v, endpointsEmpty := e, accessAttr := a, dataTypeAttr := d }

def b01 (b : Bool) : String := if b then "1" else "0"

def orDash (l : List String) : String := if l.isEmpty then "-" else ",".intercalate l

/-- insertion sort by a key (the tables are maps in the code: order carries no meaning) -/
def insertBy {α} (key : α → Nat) (x : α) : List α → List α
  | [] => [x]
  | y :: r => if key x ≤ key y then x :: y :: r else y :: insertBy key x r

def sortBy {α} (key : α → Nat) (l : List α) : List α := l.foldr (insertBy key) []

def showState (st : St) : String :=
  let ss := (sortBy (·.token) st.sessions).map fun s => s!"{s.token}:{b01 s.activated}:{s.queued}:{b01 s.certRsa}"
  let us := (sortBy (·.id) st.subs).map fun u => s!"{u.id}:{match u.owner with | some o => toString o | none => "-"}"
  let is := (sortBy (·.id) st.items).map fun i => s!"{i.id}:{i.sub}"
  s!"S={orDash ss} U={orDash us} I={orDash is} N={st.nextItem} L={st.lastSub} V={st.value} E={b01 st.endpointsEmpty} A={showAttrV st.accessAttr} D={showAttrV st.dataTypeAttr}"

def parseReq : List String → Option Req
  | ["findservers"] => some .findServers
  | ["getendpoints"] => some .getEndpoints
  | ["createsession", k, sec, c] => do
    let cert ← match c with
      | "rsa" => some CertCls.rsa | "nonrsa" => some .nonRsa | "unparsable" => some .unparsable | _ => none
    pure (.createSession (← k.toNat?) (← parseBool sec) cert)
  | ["activate", sec, ok] => do pure (.activateSession (← parseBool sec) (← parseBool ok))
  | ["close"] => some .closeSession
  | ["read"] => some .read
  | ["write", v] => do pure (.write (← v.toInt?))
  | ["writeattr", w, a] => do pure (.writeAttr w (← parseAttrV a))
  | ["browse", c, r] => do
    let cls ← match c with
      | "plain" => some BrowseCls.plain | "loop" => some .loopPanics | _ => none
    pure (.browse cls (← parseBool r))
  | ["createsub", iv] =>
    match iv with
    | "subms" => some (.createSubscription .subMs) | "small" => some (.createSubscription .small)
    | "huge" => some (.createSubscription .huge) | _ => none
  | ["publish"] => some .publish
  | ["delsubs", ids] => do pure (.deleteSubscriptions (← parseNats ids))
  | ["createitems", s, n] => do pure (.createMonitoredItems (← s.toNat?) (← n.toNat?))
  | ["setmode", ids] => do pure (.setMonitoringMode (← parseNats ids))
  | ["delitems", ids] => do pure (.deleteMonitoredItems (← parseNats ids))
  | ["other", name] => some (.other name)
  | _ => none

def showOut : Out → String
  | .ok d => "ok " ++ (if d = "" then "-" else d)
  | .sessionErr => "sessionerr"
  | .fault c => "fault " ++ c
  | .noResponse => "noresponse"
  | .crash s => "crash " ++ s

/-- split a token list at the first "|" -/
def splitBar (l : List String) : List String × List String :=
  (l.takeWhile (· ≠ "|"), (l.dropWhile (· ≠ "|")).drop 1)

/-- `step <state> | <tok> | <req…>` → `<out> | <state'>` -/
def handleStep (toks : List String) : String :=
  let (st, rest) := splitBar toks
  let (tk, rq) := splitBar rest
  match parseState st, tk, parseReq rq with
  | some s, [t], some r =>
    match t.toNat? with
    | some tok =>
      let (s', o) := step s tok r
      showOut o ++ " | " ++ showState s'
    | none => "bad-op"
  | _, _, _ => "bad-op"

/-- `class35 <state> | <tok> | <req…>` → finding signature of the case -/
def handleClass35 (toks : List String) : String :=
  let (st, rest) := splitBar toks
  let (tk, rq) := splitBar rest
  match parseState st, tk, parseReq rq with
  | some s, [t], some r =>
    match t.toNat? with
    | some tok => classify35 s tok r
    | none => "bad-op"
  | _, _, _ => "bad-op"

end Opcua.Srv
