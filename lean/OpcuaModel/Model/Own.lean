/-
  Ownership model of the receive path (C20): byte buffers have identities,
  and the model records which buffer every step writes and which buffers a
  delivered message references.

  One chunk frame travels
    uacp.Conn.Receive     b := make([]byte, ReceiveBufSize); io.ReadFull(c, b[…])     (writes b)
    verifyAndDecrypt      None mode: returns m.Data (a slice of b);
                          otherwise b' := make(…); copy(b', r); decrypt into fresh memory   (writes b')
    Receive               intermediate chunk: the chunk (its Data slice) is kept in s.chunks
                          final chunk: mergeChunks — one chunk: chunks[0].Data itself,
                          several: var m []byte; m = append(m, c.Data...)                  (writes m)
    ua.DecodeService      byte strings of the decoded message are sub-slices of the input
                          (Buffer.ReadN, reflect.Value.SetBytes): the message REFERENCES the body buffer

  Whether a step allocates or re-uses is governed by `Facts`, which the
  generator extracts from the source (`Gen.RecvAlias.facts`): when a fact is
  false the model re-uses the buffer of the previous frame, which is what a
  pooled or field-held buffer would do.
-/
namespace Opcua.Own

structure Facts where
  /-- `Conn.Receive` makes its buffer in the call and lets it escape only through its result -/
  recvMakesPerCall : Bool
  /-- `Conn`, `SecureChannel`, `channelInstance` have no `[]byte` / `bytes.Buffer` field that could hold a buffer across calls -/
  noBufferFields : Bool
  /-- no `sync.Pool` in uacp, uasc, ua -/
  noPool : Bool
  /-- `verifyAndDecrypt` copies the chunk into a buffer made in the call before decrypting and never writes its input -/
  decryptCopies : Bool
  /-- `mergeChunks` appends to a slice declared in the call -/
  mergeAppendsFresh : Bool
  deriving Repr, DecidableEq

def Facts.ok (f : Facts) : Bool :=
  f.recvMakesPerCall && f.noBufferFields && f.noPool && f.decryptCopies && f.mergeAppendsFresh

inductive Ev where
  | write (buf : Nat)
  /-- a message referencing `buf` is handed to the application -/
  | deliver (buf : Nat)
  deriving Repr, DecidableEq

/-- one chunk frame: secured or not, final or intermediate, request id -/
structure Op where
  secure : Bool
  final : Bool
  req : Nat
  deriving Repr, DecidableEq

structure St where
  /-- next fresh buffer identity -/
  next : Nat := 0
  /-- the frame buffer / decrypt buffer / merge buffer a re-using implementation would take again -/
  lastFrame : Option Nat := none
  lastPlain : Option Nat := none
  lastMerge : Option Nat := none
  /-- `s.chunks`: buffers referenced by buffered intermediate chunks -/
  chunks : List (Nat × List Nat) := []
  /-- events, newest first -/
  trace : List Ev := []
  deriving Repr, DecidableEq

def getChunks (c : List (Nat × List Nat)) (r : Nat) : List Nat :=
  match c.find? (fun e => e.1 == r) with
  | some e => e.2
  | none => []

def delChunks (c : List (Nat × List Nat)) (r : Nat) : List (Nat × List Nat) := c.filter (fun e => !(e.1 == r))

/-- take a fresh buffer when `fresh`, otherwise the remembered one (if any) -/
def pick (fresh : Bool) (last : Option Nat) (next : Nat) : Nat × Nat :=
  if fresh then (next, next + 1) else
  match last with
  | some b => (b, next)
  | none => (next, next + 1)

/-- allocate (or re-use) a buffer and write it: (buffer, next, trace) -/
def aw (fresh : Bool) (last : Option Nat) (n : Nat) (t : List Ev) : Nat × Nat × List Ev :=
  ((pick fresh last n).1, (pick fresh last n).2, .write (pick fresh last n).1 :: t)

/-- `verifyAndDecrypt`: a secured chunk is copied and decrypted into another
    buffer, an unsecured one stays where it is -/
def plain (fresh : Bool) (sec : Bool) (last : Option Nat) (r1 : Nat × Nat × List Ev) : Nat × Nat × List Ev :=
  match sec with
  | true => aw fresh last r1.2.1 r1.2.2
  | false => r1

/-- the buffers and events of one chunk frame: (frame buffer, plaintext buffer,
    merge buffer if any, next, trace) -/
def core (f : Facts) (st : St) (op : Op) : Nat × Nat × Option Nat × Nat × List Ev :=
  -- Conn.Receive
  let r1 := aw (f.recvMakesPerCall && f.noBufferFields && f.noPool) st.lastFrame st.next st.trace
  -- verifyAndDecrypt
  let r2 := plain (f.decryptCopies && f.noBufferFields && f.noPool) op.secure st.lastPlain r1
  match op.final with
  | false => (r1.1, r2.1, none, r2.2.1, r2.2.2)
  | true =>
    if (getChunks st.chunks op.req ++ [r2.1]).length = 1 then
      (r1.1, r2.1, none, r2.2.1, Ev.deliver r2.1 :: r2.2.2)
    else
      let r3 := aw (f.mergeAppendsFresh && f.noBufferFields && f.noPool) st.lastMerge r2.2.1 r2.2.2
      (r1.1, r2.1, some r3.1, r3.2.1, Ev.deliver r3.1 :: r3.2.2)

def step (f : Facts) (st : St) (op : Op) : St :=
  let c := core f st op
  { next := c.2.2.2.1, trace := c.2.2.2.2,
    lastFrame := some c.1,
    lastPlain := if op.secure then some c.2.1 else st.lastPlain,
    lastMerge := match c.2.2.1 with | some m => some m | none => st.lastMerge,
    chunks := if op.final then delChunks st.chunks op.req
              else (op.req, getChunks st.chunks op.req ++ [c.2.1]) :: delChunks st.chunks op.req }

def run (f : Facts) : St → List Op → St
  | st, [] => st
  | st, op :: r => run f (step f st op) r

/-- no buffer is written after a message referencing it was delivered
    (trace newest first: a write must not hit a buffer delivered earlier) -/
def Frozen : List Ev → Prop
  | [] => True
  | .write b :: older => (Ev.deliver b ∉ older) ∧ Frozen older
  | .deliver _ :: older => Frozen older

instance : (t : List Ev) → Decidable (Frozen t)
  | [] => isTrue trivial
  | .write b :: older => by
      unfold Frozen
      have := instDecidableFrozen older
      infer_instance
  | .deliver _ :: older => by
      unfold Frozen
      exact instDecidableFrozen older

/-- buffers delivered so far -/
def delivered (t : List Ev) : List Nat :=
  t.filterMap fun | .deliver b => some b | _ => none

/-- every delivered buffer is older than `n`, and nothing delivered was written afterwards -/
def Good (n : Nat) (t : List Ev) : Prop :=
  (∀ b, Ev.deliver b ∈ t → b < n) ∧ Frozen t

def Inv (st : St) : Prop := Good st.next st.trace

theorem aw_good {n : Nat} {t : List Ev} (last : Option Nat) (h : Good n t) :
    Good (aw true last n t).2.1 (aw true last n t).2.2 ∧ (aw true last n t).1 < (aw true last n t).2.1 := by
  obtain ⟨h1, h2⟩ := h
  simp only [aw, pick, if_true]
  refine ⟨⟨?_, ?_, h2⟩, Nat.lt_succ_self _⟩
  · intro b hb
    rcases List.mem_cons.mp hb with hb | hb
    · cases hb
    · exact Nat.lt_succ_of_lt (h1 b hb)
  · intro hm
    have := h1 n hm
    omega

theorem deliver_good {n : Nat} {t : List Ev} {b : Nat} (h : Good n t) (hb : b < n) :
    Good n (Ev.deliver b :: t) := by
  obtain ⟨h1, h2⟩ := h
  refine ⟨?_, h2⟩
  intro x hx
  rcases List.mem_cons.mp hx with hx | hx
  · cases hx; exact hb
  · exact h1 x hx

theorem good_mono {n m : Nat} {t : List Ev} (h : Good n t) (hm : n ≤ m) : Good m t :=
  ⟨fun b hb => Nat.lt_of_lt_of_le (h.1 b hb) hm, h.2⟩

theorem aw_next_ge (fresh : Bool) (last : Option Nat) (n : Nat) (t : List Ev) : n ≤ (aw fresh last n t).2.1 := by
  simp only [aw, pick]
  split
  · exact Nat.le_succ _
  · split
    · exact Nat.le_refl _
    · exact Nat.le_succ _

/-- with all facts true every step keeps the invariant -/
theorem step_inv (f : Facts) (hf : f.ok = true) (st : St) (op : Op) (h : Inv st) : Inv (step f st op) := by
  have h1 : (f.recvMakesPerCall && f.noBufferFields && f.noPool) = true := by
    simp [Facts.ok] at hf; simp [hf]
  have h2 : (f.decryptCopies && f.noBufferFields && f.noPool) = true := by
    simp [Facts.ok] at hf; simp [hf]
  have h3 : (f.mergeAppendsFresh && f.noBufferFields && f.noPool) = true := by
    simp [Facts.ok] at hf; simp [hf]
  obtain ⟨sec, fin, req⟩ := op
  show Good (core f st ⟨sec, fin, req⟩).2.2.2.1 (core f st ⟨sec, fin, req⟩).2.2.2.2
  unfold core
  simp only [h1, h2, h3]
  obtain ⟨g1, l1⟩ := aw_good st.lastFrame h
  generalize aw true st.lastFrame st.next st.trace = r1 at g1 l1
  -- the plaintext buffer
  have hr2 : Good (plain true sec st.lastPlain r1).2.1 (plain true sec st.lastPlain r1).2.2 ∧
      (plain true sec st.lastPlain r1).1 < (plain true sec st.lastPlain r1).2.1 := by
    cases sec
    · exact ⟨g1, l1⟩
    · exact aw_good st.lastPlain g1
  obtain ⟨g2, l2⟩ := hr2
  generalize plain true sec st.lastPlain r1 = r2 at g2 l2
  cases fin
  · exact g2
  · simp only
    split
    · exact deliver_good g2 l2
    · obtain ⟨g3, l3⟩ := aw_good st.lastMerge g2
      exact deliver_good g3 l3

theorem run_inv (f : Facts) (hf : f.ok = true) (st : St) (ops : List Op) (h : Inv st) : Inv (run f st ops) := by
  induction ops generalizing st with
  | nil => exact h
  | cons op r ih => exact ih _ (step_inv f hf st op h)

end Opcua.Own
