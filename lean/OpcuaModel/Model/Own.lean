/-
  Ownership model of the receive path (C20): byte buffers have identities,
  and the model records which buffer every step writes and which buffers a
  delivered message references.

  One chunk frame travels
    uacp.Conn.Receive     b := make([]byte, ReceiveBufSize); io.ReadFull(c, b[…])     (writes b)
    verifyAndDecrypt      None mode: returns m.Data (a slice of b);
                          otherwise b' := make(…); copy(b', r); decrypt into fresh memory   (writes b')
    Receive               intermediate chunk: the chunk (its Data slice) is kept in s.chunks
                          final chunk: mergeChunks — one chunk: chunks[0].Data itself,
                          several: var m []byte; m = append(m, c.Data...)                  (writes m)
    ua.DecodeService      byte strings of the decoded message are sub-slices of the input
                          (Buffer.ReadN, reflect.Value.SetBytes): the message REFERENCES the body buffer

  Whether a step allocates or re-uses is governed by `Facts`, which the
  generator extracts from the source (`Gen.RecvAlias.facts`): when a fact is
  false the model re-uses the buffer of the previous frame, which is what a
  pooled or field-held buffer would do.
-/
namespace Opcua.Own

structure Facts where
  /-- `Conn.Receive` makes its buffer in the call and lets it escape only through its result -/
  recvMakesPerCall : Bool
  /-- `Conn`, `SecureChannel`, `channelInstance` have no `[]byte` / `bytes.Buffer` field that could hold a buffer across calls -/
  noBufferFields : Bool
  /-- no `sync.Pool` in uacp, uasc, ua -/
  noPool : Bool
  /-- `verifyAndDecrypt` copies the chunk into a buffer made in the call before decrypting and never writes its input -/
  decryptCopies : Bool
  /-- `mergeChunks` appends to a slice declared in the call -/
  mergeAppendsFresh : Bool
  deriving Repr, DecidableEq

def Facts.ok (f : Facts) : Bool :=
  f.recvMakesPerCall && f.noBufferFields && f.noPool && f.decryptCopies && f.mergeAppendsFresh

inductive Ev where
  | write (buf : Nat)
  /-- a message referencing `buf` is handed to the application -/
  | deliver (buf : Nat)
  deriving Repr, DecidableEq

/-- one chunk frame: secured or not, final or intermediate, request id -/
structure Op where
  secure : Bool
  final : Bool
  req : Nat
  deriving Repr, DecidableEq

structure St where
  /-- next fresh buffer identity -/
  next : Nat := 0
  /-- the frame buffer / decrypt buffer / merge buffer a re-using implementation would take again -/
  lastFrame : Option Nat := none
  lastPlain : Option Nat := none
  lastMerge : Option Nat := none
  /-- `s.chunks`: buffers referenced by buffered intermediate chunks -/
  chunks : List (Nat × List Nat) := []
  /-- events, newest first -/
  trace : List Ev := []
  deriving Repr, DecidableEq

def getChunks (c : List (Nat × List Nat)) (r : Nat) : List Nat :=
  match c.find? (fun e => e.1 == r) with
  | some e => e.2
  | none => []

def delChunks (c : List (Nat × List Nat)) (r : Nat) : List (Nat × List Nat) := c.filter (fun e => !(e.1 == r))

/-- take a fresh buffer when `fresh`, otherwise the remembered one (if any) -/
def pick (fresh : Bool) (last : Option Nat) (next : Nat) : Nat × Nat :=
  if fresh then (next, next + 1) else
  match last with
  | some b => (b, next)
  | none => (next, next + 1)

def step (f : Facts) (st : St) (op : Op) : St :=
  -- Conn.Receive
  let (fb, n1) := pick (f.recvMakesPerCall && f.noBufferFields && f.noPool) st.lastFrame st.next
  let tr1 := Ev.write fb :: st.trace
  -- verifyAndDecrypt
  let (pb, n2, tr2) :=
    if op.secure then
      let (pb, n2) := pick (f.decryptCopies && f.noBufferFields && f.noPool) st.lastPlain n1
      (pb, n2, Ev.write pb :: tr1)
    else (fb, n1, tr1)
  let lastPlain := if op.secure then some pb else st.lastPlain
  if op.final = false then
    { st with next := n2, lastFrame := some fb, lastPlain := lastPlain,
              chunks := (op.req, getChunks st.chunks op.req ++ [pb]) :: delChunks st.chunks op.req, trace := tr2 }
  else
    let all := getChunks st.chunks op.req ++ [pb]
    if all.length = 1 then
      { st with next := n2, lastFrame := some fb, lastPlain := lastPlain,
                chunks := delChunks st.chunks op.req, trace := Ev.deliver pb :: tr2 }
    else
      let (mb, n3) := pick (f.mergeAppendsFresh && f.noBufferFields && f.noPool) st.lastMerge n2
      { st with next := n3, lastFrame := some fb, lastPlain := lastPlain, lastMerge := some mb,
                chunks := delChunks st.chunks op.req, trace := Ev.deliver mb :: Ev.write mb :: tr2 }

def run (f : Facts) : St → List Op → St
  | st, [] => st
  | st, op :: r => run f (step f st op) r

/-- no buffer is written after a message referencing it was delivered
    (trace newest first: a write must not hit a buffer delivered earlier) -/
def Frozen : List Ev → Prop
  | [] => True
  | .write b :: older => (Ev.deliver b ∉ older) ∧ Frozen older
  | .deliver _ :: older => Frozen older

instance : (t : List Ev) → Decidable (Frozen t)
  | [] => isTrue trivial
  | .write b :: older => by
      unfold Frozen
      have := instDecidableFrozen older
      infer_instance
  | .deliver _ :: older => by
      unfold Frozen
      exact instDecidableFrozen older

/-- buffers delivered so far -/
def delivered (t : List Ev) : List Nat :=
  t.filterMap fun | .deliver b => some b | _ => none

/-- invariant: every buffer mentioned anywhere is older than `next` -/
def Inv (st : St) : Prop :=
  (∀ b, Ev.deliver b ∈ st.trace → b < st.next) ∧ Frozen st.trace

theorem frozen_write_fresh {t : List Ev} {n b : Nat} (hb : n ≤ b)
    (h : ∀ x, Ev.deliver x ∈ t → x < n) (hf : Frozen t) : Frozen (.write b :: t) := by
  refine ⟨?_, hf⟩
  intro hm
  have := h b hm
  omega

theorem pick_fresh (last : Option Nat) (n : Nat) : pick true last n = (n, n + 1) := rfl

/-- with all facts true every step keeps the invariant -/
theorem step_inv (f : Facts) (hf : f.ok = true) (st : St) (op : Op) (h : Inv st) : Inv (step f st op) := by
  obtain ⟨hlt, hfr⟩ := h
  have h1 : (f.recvMakesPerCall && f.noBufferFields && f.noPool) = true := by
    simp [Facts.ok] at hf; simp [hf]
  have h2 : (f.decryptCopies && f.noBufferFields && f.noPool) = true := by
    simp [Facts.ok] at hf; simp [hf]
  have h3 : (f.mergeAppendsFresh && f.noBufferFields && f.noPool) = true := by
    simp [Facts.ok] at hf; simp [hf]
  have hw1 : Frozen (.write st.next :: st.trace) := frozen_write_fresh (Nat.le_refl _) hlt hfr
  have hd1 : ∀ x, Ev.deliver x ∈ (Ev.write st.next :: st.trace) → x < st.next := by
    intro x hx
    rcases List.mem_cons.mp hx with hx | hx
    · cases hx
    · exact hlt x hx
  unfold step
  simp only [h1, h2, h3, pick_fresh]
  cases hs : op.secure <;> cases hfin : op.final <;> simp only [Bool.false_eq_true, if_false, if_true]
  -- unsecured, intermediate
  · exact ⟨fun x hx => Nat.lt_succ_of_lt (hd1 x hx), hw1⟩
  -- unsecured, final
  · split
    · refine ⟨?_, hw1⟩
      intro x hx
      rcases List.mem_cons.mp hx with hx | hx
      · cases hx; exact Nat.lt_succ_self _
      · exact Nat.lt_succ_of_lt (hd1 x hx)
    · refine ⟨?_, ?_⟩
      · intro x hx
        rcases List.mem_cons.mp hx with hx | hx
        · cases hx; omega
        · rcases List.mem_cons.mp hx with hx | hx
          · cases hx
          · have := hd1 x hx; omega
      · exact frozen_write_fresh (n := st.next + 1) (Nat.le_refl _) (fun x hx => Nat.lt_succ_of_lt (hd1 x hx)) hw1
  -- secured, intermediate
  · refine ⟨?_, ?_⟩
    · intro x hx
      rcases List.mem_cons.mp hx with hx | hx
      · cases hx
      · have := hd1 x hx; omega
    · exact frozen_write_fresh (n := st.next + 1) (Nat.le_refl _) (fun x hx => Nat.lt_succ_of_lt (hd1 x hx)) hw1
  -- secured, final
  · have hw2 : Frozen (.write (st.next + 1) :: .write st.next :: st.trace) :=
      frozen_write_fresh (n := st.next + 1) (Nat.le_refl _) (fun x hx => Nat.lt_succ_of_lt (hd1 x hx)) hw1
    have hd2 : ∀ x, Ev.deliver x ∈ (Ev.write (st.next + 1) :: Ev.write st.next :: st.trace) → x < st.next + 1 := by
      intro x hx
      rcases List.mem_cons.mp hx with hx | hx
      · cases hx
      · exact Nat.lt_succ_of_lt (hd1 x hx)
    split
    · refine ⟨?_, hw2⟩
      intro x hx
      rcases List.mem_cons.mp hx with hx | hx
      · cases hx; omega
      · have := hd2 x hx; omega
    · refine ⟨?_, ?_⟩
      · intro x hx
        rcases List.mem_cons.mp hx with hx | hx
        · cases hx; omega
        · rcases List.mem_cons.mp hx with hx | hx
          · cases hx
          · have := hd2 x hx; omega
      · exact frozen_write_fresh (n := st.next + 2) (Nat.le_refl _) (fun x hx => Nat.lt_succ_of_lt (hd2 x hx)) hw2

theorem run_inv (f : Facts) (hf : f.ok = true) (st : St) (ops : List Op) (h : Inv st) : Inv (run f st ops) := by
  induction ops generalizing st with
  | nil => exact h
  | cons op r ih => exact ih _ (step_inv f hf st op h)

end Opcua.Own
