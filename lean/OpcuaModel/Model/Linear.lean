import OpcuaModel.Model.Access
/-
  Linearizability of a server whose requests are executed by ONE dispatcher
  goroutine (C34).

  Part 1 is generic: a machine with state `σ` and an atomic handler
  `step : σ → O → R × σ`.  Clients invoke operations (`inv`), the dispatcher
  takes a pending operation and runs the handler to completion (`disp`; this is
  `monitorConnections` calling `handleService` synchronously — the structural
  facts are generated into `Gen/Dispatch.lean`), the response reaches the client
  (`resp`).  `mrun` accepts exactly the well-formed traces.  The dispatch order
  `log` is a linearization: it is a legal sequential history of `step`, every
  response carries the value the sequential run gave, and it respects real time.

  Part 2 instantiates `step` with the attribute service model of C31
  (`Access.step`) and shows that it refines one register per node.
-/
namespace Opcua.Linear

inductive Ev (O R : Type) where
  | inv (id : Nat) (op : O)
  | disp (id : Nat)
  | resp (id : Nat) (r : R)

structure M (σ O R : Type) where
  st : σ
  /-- invoked, not yet dispatched -/
  pend : List (Nat × O)
  /-- dispatched, response not yet delivered -/
  done : List (Nat × R)
  /-- dispatch order: (id, operation, result) -/
  log : List (Nat × O × R)
  /-- every id ever invoked -/
  used : List Nat

def M.init {σ O R : Type} (s : σ) : M σ O R := ⟨s, [], [], [], []⟩

variable {σ O R : Type} [DecidableEq R]

def findOp (l : List (Nat × O)) (id : Nat) : Option O :=
  match l with
  | [] => none
  | (k, o) :: r => if k = id then some o else findOp r id

def mstep (step : σ → O → R × σ) (m : M σ O R) : Ev O R → Option (M σ O R)
  | .inv id op => if id ∈ m.used then none else some { m with pend := m.pend ++ [(id, op)], used := id :: m.used }
  | .disp id =>
    match findOp m.pend id with
    | none => none
    | some op =>
      let (r, s') := step m.st op
      some { m with st := s', pend := m.pend.filter (·.1 ≠ id), done := (id, r) :: m.done, log := m.log ++ [(id, op, r)] }
  | .resp id r => if (id, r) ∈ m.done then some { m with done := m.done.filter (·.1 ≠ id) } else none

def mrun (step : σ → O → R × σ) (m : M σ O R) : List (Ev O R) → Option (M σ O R)
  | [] => some m
  | e :: r => match mstep step m e with
    | none => none
    | some m' => mrun step m' r

/-- the sequential specification: the handler applied to the operations one by one -/
def seqRun (step : σ → O → R × σ) (s : σ) : List O → List R × σ
  | [] => ([], s)
  | o :: r => let (x, s') := step s o; let (xs, s'') := seqRun step s' r; (x :: xs, s'')

theorem seqRun_append (step : σ → O → R × σ) (s : σ) (l : List O) (o : O) :
    seqRun step s (l ++ [o]) =
      ((seqRun step s l).1 ++ [(step (seqRun step s l).2 o).1], (step (seqRun step s l).2 o).2) := by
  induction l generalizing s with
  | nil => simp [seqRun]
  | cons a r ih => simp [seqRun, ih]

def logIds (l : List (Nat × O × R)) : List Nat := l.map (·.1)

/-- invariant of well-formed runs from `s0` -/
structure WF (step : σ → O → R × σ) (s0 : σ) (m : M σ O R) : Prop where
  legal : seqRun step s0 (m.log.map (·.2.1)) = (m.log.map (·.2.2), m.st)
  doneLogged : ∀ id r, (id, r) ∈ m.done → ∃ op, (id, op, r) ∈ m.log
  logUsed : ∀ id, id ∈ logIds m.log → id ∈ m.used
  pendUsed : ∀ id op, (id, op) ∈ m.pend → id ∈ m.used

theorem findOp_mem {l : List (Nat × O)} {id : Nat} {op : O} (h : findOp l id = some op) : (id, op) ∈ l := by
  induction l with
  | nil => simp [findOp] at h
  | cons e r ih =>
    obtain ⟨k, o⟩ := e
    unfold findOp at h
    by_cases hk : k = id
    · simp only [hk, ↓reduceIte, Option.some.injEq] at h; simp [hk, h]
    · simp only [hk, ↓reduceIte] at h; simp [ih h]

theorem WF_init (step : σ → O → R × σ) (s0 : σ) : WF step s0 (M.init s0 : M σ O R) :=
  ⟨rfl, by simp [M.init], by simp [M.init, logIds], by simp [M.init]⟩

theorem WF_step (step : σ → O → R × σ) (s0 : σ) (m m' : M σ O R) (e : Ev O R)
    (hw : WF step s0 m) (h : mstep step m e = some m') :
    WF step s0 m' ∧ ∃ l, m'.log = m.log ++ l := by
  cases e with
  | inv id op =>
    simp only [mstep] at h
    split at h
    · cases h
    · cases h
      refine ⟨⟨hw.legal, hw.doneLogged, ?_, ?_⟩, [], by simp⟩
      · intro i hi; simp [hw.logUsed i hi]
      · intro i o hi
        simp only [List.mem_append, List.mem_singleton, Prod.mk.injEq] at hi
        rcases hi with hi | ⟨rfl, _⟩
        · simp [hw.pendUsed i o hi]
        · simp
  | disp id =>
    simp only [mstep] at h
    cases hf : findOp m.pend id with
    | none => simp [hf] at h
    | some op =>
      simp only [hf, Option.some.injEq] at h
      subst h
      refine ⟨⟨?_, ?_, ?_, ?_⟩, [(id, op, (step m.st op).1)], rfl⟩
      · simp only [List.map_append, List.map_cons, List.map_nil]
        rw [seqRun_append, hw.legal]
      · intro i r hi
        simp only [List.mem_cons, Prod.mk.injEq] at hi
        rcases hi with ⟨rfl, rfl⟩ | hi
        · exact ⟨op, by simp⟩
        · obtain ⟨o, ho⟩ := hw.doneLogged i r hi
          exact ⟨o, by simp [ho]⟩
      · intro i hi
        simp only [logIds, List.map_append, List.map_cons, List.map_nil, List.mem_append,
          List.mem_singleton] at hi
        rcases hi with hi | rfl
        · exact hw.logUsed i hi
        · exact hw.pendUsed _ op (findOp_mem hf)
      · intro i o hi
        exact hw.pendUsed i o (List.mem_filter.1 hi).1
  | resp id r =>
    simp only [mstep] at h
    split at h
    · cases h
      refine ⟨⟨hw.legal, ?_, hw.logUsed, hw.pendUsed⟩, [], by simp⟩
      intro i x hi
      exact hw.doneLogged i x (List.mem_filter.1 hi).1
    · cases h

theorem WF_run (step : σ → O → R × σ) (s0 : σ) :
    ∀ (tr : List (Ev O R)) (m m' : M σ O R), WF step s0 m → mrun step m tr = some m' →
      WF step s0 m' ∧ ∃ l, m'.log = m.log ++ l := by
  intro tr
  induction tr with
  | nil => intro m m' hw h; simp only [mrun, Option.some.injEq] at h; subst h; exact ⟨hw, [], by simp⟩
  | cons e r ih =>
    intro m m' hw h
    simp only [mrun] at h
    cases hs : mstep step m e with
    | none => simp [hs] at h
    | some m1 =>
      simp only [hs] at h
      obtain ⟨hw1, l1, hl1⟩ := WF_step step s0 m m1 e hw hs
      obtain ⟨hw2, l2, hl2⟩ := ih m1 m' hw1 h
      exact ⟨hw2, l1 ++ l2, by rw [hl2, hl1, List.append_assoc]⟩

theorem mrun_append (step : σ → O → R × σ) (m : M σ O R) (t1 t2 : List (Ev O R)) :
    mrun step m (t1 ++ t2) = (mrun step m t1).bind (fun m1 => mrun step m1 t2) := by
  induction t1 generalizing m with
  | nil => simp [mrun]
  | cons e r ih =>
    simp only [List.cons_append, mrun]
    cases mstep step m e with
    | none => simp
    | some m1 => simpa using ih m1

/-- a response is only delivered for an operation that is in the dispatch log, with the logged result -/
theorem resp_logged (step : σ → O → R × σ) (s0 : σ) :
    ∀ (tr : List (Ev O R)) (m m' : M σ O R), WF step s0 m → mrun step m tr = some m' →
      ∀ id r, Ev.resp id r ∈ tr → ∃ op, (id, op, r) ∈ m'.log := by
  intro tr
  induction tr with
  | nil => intro m m' _ _ id r h; simp at h
  | cons e rest ih =>
    intro m m' hw h id r hm
    simp only [mrun] at h
    cases hs : mstep step m e with
    | none => simp [hs] at h
    | some m1 =>
      simp only [hs] at h
      obtain ⟨hw1, _, _⟩ := WF_step step s0 m m1 e hw hs
      simp only [List.mem_cons] at hm
      rcases hm with rfl | hm
      · -- this very event: (id, r) ∈ m.done, hence logged already, and the log only grows
        simp only [mstep] at hs
        split at hs
        · rename_i hd
          obtain ⟨op, hop⟩ := hw.doneLogged id r hd
          cases hs
          obtain ⟨_, l, hl⟩ := WF_run step s0 rest _ m' hw1 h
          exact ⟨op, by rw [hl]; simp [hop]⟩
        · cases hs
      · exact ih m1 m' hw1 h id r hm

-- ---------------------------------------------------------------- part 2: registers

open Opcua.Access

abbrev Key := Nat × Nat
abbrev Regs := Key → Option DV

/-- abstraction map: the value slot of every node -/
def abs (sv : Server) : Regs := fun k => (sv.node k.1 k.2).map (·.val)

/-- what a request is, as a register operation, judged by its answer: only
    SUCCESSFUL reads and writes of the Value attribute are register operations -/
inductive RegEv where
  | read (k : Key) (d : DV)
  | write (k : Key) (d : DV)
  | none

def regEv : Op → Res → RegEv
  | .read i k a, .value d => if a = aValue then .read (i, k) d else .none
  | .write i k a d, .status .ok => if a = aValue then .write (i, k) d else .none
  | _, _ => .none

def Regs.set (r : Regs) (k : Key) (d : DV) : Regs := fun j => if j = k then some d else r j

end Opcua.Linear
