import OpcuaModel.Model.CodecLemmas
/-
  Round-trip lemmas for the reflective walk and the simple hand-written codecs
  (GUID, NodeID, ExpandedNodeID, LocalizedText, DiagnosticInfo).

  `RTv enc dec nv`: the encoder result `enc` is some byte string `bs`, and the
  decoder `dec` reads exactly `bs` back into `nv` (whatever follows).
-/
namespace Opcua.Codec
open Opcua

def RTv (enc : Enc) (dec : Dec Val) (nv : Val) : Prop :=
  ∃ bs, enc = .ok bs ∧ Reads dec bs nv

@[simp] theorem Enc.bind_ok (a : Bytes) (f : Bytes → Enc) : ((Except.ok a : Enc) >>= f) = f a := rfl
@[simp] theorem Enc.pure_eq (a : Bytes) : (pure a : Enc) = .ok a := rfl

/-! ### lists of elements and fields -/

theorem rt_elems {encE : Val → Enc} {decE : Dec Val} {normE : Val → Val} (xs : List Val)
    (h : ∀ x ∈ xs, RTv (encE x) decE (normE x)) :
    ∃ bs, encElems encE xs = .ok bs ∧ Reads (decElems decE xs.length) bs (xs.map normE) := by
  induction xs with
  | nil => exact ⟨[], rfl, Reads.ret _⟩
  | cons x xs ih =>
    obtain ⟨a, ha, ra⟩ := h x (List.mem_cons_self ..)
    obtain ⟨b, hb, rb⟩ := ih (fun y hy => h y (List.mem_cons_of_mem _ hy))
    refine ⟨a ++ b, by simp [encElems, ha, hb], ?_⟩
    simp only [List.length_cons, decElems, List.map_cons]
    refine Reads.bind ra ?_
    have := Reads.map (g := fun vs => normE x :: vs) rb
    exact this

theorem rt_fields {encT : Ty → Val → Enc} {decT : Ty → Dec Val} {normT : Ty → Val → Val} {wtT : Ty → Val → Bool}
    (hrec : ∀ t v, wtT t v = true → RTv (encT t v) (decT t) (normT t v)) :
    ∀ ts vs, wtFields wtT ts vs = true →
      ∃ bs, encFields encT ts vs = .ok bs ∧ Reads (decFields decT ts) bs (normFields normT ts vs) := by
  intro ts
  induction ts with
  | nil =>
    intro vs h
    cases vs with
    | nil => exact ⟨[], rfl, Reads.ret _⟩
    | cons v vs => simp [wtFields] at h
  | cons t ts ih =>
    intro vs h
    cases vs with
    | nil => simp [wtFields] at h
    | cons v vs =>
      simp only [wtFields, Bool.and_eq_true] at h
      obtain ⟨a, ha, ra⟩ := hrec t v h.1
      obtain ⟨b, hb, rb⟩ := ih vs h.2
      refine ⟨a ++ b, by simp [encFields, ha, hb], ?_⟩
      simp only [decFields, normFields]
      refine Reads.bind ra ?_
      exact Reads.map (g := fun vs => normT t v :: vs) rb

/-! ### GUID -/

theorem reads_decGuid (g : Guid) (h : wtGuid g = true) : Reads decGuid (encGuid g) g := by
  simp only [wtGuid, decide_eq_true_eq] at h
  obtain ⟨h1, h2, h3, h4⟩ := h
  unfold decGuid encGuid
  refine Reads.congr (Reads.bind (reads_readUInt 4 g.d1 (by simpa using h1)) (Reads.bind (reads_readUInt 2 g.d2 (by simpa using h2))
    (Reads.bind (reads_readUInt 2 g.d3 (by simpa using h3)) (Reads.bind (reads_readN' g.d4 h4) (Reads.ret _))))) (by simp) rfl

/-! ### NodeID -/

theorem mask_lt {m : Nat} (h : m < 256) : m < 256 ^ 1 := by simpa using h

theorem reads_decNodeId (n : NodeId) (h : wtNodeId n = true) :
    ∃ bs, encNodeId n = .ok bs ∧ Reads decNodeId bs (normNodeId n) := by
  obtain ⟨mask, ns, nid, bid, gid⟩ := n
  simp only [wtNodeId, Bool.and_eq_true, decide_eq_true_eq] at h
  obtain ⟨hm, h⟩ := h
  have rm := reads_readUInt 1 mask (mask_lt hm)
  unfold encNodeId decNodeId
  simp only
  by_cases t0 : mask % 16 = 0
  · simp only [t0, if_true, decide_eq_true_eq] at h ⊢
    obtain ⟨rfl, h2, rfl, rfl⟩ := h
    refine ⟨_, rfl, ?_⟩
    refine Reads.bind rm ?_
    simp only [t0, if_true]
    exact Reads.congr (Reads.bind (reads_readUInt 1 nid (mask_lt h2)) (Reads.ret _)) (by simp) rfl
  · by_cases t1 : mask % 16 = 1
    · simp only [t1, if_true, decide_eq_true_eq, show ¬ (1:Nat) = 0 by decide, if_false] at h ⊢
      obtain ⟨h1, h2, rfl, rfl⟩ := h
      refine ⟨_, rfl, ?_⟩
      rw [List.append_assoc]
      refine Reads.bind rm ?_
      simp only [t1, if_true, show ¬ (1:Nat) = 0 by decide, if_false]
      exact Reads.congr (Reads.bind (reads_readUInt 1 ns (mask_lt h1)) (Reads.bind (reads_readUInt 2 nid (by simpa using h2)) (Reads.ret _))) (by simp) rfl
    · by_cases t2 : mask % 16 = 2
      · simp only [t2, if_true, decide_eq_true_eq, show ¬ (2:Nat) = 0 by decide, show ¬ (2:Nat) = 1 by decide, if_false] at h ⊢
        obtain ⟨h1, h2, rfl, rfl⟩ := h
        refine ⟨_, rfl, ?_⟩
        rw [List.append_assoc]
        refine Reads.bind rm ?_
        simp only [t2, if_true, show ¬ (2:Nat) = 0 by decide, show ¬ (2:Nat) = 1 by decide, if_false]
        exact Reads.congr (Reads.bind (reads_readUInt 2 ns (by simpa using h1)) (Reads.bind (reads_readUInt 4 nid (by simpa using h2)) (Reads.ret _))) (by simp) rfl
      · by_cases t4 : mask % 16 = 4
        · simp only [t4, if_true, show ¬ (4:Nat) = 0 by decide, show ¬ (4:Nat) = 1 by decide, show ¬ (4:Nat) = 2 by decide,
            if_false, Bool.and_eq_true, decide_eq_true_eq] at h ⊢
          obtain ⟨⟨h1, rfl, rfl⟩, hg⟩ := h
          cases gid with
          | none => simp at hg
          | some g =>
            simp only at hg ⊢
            refine ⟨_, rfl, ?_⟩
            rw [List.append_assoc]
            refine Reads.bind rm ?_
            simp only [t4, if_true, show ¬ (4:Nat) = 0 by decide, show ¬ (4:Nat) = 1 by decide, show ¬ (4:Nat) = 2 by decide, if_false]
            exact Reads.congr (Reads.bind (reads_readUInt 2 ns (by simpa using h1)) (Reads.bind (reads_decGuid g hg) (Reads.ret _))) (by simp) rfl
        · by_cases t35 : mask % 16 = 3 ∨ mask % 16 = 5
          · simp only [t0, t1, t2, t4, t35, if_true, if_false, Bool.and_eq_true, decide_eq_true_eq] at h ⊢
            obtain ⟨⟨h1, rfl, rfl⟩, hb⟩ := h
            have hlen : (bid.getD []).length ≤ maxInt32 := by
              cases bid with
              | none => simp [maxInt32]
              | some b => simpa [wtStr] using hb
            obtain ⟨bb, hbb⟩ := writeByteString_ok bid hlen
            refine ⟨leBytes 1 mask ++ leBytes 2 ns ++ bb, by simp [hbb], ?_⟩
            rw [List.append_assoc]
            refine Reads.bind rm ?_
            simp only [t0, t1, t2, t4, t35, if_true, if_false]
            refine Reads.congr (Reads.bind (reads_readUInt 2 ns (by simpa using h1)) (Reads.bind (reads_readBytes hbb) (Reads.ret _))) (by simp) ?_
            cases bid with
            | none => rfl
            | some b =>
              cases b with
              | nil => rfl
              | cons x xs => rfl
          · simp [t0, t1, t2, t4, t35] at h

/-! ### optional fields selected by an encoding mask -/

theorem reads_optUInt (c : Bool) (w v : Nat) (hv : v < 256 ^ w) (hz : c = true ∨ v = 0) :
    Reads (optDec c (readUInt w) 0) (optBytes c (leBytes w v)) v := by
  unfold optDec optBytes
  cases c with
  | true => simpa using reads_readUInt w v hv
  | false =>
    have : v = 0 := by simpa using hz
    subst this
    simpa using Reads.ret 0

theorem reads_optString (c : Bool) (s : Bytes) (hs : wtStr s = true) (hz : c = true ∨ s = []) :
    ∃ bs, optEnc c (writeString s) = .ok bs ∧ Reads (optDec c readString []) bs s := by
  unfold optDec optEnc
  cases c with
  | true =>
    obtain ⟨bs, hbs⟩ := writeString_ok s hs
    exact ⟨bs, by simpa using hbs, by simpa using reads_readString hbs⟩
  | false =>
    have : s = [] := by simpa using hz
    subst this
    exact ⟨[], rfl, by simpa using Reads.ret ([] : Bytes)⟩

theorem reads_optTime (c : Bool) (t : Option Int) (ht : wtTime t = true) (hz : c = true ∨ t = none) :
    Reads (optDec c readTime none) (optBytes c (writeTime t)) (normTime t) := by
  unfold optDec optBytes
  cases c with
  | true => simpa using reads_readTime t ht
  | false =>
    have : t = none := by simpa using hz
    subst this
    simpa [normTime] using Reads.ret (none : Option Int)

/-! ### ExpandedNodeID -/

theorem normNodeId_mask (n : NodeId) : (normNodeId n).mask = n.mask := by
  unfold normNodeId
  split <;> rfl

theorem reads_decExpNodeId (e : ExpNodeId) (h : wtExp e = true) :
    ∃ bs, encExpNodeId e = .ok bs ∧ Reads decExpNodeId bs (normExp e) := by
  obtain ⟨nodeId, uri, idx⟩ := e
  simp only [wtExp, Bool.and_eq_true, decide_eq_true_eq] at h
  obtain ⟨⟨hu, hi⟩, h⟩ := h
  cases nodeId with
  | none =>
    simp only [decide_eq_true_eq] at h
    obtain ⟨rfl, rfl⟩ := h
    refine ⟨leBytes 2 0, rfl, ?_⟩
    obtain ⟨bs, hbs, r⟩ := reads_decNodeId twoByteZero (by decide)
    have hb : bs = leBytes 2 0 := by
      have : encNodeId twoByteZero = .ok (leBytes 2 0) := rfl
      rw [this] at hbs
      cases hbs; rfl
    subst hb
    unfold decExpNodeId
    refine Reads.congr (Reads.bind r ?_) (List.append_nil _) rfl
    have hm : (normNodeId twoByteZero).mask = 0 := rfl
    simp only [hm]
    exact Reads.ret _
  | some n =>
    simp only [Bool.and_eq_true, decide_eq_true_eq] at h
    obtain ⟨hn, hfu, hfi⟩ := h
    obtain ⟨a, ha, ra⟩ := reads_decNodeId n hn
    have hcu : decide (n.mask / 128 % 2 = 1) = true ∨ uri = [] := by
      rcases hfu with h | h
      · exact Or.inl (by simpa using h)
      · exact Or.inr h
    have hci : decide (n.mask / 64 % 2 = 1) = true ∨ idx = 0 := by
      rcases hfi with h | h
      · exact Or.inl (by simpa using h)
      · exact Or.inr h
    obtain ⟨b, hb, rb⟩ := reads_optString (decide (n.mask / 128 % 2 = 1)) uri hu hcu
    have rc := reads_optUInt (decide (n.mask / 64 % 2 = 1)) 4 idx (by simpa using hi) hci
    refine ⟨a ++ b ++ optBytes (decide (n.mask / 64 % 2 = 1)) (leBytes 4 idx), ?_, ?_⟩
    · simp only [encExpNodeId, ha, Enc.bind_ok, hb, Enc.pure_eq]
    · unfold decExpNodeId
      rw [List.append_assoc]
      refine Reads.bind ra ?_
      simp only [normNodeId_mask]
      refine Reads.bind rb ?_
      refine Reads.congr (Reads.bind rc (Reads.ret _)) (List.append_nil _) ?_
      simp [normExp]

/-! ### LocalizedText -/

theorem reads_decLocText (l : LocText) (h : wtLoc l = true) :
    ∃ bs, encLocText l = .ok bs ∧ Reads decLocText bs l := by
  obtain ⟨mask, locale, text⟩ := l
  simp only [wtLoc, Bool.and_eq_true, decide_eq_true_eq] at h
  obtain ⟨⟨⟨hm, hl⟩, ht⟩, hz1, hz2⟩ := h
  obtain ⟨a, ha, ra⟩ := reads_optString (has mask 1) locale hl hz1
  obtain ⟨b, hb, rb⟩ := reads_optString (has mask 2) text ht hz2
  refine ⟨leBytes 1 mask ++ a ++ b, ?_, ?_⟩
  · simp only [encLocText, ha, Enc.bind_ok, hb, Enc.pure_eq]
  · unfold decLocText
    rw [List.append_assoc]
    refine Reads.bind (reads_readUInt 1 mask (mask_lt hm)) ?_
    refine Reads.bind ra ?_
    exact Reads.congr (Reads.bind rb (Reads.ret _)) (List.append_nil _) rfl

/-! ### DiagnosticInfo -/

theorem reads_decDiagLevel (l : DiagLevel) (h : wtDiagLevel l = true) :
    ∃ bs, encDiagLevel l = .ok bs ∧ Reads decDiagLevel bs l := by
  obtain ⟨mask, sym, ns, loc, lt, info, status⟩ := l
  simp only [wtDiagLevel, Bool.and_eq_true, decide_eq_true_eq] at h
  obtain ⟨⟨⟨hm, h1, h2, h3, h4, h5⟩, hi⟩, z1, z2, z3, z4, z5, z6⟩ := h
  obtain ⟨b, hb, rb⟩ := reads_optString (has mask 0x10) info hi z5
  have p32 : (256:Nat) ^ 4 = 4294967296 := by decide
  refine ⟨leBytes 1 mask ++ optBytes (has mask 1) (leBytes 4 sym) ++ optBytes (has mask 2) (leBytes 4 ns) ++
      optBytes (has mask 8) (leBytes 4 loc) ++ optBytes (has mask 4) (leBytes 4 lt) ++ b ++
      optBytes (has mask 32) (leBytes 4 status), by simp only [encDiagLevel, hb, Enc.bind_ok, Enc.pure_eq], ?_⟩
  unfold decDiagLevel
  refine Reads.congr
    (Reads.bind (reads_readUInt 1 mask (mask_lt hm))
    (Reads.bind (reads_optUInt (has mask 0x1) 4 sym (by omega) z1)
    (Reads.bind (reads_optUInt (has mask 0x2) 4 ns (by omega) z2)
    (Reads.bind (reads_optUInt (has mask 0x8) 4 loc (by omega) z3)
    (Reads.bind (reads_optUInt (has mask 0x4) 4 lt (by omega) z4)
    (Reads.bind rb
    (Reads.bind (reads_optUInt (has mask 0x20) 4 status (by omega) z6) (Reads.ret _)))))))) (by simp [List.append_assoc]) rfl

theorem reads_decDiag : ∀ (fuel : Nat) (ls : List DiagLevel), wtDiag fuel ls = true →
    ∃ bs, encDiag fuel ls = .ok bs ∧ Reads (decDiag fuel) bs ls := by
  intro fuel
  induction fuel with
  | zero => intro ls h; simp [wtDiag] at h
  | succ fuel ih =>
    intro ls h
    match ls, h with
    | [], h => simp [wtDiag] at h
    | [l], h =>
      simp only [wtDiag, Bool.and_eq_true, Bool.not_eq_true'] at h
      obtain ⟨a, ha, ra⟩ := reads_decDiagLevel l h.1
      refine ⟨a, by simp [encDiag, ha, h.2], ?_⟩
      unfold decDiag
      refine Reads.congr (Reads.bind ra ?_) (List.append_nil _) rfl
      simp only [h.2, Bool.false_eq_true, if_false]
      exact Reads.ret _
    | l :: l' :: ls, h =>
      simp only [wtDiag, Bool.and_eq_true] at h
      obtain ⟨a, ha, ra⟩ := reads_decDiagLevel l h.1.1
      obtain ⟨b, hb, rb⟩ := ih (l' :: ls) h.2
      refine ⟨a ++ b, by simp [encDiag, ha, h.1.2, hb], ?_⟩
      unfold decDiag
      refine Reads.bind ra ?_
      simp only [h.1.2, if_true]
      exact Reads.map (g := fun ls => l :: ls) rb

end Opcua.Codec
