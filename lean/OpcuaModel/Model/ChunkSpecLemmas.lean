import OpcuaModel.Model.ChunkSpec
import OpcuaModel.Model.ChunkMsg
/-
  The implementation model (`Model/Chunk.lean`) against the specification side
  (`Model/ChunkSpec.lean`): byte-for-byte equality of `signAndEncrypt` with
  `Spec.secureChunk`, and the two receivers on the two senders' chunks.
-/
namespace Opcua.Spec
open Opcua Opcua.Chunk

/-- the suite a channel-instance side sends with -/
def suiteOf (S : Side) : Suite :=
  { plainBlock := S.algo.plaintextBlockSize.toNat, cipherBlock := S.algo.blockSize.toNat,
    sigSize := S.algo.signatureLength.toNat, extraPadding := decide (S.algo.remoteSignatureLength > 256),
    crypto := S.crypto }

def toRes : Option Bytes → Res Bytes
  | some w => .ok w
  | none => .err

/-- the unsecured chunk `EncodeChunks` hands to `signAndEncrypt` -/
def rawChunk (p : Parts) : Bytes :=
  header p (12 + p.secHeader.length + 8 + p.body.length) ++ p.secHeader ++ sequenceHeader p ++ p.body

theorem header_length (p : Parts) (n : Nat) (h3 : p.msgType.length = 3) : (header p n).length = 12 := by
  simp [header, h3]

theorem putU32_header (p : Parts) (n v : Nat) (rest : Bytes) (h3 : p.msgType.length = 3) :
    putU32 (header p n ++ rest) 4 v = header p v ++ rest := by
  obtain ⟨a, b, c, hm⟩ := len3 h3
  simp [putU32, header, hm, u32]

theorem mod_pad (pbs r : Nat) (h : r < pbs) : (pbs - r) % pbs = if r ≠ 0 then pbs - r else 0 := by
  split
  · exact Nat.mod_eq_of_lt (by omega)
  · rename_i h0
    simp only [ne_eq, Decidable.not_not] at h0
    subst h0; simp

theorem paddingSize_zero (S : Side) (n : Nat) (hpos : 0 < S.algo.plaintextBlockSize.toNat) :
    paddingSize (suiteOf S) n 0 = paddingLength S n := by
  simp only [paddingSize, suiteOf, paddingLength, paddingBytes, Nat.zero_mul, Nat.add_zero, decide_eq_true_eq]
  exact mod_pad _ _ (Nat.mod_lt _ hpos)

theorem padTail_eq_footer (S : Side) (n : Nat) (hpos : 0 < S.algo.plaintextBlockSize.toNat) :
    padTail S n = footer (suiteOf S) (paddingSize (suiteOf S) n 0) := by
  rw [paddingSize_zero S n hpos]
  simp only [padTail, footer, suiteOf, decide_eq_true_eq, List.replicate_succ, Nat.shiftRight_eq_div_pow]
  split <;> simp

/-- normal form of `signAndEncrypt` on a chunk split at the header length -/
def secureNF (S : Side) (asym : Bool) (H T : Bytes) : Res Bytes :=
  if S.mode = .none then .ok (H ++ T) else
  let plain := if S.encrypts asym then T ++ padTail S T.length else T
  let tail := if S.encrypts asym
    then (plain.length + S.algo.signatureLength.toNat) / S.algo.plaintextBlockSize.toNat * S.algo.blockSize.toNat
    else plain.length + S.algo.signatureLength.toNat
  let H' := putU32 H 4 (H.length + tail)
  match S.crypto.sign (H' ++ plain) with
  | none => .err
  | some sg =>
    if S.encrypts asym then
      match S.crypto.enc (plain ++ sg) with
      | none => .err
      | some c => .ok (H' ++ c)
    else .ok (H' ++ (plain ++ sg))

theorem signAndEncrypt_nf (S : Side) (asym : Bool) (H T : Bytes) (h8 : 8 ≤ H.length) :
    signAndEncrypt S asym H.length (H ++ T) = secureNF S asym H T := by
  by_cases hm : S.mode = .none
  · simp [signAndEncrypt, secureNF, hm]
  · simp only [signAndEncrypt, secureNF, if_neg hm]
    rw [if_neg (by simp only [List.length_append]; omega)]
    have hd : (H ++ T).length - H.length = T.length := by simp
    by_cases henc : S.encrypts asym = true
    · simp only [henc, if_true, hd]
      obtain ⟨P, hP⟩ : ∃ P, P = padTail S T.length := ⟨_, rfl⟩
      rw [← hP]
      have e1 : (H ++ T ++ P).length - H.length = (T ++ P).length := by simp [List.append_assoc]
      obtain ⟨sz, hsz⟩ : ∃ sz, sz = H.length + ((T ++ P).length + S.algo.signatureLength.toNat) /
          S.algo.plaintextBlockSize.toNat * S.algo.blockSize.toNat := ⟨_, rfl⟩
      rw [e1, ← hsz]
      have e2 : putU32 (H ++ T ++ P) 4 sz = putU32 H 4 sz ++ (T ++ P) := by
        rw [List.append_assoc, putU32_append _ _ _ _ (by omega)]
      have hH : (putU32 H 4 sz).length = H.length := putU32_length _ _ _ (by omega)
      rw [e2]
      cases S.crypto.sign (putU32 H 4 sz ++ (T ++ P)) with
      | none => rfl
      | some sg =>
        simp only [List.append_assoc]
        rw [List.drop_left' hH, List.take_left' hH]
        cases S.crypto.enc (T ++ (P ++ sg)) <;> rfl
    · simp only [henc, Bool.false_eq_true, if_false, hd]
      obtain ⟨sz, hsz⟩ : ∃ sz, sz = H.length + (T.length + S.algo.signatureLength.toNat) := ⟨_, rfl⟩
      rw [← hsz]
      have e2 : putU32 (H ++ T) 4 sz = putU32 H 4 sz ++ T := putU32_append _ _ _ _ (by omega)
      have hH : (putU32 H 4 sz).length = H.length := putU32_length _ _ _ (by omega)
      rw [e2]
      cases S.crypto.sign (putU32 H 4 sz ++ T) with
      | none => rfl
      | some sg =>
        simp only [List.append_assoc]
        rw [List.drop_left' hH, List.take_left' hH]

/-- LAYOUT.  `signAndEncrypt` produces, byte for byte, the chunk the
    specification describes (minimal padding), for every side, symmetric or
    asymmetric security header, every part contents. -/
theorem signAndEncrypt_eq_spec (S : Side) (asym : Bool) (p : Parts) (h3 : p.msgType.length = 3)
    (hpos : 0 < S.algo.plaintextBlockSize.toNat) :
    signAndEncrypt S asym (12 + p.secHeader.length) (rawChunk p) =
      toRes (secureChunk (suiteOf S) (decide (S.mode ≠ .none)) (decide (S.mode ≠ .none) && S.encrypts asym) p 0) := by
  have hH : (header p (12 + p.secHeader.length + 8 + p.body.length) ++ p.secHeader).length = 12 + p.secHeader.length := by
    simp [header_length p _ h3]
  have hraw : rawChunk p = (header p (12 + p.secHeader.length + 8 + p.body.length) ++ p.secHeader) ++ (sequenceHeader p ++ p.body) := by
    simp [rawChunk, List.append_assoc]
  have hnf := signAndEncrypt_nf S asym (header p (12 + p.secHeader.length + 8 + p.body.length) ++ p.secHeader)
    (sequenceHeader p ++ p.body) (by omega)
  rw [hH] at hnf
  rw [hraw, hnf]
  have hput : ∀ v, putU32 (header p (12 + p.secHeader.length + 8 + p.body.length) ++ p.secHeader) 4 v = header p v ++ p.secHeader :=
    fun v => putU32_header p _ v _ h3
  by_cases hm : S.mode = .none
  · simp only [secureNF, hm, if_true, secureChunk, ne_eq, not_true_eq_false, decide_false, Bool.false_and,
      Bool.not_false, Bool.and_self, toRes, sequenceHeader, List.append_assoc]
    congr 3
    simp; omega
  · have hm' : decide (S.mode ≠ .none) = true := by simp [hm]
    simp only [secureNF, if_neg hm, hm', Bool.true_and, secureChunk, Bool.not_true, Bool.false_and,
      Bool.false_eq_true, if_false, hput, hH]
    by_cases henc : S.encrypts asym = true
    · simp only [henc, if_true, Bool.not_true, Bool.false_eq_true, if_false, padTail_eq_footer S _ hpos, suiteOf]
      cases S.crypto.sign _ with
      | none => rfl
      | some sg => simp only []; cases S.crypto.enc _ <;> rfl
    · simp only [henc, Bool.false_eq_true, if_false, Bool.not_false, if_true, suiteOf, Nat.add_assoc]
      cases S.crypto.sign _ with
      | none => rfl
      | some sg => simp [toRes, List.append_assoc]
/-- bound that lets the padding count fit its one or two bytes -/
def countBound (extra : Bool) : Nat := if extra then 65536 else 256

theorem footer_length (s : Suite) (ps : Nat) : (footer s ps).length = ps + 1 + (if s.extraPadding then 1 else 0) := by
  simp only [footer]; split <;> simp <;> omega

theorem footer_eq (s : Suite) (ps : Nat) :
    footer s ps = List.replicate (ps + 1) (UInt8.ofNat ps) ++ (if s.extraPadding then [UInt8.ofNat (ps / 256)] else []) := by
  simp [footer, List.replicate_succ]

/-- `paddingOf` (the implementation's padding strip) on a specification footer -/
theorem paddingOf_footer {S R : Side} (hp : Paired S R) (asym : Bool) (henc : S.encrypts asym = true)
    (X : Bytes) (ps : Nat) (hps : ps < countBound (suiteOf S).extraPadding) :
    paddingOf R asym (X ++ footer (suiteOf S) ps) = .ok (footer (suiteOf S) ps).length := by
  simp only [paddingOf, hp.encrypts, henc, if_true, footer_eq]
  simp only [countBound, suiteOf, decide_eq_true_eq] at hps ⊢
  by_cases hx : S.algo.remoteSignatureLength > 256
  · have hr : R.algo.signatureLength > 256 := hp.extra.mpr hx
    simp only [hx, if_true] at hps
    simp only [hx, hr, if_true, List.length_append, List.length_replicate, List.length_cons, List.length_nil]
    rw [if_neg (by omega)]
    rw [← List.append_assoc]
    rw [List.getElem?_append_right (by simp)]
    have e1 : X.length + (ps + 1 + (0 + 1)) - 1 - (X ++ List.replicate (ps + 1) (UInt8.ofNat ps)).length = 0 := by
      simp
    rw [e1]
    simp only [List.getElem?_cons_zero]
    rw [if_neg (by omega)]
    rw [List.getElem?_append_left (by simp; omega)]
    rw [List.getElem?_append_right (by omega)]
    rw [List.getElem?_replicate, if_pos (by omega)]
    simp only [UInt8.toNat_ofNat', Nat.shiftLeft_eq]
    congr 1
    omega
  · simp only [hx, if_false] at hps
    have hr : ¬ R.algo.signatureLength > 256 := fun h => hx (hp.extra.mp h)
    simp only [hx, hr, if_false, List.append_nil, List.length_append, List.length_replicate]
    rw [if_neg (by omega)]
    rw [List.getElem?_append_right (by omega)]
    rw [List.getElem?_replicate, if_pos (by omega)]
    simp only [UInt8.toNat_ofNat']
    congr 1
    omega

/-- `verifyTail` on header ‖ clear ‖ any tail whose padding count `paddingOf` reads back ‖ signature -/
theorem verifyTail_general {S R : Side} (hp : Paired S R) (asym : Bool) (hl : Nat) (H X T sg : Bytes)
    (hH : H.length = hl) (hsg : sg.length = S.algo.signatureLength.toNat)
    (hver : R.crypto.verify (H ++ X ++ T) sg = true)
    (hpad : paddingOf R asym (H ++ X ++ T) = .ok T.length) :
    verifyTail R asym hl (H ++ X ++ T ++ sg) = .ok X := by
  have hlen : (H ++ X ++ T ++ sg).length - R.algo.remoteSignatureLength.toNat = (H ++ X ++ T).length := by
    rw [hp.rsl]; simp only [List.length_append]; omega
  simp only [verifyTail]
  rw [if_neg (by rw [hp.rsl]; simp only [List.length_append]; omega)]
  rw [if_neg (by rw [hp.rsl]; simp only [List.length_append]; omega)]
  rw [hlen, List.drop_left' rfl, List.take_left' rfl, hver]
  simp only [Bool.true_eq_false, if_false, hpad]
  rw [if_neg (by simp only [List.length_append]; omega)]
  rw [if_neg (by simp only [List.length_append]; omega)]
  have : (H ++ X ++ T).length - T.length = (H ++ X).length := by simp only [List.length_append]; omega
  rw [this, List.take_left' rfl, List.drop_left' hH]

theorem spec_aligned (s : Suite) (n k : Nat) (hpos : 0 < s.plainBlock) :
    (n + (footer s (paddingSize s n k)).length + s.sigSize) % s.plainBlock = 0 := by
  rw [footer_length]
  obtain ⟨o, ho⟩ : ∃ o, o = (if s.extraPadding then 2 else 1) := ⟨_, rfl⟩
  have e : n + (paddingSize s n k + 1 + if s.extraPadding = true then 1 else 0) + s.sigSize =
      (n + s.sigSize + o) + (if (n + s.sigSize + o) % s.plainBlock ≠ 0 then s.plainBlock - (n + s.sigSize + o) % s.plainBlock else 0) + k * s.plainBlock := by
    simp only [paddingSize, ← ho, mod_pad _ _ (Nat.mod_lt (n + s.sigSize + o) hpos)]
    rw [ho]; split <;> omega
  rw [e, Nat.add_mul_mod_self_right]
  exact pad_aligned _ _ hpos

/-- structure of an encrypted specification chunk under the contract -/
theorem secureChunk_encrypted {S R : Side} (hp : Paired S R) (p : Parts) (k : Nat) :
    ∃ sg c, secureChunk (suiteOf S) true true p k =
        some (header p (12 + p.secHeader.length + c.length) ++ p.secHeader ++ c) ∧
      sg.length = S.algo.signatureLength.toNat ∧
      R.crypto.verify (header p (12 + p.secHeader.length + c.length) ++ p.secHeader ++
        (sequenceHeader p ++ p.body ++ footer (suiteOf S) (paddingSize (suiteOf S) (sequenceHeader p ++ p.body).length k))) sg = true ∧
      R.crypto.dec c = some (sequenceHeader p ++ p.body ++
        footer (suiteOf S) (paddingSize (suiteOf S) (sequenceHeader p ++ p.body).length k) ++ sg) := by
  obtain ⟨F, hF⟩ : ∃ F, F = footer (suiteOf S) (paddingSize (suiteOf S) (sequenceHeader p ++ p.body).length k) := ⟨_, rfl⟩
  obtain ⟨cl, hcl⟩ : ∃ cl, cl = ((sequenceHeader p ++ p.body ++ F).length + S.algo.signatureLength.toNat) /
      S.algo.plaintextBlockSize.toNat * S.algo.blockSize.toNat := ⟨_, rfl⟩
  obtain ⟨sg, hsign, hsgl, hver⟩ := hp.sign_ok (header p (12 + p.secHeader.length + cl) ++ p.secHeader ++ (sequenceHeader p ++ p.body ++ F))
  have hal := spec_aligned (suiteOf S) (sequenceHeader p ++ p.body).length k hp.pbs_pos
  rw [← hF] at hal
  obtain ⟨c, henc, hcl', hdec⟩ := hp.enc_ok (sequenceHeader p ++ p.body ++ F ++ sg)
    (by simp only [List.length_append, hF, footer_length]; omega)
    (by simp only [List.length_append, hsgl] at hal ⊢; simpa [suiteOf, Nat.add_assoc] using hal)
  have hc : c.length = cl := by
    rw [hcl', hcl]; simp only [List.length_append, hsgl]
  refine ⟨sg, c, ?_, hsgl, ?_, ?_⟩
  · simp only [secureChunk, Bool.not_true, Bool.false_and, Bool.false_eq_true, if_false, ← hF]
    simp only [suiteOf] at hcl ⊢
    rw [← hcl, hsign]
    simp only [henc, hc]
  · rw [hc, ← hF]; exact hver
  · rw [← hF]; exact hdec

/-- ACCEPTS SPEC.  The implementation's receiver opens every encrypted chunk
    the specification allows — minimal padding or `k` extra whole blocks — and
    returns SequenceHeader ‖ Body. -/
theorem verifyAndDecrypt_spec {S R : Side} (hp : Paired S R) (asym : Bool) (hm : S.mode ≠ .none)
    (henc : S.encrypts asym = true) (p : Parts) (h3 : p.msgType.length = 3) (k : Nat)
    (hps : paddingSize (suiteOf S) (sequenceHeader p ++ p.body).length k < countBound (suiteOf S).extraPadding) :
    ∃ w, secureChunk (suiteOf S) true true p k = some w ∧
      verifyAndDecrypt R asym (12 + p.secHeader.length) w = .ok (sequenceHeader p ++ p.body) := by
  obtain ⟨sg, c, h1, hsgl, hver, hdec⟩ := secureChunk_encrypted hp p k
  refine ⟨_, h1, ?_⟩
  have hH : (header p (12 + p.secHeader.length + c.length) ++ p.secHeader).length = 12 + p.secHeader.length := by
    simp [header_length p _ h3]
  have hRm : ¬ (R.mode = .none ∧ (R.policyNone = true ∨ asym = false)) := by
    rw [hp.mode]; exact fun h => hm h.1
  simp only [verifyAndDecrypt, if_neg hRm, hp.encrypts, henc, if_true]
  rw [if_neg (by simp only [List.length_append] at hH ⊢; omega)]
  rw [List.drop_left' hH, List.take_left' hH, hdec]
  simp only
  have := verifyTail_general hp asym _ _ (sequenceHeader p ++ p.body) _ sg hH hsgl
    (by simpa only [List.append_assoc] using hver)
    (by
      have := paddingOf_footer hp asym henc (header p (12 + p.secHeader.length + c.length) ++ p.secHeader ++ (sequenceHeader p ++ p.body)) _ hps
      simpa only [List.append_assoc] using this)
  simpa only [List.append_assoc] using this
/-- the suite a specification-following receiver uses for what side `R` receives -/
def recvSuiteOf (R : Side) : Suite :=
  { plainBlock := R.algo.plaintextBlockSize.toNat, cipherBlock := R.algo.blockSize.toNat,
    sigSize := R.algo.remoteSignatureLength.toNat, extraPadding := decide (R.algo.signatureLength > 256),
    crypto := R.crypto }

theorem sizeField_header (p : Parts) (v : Nat) (rest : Bytes) (h3 : p.msgType.length = 3) :
    leVal (((header p v ++ rest).drop 4).take 4) = v % 4294967296 := by
  obtain ⟨a, b, c, hm⟩ := len3 h3
  simp only [header, hm]
  simp [leBytes, leVal, UInt8.toNat_ofNat']; omega

/-- reading the footer from the end, as `openChunk` does -/
theorem footer_read (s : Suite) (X : Bytes) (ps : Nat) (hps : ps < countBound s.extraPadding) :
    readFooter s.extraPadding (X ++ footer s ps) = some (ps, if s.extraPadding then 2 else 1) := by
  simp only [readFooter]
  have hn : (X ++ footer s ps).length = X.length + (ps + 1 + if s.extraPadding then 1 else 0) := by
    simp only [List.length_append, footer_length]
  simp only [countBound] at hps
  by_cases hx : s.extraPadding = true
  · simp only [hx, if_true] at hps hn ⊢
    rw [if_neg (by omega)]
    have g1 : (X ++ footer s ps).getD ((X ++ footer s ps).length - 1) 0 = UInt8.ofNat (ps / 256) := by
      rw [hn]
      simp only [footer_eq, hx, if_true, List.getD_eq_getElem?_getD]
      rw [← List.append_assoc, List.getElem?_append_right (by simp)]
      have : X.length + (ps + 1 + 1) - 1 - (X ++ List.replicate (ps + 1) (UInt8.ofNat ps)).length = 0 := by simp
      rw [this]; rfl
    have g2 : (X ++ footer s ps).getD ((X ++ footer s ps).length - 2) 0 = UInt8.ofNat ps := by
      rw [hn]
      simp only [footer_eq, hx, if_true, List.getD_eq_getElem?_getD]
      rw [← List.append_assoc, List.getElem?_append_left (by simp; omega)]
      rw [List.getElem?_append_right (by omega), List.getElem?_replicate, if_pos (by omega)]
      rfl
    rw [g1, g2]
    simp only [UInt8.toNat_ofNat']
    congr 2; omega
  · simp only [hx, Bool.false_eq_true, if_false] at hps hn ⊢
    rw [if_neg (by omega)]
    have g1 : (X ++ footer s ps).getD ((X ++ footer s ps).length - 1) 0 = UInt8.ofNat ps := by
      rw [hn]
      simp only [footer_eq, hx, Bool.false_eq_true, if_false, List.append_nil, List.getD_eq_getElem?_getD]
      rw [List.getElem?_append_right (by omega), List.getElem?_replicate, if_pos (by omega)]
      rfl
    rw [g1]
    simp only [UInt8.toNat_ofNat']
    congr 2; omega

theorem stripFooter_footer (s : Suite) (X : Bytes) (ps : Nat) (hps : ps < countBound s.extraPadding) :
    stripFooter s.extraPadding (X ++ footer s ps) = some X := by
  have hl : (X ++ footer s ps).length - (ps + if s.extraPadding then 2 else 1) = X.length := by
    simp only [List.length_append, footer_length]; split <;> omega
  have hn : ¬ (X ++ footer s ps).length < ps + (if s.extraPadding then 2 else 1) := by
    simp only [List.length_append, footer_length]; split <;> omega
  simp only [stripFooter, footer_read s X ps hps]
  rw [if_neg hn, hl, List.drop_left' rfl, List.take_left' rfl]
  rw [footer_eq, List.take_left' (by simp)]
  simp

/-- SPEC RECEIVER ON SPEC CHUNK (encrypted).  A receiver that follows the
    specification opens every encrypted specification chunk (any `k`). -/
theorem openChunk_encrypted {S R : Side} (hp : Paired S R) (p : Parts) (h3 : p.msgType.length = 3) (k : Nat)
    (hps : paddingSize (suiteOf S) (sequenceHeader p ++ p.body).length k < countBound (suiteOf S).extraPadding) :
    ∃ w, secureChunk (suiteOf S) true true p k = some w ∧
      (w.length < 4294967296 →
        openChunk (recvSuiteOf R) true true (12 + p.secHeader.length) w = some (sequenceHeader p ++ p.body)) := by
  obtain ⟨sg, c, h1, hsgl, hver, hdec⟩ := secureChunk_encrypted hp p k
  refine ⟨_, h1, ?_⟩
  intro hsz
  have hH : (header p (12 + p.secHeader.length + c.length) ++ p.secHeader).length = 12 + p.secHeader.length := by
    simp [header_length p _ h3]
  have hwl : (header p (12 + p.secHeader.length + c.length) ++ p.secHeader ++ c).length = 12 + p.secHeader.length + c.length := by
    rw [List.length_append, hH]
  have hx : (recvSuiteOf R).extraPadding = (suiteOf S).extraPadding := by
    simp only [recvSuiteOf, suiteOf]
    by_cases h : S.algo.remoteSignatureLength > 256
    · simp [h, hp.extra.mpr h]
    · have h' : ¬ R.algo.signatureLength > 256 := fun h' => h (hp.extra.mp h')
      simp [h, h']
  obtain ⟨F, hF⟩ : ∃ F, F = footer (suiteOf S) (paddingSize (suiteOf S) (sequenceHeader p ++ p.body).length k) := ⟨_, rfl⟩
  rw [← hF] at hver hdec
  have hFr : F = footer (recvSuiteOf R) (paddingSize (suiteOf S) (sequenceHeader p ++ p.body).length k) := by
    rw [hF]; simp only [footer, hx]
  simp only [openChunk, Bool.not_true, Bool.false_and, Bool.false_eq_true, if_false, if_true]
  rw [if_neg (by rw [hwl]; omega)]
  rw [List.append_assoc, sizeField_header p _ _ h3, ← List.append_assoc, hwl, Nat.mod_eq_of_lt (by rw [hwl] at hsz; exact hsz)]
  simp only [ne_eq, not_true_eq_false, if_false]
  rw [List.drop_left' hH, List.take_left' hH]
  simp only [recvSuiteOf, hdec]
  have hsl : (sequenceHeader p ++ p.body ++ F ++ sg).length - R.algo.remoteSignatureLength.toNat =
      (sequenceHeader p ++ p.body ++ F).length := by
    rw [hp.rsl]; simp only [List.length_append]; omega
  have hlt : ¬ (sequenceHeader p ++ p.body ++ F ++ sg).length < R.algo.remoteSignatureLength.toNat := by
    rw [hp.rsl]; simp only [List.length_append]; omega
  simp only [hlt, if_false, hsl]
  rw [List.drop_left' rfl, List.take_left' rfl, hver]
  simp only [Bool.true_eq_false, if_false]
  have hps' : paddingSize (suiteOf S) (sequenceHeader p ++ p.body).length k < countBound (recvSuiteOf R).extraPadding := by
    rw [hx]; exact hps
  have hst := stripFooter_footer (recvSuiteOf R) (sequenceHeader p ++ p.body) _ hps'
  rw [← hFr] at hst
  simp only [recvSuiteOf] at hst
  exact hst

/-- SPEC RECEIVER ON SPEC CHUNK (signed only) -/
theorem openChunk_signed {S R : Side} (hp : Paired S R) (p : Parts) (h3 : p.msgType.length = 3) (k : Nat) :
    ∃ w, secureChunk (suiteOf S) true false p k = some w ∧
      (w.length < 4294967296 →
        openChunk (recvSuiteOf R) true false (12 + p.secHeader.length) w = some (sequenceHeader p ++ p.body)) := by
  obtain ⟨sz, hszd⟩ : ∃ sz, sz = 12 + p.secHeader.length + (sequenceHeader p ++ p.body).length + (suiteOf S).sigSize := ⟨_, rfl⟩
  obtain ⟨sg, hsign, hsgl, hver⟩ := hp.sign_ok (header p sz ++ p.secHeader ++ (sequenceHeader p ++ p.body))
  have hH : (header p sz ++ p.secHeader).length = 12 + p.secHeader.length := by simp [header_length p _ h3]
  refine ⟨header p sz ++ p.secHeader ++ (sequenceHeader p ++ p.body) ++ sg, ?_, ?_⟩
  · simp only [secureChunk, Bool.not_true, Bool.false_and, Bool.false_eq_true, if_false, Bool.not_false, if_true,
      ← hszd]
    have : (suiteOf S).crypto.sign = S.crypto.sign := rfl
    rw [this, hsign]
  · intro hlt
    have hwl : (header p sz ++ p.secHeader ++ (sequenceHeader p ++ p.body) ++ sg).length = sz := by
      rw [List.length_append, List.length_append, hH, hsgl, hszd]; simp only [suiteOf]
    have hle : ¬ (header p sz ++ p.secHeader ++ (sequenceHeader p ++ p.body) ++ sg).length < 12 + p.secHeader.length := by
      simp only [List.length_append] at hH ⊢; omega
    simp only [openChunk, Bool.not_true, Bool.false_and, Bool.false_eq_true, if_false, Bool.not_false, if_true]
    rw [if_neg hle]
    rw [List.append_assoc, List.append_assoc, sizeField_header p _ _ h3, ← List.append_assoc, ← List.append_assoc, hwl,
      Nat.mod_eq_of_lt (by rw [hwl] at hlt; exact hlt)]
    simp only [ne_eq, not_true_eq_false, if_false]
    rw [List.append_assoc (header p sz ++ p.secHeader), List.drop_left' hH, List.take_left' hH]
    simp only [recvSuiteOf]
    have hsl : (sequenceHeader p ++ p.body ++ sg).length - R.algo.remoteSignatureLength.toNat =
        (sequenceHeader p ++ p.body).length := by
      rw [hp.rsl]; simp only [List.length_append]; omega
    have hlt2 : ¬ (sequenceHeader p ++ p.body ++ sg).length < R.algo.remoteSignatureLength.toNat := by
      rw [hp.rsl]; simp only [List.length_append]; omega
    simp only [hlt2, if_false, hsl]
    rw [List.drop_left' rfl, List.take_left' rfl, hver]
    simp

/-- SPEC RECEIVER ON SPEC CHUNK (no security) -/
theorem openChunk_plain (s r : Suite) (p : Parts) (h3 : p.msgType.length = 3) (k : Nat) :
    ∃ w, secureChunk s false false p k = some w ∧
      (w.length < 4294967296 →
        openChunk r false false (12 + p.secHeader.length) w = some (sequenceHeader p ++ p.body)) := by
  refine ⟨_, rfl, ?_⟩
  intro hlt
  have hH : (header p (12 + p.secHeader.length + (sequenceHeader p ++ p.body).length) ++ p.secHeader).length =
      12 + p.secHeader.length := by simp [header_length p _ h3]
  have hwl : (header p (12 + p.secHeader.length + (sequenceHeader p ++ p.body).length) ++ p.secHeader ++
      (sequenceHeader p ++ p.body)).length = 12 + p.secHeader.length + (sequenceHeader p ++ p.body).length := by
    rw [List.length_append, hH]
  simp only [openChunk, Bool.not_false, Bool.and_self, if_true]
  rw [if_neg (by rw [hwl]; omega)]
  rw [List.append_assoc, sizeField_header p _ _ h3, ← List.append_assoc, hwl, Nat.mod_eq_of_lt (by rw [hwl] at hlt; exact hlt)]
  simp only [ne_eq, not_true_eq_false, if_false]
  rw [List.drop_left' hH]
theorem minimal_fits {S R : Side} (hp : Paired S R) (n : Nat) :
    paddingSize (suiteOf S) n 0 < countBound (suiteOf S).extraPadding := by
  rw [paddingSize_zero S n hp.pbs_pos]
  have h1 := paddingLength_lt S n hp.pbs_pos
  have h2 := hp.pad_fits
  simp only [countBound, suiteOf, decide_eq_true_eq]
  by_cases hx : S.algo.remoteSignatureLength > 256
  · simp only [hx, if_true] at h2 ⊢; omega
  · simp only [hx, if_false] at h2 ⊢; omega

/-- CONFORMANCE of one protected chunk (mode Sign or SignAndEncrypt, symmetric
    or asymmetric): what `signAndEncrypt` emits IS the specification's chunk, a
    specification-following receiver opens it, and `verifyAndDecrypt` opens it. -/
theorem conformance {S R : Side} (hp : Paired S R) (asym : Bool) (hm : S.mode ≠ .none)
    (p : Parts) (h3 : p.msgType.length = 3) :
    ∃ w, signAndEncrypt S asym (12 + p.secHeader.length) (rawChunk p) = .ok w ∧
      secureChunk (suiteOf S) true (S.encrypts asym) p 0 = some w ∧
      (w.length < 4294967296 →
        openChunk (recvSuiteOf R) true (S.encrypts asym) (12 + p.secHeader.length) w = some (sequenceHeader p ++ p.body)) ∧
      verifyAndDecrypt R asym (12 + p.secHeader.length) w = .ok (sequenceHeader p ++ p.body) := by
  have hlay := signAndEncrypt_eq_spec S asym p h3 hp.pbs_pos
  have hm' : decide (S.mode ≠ .none) = true := by simp [hm]
  rw [hm', Bool.true_and] at hlay
  have hraw : (rawChunk p).drop (12 + p.secHeader.length) = sequenceHeader p ++ p.body := by
    have hH : (header p (12 + p.secHeader.length + 8 + p.body.length) ++ p.secHeader).length = 12 + p.secHeader.length := by
      simp [header_length p _ h3]
    simp only [rawChunk, List.append_assoc]
    rw [← List.append_assoc, List.drop_left' hH]
  have hrl : 12 + p.secHeader.length ≤ (rawChunk p).length := by
    simp [rawChunk, header_length p _ h3]
  obtain ⟨q, -, hs, hv⟩ := secure_roundtrip hp asym (12 + p.secHeader.length) (by omega) (rawChunk p) hrl hm
  rw [hraw] at hv
  by_cases henc : S.encrypts asym = true
  · obtain ⟨w, hw, ho⟩ := openChunk_encrypted hp p h3 0 (minimal_fits hp _)
    rw [henc] at hlay ⊢
    rw [hw, toRes] at hlay
    rw [hs] at hlay
    cases hlay
    exact ⟨_, hs, hw, ho, hv⟩
  · have henc' : S.encrypts asym = false := by simpa using henc
    obtain ⟨w, hw, ho⟩ := openChunk_signed hp p h3 0
    rw [henc'] at hlay ⊢
    rw [hw, toRes] at hlay
    rw [hs] at hlay
    cases hlay
    exact ⟨_, hs, hw, ho, hv⟩
end Opcua.Spec
