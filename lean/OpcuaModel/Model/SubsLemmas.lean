import OpcuaModel.Model.Subs
/-
  Lemmas about the subscription model (used by Props/C26.lean).
-/
namespace Opcua.Subs

/-! ### acknowledgements -/

theorem keepNotAcked_sublist : ∀ (p : List Ack) (r : List AckRes), (keepNotAcked p r).Sublist p
  | [], _ => by simp [keepNotAcked]
  | _ :: _, [] => by simp [keepNotAcked]
  | a :: as, r :: rs => by
    unfold keepNotAcked
    split
    · exact (keepNotAcked_sublist as rs).cons_cons a
    · exact (keepNotAcked_sublist as rs).cons a

theorem handleAcks_sublist (p : List Ack) (r : List AckRes) : (handleAcks p r).Sublist p := by
  unfold handleAcks
  split
  · cases r <;> simp [keepNotAcked]
  · exact keepNotAcked_sublist p r

theorem mem_keepNotAcked_iff : ∀ (p : List Ack) (r : List AckRes) (a : Ack),
    a ∈ keepNotAcked p r ↔ ∃ i, ∃ (h₁ : i < p.length) (h₂ : i < r.length), p[i] = a ∧ r[i].retry = true
  | [], _, a => by simp [keepNotAcked]
  | _ :: _, [], a => by simp [keepNotAcked]
  | x :: xs, y :: ys, a => by
    unfold keepNotAcked
    have ih := mem_keepNotAcked_iff xs ys a
    constructor
    · intro h
      by_cases hy : y.retry = true
      · simp only [hy, if_true, List.mem_cons] at h
        rcases h with h | h
        · exact ⟨0, by simp, by simp, by simp [h], by simpa using hy⟩
        · obtain ⟨i, h₁, h₂, h₃, h₄⟩ := ih.mp h
          exact ⟨i + 1, by simpa using h₁, by simpa using h₂, by simpa using h₃, by simpa using h₄⟩
      · simp only [hy] at h
        obtain ⟨i, h₁, h₂, h₃, h₄⟩ := ih.mp (by simpa using h)
        exact ⟨i + 1, by simpa using h₁, by simpa using h₂, by simpa using h₃, by simpa using h₄⟩
    · rintro ⟨i, h₁, h₂, h₃, h₄⟩
      cases i with
      | zero =>
        simp only [List.getElem_cons_zero] at h₃ h₄
        simp [h₄, h₃]
      | succ i =>
        simp only [List.getElem_cons_succ] at h₃ h₄
        have : a ∈ keepNotAcked xs ys :=
          ih.mpr ⟨i, by simpa using h₁, by simpa using h₂, h₃, h₄⟩
        by_cases hy : y.retry = true
        · simp [hy, this]
        · simp [hy, this]

theorem mem_handleAcks_iff {p : List Ack} {r : List AckRes} (hl : p.length = r.length) (a : Ack) :
    a ∈ handleAcks p r ↔ ∃ i, ∃ (h₁ : i < p.length) (h₂ : i < r.length), p[i] = a ∧ r[i].retry = true := by
  unfold handleAcks
  have hn : ¬ (p.length ≠ r.length) := by simp [hl]
  rw [if_neg hn]
  exact mem_keepNotAcked_iff p r a

theorem keepNotAcked_all_final : ∀ (p : List Ack) (r : List AckRes),
    r.all (fun x => !x.retry) = true → keepNotAcked p r = []
  | [], _, _ => by simp [keepNotAcked]
  | _ :: _, [], _ => by simp [keepNotAcked]
  | x :: xs, y :: ys, h => by
    simp only [List.all_cons, Bool.and_eq_true, Bool.not_eq_true'] at h
    unfold keepNotAcked
    simp [h.1, keepNotAcked_all_final xs ys h.2]

theorem handleAcks_all_final (p : List Ack) (r : List AckRes)
    (h : r.all (fun x => !x.retry) = true) : handleAcks p r = [] := by
  unfold handleAcks
  exact keepNotAcked_all_final _ r h

@[simp] theorem findSub_setSub_pending (c : Client) (p : List Ack) :
    ({ c with pending := p } : Client).subs = c.subs := rfl

theorem received_mem_next {c : Client} {e : PubEvent} {a : Ack} (h : received c e = some a) :
    a ∈ requestAcks (onEvent c e) := by
  cases e with
  | err => simp [received] at h
  | resp r =>
    simp only [received] at h
    simp only [onEvent, onResponse, requestAcks]
    cases hf : findSub c.subs r.sub with
    | none => simp [hf] at h
    | some s =>
      simp only [hf] at h ⊢
      by_cases hn : r.ndata = 0
      · simp [hn] at h
      · simp only [hn, if_false, Option.some.injEq] at h
        simp [handleNotification, hn, h]

theorem requests_errors (c : Client) : ∀ n, requests c (List.replicate n .err) = List.replicate n c.pending
  | 0 => rfl
  | n + 1 => by
    simp only [List.replicate_succ, requests, onEvent, requestAcks, requests_errors c n]

theorem kept_on_errors {c : Client} {a : Ack} {n : Nat} (h : a ∈ requestAcks c) :
    ∀ r ∈ requests c (List.replicate n .err), a ∈ r := by
  intro r hr
  rw [requests_errors] at hr
  rw [List.eq_of_mem_replicate hr]
  exact h

theorem exactly_once {c : Client} {e : PubEvent} (hw : wellAnswered c e = true) :
    requestAcks (onEvent c e) = (received c e).toList := by
  cases e with
  | err => simp [wellAnswered] at hw
  | resp r =>
    simp only [wellAnswered, Bool.and_eq_true] at hw
    have h0 : handleAcks c.pending r.results = [] := handleAcks_all_final _ _ hw.2
    simp only [onEvent, onResponse, requestAcks, received, h0]
    cases hf : findSub c.subs r.sub with
    | none => simp
    | some s =>
      by_cases hn : r.ndata = 0
      · simp [handleNotification, hn]
      · simp [handleNotification, hn]

/-- the states a history passes through, each paired with the event it handles next -/
def statesOf : Client → List PubEvent → List (Client × PubEvent)
  | _, [] => []
  | c, e :: es => (c, e) :: statesOf (onEvent c e) es

theorem pending_onEvent {c : Client} {e : PubEvent} {x : Ack} (h : x ∈ (onEvent c e).pending) :
    x ∈ c.pending ∨ received c e = some x := by
  cases e with
  | err => exact Or.inl h
  | resp r =>
    simp only [onEvent, onResponse] at h
    simp only [received]
    cases hf : findSub c.subs r.sub with
    | none =>
      simp only [hf] at h
      exact Or.inl ((handleAcks_sublist _ _).subset h)
    | some s =>
      simp only [hf] at h
      by_cases hn : r.ndata = 0
      · simp only [handleNotification, hn, if_true] at h
        exact Or.inl ((handleAcks_sublist _ _).subset h)
      · simp only [handleNotification, hn, if_false, List.mem_append, List.mem_singleton] at h
        rcases h with h | h
        · exact Or.inl ((handleAcks_sublist _ _).subset h)
        · right; simp [hn, h]

theorem absent_stays_absent {a : Ack} : ∀ (es : List PubEvent) (c : Client), a ∉ c.pending →
    (∀ c' e', (c', e') ∈ statesOf c es → received c' e' ≠ some a) →
    ∀ r ∈ requests c es, a ∉ r
  | [], _, _, _ => by simp [requests]
  | e :: es, c, hc, hl => by
    intro r hr
    simp only [requests, List.mem_cons] at hr
    rcases hr with rfl | hr
    · exact hc
    · have hc' : a ∉ (onEvent c e).pending := by
        intro hmem
        rcases pending_onEvent hmem with h | h
        · exact hc h
        · exact hl c e (by simp [statesOf]) h
      exact absent_stays_absent es (onEvent c e) hc'
        (fun c' e' hm => hl c' e' (by simp [statesOf, hm])) r hr

theorem never_again {c : Client} {e : PubEvent} {es : List PubEvent} {a : Ack}
    (hw : wellAnswered c e = true) (_hin : a ∈ requestAcks c)
    (hnew : received c e ≠ some a)
    (hlater : ∀ c' e', (c', e') ∈ statesOf (onEvent c e) es → received c' e' ≠ some a) :
    ∀ r ∈ requests (onEvent c e) es, a ∉ r := by
  have h1 : a ∉ (onEvent c e).pending := by
    have := exactly_once hw
    simp only [requestAcks] at this
    rw [this]
    intro hm
    cases hr : received c e with
    | none => simp [hr] at hm
    | some b =>
      simp only [hr, Option.toList_some, List.mem_singleton] at hm
      exact hnew (by rw [hr, hm])
  exact absent_stays_absent es _ h1 hlater

/-! ### reconnect -/

theorem step_mem_targets {m m' : Mon} {o : Out} (h : step m o = some m') :
    m'.action ∈ targets m.action := by
  unfold step at h
  split at h
  · simp only [Option.some.injEq] at h; subst h; simp [targets, *]
  · split at h
    · simp only [Option.some.injEq] at h; subst h; simp [targets, *]
    · split at h
      · simp only [Option.some.injEq] at h; subst h; simp [targets, *]
      · split at h
        · simp only [Option.some.injEq] at h; subst h; simp [targets, *]
        · simp only [Option.some.injEq] at h; subst h; simp [targets, *]
  · split at h
    · simp only [Option.some.injEq] at h; subst h; simp [targets, *]
    · split at h
      · simp only [Option.some.injEq] at h; subst h; simp [targets, *]
      · split at h
        · simp only [Option.some.injEq] at h; subst h; simp [targets, *]
        · simp only [Option.some.injEq] at h; subst h; simp [targets, *]
  · split at h
    · simp only [Option.some.injEq] at h; subst h; simp [targets, *]
    · simp at h
  · split at h
    · simp only [Option.some.injEq] at h; subst h; simp [targets, *]
    · simp at h
  · simp at h

theorem recreateAll_nil (subs : List CSub) (os : List Recreate) (n : Nat) :
    recreateAll subs [] os n = (subs, n) := by
  cases os <;> simp [recreateAll]

theorem republishAll_nil (oks : List Bool) : republishAll [] oks = [] := by
  cases oks <;> simp [republishAll]

theorem restore_empty {m m' : Mon} {rep : List Bool} {rec : List Recreate}
    (ha : m.action = .restoreSubscriptions) (h1 : m.toRepublish = []) (h2 : m.toRecreate = [])
    (hs : step m (.restoreSubsRes rep rec) = some m') :
    m'.connected = true ∧ m'.action = .none ∧ m'.subs = m.subs ∧ m'.activeSubs = 0 ∧
    (m.subs ≠ [] → (finish m').loop = .running) ∧ (m.subs = [] → (finish m').loop = m.loop) := by
  unfold step at hs
  simp only [ha, h1, h2, List.length_nil] at hs
  split at hs
  · simp only [republishAll_nil, List.append_nil, recreateAll_nil, Option.some.injEq] at hs
    subst hs
    refine ⟨rfl, rfl, rfl, rfl, ?_, ?_⟩
    · intro hne; simp [finish, hne]
    · intro he; simp [finish, he]
  · simp at hs

/-- whenever the reconnect code finishes with a registered subscription, the loop runs -/
theorem finish_running {m : Mon} (h : m.subs ≠ []) : (finish m).loop = .running := by
  simp [finish, h]

theorem republishAll_all_ok : ∀ (ids : List Nat), republishAll ids (ids.map fun _ => true) = []
  | [] => rfl
  | _ :: ids => by simp [republishAll, republishAll_all_ok ids]

theorem restore_republish_ok {m m' : Mon}
    (ha : m.action = .restoreSubscriptions) (h2 : m.toRecreate = [])
    (hne : m.toRepublish ≠ [])
    (hs : step m (.restoreSubsRes (m.toRepublish.map fun _ => true) []) = some m') :
    m'.connected = true ∧ (finish m').loop = .running ∧ m'.subs = m.subs ∧
    m'.activeSubs = m.toRepublish.length := by
  unfold step at hs
  simp only [ha, h2, List.length_map, if_true, republishAll_all_ok, List.append_nil,
    recreateAll_nil, Option.some.injEq] at hs
  subst hs
  have : 0 < m.toRepublish.length := List.length_pos_iff.mpr hne
  simp [finish, this]

/-- each new id is non-zero and differs from the ids still waiting to be recreated
    and from the new ids handed out before -/
def Fresh : List Nat → List Nat → List Nat → Prop
  | _ :: ids, n :: ns, acc => n ≠ 0 ∧ n ∉ ids ∧ n ∉ acc ∧ Fresh ids ns (acc ++ [n])
  | _, _, _ => True

theorem find_erase_perm : ∀ (subs : List CSub) (id : Nat), id ∈ subs.map (·.id) → (subs.map (·.id)).Nodup →
    ∃ s, subs.find? (·.id == id) = some s ∧ s.id = id ∧ subs.Perm (s :: eraseId subs id)
  | [], _, h, _ => by simp at h
  | x :: xs, id, h, hnd => by
    simp only [List.map_cons, List.nodup_cons] at hnd
    by_cases hx : x.id = id
    · refine ⟨x, by simp [hx], hx, ?_⟩
      have : eraseId (x :: xs) id = xs := by
        unfold eraseId
        rw [List.filter_cons]
        have hno : ∀ y ∈ xs, (y.id != id) = true := by
          intro y hy
          have : y.id ≠ id := by
            intro he
            exact hnd.1 (by rw [hx, ← he]; exact List.mem_map_of_mem hy)
          simpa using this
        simp [hx, List.filter_eq_self.mpr hno]
      rw [this]
    · have hmem : id ∈ xs.map (·.id) := by
        simp only [List.map_cons, List.mem_cons] at h
        rcases h with h | h
        · exact absurd h.symm hx
        · exact h
      obtain ⟨s, hf, hid, hp⟩ := find_erase_perm xs id hmem hnd.2
      refine ⟨s, by simp [hx, hf], hid, ?_⟩
      have : eraseId (x :: xs) id = x :: eraseId xs id := by
        unfold eraseId
        simp [hx]
      rw [this]
      exact (List.Perm.cons x hp).trans (List.Perm.swap s x _)

theorem hasId_false_iff (subs : List CSub) (n : Nat) : hasId subs n = false ↔ n ∉ subs.map (·.id) := by
  simp only [hasId, List.any_eq_false, beq_iff_eq, List.mem_map, not_exists, not_and]

theorem recreateAll_ok : ∀ (ids nids acc : List Nat) (subs : List CSub) (n : Nat),
    (subs.map (·.id)).Perm (ids ++ acc) → (ids ++ acc).Nodup → ids.length = nids.length →
    Fresh ids nids acc →
    ∃ subs', recreateAll subs ids (nids.map fun k => .created k true) n = (subs', n + ids.length) ∧
      (subs'.map (·.id)).Perm (acc ++ nids) ∧ (subs'.map (·.items)).Perm (subs.map (·.items))
  | [], nids, acc, subs, n, hp, _, hl, _ => by
    have : nids = [] := List.length_eq_zero_iff.mp hl.symm
    subst this
    exact ⟨subs, by simp [recreateAll], by simpa using hp, List.Perm.refl _⟩
  | id :: ids, [], _, _, _, _, _, hl, _ => by simp at hl
  | id :: ids, nid :: nids, acc, subs, n, hp, hnd, hl, hf => by
    obtain ⟨hz, hni, hna, hf'⟩ := hf
    have hnds : (subs.map (·.id)).Nodup := hp.symm.nodup hnd
    have hidmem : id ∈ subs.map (·.id) := hp.symm.mem_iff.mp (by simp)
    obtain ⟨s, hfind, hsid, hperm⟩ := find_erase_perm subs id hidmem hnds
    -- ids of the registry after forgetting `id`
    have hp1 : ((eraseId subs id).map (·.id)).Perm (ids ++ acc) := by
      have h1 : (subs.map (·.id)).Perm (s.id :: (eraseId subs id).map (·.id)) := by
        simpa using hperm.map (·.id)
      rw [hsid] at h1
      have h2 : (id :: (eraseId subs id).map (·.id)).Perm (id :: (ids ++ acc)) :=
        h1.symm.trans (by simpa using hp)
      exact (List.perm_cons id).mp h2
    have hnd1 : (ids ++ acc).Nodup := by
      have : (id :: (ids ++ acc)).Nodup := by simpa using hnd
      exact (List.nodup_cons.mp this).2
    have hnid : nid ∉ (eraseId subs id).map (·.id) := by
      intro h
      have := hp1.mem_iff.mp h
      simp only [List.mem_append] at this
      rcases this with h | h
      · exact hni h
      · exact hna h
    have hhas : hasId (eraseId subs id) nid = false := (hasId_false_iff _ _).mpr hnid
    -- invariants of the next round
    have hp2 : (((eraseId subs id) ++ [(⟨nid, s.items⟩ : CSub)]).map (·.id)).Perm (ids ++ (acc ++ [nid])) := by
      simp only [List.map_append, List.map_cons, List.map_nil]
      rw [← List.append_assoc]
      exact List.Perm.append_right _ hp1
    have hnd2 : (ids ++ (acc ++ [nid])).Nodup := by
      rw [← List.append_assoc]
      rw [List.nodup_append]
      refine ⟨hnd1, by simp, ?_⟩
      intro a ha b hb
      simp only [List.mem_singleton] at hb
      subst hb
      intro he
      subst he
      simp only [List.mem_append] at ha
      rcases ha with h | h
      · exact hni h
      · exact hna h
    obtain ⟨subs', hrec, hpid, hpit⟩ :=
      recreateAll_ok ids nids (acc ++ [nid]) ((eraseId subs id) ++ [(⟨nid, s.items⟩ : CSub)]) (n + 1)
        hp2 hnd2 (by simpa using hl) hf'
    refine ⟨subs', ?_, ?_, ?_⟩
    · simp only [List.map_cons, recreateAll, recreateOne, hfind, hz, hhas, false_or, if_true,
        Bool.false_eq_true, if_false]
      rw [hrec]
      simp only [List.length_cons, Prod.mk.injEq, true_and]
      omega
    · simpa [List.append_assoc] using hpid
    · refine hpit.trans ?_
      have h3 : (subs.map (·.items)).Perm (s.items :: (eraseId subs id).map (·.items)) := by
        simpa using hperm.map (·.items)
      simp only [List.map_append, List.map_cons, List.map_nil]
      exact (List.perm_append_singleton _ _).trans h3.symm

theorem restore_recreate_ok {m m' : Mon} {nids : List Nat}
    (ha : m.action = .restoreSubscriptions) (h1 : m.toRepublish = [])
    (hperm : m.toRecreate.Perm (m.subs.map (·.id))) (hnd : (m.subs.map (·.id)).Nodup)
    (hlen : nids.length = m.toRecreate.length)
    (hfresh : Fresh m.toRecreate nids [])
    (hne : m.subs ≠ [])
    (hs : step m (.restoreSubsRes [] (nids.map fun n => .created n true)) = some m') :
    m'.connected = true ∧ (finish m').loop = .running ∧ m'.activeSubs = m.subs.length ∧
    (m'.subs.map (·.items)).Perm (m.subs.map (·.items)) ∧ (m'.subs.map (·.id)).Perm nids := by
  unfold step at hs
  simp only [ha, h1, List.length_nil, if_true, republishAll_nil, List.append_nil] at hs
  obtain ⟨subs', hrec, hpid, hpit⟩ := recreateAll_ok m.toRecreate nids [] m.subs 0
    (by simpa using hperm.symm) (by simpa using hperm.symm.nodup hnd) hlen.symm hfresh
  rw [hrec] at hs
  simp only [Option.some.injEq] at hs
  subst hs
  have hl : m.toRecreate.length = m.subs.length := by simpa using hperm.length_eq
  have hpos : 0 < m.subs.length := List.length_pos_iff.mpr hne
  refine ⟨rfl, ?_, by simp [hl], hpit, by simpa using hpid⟩
  simp [finish, hl, hpos]

theorem transfer_covers {m m' : Mon} {ids : List Nat} {r : Transfer}
    (hr : ∀ bad, r = .results bad → bad.length = ids.length)
    (hs : step m (.transferRes ids r) = some m') :
    (m'.toRepublish ++ m'.toRecreate).Perm ids ∧ ids.length = m.subs.length ∧
    (∀ s ∈ m.subs, s.id ∈ ids) := by
  unfold step at hs
  cases hm : m.action
  all_goals (try (simp [hm] at hs; done))
  simp only [hm] at hs
  split at hs
  · rename_i hc
    simp only [Option.some.injEq] at hs
    subst hs
    refine ⟨?_, hc.1, ?_⟩
    · cases r with
      | unsupported => simp [transferLists]
      | failed => simp [transferLists]
      | results bad =>
        have hb := hr bad rfl
        simp only [transferLists]
        have h1 : ((ids.zip bad).filter (fun p => !p.2) ++ (ids.zip bad).filter (fun p => p.2)).Perm (ids.zip bad) := by
          have := List.filter_append_perm (fun p : Nat × Bool => !p.2) (ids.zip bad)
          simpa using this
        have h2 := h1.map (·.1)
        simp only [List.map_append] at h2
        rw [List.map_fst_zip (by omega)] at h2
        exact h2
    · intro s hs'
      have := hc.2.2
      simp only [List.all_eq_true] at this
      simpa using this s hs'
  · simp at hs

end Opcua.Subs
