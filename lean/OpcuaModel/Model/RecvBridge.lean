import OpcuaModel.Model.Chunk
import OpcuaModel.Model.ChunkMsg
/-
  Reassembly over interleavings for the byte-level stack model of C07
  (`Model/Chunk.lean`: `readChunk`, `receiveStep`, `sendSession`).

  `Chunk.receiveStep` touches only the table entry of the request id the chunk
  carries (`receiveStep_ok`); hence chunk streams whose request ids are
  disjoint do not interfere (`noninterference`): the results `Receive` produces
  for the chunks of one stream inside ANY interleaving are the results it
  produces for that stream alone.  Together with `Chunk.session_roundtrip`
  this gives `Props.C12.C12_stack_interleaved`.

  This is the bridge in the form that does not need `Recv`'s own chunk/table
  representation: the non-interference argument of `Recv.step_get_other` /
  `Spec.run_spec` is redone on `Chunk.Table` (a function, so the table lemmas
  are one-liners).  See notes/C12.md for the list of representation differences.
-/
namespace Opcua.RecvBridge
open Opcua Opcua.Chunk

/-- the request id a wire chunk carries, as `readChunk` sees it -/
def reqOf (insts : Nat → List Side) (w : Bytes) : Option Nat :=
  match readChunk insts w with
  | .ok (some c) => some c.requestID
  | _ => none

/-- the loop body of `Receive` on the buffer of the chunk's request id -/
def core (lim : Limits) (l : List RChunk) (c : RChunk) : List RChunk × Option (Res MsgOut) :=
  if c.chunkType = chunkA then ([], some .err)
  else if c.chunkType = chunkC then
    if lim.maxChunkCount ≠ 0 ∧ (l ++ [c]).length % 4294967296 > lim.maxChunkCount then ([], some .err)
    else (l ++ [c], none)
  else
    if lim.maxMessageSize ≠ 0 ∧ (mergeChunks (l ++ [c])).length % 4294967296 > lim.maxMessageSize then ([], some .err)
    else ([], some (.ok { requestID := c.requestID, channelID := c.channelID, body := mergeChunks (l ++ [c]) }))

theorem receiveStep_ok (insts : Nat → List Side) (lim : Limits) (t : Table) (w : Bytes) (c : RChunk)
    (h : readChunk insts w = .ok (some c)) :
    receiveStep insts lim t w = (t.set c.requestID (core lim (t c.requestID) c).1, (core lim (t c.requestID) c).2) := by
  unfold receiveStep core
  rw [h]
  simp only
  split
  · rfl
  · split
    · split <;> rfl
    · split <;> rfl

theorem receiveStep_none (insts : Nat → List Side) (lim : Limits) (t t' : Table) (w : Bytes)
    (h : reqOf insts w = none) :
    (receiveStep insts lim t w).1 = t ∧ (receiveStep insts lim t w).2 = (receiveStep insts lim t' w).2 := by
  unfold reqOf at h
  unfold receiveStep
  cases hr : readChunk insts w with
  | err => simp
  | panic => simp
  | ok o =>
    cases o with
    | none => simp
    | some c => rw [hr] at h; cases h

def Agree (P : Nat → Prop) (t t' : Table) : Prop := ∀ r, P r → t r = t' r

/-- a chunk of "our" stream: same result on tables that agree on our request ids, and they still agree -/
theorem step_own (insts : Nat → List Side) (lim : Limits) (P : Nat → Prop) (t t' : Table) (w : Bytes)
    (hw : ∀ r, reqOf insts w = some r → P r) (ha : Agree P t t') :
    (receiveStep insts lim t w).2 = (receiveStep insts lim t' w).2 ∧
    Agree P (receiveStep insts lim t w).1 (receiveStep insts lim t' w).1 := by
  cases hr : readChunk insts w with
  | ok o =>
    cases o with
    | some c =>
      have hP : P c.requestID := hw c.requestID (by simp [reqOf, hr])
      rw [receiveStep_ok insts lim t w c hr, receiveStep_ok insts lim t' w c hr, ha _ hP]
      refine ⟨rfl, ?_⟩
      intro r hPr
      simp only [Table.set]
      split
      · rfl
      · exact ha r hPr
    | none =>
      have hn : reqOf insts w = none := by simp [reqOf, hr]
      obtain ⟨h1, h2⟩ := receiveStep_none insts lim t t' w hn
      obtain ⟨h1', _⟩ := receiveStep_none insts lim t' t w hn
      exact ⟨h2, by rw [h1, h1']; exact ha⟩
  | err =>
    have hn : reqOf insts w = none := by simp [reqOf, hr]
    obtain ⟨h1, h2⟩ := receiveStep_none insts lim t t' w hn
    obtain ⟨h1', _⟩ := receiveStep_none insts lim t' t w hn
    exact ⟨h2, by rw [h1, h1']; exact ha⟩
  | panic =>
    have hn : reqOf insts w = none := by simp [reqOf, hr]
    obtain ⟨h1, h2⟩ := receiveStep_none insts lim t t' w hn
    obtain ⟨h1', _⟩ := receiveStep_none insts lim t' t w hn
    exact ⟨h2, by rw [h1, h1']; exact ha⟩

/-- a chunk of another stream leaves our request ids alone -/
theorem step_foreign (insts : Nat → List Side) (lim : Limits) (P : Nat → Prop) (t t' : Table) (w : Bytes)
    (hw : ∀ r, reqOf insts w = some r → ¬ P r) (ha : Agree P t t') :
    Agree P (receiveStep insts lim t w).1 t' := by
  cases hr : readChunk insts w with
  | ok o =>
    cases o with
    | some c =>
      have hP : ¬ P c.requestID := hw c.requestID (by simp [reqOf, hr])
      rw [receiveStep_ok insts lim t w c hr]
      intro r hPr
      simp only [Table.set]
      split
      · rename_i e; rw [e] at hPr; exact absurd hPr hP
      · exact ha r hPr
    | none =>
      rw [(receiveStep_none insts lim t t' w (by simp [reqOf, hr])).1]; exact ha
  | err => rw [(receiveStep_none insts lim t t' w (by simp [reqOf, hr])).1]; exact ha
  | panic => rw [(receiveStep_none insts lim t t' w (by simp [reqOf, hr])).1]; exact ha

/-- what the loop of `Receive` produces for every chunk of a stream (`none` = `continue`) -/
def outs (insts : Nat → List Side) (lim : Limits) : Table → List Bytes → List (Option (Res MsgOut))
  | _, [] => []
  | t, w :: ws => (receiveStep insts lim t w).2 :: outs insts lim (receiveStep insts lim t w).1 ws

/-- the same for a stream whose chunks are tagged with the stream they belong to -/
def outsTagged (insts : Nat → List Side) (lim : Limits) : Table → List (Nat × Bytes) → List (Nat × Option (Res MsgOut))
  | _, [] => []
  | t, x :: xs => (x.1, (receiveStep insts lim t x.2).2) :: outsTagged insts lim (receiveStep insts lim t x.2).1 xs

/-- the chunks of stream `k` of a tagged interleaving, in order -/
def stream (k : Nat) (s : List (Nat × Bytes)) : List Bytes := (s.filter (fun x => x.1 == k)).map (·.2)

/-- NON-INTERFERENCE.  `P` = the request ids of stream `k`: its chunks carry ids in
    `P`, the chunks of all other streams carry ids outside `P`.  Then inside any
    interleaving the results for the chunks of stream `k` are exactly the results
    of running stream `k` alone, from any table that agrees on `P`. -/
theorem noninterference (insts : Nat → List Side) (lim : Limits) (k : Nat) (P : Nat → Prop)
    (s : List (Nat × Bytes)) (t t' : Table)
    (hown : ∀ x ∈ s, x.1 = k → ∀ r, reqOf insts x.2 = some r → P r)
    (hfor : ∀ x ∈ s, x.1 ≠ k → ∀ r, reqOf insts x.2 = some r → ¬ P r)
    (ha : Agree P t t') :
    ((outsTagged insts lim t s).filter (fun o => o.1 == k)).map (·.2) = outs insts lim t' (stream k s) := by
  induction s generalizing t t' with
  | nil => rfl
  | cons x xs ih =>
    have hown' : ∀ y ∈ xs, y.1 = k → ∀ r, reqOf insts y.2 = some r → P r :=
      fun y hy => hown y (List.mem_cons_of_mem _ hy)
    have hfor' : ∀ y ∈ xs, y.1 ≠ k → ∀ r, reqOf insts y.2 = some r → ¬ P r :=
      fun y hy => hfor y (List.mem_cons_of_mem _ hy)
    by_cases hk : x.1 = k
    · obtain ⟨h1, h2⟩ := step_own insts lim P t t' x.2 (hown x (List.mem_cons_self ..) hk) ha
      have hb : (x.1 == k) = true := by simp [hk]
      simp only [outsTagged, stream, List.filter_cons, hb, if_true, List.map_cons, outs]
      rw [h1]
      congr 1
      exact ih _ _ hown' hfor' h2
    · have h2 := step_foreign insts lim P t t' x.2 (hfor x (List.mem_cons_self ..) hk) ha
      have hb : (x.1 == k) = false := by simp [hk]
      simp only [outsTagged, stream, List.filter_cons, hb, Bool.false_eq_true, if_false]
      exact ih _ _ hown' hfor' h2

/-- `Receive` called again and again returns exactly the non-`continue` results of the loop -/
theorem receiveMany_eq_outs (insts : Nat → List Side) (lim : Limits) :
    ∀ (fuel : Nat) (t : Table) (ws : List Bytes), ws.length ≤ fuel →
      receiveMany insts lim fuel t ws = (outs insts lim t ws).filterMap id := by
  -- receiveAll skips the leading `continue`s
  have hall : ∀ (ws : List Bytes) (t : Table),
      (∀ t' r rest, receiveAll insts lim t ws = (t', some r, rest) →
        (outs insts lim t ws).filterMap id = r :: (outs insts lim t' rest).filterMap id ∧ rest.length < ws.length) ∧
      (∀ t' rest, receiveAll insts lim t ws = (t', none, rest) → (outs insts lim t ws).filterMap id = []) := by
    intro ws
    induction ws with
    | nil =>
      intro t
      refine ⟨fun t' r rest h => ?_, fun t' rest _ => rfl⟩
      simp [receiveAll] at h
    | cons w ws ih =>
      intro t
      cases hs : receiveStep insts lim t w with
      | mk t1 o =>
        cases o with
        | none =>
          obtain ⟨i1, i2⟩ := ih t1
          refine ⟨fun t' r rest h => ?_, fun t' rest h => ?_⟩
          · simp only [receiveAll, hs] at h
            obtain ⟨e, l⟩ := i1 t' r rest h
            simp only [outs, hs, List.filterMap_cons, id]
            exact ⟨e, by simp; omega⟩
          · simp only [receiveAll, hs] at h
            simp only [outs, hs, List.filterMap_cons, id]
            exact i2 t' rest h
        | some r0 =>
          refine ⟨fun t' r rest h => ?_, fun t' rest h => ?_⟩
          · simp only [receiveAll, hs, Prod.mk.injEq, Option.some.injEq] at h
            obtain ⟨rfl, rfl, rfl⟩ := h
            simp [outs, hs]
          · simp [receiveAll, hs] at h
  intro fuel
  induction fuel with
  | zero =>
    intro t ws h
    have : ws = [] := List.length_eq_zero_iff.mp (Nat.le_zero.mp h)
    subst this; rfl
  | succ f ih =>
    intro t ws h
    cases ws with
    | nil => rfl
    | cons w ws =>
      simp only [receiveMany]
      cases hr : receiveAll insts lim t (w :: ws) with
      | mk t' p =>
        obtain ⟨o, rest⟩ := p
        cases o with
        | some r =>
          obtain ⟨e, l⟩ := (hall (w :: ws) t).1 t' r rest hr
          simp only []
          rw [e, ih t' rest (by simp at h l; omega)]
        | none =>
          simp only []
          exact ((hall (w :: ws) t).2 t' rest hr).symm

/-- every chunk a session puts on the wire is read back by `readChunk` with the
    request id of one of the session's messages -/
theorem session_reqs {S R : Side} (hp : Paired S R) (insts : Nat → List Side)
    (maxBody : Nat) (hmb : 0 < maxBody) (chan tok : Nat) (hc : chan < 4294967296)
    (hi : ∃ rest, (insts chan).reverse = R :: rest) (msgs : List (Nat × Bytes))
    (hm : ∀ m ∈ msgs, m.1 < 4294967296 ∧ m.2.length < 4294967296) (seq : Int)
    (wire : List Bytes) (seq' : Int)
    (hs : sendSession S maxBody chan tok seq msgs = (seq', .ok wire)) :
    ∀ w ∈ wire, ∃ r, reqOf insts w = some r ∧ r ∈ msgs.map (·.1) := by
  induction msgs generalizing seq wire seq' with
  | nil =>
    simp only [sendSession, Prod.mk.injEq, Res.ok.injEq] at hs
    obtain ⟨-, rfl⟩ := hs
    simp
  | cons m ms ih =>
    obtain ⟨h1, h2⟩ := hm m (by simp)
    obtain ⟨ws, hsend, hW⟩ := sendMessage_ok hp insts maxBody hmb chan tok m.1 hc h1 hi seq m.2 h2
    simp only [sendSession] at hs
    rw [hsend] at hs
    simp only [] at hs
    cases hrest : sendSession S maxBody chan tok (seqAfter seq (items maxBody m.2).length) ms with
    | mk sq r =>
      rw [hrest] at hs
      cases r with
      | ok rest =>
        simp only [Prod.mk.injEq, Res.ok.injEq] at hs
        obtain ⟨-, rfl⟩ := hs
        intro w hw
        rcases List.mem_append.mp hw with hw | hw
        · obtain ⟨c, hcm, hwc⟩ := hW.mem w hw
          obtain ⟨hreq, -, -⟩ := stamped_mem _ _ _ c hcm
          exact ⟨c.requestID, by simp [reqOf, hwc.1], by simp [hreq]⟩
        · obtain ⟨r, hr1, hr2⟩ := ih (fun m' hm' => hm m' (by simp [hm'])) _ rest sq hrest w hw
          exact ⟨r, hr1, by simp only [List.map_cons, List.mem_cons]; exact Or.inr hr2⟩
      | err => simp at hs
      | panic => simp at hs

end Opcua.RecvBridge
