import OpcuaModel.Model.Chunk
import OpcuaModel.Model.CryptoKeys
import OpcuaModel.Model.CbcList
import OpcuaModel.Gen.KeyAssign
import OpcuaModel.Gen.Policies
import OpcuaModel.Gen.MaxBody
/-
  The executable instance of the chunk model used by the drivers of C07, C08
  and C14: the abstract `Crypto` of `Model/Chunk.lean` instantiated with the
  reference AES-CBC / HMAC of `Model/CryptoRef.lean` and keys derived by the
  model of `uapolicy.Symmetric` (`Model/CryptoKeys.lean`) from the two nonces.
  With these the model produces the same bytes as gopcua.
-/
namespace Opcua.ChunkRef
open Opcua Opcua.Chunk Opcua.Keys Opcua.CryptoRef

/-- iterative hex decoder for long protocol tokens (`-` = empty) -/
def unhexFast (s : String) : Option Bytes :=
  if s = "-" then some [] else
  let u := s.toUTF8
  if u.size % 2 ≠ 0 then none else Id.run do
    let nib (c : UInt8) : Nat :=
      if 48 ≤ c ∧ c ≤ 57 then (c - 48).toNat
      else if 97 ≤ c ∧ c ≤ 102 then (c - 87).toNat
      else 255
    let mut out : Array UInt8 := Array.mkEmpty (u.size / 2)
    let mut bad := false
    for i in [0:u.size / 2] do
      let a := nib (u.get! (2 * i))
      let b := nib (u.get! (2 * i + 1))
      if a > 15 ∨ b > 15 then bad := true
      out := out.push (UInt8.ofNat (a * 16 + b))
    return if bad then none else some out.toList

def sha256Hex (b : Bytes) : String := toHex (toBytes (sha256 (ofBytes b)))

/-- the reference AES block encryption / decryption under `key` (FIPS 197,
    `Model/CryptoRef.lean`); the key schedule is computed once -/
def aesE (key : Bytes) : Bytes → Bytes :=
  let rk := aesKeyExpand (ofBytes key)
  let nr := aesRounds rk
  fun b => toBytes (aesEncryptBlock rk nr (ofBytes b))

def aesD (key : Bytes) : Bytes → Bytes :=
  let rk := aesKeyExpand (ofBytes key)
  let nr := aesRounds rk
  fun b => toBytes (aesDecryptBlock rk nr (ofBytes b))

/-- `AES.Encrypt` / `AES.Decrypt` of uapolicy/crypto_aes.go: the proved CBC mode of
    `Model/CbcList.lean` over the reference AES block functions.  Encrypt pads or
    cuts the secret to `KeyLength/8` bytes (`copy(paddedKey, a.Secret)`), Decrypt
    uses the secret as it is (`aes.NewCipher(a.Secret)` fails unless it has 16, 24
    or 32 bytes; the reference cipher supports 16 and 32) -/
def aesEncrypt (bits : Nat) (key iv p : Bytes) : Option Bytes :=
  if p.length % 16 ≠ 0 then none else
  let k := (key ++ List.replicate (bits / 8) 0).take (bits / 8)
  if (k.length ≠ 16 ∧ k.length ≠ 32) ∨ iv.length ≠ 16 then none
  else some (Cbc.cbcEnc (aesE k) iv p)

def aesDecrypt (key iv c : Bytes) : Option Bytes :=
  if (key.length ≠ 16 ∧ key.length ≠ 32) ∨ iv.length ≠ 16 then none else
  if c.length < 16 then none else
  if c.length % 16 ≠ 0 then none
  else some (Cbc.cbcDec (aesD key) iv c)

/-- cross-check of the two CBC implementations (list / byte array) on a fixed input -/
def cbcCrossCheck : Bool :=
  let key : Bytes := (List.range 32).map UInt8.ofNat
  let iv : Bytes := (List.range 16).map (fun i => UInt8.ofNat (7 * i + 1))
  let pt : Bytes := (List.range 80).map (fun i => UInt8.ofNat (13 * i + 5))
  Cbc.cbcEnc (aesE key) iv pt == cbcEncrypt key iv pt &&
  Cbc.cbcDec (aesD key) iv (cbcEncrypt key iv pt) == pt &&
  Cbc.cbcEnc (aesE (key.take 16)) iv pt == cbcEncrypt (key.take 16) iv pt

/-- `uapolicy.None` -/
def noneCrypto : Crypto :=
  { enc := some, dec := some, sign := fun _ => some [], verify := fun _ _ => true }

/-- the primitives of the `EncryptionAlgorithm` a symmetric constructor returns -/
def refCrypto (ka : KeyAssign) (k : SymKeys) : Crypto :=
  { enc := aesEncrypt ka.encryptKeyBits k.encryptKey k.encryptIV,
    dec := aesDecrypt k.decryptKey k.decryptIV,
    sign := fun m => some (hmac ka.signatureHash k.signKey m),
    verify := fun m s => decide (hmac ka.verifyHash k.verifyKey m = s) }

def findRow (name : String) : Option AlgoParams := Gen.symmetricRows.find? (·.name == name)
def findKA (name : String) : Option KeyAssign := Gen.keyAssignRows.find? (·.name == name)

/-- the channel-instance side for (policy, mode, nonces) -/
def mkSide (policy : String) (mode : Mode) (ln rn : Bytes) : Option Side :=
  match findRow policy with
  | none => none
  | some a =>
    if policy == Gen.policyNoneName then some ⟨mode, true, a, noneCrypto⟩ else
    match findKA policy with
    | none => none
    | some ka => some ⟨mode, false, a, refCrypto ka (symmetric ka hmac ln rn)⟩

def maxBodyOf (a : AlgoParams) (cs : Int) : Nat := (Gen.setMaximumBodySize a cs).toNat

end Opcua.ChunkRef
