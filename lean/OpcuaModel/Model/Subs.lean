/-
  Model of the client's subscription bookkeeping (root package `opcua`):

  (a) acknowledgements — `handleAcks_NeedsSubMuxLock`, `handleNotification_NeedsSubMuxLock`,
      `sendPublishRequest` and the `default:` branch of `publish` (client_sub.go), as
      pure functions over lists; a publish history is a list of events.
  (b) the reconnect actions of `Client.monitor` (client.go) restricted to the
      subscription state: the registry `c.subs`, the two work lists, `activeSubs`
      and whether the publish loop is paused or running.

  The code is mirrored as it is, defects included.
-/
namespace Opcua.Subs

/-! ### (a) acknowledgements -/

/-- `ua.SubscriptionAcknowledgement` -/
structure Ack where
  sub : Nat
  seq : Nat
  deriving DecidableEq, Repr

/-- the classes of status codes `handleAcks` distinguishes in `PublishResponse.Results` -/
inductive AckRes where
  | ok          -- ua.StatusOK
  | subInvalid  -- ua.StatusBadSubscriptionIDInvalid
  | seqUnknown  -- ua.StatusBadSequenceNumberUnknown
  | other       -- anything else: "otherwise, we try to ack again"
  deriving DecidableEq, Repr

/-- the names of the `case` labels of the switch in `handleAcks` (compared with the
    generated list) -/
def AckRes.goName : AckRes → String
  | .ok => "StatusOK"
  | .subInvalid => "StatusBadSubscriptionIDInvalid"
  | .seqUnknown => "StatusBadSequenceNumberUnknown"
  | .other => "default"

def AckRes.retry : AckRes → Bool
  | .other => true
  | _ => false

/-- the loop `for i, ack := range c.pendingAcks { switch res[i] … }` -/
def keepNotAcked : List Ack → List AckRes → List Ack
  | a :: as, r :: rs => if r.retry then a :: keepNotAcked as rs else keepNotAcked as rs
  | _, _ => []

/-- `handleAcks_NeedsSubMuxLock`: a result count that differs from the number of
    pending acknowledgements empties the list first -/
def handleAcks (pending : List Ack) (res : List AckRes) : List Ack :=
  keepNotAcked (if pending.length ≠ res.length then [] else pending) res

/-- sequence numbers of one client subscription (`Subscription.lastSeq/nextSeq`) -/
structure SubSeq where
  id : Nat
  lastSeq : Nat
  nextSeq : Nat
  deriving DecidableEq, Repr

structure Client where
  pending : List Ack
  subs : List SubSeq
  deriving DecidableEq, Repr

/-- what the client reads of a PublishResponse -/
structure PubResp where
  results : List AckRes
  sub : Nat
  seq : Nat
  /-- `len(NotificationMessage.NotificationData)` -/
  ndata : Nat
  deriving DecidableEq, Repr

def findSub (subs : List SubSeq) (id : Nat) : Option SubSeq := subs.find? (·.id == id)

def setSub (subs : List SubSeq) (s : SubSeq) : List SubSeq :=
  subs.map fun x => if x.id == s.id then s else x

/-- `handleNotification_NeedsSubMuxLock` for a subscription that is registered -/
def handleNotification (c : Client) (s : SubSeq) (r : PubResp) : Client :=
  if r.ndata = 0 then
    { c with subs := setSub c.subs { s with nextSeq := r.seq } }
  else
    { pending := c.pending ++ [⟨r.sub, r.seq⟩],
      subs := setSub c.subs { s with lastSeq := r.seq, nextSeq := (r.seq + 1) % 4294967296 } }

/-- the `default:` branch of `publish` -/
def onResponse (c : Client) (r : PubResp) : Client :=
  let c1 : Client := { c with pending := handleAcks c.pending r.results }
  match findSub c1.subs r.sub with
  | none => c1
  | some s => handleNotification c1 s r

/-- outcome of one `publish()` call; every error path leaves `pendingAcks` alone -/
inductive PubEvent where
  | resp (r : PubResp)
  | err
  deriving DecidableEq, Repr

def onEvent (c : Client) : PubEvent → Client
  | .resp r => onResponse c r
  | .err => c

/-- `sendPublishRequest`: the acknowledgements placed in the next PublishRequest -/
def requestAcks (c : Client) : List Ack := c.pending

/-- the acknowledgement lists of the successive PublishRequests of a history:
    one request before every event -/
def requests : Client → List PubEvent → List (List Ack)
  | _, [] => []
  | c, e :: es => requestAcks c :: requests (onEvent c e) es

def runEvents : Client → List PubEvent → Client
  | c, [] => c
  | c, e :: es => runEvents (onEvent c e) es

/-- the data notification (if any) an event hands to the application -/
def received (c : Client) : PubEvent → Option Ack
  | .resp r =>
    match findSub c.subs r.sub with
    | some _ => if r.ndata = 0 then none else some ⟨r.sub, r.seq⟩
    | none => none
  | .err => none

/-- the server answered every acknowledgement of the request: as many results as
    acknowledgements, none of them asks for a retry -/
def wellAnswered (c : Client) : PubEvent → Bool
  | .resp r => r.results.length == c.pending.length && r.results.all (fun x => !x.retry)
  | .err => false

/-! ### (b) reconnect -/

/-- `reconnectAction` (client.go), in `iota` order -/
inductive Action where
  | none | createSecureChannel | restoreSession | recreateSession
  | restoreSubscriptions | transferSubscriptions | abortReconnect
  deriving DecidableEq, Repr

def Action.code : Action → Nat
  | .none => 0 | .createSecureChannel => 1 | .restoreSession => 2 | .recreateSession => 3
  | .restoreSubscriptions => 4 | .transferSubscriptions => 5 | .abortReconnect => 6

def Action.goName : Action → String
  | .none => "none" | .createSecureChannel => "createSecureChannel" | .restoreSession => "restoreSession"
  | .recreateSession => "recreateSession" | .restoreSubscriptions => "restoreSubscriptions"
  | .transferSubscriptions => "transferSubscriptions" | .abortReconnect => "abortReconnect"

def Action.all : List Action :=
  [.none, .createSecureChannel, .restoreSession, .recreateSession, .restoreSubscriptions,
   .transferSubscriptions, .abortReconnect]

/-- the error classes `monitor` tests with `errors.Is`, in source order -/
inductive ErrKind where
  | eof | connRefused | badSecureChannelID | badSessionID | badSubscriptionID | badCertificate | other
  deriving DecidableEq, Repr

def ErrKind.goName : ErrKind → String
  | .eof => "io.EOF" | .connRefused => "syscall.ECONNREFUSED"
  | .badSecureChannelID => "ua.StatusBadSecureChannelIDInvalid"
  | .badSessionID => "ua.StatusBadSessionIDInvalid"
  | .badSubscriptionID => "ua.StatusBadSubscriptionIDInvalid"
  | .badCertificate => "ua.StatusBadCertificateInvalid"
  | .other => "default"

def ErrKind.all : List ErrKind :=
  [.eof, .connRefused, .badSecureChannelID, .badSessionID, .badSubscriptionID, .badCertificate, .other]

def initialAction : ErrKind → Action
  | .eof => .createSecureChannel
  | .connRefused => .abortReconnect
  | .badSecureChannelID => .createSecureChannel
  | .badSessionID => .recreateSession
  | .badSubscriptionID => .transferSubscriptions
  | .badCertificate => .createSecureChannel   -- `fallthrough` into default
  | .other => .createSecureChannel

/-- a registered client subscription: id and number of monitored items -/
structure CSub where
  id : Nat
  items : Nat
  deriving DecidableEq, Repr

inductive Loop where
  | paused | running
  deriving DecidableEq, Repr

structure Mon where
  action : Action
  subs : List CSub
  toRepublish : List Nat
  toRecreate : List Nat
  activeSubs : Nat
  connected : Bool
  loop : Loop
  deriving DecidableEq, Repr

/-- entering the reconnect code of `monitor`: state Disconnected, the publish loop
    is paused, fresh work lists -/
def onError (subs : List CSub) (k : ErrKind) : Mon :=
  { action := initialAction k, subs := subs, toRepublish := [], toRecreate := [],
    activeSubs := 0, connected := false, loop := .paused }

/-- result of TransferSubscriptions as `monitor` reads it -/
inductive Transfer where
  | unsupported                 -- errors.Is(err, StatusBadServiceUnsupported)
  | failed                      -- any other error
  | results (bad : List Bool)   -- per id: StatusCode == BadSubscriptionIDInvalid
  deriving DecidableEq, Repr

/-- what happens inside one `recreateSubscription` call -/
inductive Recreate where
  | createFail                                -- recreate_create returned an error
  | created (newId : Nat) (itemsOk : Bool)    -- server handed out `newId`; recreate_monitoredItems ok?
  deriving DecidableEq, Repr

/-- outcomes of the network operations of one executed action -/
inductive Out where
  | dialed
  | restoreRes (sessionNil activateOk nsOk : Bool)
  | recreateRes (createOk activateOk nsOk : Bool)
  | transferRes (ids : List Nat) (r : Transfer)
  | restoreSubsRes (republishOk : List Bool) (recreate : List Recreate)
  deriving DecidableEq, Repr

def hasId (subs : List CSub) (id : Nat) : Bool := subs.any (·.id == id)

def eraseId (subs : List CSub) (id : Nat) : List CSub := subs.filter (·.id != id)

/-- `Client.recreateSubscription`: returns the new registry and whether it succeeded -/
def recreateOne (subs : List CSub) (id : Nat) (o : Recreate) : List CSub × Bool :=
  match subs.find? (·.id == id) with
  | none => (subs, false)                        -- StatusBadSubscriptionIDInvalid
  | some s =>
    let subs1 := eraseId subs id                 -- forgetSubscription_NeedsSubMuxLock
    match o with
    | .createFail => (subs1, false)
    | .created nid itemsOk =>
      if nid = 0 ∨ hasId subs1 nid then (subs1, false)      -- registerSubscription_NeedsSubMuxLock refuses
      else if itemsOk then (subs1 ++ [⟨nid, s.items⟩], true)
      else (subs1 ++ [⟨nid, 0⟩], false)

/-- the second loop of `restoreSubscriptions`; a failed recreate only `continue`s
    (the `action = recreateSession` it sets is overwritten after the loop) -/
def recreateAll : List CSub → List Nat → List Recreate → Nat → List CSub × Nat
  | subs, id :: ids, o :: os, n =>
    let (subs', ok) := recreateOne subs id o
    recreateAll subs' ids os (if ok then n + 1 else n)
  | subs, _, _, n => (subs, n)

/-- the first loop: a failed republish moves the id to the recreate list;
    `activeSubs++` in both cases -/
def republishAll : List Nat → List Bool → List Nat
  | id :: ids, ok :: oks => (if ok then [] else [id]) ++ republishAll ids oks
  | _, _ => []

def transferLists (ids : List Nat) : Transfer → List Nat × List Nat   -- (toRepublish, toRecreate)
  | .unsupported => ([], ids)
  | .failed => ([], ids)
  | .results bad =>
    let z := ids.zip bad
    ((z.filter (fun p => !p.2)).map (·.1), (z.filter (fun p => p.2)).map (·.1))

/-- one iteration of `for action != none { switch action {…} }` -/
def step (m : Mon) (o : Out) : Option Mon :=
  match m.action, o with
  | .createSecureChannel, .dialed => some { m with action := .restoreSession }
  | .restoreSession, .restoreRes sessionNil activateOk nsOk =>
    if sessionNil then some { m with action := .recreateSession }
    else if !activateOk then some { m with action := .recreateSession }
    else if !nsOk then some { m with action := .createSecureChannel }
    else some { m with action := .restoreSubscriptions }
  | .recreateSession, .recreateRes createOk activateOk nsOk =>
    if !createOk then some { m with action := .createSecureChannel }
    else if !activateOk then some { m with action := .createSecureChannel }
    else if !nsOk then some { m with action := .createSecureChannel }
    else some { m with action := .transferSubscriptions }
  | .transferSubscriptions, .transferRes ids r =>
    -- ids = c.SubscriptionIDs(): the registered ids in map iteration order
    if ids.length = m.subs.length ∧ ids.all (hasId m.subs) ∧ m.subs.all (fun s => ids.contains s.id) then
      let (rep, rec) := transferLists ids r
      some { m with action := .restoreSubscriptions, toRepublish := rep, toRecreate := rec }
    else none
  | .restoreSubscriptions, .restoreSubsRes republishOk recreate =>
    if republishOk.length = m.toRepublish.length then
      let toRecreate := m.toRecreate ++ republishAll m.toRepublish republishOk
      let (subs', n) := recreateAll m.subs toRecreate recreate m.toRepublish.length
      some { m with action := .none, subs := subs', toRecreate := toRecreate, activeSubs := n, connected := true }
    else none
  | _, _ => none

def run : Mon → List Out → Option Mon
  | m, [] => some m
  | m, o :: os => match step m o with
    | some m' => run m' os
    | none => none

/-- after the action loop:
    `switch { case activeSubs > 0: resume … case len(c.SubscriptionIDs()) > 0: resume … default: … }` —
    the loop is resumed when something was republished / recreated or when subscriptions
    are still registered (restored session) -/
def finish (m : Mon) : Mon :=
  if m.activeSubs > 0 ∨ m.subs ≠ [] then { m with loop := .running } else m

/-- the `action = …` targets of each case, in source order (compared with the
    generated table) -/
def targets : Action → List Action
  | .createSecureChannel => [.restoreSession]
  | .restoreSession => [.recreateSession, .recreateSession, .createSecureChannel, .restoreSubscriptions]
  | .recreateSession => [.createSecureChannel, .createSecureChannel, .createSecureChannel, .transferSubscriptions]
  | .transferSubscriptions => [.restoreSubscriptions]
  | .restoreSubscriptions => [.recreateSession, .none]
  | .abortReconnect => []
  | .none => []

end Opcua.Subs
