import OpcuaModel.Model.Linear
import OpcuaModel.Model.AccessLemmas
/-
  Helper lemmas for Props/C34.lean: the abstraction map and the step equations.
-/
namespace Opcua.Linear
open Opcua.Access

theorem abs_set_same (sv : Server) (i k : Nat) (s : Store) (n : Node) :
    abs (sv.set i (s.set k n)) (i, k) = some n.val := by
  simp [abs, node_set_same]

theorem abs_set_other (sv : Server) (i k : Nat) (s : Store) (n : Node) (hs : sv i = some s) (j : Key)
    (hj : j ≠ (i, k)) : abs (sv.set i (s.set k n)) j = abs sv j := by
  obtain ⟨a, b⟩ := j
  have : ¬ (i = a ∧ k = b) := fun ⟨e1, e2⟩ => hj (by rw [e1, e2])
  simp only [abs]
  rw [node_set_other sv a b i k s n hs this]

theorem nsAttribute_val (n : Node) (a : Nat) : (nsAttribute n a).2.val = n.val := by
  have := core_read n a
  simp only [core, Prod.mk.injEq] at this
  exact this.1

theorem nsAttribute_value (n : Node) (d : DV) (h : (nsAttribute n aValue).1 = .value d) : d = n.val := by
  unfold nsAttribute at h
  cases ha : access n fRead <;> simp only [ha] at h
  · simp only [aValue, aNodeID, aEventNotifier, aNodeClass] at h
    simp only [show (13:Nat) ≠ 1 by decide, show (13:Nat) ≠ 12 by decide, show (13:Nat) ≠ 2 by decide,
      ↓reduceIte] at h
    cases hv : n.val <;> simp_all
  · cases h
  · cases h

theorem step_read_eq (sv : Server) (i k a : Nat) (s : Store) (n : Node) (hs : sv i = some s) (hk : s k = some n) :
    step sv (.read i k a) = ((nsAttribute n a).1, sv.set i (s.set k (nsAttribute n a).2)) := by
  simp [step, hs, hk]

theorem step_write_eq (sv : Server) (i k a : Nat) (d : DV) (s : Store) (n : Node) (hs : sv i = some s)
    (hk : s k = some n) :
    step sv (.write i k a d) = ((nsSetAttribute n a d).1, sv.set i (s.set k (nsSetAttribute n a d).2)) := by
  simp [step, hs, hk]

theorem step_missing (sv : Server) (op : Op) (i k : Nat)
    (hop : (∃ a, op = .read i k a) ∨ (∃ a d, op = .write i k a d))
    (h : sv i = none ∨ ∃ s, sv i = some s ∧ s k = none) :
    (step sv op).2 = sv ∧ ∀ r, (step sv op).1 ≠ .value r ∧ (step sv op).1 ≠ .status .ok := by
  rcases hop with ⟨a, rfl⟩ | ⟨a, d, rfl⟩ <;> rcases h with h | ⟨s, h1, h2⟩ <;> simp [step, *]

end Opcua.Linear
