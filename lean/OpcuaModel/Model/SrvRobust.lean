import OpcuaModel.Model.SrvHandlers
import OpcuaModel.Gen.SrvRobust
/-
  C29 — the parts of the server model that are about crashing and hanging
  rather than about sessions:

   * `intervalOf`   : `time.Millisecond * time.Duration(RevisedPublishingInterval)` and `time.NewTicker`
   * `deleteLoop`, `refTypePanics`, `browseClsOf` : the deletion loop of `suitableRefType`
                      (server/view_service.go) run on the regenerated `getSubRefs` lists
   * `runSteps`     : a request sequence; the process is gone after the first crash
   * `Disp`         : the single dispatcher goroutine that writes responses without a deadline
   * `safe`, `sig29`: the closed-form "cannot crash" predicate and the finding signatures
-/
namespace Opcua.Srv
open Opcua.Gen.SrvRobust

/-! ### publishing interval -/

/-- two's-complement wrap of an `int64` product -/
def wrap64 (x : Int) : Int := (x + 9223372036854775808) % 18446744073709551616 - 9223372036854775808

/-- `dur` is `int64(time.Duration(RevisedPublishingInterval))` (the float → integer conversion is
    Go's); the ticker gets `time.Millisecond * dur`, and `time.NewTicker` panics for `d <= 0`. -/
def intervalOf (dur : Int) : Interval :=
  let d := wrap64 (1000000 * dur)
  if d ≤ 0 then .subMs else if d < 60000000000 then .small else .huge

/-- `revisePublishingInterval` on whole milliseconds: below the minimum (1 ms) → 1, above the
    maximum (24 h) → 24 h -/
def reviseMs (ms : Int) : Int :=
  if ms < 1 then 1 else if ms > 86400000 then 86400000 else ms

/-! ### suitableRefType -/

def hasSubtypeId : Nat := 45

/-- `for n := slices.IndexFunc(oktypes, isHasSubtype); n > 0; { oktypes = slices.Delete(oktypes, n, n+1) }`:
    `n` is never recomputed.  `none` = `slices.Delete` panics (slice bounds out of range). -/
def deleteLoop : Nat → List Nat → Nat → Option (List Nat)
  | 0, l, _ => some l
  | fuel + 1, l, n =>
    if n > 0 then
      if n + 1 > l.length then none else deleteLoop fuel (l.eraseIdx n) n
    else some l

/-- does `suitableRefType(ref1, ref2, subtypes=false)` panic once it gets past the two equality tests,
    for the subtype list `sub = getSubRefs(ref1)` -/
def listPanics (sub : List Nat) : Bool :=
  if sub.contains hasSubtypeId then (deleteLoop (sub.length + 1) sub (sub.idxOf hasSubtypeId)).isNone else false

/-- the same for a reference type id, through the regenerated table (unknown id: `getSubRefs` = nil) -/
def refTypePanics (rt : Nat) : Bool :=
  match subRefs.find? (·.1 == rt) with
  | some (_, l) => listPanics l
  | none => false

/-- class of a Browse request: reference type `rt` (0 = not specified), IncludeSubtypes, and whether the
    browsed node has a reference (in the requested direction) whose type differs from `rt` -/
def browseClsOf (rt : Nat) (includeSubtypes otherTypeRef : Bool) : BrowseCls :=
  -- the loop exists only in versions of `suitableRefType` for which the generator finds it
  if refTypeDeleteLoop && rt != 0 && !includeSubtypes && otherTypeRef && refTypePanics rt then .loopPanics else .plain

/-! ### request sequences -/

/-- the server handles the requests in order; after a crash there is no server any more -/
def runSteps (st : St) : List (Tok × Req) → St × Out
  | [] => (st, .ok "")
  | (t, r) :: rest =>
    match step st t r with
    | (st', .crash s) => (st', .crash s)
    | (st', o) => if rest.isEmpty then (st', o) else runSteps st' rest

/-! ### the dispatcher and a client that does not read -/

/-- one request as the dispatcher sees it: who sent it and how many bytes the response has -/
structure Job where
  fromAttacker : Bool
  respBytes : Nat
  deriving DecidableEq, Repr

/-- `cap` bytes fit into the socket buffers between the server and the client that does not read.
    `monitorConnections` handles one request after the other (`dispatcherInline`) and
    `writeMessageChunks` writes without deadline (`¬ responseWriteDeadline`): once a response no
    longer fits, the dispatcher is blocked and nothing behind it is ever served.
    Returns, per job, whether its response was delivered. -/
def dispatch (cap : Nat) : Nat → List Job → List Bool
  | _, [] => []
  | used, j :: rest =>
    if j.fromAttacker then
      if used + j.respBytes ≤ cap then true :: dispatch cap (used + j.respBytes) rest
      else if dispatcherInline && !responseWriteDeadline then (j :: rest).map (fun _ => false)   -- blocked for good
      else false :: dispatch cap used rest
    else true :: dispatch cap used rest

/-! ### a signed symmetric chunk on the receive path (uasc, reached through the server) -/

/-- `verifyAndDecrypt` in mode Sign: below 16 bytes the chunk headers do not decode (error, the
    channel is dropped).  Without a length check `signature := b[len(b)-RemoteSignatureLength():]` is
    evaluated before anything is verified and a negative start index panics; with the check
    (`signedChunkLengthChecked`, regenerated) a short chunk is an error like a wrong signature. -/
def signedChunkOutcome (chunkLen sigLen : Nat) : Out :=
  if chunkLen < 16 then .noResponse
  else if !signedChunkLengthChecked && chunkLen < sigLen then .crash "channelInstance.verifyAndDecrypt"
  else .noResponse

/-! ### raw frames straight after the handshake -/

/-- A frame whose connection-protocol header declares `size` bytes, sent after HEL/ACK (with or without
    an open secure channel).  uacp refuses sizes below 8 and above the receive buffer; `readChunk` then
    slices `b[:12]` off the message without looking at its length — harmless only while `Receive` hands
    it a slice with the whole receive buffer as capacity (regenerated facts); everything else ends in a
    decode / security error: the connection's channel is dropped, the server lives. -/
def rawFrameOutcome (size : Nat) : Out :=
  if size < 8 then .noResponse
  else if size < 12 && !receiveBufFullCapacity && !readChunkChecksHeaderLen then .crash "SecureChannel.readChunk"
  else .noResponse

/-! ### closed form: requests that cannot crash -/

def sessionKnown (st : St) (t : Tok) : Bool := (findSession st t).isSome

def subOwned (st : St) (id : Nat) : Bool :=
  match findSub st id with
  | some s => s.owner.isSome
  | none => false

def itemOk (st : St) (id : Nat) : Bool :=
  match findItem st id with
  | some it => subOwned st it.sub
  | none => false

/-- one id of SetMonitoringMode / DeleteMonitoredItems: an unknown id is harmless iff the lookup is
    checked first; a known one needs a caller session and an owner session -/
def itemSafe (st : St) (t : Tok) (unknownContinues : Bool) (id : Nat) : Bool :=
  match findItem st id with
  | none => unknownContinues
  | some _ => sessionKnown st t && itemOk st id

/-- the dispatcher answers before any handler body runs: no handler, a stub, or a handler whose
    table row says "session looked up and nil-checked" meeting a token that is not in the table -/
def preempted (st : St) (t : Tok) (r : Req) : Bool :=
  match handlerOf r.name with
  | none => true
  | some h => h.unsupported || (h.lookup == "session" && h.nilChecked && (findSession st t).isNone)

/-- the request shapes for which no call site inside the handler BODY panics -/
def safeBody (st : St) (t : Tok) : Req → Bool
  | .findServers => !(st.endpointsEmpty && !Gen.SrvSession.findServersChecksEndpoints)
  | .createSession _ sec cert => !(sec && cert == .nonRsa && !Gen.SrvSession.newSessionSignatureChecked)
  | .activateSession sec _ =>
    match findSession st t with
    | some s => !(sec && !s.certRsa && !Gen.SrvSession.verifySessionSignatureChecked)
    | none => true
  | .browse cls refs => cls == .plain && !(refs && st.dataTypeAttr == .wrongType && !Gen.SrvSession.dataTypeAssertionChecked)
  | .createSubscription iv =>
    match effectiveInterval iv with
    | .subMs => false
    | .small => sessionKnown st t
    | .huge => true
  | .deleteSubscriptions ids => ids.all fun id => (findSub st id).isNone || (sessionKnown st t && subOwned st id)
  | .createMonitoredItems sub _ => (findSub st sub).isNone || (sessionKnown st t && subOwned st sub)
  | .setMonitoringMode ids => ids.all fun id => itemSafe st t Gen.SrvSession.setModeUnknownContinues id
  | .deleteMonitoredItems ids => ids.all fun id => itemSafe st t Gen.SrvSession.delItemsUnknownContinues id
  | _ => true

/-- decidable guard of the partial theorem: the requests that cannot make the server process exit -/
def safe (st : St) (t : Tok) (r : Req) : Bool := preempted st t r || safeBody st t r

/-- every subscription has an owning session -/
def ownersSet (st : St) : Bool := st.subs.all fun s => s.owner.isSome

/-- every monitored item belongs to a subscription that is in the table -/
def itemsHaveSubs (st : St) : Bool := st.items.all fun it => (findSub st it.sub).isSome

/-- well-formed tables: what the services maintain (C29_wf_invariant), starting from the empty server -/
def wf (st : St) : Bool := ownersSet st && itemsHaveSubs st

/-- finding signature of a crashing request (decidable on the case) -/
def sig29 (st : St) (t : Tok) : Req → String
  | .findServers => "C29.findservers-no-endpoints"
  | .createSession .. => "C29.createsession-nonrsa-certificate"
  | .activateSession .. => "C29.activatesession-nonrsa-certificate"
  | .browse cls _ => if cls == .loopPanics then "C29.browse-suitablereftype-loop" else "C29.browse-datatype-type-assertion"
  | .createSubscription iv => if iv == .subMs then "C29.createsubscription-nonpositive-interval" else "C29.createsubscription-nil-session-tick"
  | .deleteSubscriptions _ => "C29.deletesubscriptions-nil-session"
  | .createMonitoredItems .. => "C29.createmonitoreditems-nil-session"
  | .setMonitoringMode ids =>
    if ids.any (fun id => (findItem st id).isNone) then "C29.setmonitoringmode-unknown-id" else "C29.setmonitoringmode-nil-session"
  | .deleteMonitoredItems ids =>
    if ids.any (fun id => (findItem st id).isNone) then "C29.deletemonitoreditems-unknown-id" else "C29.deletemonitoreditems-nil-session"
  | _ => "C29.unclassified"

end Opcua.Srv
