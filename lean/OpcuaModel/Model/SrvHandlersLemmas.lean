import OpcuaModel.Model.SrvHandlers
/-
  Helper lemmas for Props/C35 and Props/C29 (not property statements).
-/
namespace Opcua.Srv
open Opcua.Gen.SrvSession

/-! ### rows of the regenerated handler table the proofs rewrite with -/

theorem handlerOf_findServers : handlerOf "FindServersRequest" = some ⟨"FindServersRequest", "DiscoveryService", "FindServers", false, "none", false⟩ := by decide
theorem handlerOf_getEndpoints : handlerOf "GetEndpointsRequest" = some ⟨"GetEndpointsRequest", "DiscoveryService", "GetEndpoints", false, "none", false⟩ := by decide
theorem handlerOf_createSession : handlerOf "CreateSessionRequest" = some ⟨"CreateSessionRequest", "SessionService", "CreateSession", false, "none", false⟩ := by decide
theorem handlerOf_activateSession : handlerOf "ActivateSessionRequest" = some ⟨"ActivateSessionRequest", "SessionService", "ActivateSession", false, "session", true⟩ := by decide
theorem handlerOf_closeSession : handlerOf "CloseSessionRequest" = some ⟨"CloseSessionRequest", "SessionService", "CloseSession", false, "close", false⟩ := by decide
theorem handlerOf_read : handlerOf "ReadRequest" = some ⟨"ReadRequest", "AttributeService", "Read", false, "none", false⟩ := by decide
theorem handlerOf_write : handlerOf "WriteRequest" = some ⟨"WriteRequest", "AttributeService", "Write", false, "none", false⟩ := by decide
theorem handlerOf_browse : handlerOf "BrowseRequest" = some ⟨"BrowseRequest", "ViewService", "Browse", false, "none", false⟩ := by decide
theorem handlerOf_createSubscription : handlerOf "CreateSubscriptionRequest" = some ⟨"CreateSubscriptionRequest", "SubscriptionService", "CreateSubscription", false, "session", true⟩ := by decide
theorem handlerOf_publish : handlerOf "PublishRequest" = some ⟨"PublishRequest", "SubscriptionService", "Publish", false, "session", true⟩ := by decide
theorem handlerOf_deleteSubscriptions : handlerOf "DeleteSubscriptionsRequest" = some ⟨"DeleteSubscriptionsRequest", "SubscriptionService", "DeleteSubscriptions", false, "session", true⟩ := by decide
theorem handlerOf_createMonitoredItems : handlerOf "CreateMonitoredItemsRequest" = some ⟨"CreateMonitoredItemsRequest", "MonitoredItemService", "CreateMonitoredItems", false, "session", true⟩ := by decide
theorem handlerOf_setMonitoringMode : handlerOf "SetMonitoringModeRequest" = some ⟨"SetMonitoringModeRequest", "MonitoredItemService", "SetMonitoringMode", false, "session", true⟩ := by decide
theorem handlerOf_deleteMonitoredItems : handlerOf "DeleteMonitoredItemsRequest" = some ⟨"DeleteMonitoredItemsRequest", "MonitoredItemService", "DeleteMonitoredItems", false, "session", true⟩ := by decide

/-! ### the activation flag is never read -/

def deact (s : Session) : Session := { s with activated := false }

/-- the same state with every session marked "never activated" -/
def deactivate (st : St) : St := { st with sessions := st.sessions.map deact }

@[simp] theorem deact_token (s : Session) : (deact s).token = s.token := rfl
@[simp] theorem deact_certRsa (s : Session) : (deact s).certRsa = s.certRsa := rfl
@[simp] theorem deact_queued (s : Session) : (deact s).queued = s.queued := rfl

theorem findSession_deactivate (st : St) (t : Tok) :
    findSession (deactivate st) t = (findSession st t).map deact := by
  unfold findSession deactivate
  simp only [List.find?_map]
  congr

@[simp] theorem findSub_deactivate (st : St) (i : Nat) : findSub (deactivate st) i = findSub st i := rfl
@[simp] theorem findItem_deactivate (st : St) (i : Nat) : findItem (deactivate st) i = findItem st i := rfl

theorem delSubsLoop_deactivate (st : St) (c : Option Session) (ids : List Nat) :
    delSubsLoop (deactivate st) (c.map deact) ids = delSubsLoop st c ids := by
  induction ids with
  | nil => rfl
  | cons i rest ih =>
    unfold delSubsLoop
    simp only [findSub_deactivate, ih]
    cases hf : findSub st i with
    | none => rfl
    | some sub =>
      obtain ⟨sid, owner⟩ := sub
      cases c with
      | none => rfl
      | some c => cases owner <;> rfl

theorem itemLoop_deactivate (st : St) (c : Option Session) (site : Site) (u m : Bool) (ids : List Nat) :
    itemLoop (deactivate st) (c.map deact) site u m ids = itemLoop st c site u m ids := by
  induction ids with
  | nil => rfl
  | cons i rest ih =>
    unfold itemLoop
    simp only [findItem_deactivate, findSub_deactivate, ih]
    cases hf : findItem st i with
    | none => rfl
    | some it =>
      simp only []
      cases hs : findSub st it.sub with
      | none => rfl
      | some sub =>
        obtain ⟨sid, owner⟩ := sub
        cases owner <;> cases c <;> rfl

@[simp] theorem deactivate_endpointsEmpty (st : St) : (deactivate st).endpointsEmpty = st.endpointsEmpty := rfl
@[simp] theorem deactivate_accessAttr (st : St) : (deactivate st).accessAttr = st.accessAttr := rfl
@[simp] theorem deactivate_dataTypeAttr (st : St) : (deactivate st).dataTypeAttr = st.dataTypeAttr := rfl
@[simp] theorem deactivate_subs (st : St) : (deactivate st).subs = st.subs := rfl
@[simp] theorem deactivate_items (st : St) : (deactivate st).items = st.items := rfl
@[simp] theorem deactivate_nextItem (st : St) : (deactivate st).nextItem = st.nextItem := rfl
@[simp] theorem deactivate_lastSub (st : St) : (deactivate st).lastSub = st.lastSub := rfl

theorem body_deactivate_out (st : St) (t : Tok) (r : Req) :
    (body (deactivate st) t r).2 = (body st t r).2 := by
  cases r with
  | findServers => cases h : st.endpointsEmpty <;> cases hc : findServersChecksEndpoints <;> simp [body, h, hc]
  | getEndpoints => rfl
  | createSession k s c => cases s <;> cases c <;> simp only [body] <;> (try rfl) <;> (cases hn : newSessionSignatureChecked <;> simp [hn])
  | activateSession s ok =>
    simp only [body, findSession_deactivate]
    cases findSession st t with
    | none => rfl
    | some x =>
      obtain ⟨xt, xa, xq, xr⟩ := x
      simp only [Option.map_some, deact]
      cases s <;> cases ok <;> cases xr <;> cases hv : verifySessionSignatureChecked <;> simp [hv]
  | closeSession => rfl
  | read => cases h : st.accessAttr <;> simp [body, accessCheck, h]
  | write v => cases h : st.accessAttr <;> simp [body, accessCheck, h]
  | writeAttr w a =>
    cases h : st.accessAttr <;> simp [body, accessCheck, h] <;>
      (by_cases hw : w = "DataType" <;> simp [hw])
  | browse c b =>
    cases c <;> cases b <;> cases h : st.dataTypeAttr <;> cases hd : dataTypeAssertionChecked <;> simp [body, h, hd]
  | createSubscription iv =>
    simp only [body, findSession_deactivate, deactivate_subs, deactivate_lastSub]
    cases findSession st t <;> cases iv <;> cases hp : publishingIntervalRevised <;> simp [effectiveInterval, hp]
  | publish =>
    simp only [body, findSession_deactivate]
    cases findSession st t <;> rfl
  | deleteSubscriptions ids =>
    simp only [body, findSession_deactivate, delSubsLoop_deactivate]
    cases h : delSubsLoop st (findSession st t) ids with
    | error e => rfl
    | ok p => rfl
  | createMonitoredItems s n =>
    simp only [body, findSub_deactivate, findSession_deactivate]
    cases findSub st s with
    | none => rfl
    | some sub =>
      obtain ⟨sid, owner⟩ := sub
      cases owner with
      | none => rfl
      | some o =>
        cases findSession st t with
        | none => rfl
        | some c =>
          simp only [Option.map_some, deact_token]
          by_cases h : o = c.token <;> simp [h]
  | setMonitoringMode ids =>
    simp only [body, findSession_deactivate, itemLoop_deactivate]
    cases h : itemLoop st (findSession st t) "MonitoredItemService.SetMonitoringMode" setModeUnknownContinues setModeMismatchContinues ids <;> rfl
  | deleteMonitoredItems ids =>
    simp only [body, findSession_deactivate, itemLoop_deactivate]
    cases h : itemLoop st (findSession st t) "MonitoredItemService.DeleteMonitoredItems" delItemsUnknownContinues delItemsMismatchContinues ids <;> rfl
  | other n => rfl

theorem step_deactivate_out (st : St) (t : Tok) (r : Req) :
    (step (deactivate st) t r).2 = (step st t r).2 := by
  unfold step
  cases handlerOf r.name with
  | none => rfl
  | some h =>
    by_cases hu : h.unsupported = true
    · simp [hu]
    · have hs : (findSession (deactivate st) t).isNone = (findSession st t).isNone := by
        rw [findSession_deactivate]; cases findSession st t <;> rfl
      simp only [hu, hs]
      split
      · rfl
      · split
        · rfl
        · exact body_deactivate_out st t r

end Opcua.Srv
