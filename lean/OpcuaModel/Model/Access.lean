/-
  Model of the access-level check and of the attribute read / write paths of
  the node namespace of the server (C31).

    server/node.go            Node.Attribute, Node.SetAttribute, Node.Access
    server/namespace_node.go  NodeNameSpace.Attribute, NodeNameSpace.SetAttribute
    server/attribute_service.go  AttributeService.Read / Write (namespace lookup)

  The model mirrors the Go code statement by statement, oddities included:
    * a missing AccessLevel / UserAccessLevel attribute is "no restriction";
    * an attribute whose Variant does not hold a scalar `uint8` denies everything;
    * a DataValue without a Variant makes `Access` dereference nil (panic);
    * the access check is made for EVERY attribute, not only for Value, and the
      write path lets a client write the AccessLevel attributes themselves;
    * reading NodeClass rewrites a stored UInt32 into an Int32 in place.
-/
namespace Opcua.Access

/-- what a `*ua.DataValue` slot can hold, as far as the code inspects it -/
inductive DV where
  /-- nil pointer / no map entry -/
  | nilPtr
  /-- `&ua.DataValue{Value: nil}`: `dv.Value.Value()` dereferences nil -/
  | noVariant
  /-- a Variant of ua.TypeID `ty` (scalar; the harness maps arrays to ty+64,
      a Variant holding nil to ty 0) with a payload number -/
  | v (ty : Nat) (payload : Nat)
  deriving Repr, DecidableEq, Inhabited

/-- `ua.TypeIDByte`: the only dynamic type `.(uint8)` accepts -/
def tyByte : Nat := 3
def tyInt32 : Nat := 6
def tyUInt32 : Nat := 7
def tyNodeID : Nat := 17

-- attribute ids (ua.AttributeID…)
def aNodeID : Nat := 1
def aNodeClass : Nat := 2
def aEventNotifier : Nat := 12
def aValue : Nat := 13
def aAccessLevel : Nat := 17
def aUserAccessLevel : Nat := 18

-- ua.AccessLevelTypeCurrentRead / CurrentWrite
def fRead : Nat := 1
def fWrite : Nat := 2

/-- status codes the two paths produce -/
inductive St where
  | ok | bad | badNodeIDUnknown | badUserAccessDenied | badAttributeIDInvalid
  deriving Repr, DecidableEq

/-- `server.Node`: the attribute map (association list, first match wins; the
    map is never nil after `sanitize`) and the value function (`nilPtr` = no
    function or a function that returns nil) -/
structure Node where
  attrs : List (Nat × DV)
  val : DV
  deriving Repr, DecidableEq

def lookup (l : List (Nat × DV)) (a : Nat) : DV :=
  match l with
  | [] => .nilPtr
  | (k, d) :: r => if k = a then d else lookup r a

def setAttr (l : List (Nat × DV)) (a : Nat) (d : DV) : List (Nat × DV) :=
  match l with
  | [] => [(a, d)]
  | (k, x) :: r => if k = a then (k, d) :: r else (k, x) :: setAttr r a d

theorem lookup_setAttr_same (l : List (Nat × DV)) (a : Nat) (d : DV) :
    lookup (setAttr l a d) a = d := by
  induction l with
  | nil => simp [setAttr, lookup]
  | cons h t ih =>
    obtain ⟨k, x⟩ := h
    by_cases hk : k = a <;> simp [setAttr, lookup, hk, ih]

theorem lookup_setAttr_other (l : List (Nat × DV)) (a b : Nat) (d : DV) (h : b ≠ a) :
    lookup (setAttr l a d) b = lookup l b := by
  induction l with
  | nil => simp [setAttr, lookup]; intro h'; exact absurd h'.symm h
  | cons hd t ih =>
    obtain ⟨k, x⟩ := hd
    by_cases hk : k = a
    · subst hk; simp [setAttr, lookup, Ne.symm h]
    · by_cases hb : k = b
      · subst hb; simp [setAttr, lookup, hk]
      · simp [setAttr, lookup, hk, hb, ih]

/-- `Node.Attribute(id)` for an id other than Value: nil entry = error -/
def Node.get (n : Node) (a : Nat) : DV := lookup n.attrs a

inductive Acc where
  | allow | deny | panic
  deriving Repr, DecidableEq

/-- one of the two blocks of `Node.Access`:
    ```
    access, err := n.Attribute(id)
    if err == nil {
        val, ok := access.Value.Value.Value().(uint8)   // nil Variant: panic
        if !ok { return false }
        if val&uint8(flag) == 0 { return false }
    }
    ``` -/
def accessSlot (d : DV) (flag : Nat) : Acc :=
  match d with
  | .nilPtr => .allow
  | .noVariant => .panic
  | .v ty p => if ty = tyByte then (if p &&& flag = 0 then .deny else .allow) else .deny

/-- `Node.Access(flag)`: UserAccessLevel first, then AccessLevel -/
def access (n : Node) (flag : Nat) : Acc :=
  match accessSlot (n.get aUserAccessLevel) flag with
  | .allow => accessSlot (n.get aAccessLevel) flag
  | r => r

inductive Res where
  | status (s : St)
  | value (d : DV)
  | panic
  deriving Repr, DecidableEq

/-- `NodeNameSpace.Attribute(id, attr)` for a node that exists. Returns the
    answer and the node afterwards (the NodeClass branch mutates it). -/
def nsAttribute (n : Node) (attr : Nat) : Res × Node :=
  match access n fRead with
  | .panic => (.panic, n)
  | .deny => (.status .badUserAccessDenied, n)
  | .allow =>
    if attr = aNodeID then (.value (.v tyNodeID 0), n)
    else if attr = aEventNotifier then (.value (.v tyByte 0), n)
    else if attr = aNodeClass then
      match n.get aNodeClass with
      | .nilPtr => (.status .badAttributeIDInvalid, n)
      | .noVariant => (.panic, n)
      | .v ty p =>
        if ty = tyUInt32 then
          -- a.Value.Value = ua.MustVariant(int32(x)) on the stored DataValue
          (.value (.v tyInt32 p), { n with attrs := setAttr n.attrs aNodeClass (.v tyInt32 p) })
        else (.value (.v ty p), n)
    else if attr = aValue then
      match n.val with
      | .nilPtr => (.status .badAttributeIDInvalid, n)
      | d => (.value d, n)
    else
      match n.get attr with
      | .nilPtr => (.status .badAttributeIDInvalid, n)
      | d => (.value d, n)

/-- `Node.SetAttribute(id, val)` -/
def nodeSet (n : Node) (attr : Nat) (d : DV) : Node :=
  if attr = aValue then { n with val := d } else { n with attrs := setAttr n.attrs attr d }

/-- `NodeNameSpace.SetAttribute(id, attr, val)` for a node that exists -/
def nsSetAttribute (n : Node) (attr : Nat) (d : DV) : Res × Node :=
  match access n fWrite with
  | .panic => (.panic, n)
  | .deny => (.status .badUserAccessDenied, n)
  | .allow => (.status .ok, nodeSet n attr d)

/-- a namespace: node key → node -/
abbrev Store := Nat → Option Node

def Store.set (s : Store) (k : Nat) (n : Node) : Store := fun j => if j = k then some n else s j

/-- the server: namespace index → namespace (`Server.Namespace(id)` fails when
    the index is out of range) -/
abbrev Server := Nat → Option Store

def Server.set (sv : Server) (i : Nat) (s : Store) : Server := fun j => if j = i then some s else sv j

inductive Op where
  | read (ns key attr : Nat)
  | write (ns key attr : Nat) (d : DV)
  deriving Repr, DecidableEq

/-- one entry of a ReadRequest / WriteRequest as the attribute service and the
    namespace process it -/
def step (sv : Server) (op : Op) : Res × Server :=
  match op with
  | .read i k a =>
    match sv i with
    | none => (.status .bad, sv)
    | some s =>
      match s k with
      | none => (.status .badNodeIDUnknown, sv)
      | some n => let (r, n') := nsAttribute n a; (r, sv.set i (s.set k n'))
  | .write i k a d =>
    match sv i with
    | none => (.status .badNodeIDUnknown, sv)
    | some s =>
      match s k with
      | none => (.status .badNodeIDUnknown, sv)
      | some n => let (r, n') := nsSetAttribute n a d; (r, sv.set i (s.set k n'))

/-- a request history, results in order -/
def run (sv : Server) : List Op → List Res × Server
  | [] => ([], sv)
  | op :: r => let (x, sv') := step sv op; let (xs, sv'') := run sv' r; (x :: xs, sv'')

def Server.node (sv : Server) (i k : Nat) : Option Node := (sv i).bind (· k)

-- ---------------------------------------------------------------- the specification side

/-- an access attribute that is present and does not grant `flag` -/
def slotLacks (d : DV) (flag : Nat) : Bool :=
  match d with
  | .nilPtr => false
  | .noVariant => true
  | .v ty p => !(ty = tyByte ∧ p &&& flag ≠ 0)

/-- "the node's access level or user access level lacks `flag`" -/
def lacks (n : Node) (flag : Nat) : Bool :=
  slotLacks (n.get aUserAccessLevel) flag || slotLacks (n.get aAccessLevel) flag

/-- the result carries a value -/
def Res.isValue : Res → Bool
  | .value _ => true
  | _ => false

/-- the op is a client write to one of the two access attributes of node (i,k) -/
def Op.rewritesAccess (i k : Nat) : Op → Bool
  | .write i' k' a _ => i' = i ∧ k' = k ∧ (a = aAccessLevel ∨ a = aUserAccessLevel)
  | _ => false

/-- the op reads the Value attribute of node (i,k) -/
def Op.readsValue (i k : Nat) : Op → Bool
  | .read i' k' a => i' = i ∧ k' = k ∧ a = aValue
  | _ => false

end Opcua.Access
