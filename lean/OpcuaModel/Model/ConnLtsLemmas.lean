import OpcuaModel.Model.ConnLts
/-
  C25 — preservation of the invariant `Good` by every step of the LTS
  (helper lemmas for Props/C25.lean).
-/
namespace Opcua.ConnLts
set_option linter.unusedSimpArgs false

macro "close_inv" : tactic =>
  `(tactic| (simp only [Good, monTable, St.clRep, Bool.and_eq_true, Bool.or_eq_true, beq_iff_eq, bne_iff_ne,
      Bool.not_eq_true', Bool.not_eq_eq_eq_not, Bool.not_true] at *) <;> grind)

theorem good_init (a h : Bool) : Good (init a h) = true := by
  cases a <;> cases h <;> decide

theorem good_tau (s s' : St) (hi : Good s = true) (h : s' ∈ tau s) : Good s' = true := by
  rcases s with ⟨upc, mpc, cl, ca, sess, last, auto, hooks, fa, stl⟩
  simp only [tau, List.mem_append] at h
  rcases h with (((hA | hB) | hF) | hC) | hD
  · cases hooks <;> simp at hA
    cases mpc <;> simp [monHidden] at hA
    · rcases hA with rfl | rfl | rfl | rfl | rfl | rfl <;> close_inv
    · rcases hA with ⟨hc, rfl⟩ ; close_inv
    · subst hA; close_inv
  · simp at hB
    rcases hB with ⟨⟨hc, hn⟩, rfl⟩
    close_inv
  · simp at hF
    rcases hF with ⟨_, rfl⟩
    close_inv
  · cases upc <;> simp at hC <;> (first | (rcases hC with rfl | rfl | rfl) | (rcases hC with rfl | rfl) | subst hC) <;> close_inv
  · cases mpc <;> (try (rename_i a; cases a)) <;> cases sess <;> cases ca <;> cases auto <;> simp at hD <;>
      (first | (rcases hD with rfl | rfl | rfl) | (rcases hD with rfl | rfl) | (subst hD)) <;> close_inv

theorem good_obs (s s' : St) (e : Ev) (hi : Good s = true) (h : s' ∈ obs s e) : Good s' = true := by
  rcases s with ⟨upc, mpc, cl, ca, sess, last, auto, hooks, fa, stl⟩
  simp only [obs, List.mem_append] at h
  rcases h with hA | hB
  · cases hooks <;> simp at hA
    cases mpc <;> cases e <;> simp at hA <;>
      (first | (rcases hA with ⟨_, rfl⟩) | (subst hA)) <;> close_inv
  · cases e with
    | uConnect => simp at hB; rcases hB with ⟨h1 | ⟨⟨h1, h2⟩, h3⟩, rfl⟩ <;> subst_vars <;> close_inv
    | uConnectOk => simp at hB; rcases hB with ⟨rfl, rfl⟩; close_inv
    | uConnectErr =>
      cases upc <;> cases cl <;> simp at hB <;> subst hB <;> close_inv
    | uClose => simp at hB; rcases hB with ⟨⟨rfl, rfl⟩, rfl⟩; close_inv
    | uCloseEnd => simp at hB; rcases hB with ⟨⟨rfl, rfl⟩, rfl⟩; close_inv
    | dial =>
      simp at hB
      rcases hB with ⟨rfl, rfl⟩ | ⟨⟨rfl, rfl⟩, rfl⟩ <;> close_inv
    | mError c => simp at hB
    | mAction a => simp at hB
    | mDone => simp at hB
    | st x =>
      simp only [List.mem_append] at hB
      rcases hB with (hU | hC) | hM
      · cases upc <;> cases x <;> simp at hU <;> subst hU <;> close_inv
      · simp at hC; rcases hC with ⟨⟨⟨rfl, rfl⟩, rfl⟩, rfl⟩; close_inv
      · cases mpc <;> (try (rename_i a; cases a)) <;> cases x <;> simp at hM <;>
          (first | (rcases hM with ⟨⟨rfl, _⟩, rfl⟩) | (rcases hM with ⟨rfl, rfl | rfl⟩) | (rcases hM with ⟨rfl, rfl⟩) | subst hM) <;> close_inv

end Opcua.ConnLts
