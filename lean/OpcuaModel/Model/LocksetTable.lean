import OpcuaModel.Model.Lockset
/-
  C36 (partial): the table of syntactic access sites (generated: Gen/RaceFacts.lean) and the
  step from the table to the lockset theorem of Model/Lockset.lean.

  A row is one syntactic access of a field of a shared structure with the mutexes held there.
  Locks and fields are named by struct type ("uasc.SecureChannel.handlersMu"); in the trace model a
  location is (object, field name) and a mutex is (object, mutex name): the assumption `Conforms`
  says that an access of field f of object o executes some row of f and holds the row's mutexes OF
  THE SAME OBJECT o (only mutexes that are fields of the same struct as f count, `own`).
-/
namespace Opcua.Lockset

structure Site where
  id : Nat
  file : String
  line : Nat
  fn : String
  owner : String        -- struct of the field, "<pkg>.<Struct>"
  field : String        -- "<pkg>.<Struct>.<field>"
  kind : String         -- read | write | atomic | sync:<Method>
  fresh : Bool          -- the object was created in the same function (constructor, not yet shared)
  heldW : List String
  heldR : List String
  roots : List String
  deriving Repr, DecidableEq

/-- the rows of a field that count: constructor rows are left out (assumption: unpublished object) -/
def sitesOf (tbl : List Site) (f : String) : List Site :=
  tbl.filter (fun s => s.field == f && !s.fresh)

def Site.isWrite (s : Site) : Bool := s.kind == "write"
def Site.isRead (s : Site) : Bool := s.kind == "read"
def Site.isAtomic (s : Site) : Bool := s.kind == "atomic"

/-- `l` is a mutex field of the struct `owner` -/
def ownLock (owners : List (String × String)) (owner l : String) : Bool :=
  owners.contains (l, owner)

/-- row s is covered by mutex l: a write holds it exclusively, a read in either mode -/
def coveredBy (l : String) (s : Site) : Bool :=
  if s.isWrite then s.heldW.contains l
  else if s.isRead then s.heldW.contains l || s.heldR.contains l
  else true

/-- consistent lockset on the table: no atomic row, every read/write row covered by l -/
def lockedBy (tbl : List Site) (f l : String) : Bool :=
  (sitesOf tbl f).all (fun s => !s.isAtomic && coveredBy l s)

/-- … and l is a mutex of the same struct -/
def protectedBy (tbl : List Site) (owners : List (String × String)) (f l : String) : Bool :=
  lockedBy tbl f l && (sitesOf tbl f).all (fun s => ownLock owners s.owner l)

def readonlyField (tbl : List Site) (f : String) : Bool :=
  (sitesOf tbl f).all (fun s => !s.isWrite && !s.isAtomic)

def atomicField (tbl : List Site) (f : String) : Bool :=
  (sitesOf tbl f).all (fun s => !s.isWrite && !s.isRead) && (sitesOf tbl f).any (·.isAtomic)

/-- two rows of f, one of them a write (or a plain row next to an atomic one), that share no mutex:
    the table shows an inconsistently protected access -/
def unprotectedPair (a b : Site) : Bool :=
  (a.isWrite || (a.isAtomic && (b.isRead || b.isWrite))) && (b.isRead || b.isWrite || b.isAtomic) &&
  !(a.isAtomic && b.isAtomic) &&
  !(a.heldW.any (fun l => b.heldW.contains l || b.heldR.contains l)) &&
  !(b.heldW.any (fun l => a.heldR.contains l))

def candidatePairs (tbl : List Site) (f : String) : List (Nat × Nat) :=
  (sitesOf tbl f).flatMap (fun a => ((sitesOf tbl f).filter (unprotectedPair a)).map (fun b => (a.id, b.id)))

inductive Verdict where
  | sync | atomic | readonly | guarded (l : String) | foreign (l : String) | candidate
  deriving Repr, DecidableEq

def Verdict.text : Verdict → String
  | .sync => "sync" | .atomic => "atomic" | .readonly => "readonly"
  | .guarded l => "protected " ++ l | .foreign l => "foreign " ++ l | .candidate => "candidate"

/-- the classification printed by the driver (mirrors harness/internal/racefacts Table.Verdict) -/
def verdict (tbl : List Site) (owners : List (String × String)) (f : String) : Verdict :=
  let live := sitesOf tbl f
  let plain := live.filter (fun s => s.isRead || s.isWrite)
  let atomics := live.filter (·.isAtomic)
  if plain.isEmpty && atomics.isEmpty && !live.isEmpty then .sync
  else if plain.isEmpty && !atomics.isEmpty then .atomic
  else if !atomics.isEmpty then .candidate
  else if !(plain.any (·.isWrite)) then .readonly
  else
    let cands := match plain.find? (·.isWrite) with
      | some s => s.heldW
      | none => []
    let ok := cands.filter (fun l => lockedBy tbl f l)
    match ok.find? (fun l => live.all (fun s => ownLock owners s.owner l)) with
    | some l => .guarded l
    | none => match ok.head? with
      | some l => .foreign l
      | none => .candidate

/-! ### from the table to traces -/

abbrev ObjTrace := Trace (Nat × String) (Nat × String)

/-- every access of field f of object o in the trace executes a (non-constructor) row of f of the right
    kind and holds, on the same object, the mutexes the row lists (those of the same struct) -/
def Conforms (tbl : List Site) (owners : List (String × String)) (tr : ObjTrace) (o : Nat) (f : String) : Prop :=
  ∀ i t,
    (tr[i]? = some ⟨t, .wr (o, f)⟩ → ∃ s, s ∈ sitesOf tbl f ∧ s.isWrite = true ∧
        (∀ l, l ∈ s.heldW → ownLock owners s.owner l = true → HoldsW tr t (o, l) i)) ∧
    (tr[i]? = some ⟨t, .rd (o, f)⟩ → ∃ s, s ∈ sitesOf tbl f ∧ s.isRead = true ∧
        (∀ l, l ∈ s.heldW → ownLock owners s.owner l = true → HoldsW tr t (o, l) i) ∧
        (∀ l, l ∈ s.heldR → ownLock owners s.owner l = true → HoldsR tr t (o, l) i))

theorem Site.not_read_of_write {s : Site} (h : s.isWrite = true) : s.isRead = false := by
  simp only [Site.isWrite, Site.isRead, beq_iff_eq] at *
  simp [h]

/-- a field whose rows all hold a mutex of their own struct is race free in every conforming trace -/
theorem table_sound {tbl : List Site} {owners : List (String × String)} {f l : String}
    (hp : protectedBy tbl owners f l = true) {tr : ObjTrace} {o : Nat}
    (wf : WF tr) (hc : Conforms tbl owners tr o f) : RaceFree tr (o, f) := by
  apply lockset_sound (l := (o, l)) wf
  simp only [protectedBy, lockedBy, Bool.and_eq_true, List.all_eq_true] at hp
  obtain ⟨hl, ho⟩ := hp
  intro i t
  constructor
  · intro hi
    obtain ⟨s, hs, hw, hh⟩ := (hc i t).1 hi
    have c := (hl s hs).2
    have hown := ho s hs
    simp only [coveredBy, hw, if_true] at c
    exact hh l (by simpa using c) hown
  · intro hi
    obtain ⟨s, hs, hr, hhw, hhr⟩ := (hc i t).2 hi
    have c := (hl s hs).2
    have hown := ho s hs
    have hnw : s.isWrite = false := by
      simp only [Site.isWrite, Site.isRead, beq_iff_eq] at *
      simp [hr]
    simp only [coveredBy, hnw, hr, if_true, Bool.false_eq_true, if_false, Bool.or_eq_true] at c
    rcases c with c | c
    · exact Or.inl (hhw l (by simpa using c) hown)
    · exact Or.inr (hhr l (by simpa using c) hown)

/-- a field that is only read outside constructors is race free in every conforming trace -/
theorem table_readonly_sound {tbl : List Site} {owners : List (String × String)} {f : String}
    (hp : readonlyField tbl f = true) {tr : ObjTrace} {o : Nat}
    (hc : Conforms tbl owners tr o f) : RaceFree tr (o, f) := by
  apply readonly_sound
  intro i t hi
  obtain ⟨s, hs, hw, _⟩ := (hc i t).1 hi
  simp only [readonlyField, List.all_eq_true, Bool.and_eq_true, Bool.not_eq_true'] at hp
  have := (hp s hs).1
  simp [hw] at this

end Opcua.Lockset
