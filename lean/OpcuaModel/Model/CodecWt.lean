import OpcuaModel.Model.Codec
/-
  Domain and normal form of the round-trip theorems (C01, C03).

  `wt env fuel t v`   — the value `v` is a well-formed value of type `t` whose
                        nesting fits into call depth `fuel` (the same depth
                        discipline as `encode` / `decode`): integers in range,
                        lengths below 2^31, no nil pointers except
                        `*ExtensionObject`, fields that the encoding mask of a
                        hand-written codec switches off are zero, Variant fields
                        consistent the way `NewVariant` / `Variant.Decode` leave
                        them, DateTime inside the int64-nanosecond range.
                        The explicit exclusions are the findings of C01 / C03.
  `norm env fuel t v` — the documented normalisation: DateTime truncated to
                        100 ns toward zero, empty ByteString read by
                        `Buffer.ReadBytes` is nil, the Variant of a DataValue
                        without value bit is the zero Variant, a nil
                        `*ExtensionObject` is the empty extension object, a nil
                        NodeID inside an ExpandedNodeID is the two-byte id 0.
-/
namespace Opcua.Codec
open Opcua

def wtTime : Option Int → Bool
  | none => true
  | some ns => decide (-9223372036854775808 ≤ ns ∧ ns < 9223372036854775808)

def normTime : Option Int → Option Int
  | none => none
  | some ns => some (Int.tdiv ns 100 * 100)

def wtStr (s : Bytes) : Bool := decide (s.length ≤ maxInt32)

def wtGuid (g : Guid) : Bool :=
  decide (g.d1 < 4294967296 ∧ g.d2 < 65536 ∧ g.d3 < 65536 ∧ g.d4.length = 8)

def wtNodeId (n : NodeId) : Bool :=
  let typ := n.mask % 16
  decide (n.mask < 256) &&
  (if typ = 0 then decide (n.ns = 0 ∧ n.nid < 256 ∧ n.bid = none ∧ n.gid = none)
   else if typ = 1 then decide (n.ns < 256 ∧ n.nid < 65536 ∧ n.bid = none ∧ n.gid = none)
   else if typ = 2 then decide (n.ns < 65536 ∧ n.nid < 4294967296 ∧ n.bid = none ∧ n.gid = none)
   else if typ = 4 then
     decide (n.ns < 65536 ∧ n.nid = 0 ∧ n.bid = none) &&
     (match n.gid with
      | some g => wtGuid g
      | none => false)
   else if typ = 3 ∨ typ = 5 then
     decide (n.ns < 65536 ∧ n.nid = 0 ∧ n.gid = none) &&
     (match n.bid with
      | some b => wtStr b
      | none => true)
   else false)

def normNodeId (n : NodeId) : NodeId :=
  match n.bid with
  | some [] => { n with bid := none }
  | _ => n

def twoByteZero : NodeId := ⟨0, 0, 0, none, none⟩

def wtExp (e : ExpNodeId) : Bool :=
  wtStr e.uri && decide (e.idx < 4294967296) &&
  (match e.nodeId with
   | none => decide (e.uri = [] ∧ e.idx = 0)
   | some n => wtNodeId n &&
       decide ((n.mask / 128 % 2 = 1 ∨ e.uri = []) ∧ (n.mask / 64 % 2 = 1 ∨ e.idx = 0)))

def normExp (e : ExpNodeId) : ExpNodeId :=
  match e.nodeId with
  | none => { e with nodeId := some twoByteZero }
  | some n => { e with nodeId := some (normNodeId n) }

def wtLoc (l : LocText) : Bool :=
  decide (l.mask < 256) && wtStr l.locale && wtStr l.text &&
  decide ((has l.mask 1 = true ∨ l.locale = []) ∧ (has l.mask 2 = true ∨ l.text = []))

def wtDiagLevel (l : DiagLevel) : Bool :=
  decide (l.mask < 256 ∧ l.sym < 4294967296 ∧ l.ns < 4294967296 ∧ l.loc < 4294967296 ∧ l.lt < 4294967296
    ∧ l.status < 4294967296) && wtStr l.info &&
  decide ((has l.mask 0x1 = true ∨ l.sym = 0) ∧ (has l.mask 0x2 = true ∨ l.ns = 0) ∧ (has l.mask 0x8 = true ∨ l.loc = 0)
    ∧ (has l.mask 0x4 = true ∨ l.lt = 0) ∧ (has l.mask 0x10 = true ∨ l.info = []) ∧ (has l.mask 0x20 = true ∨ l.status = 0))

/-- a chain of levels: every level but the last has the inner-info bit, the last has not;
    one unit of fuel per level -/
def wtDiag : Nat → List DiagLevel → Bool
  | 0, _ => false
  | _ + 1, [] => false
  | _ + 1, [l] => wtDiagLevel l && !has l.mask 0x40
  | fuel + 1, l :: l' :: ls => wtDiagLevel l && has l.mask 0x40 && wtDiag fuel (l' :: ls)

def emptyExtObj : Val := .extObj 0 (some ⟨some twoByteZero, [], 0⟩) "" .nil

/-- one leaf of a Variant value of built-in type `tid` -/
def wtLeaf (rec : Ty → Val → Bool) (tid : Nat) (v : Val) : Bool :=
  if tid = 15 then
    (match v with
     | .bytes none => true
     | .bytes (some b) => wtStr b
     | _ => false)
  else match vElemTy tid with
    | some ty => rec ty v
    | none => false

def normLeaf (rec : Ty → Val → Val) (tid : Nat) (v : Val) : Val :=
  if tid = 15 then
    (match v with
     | .bytes (some []) => .bytes none
     | v => v)
  else match vElemTy tid with
    | some ty => rec ty v
    | none => v

/-- a rectangular array of shape `dims` (innermost dimension last) -/
def wtArr (leaf : Val → Bool) : List Nat → Val → Bool
  | [], v => leaf v
  | d :: ds, .slice false xs => decide (xs.length = d) && xs.all (wtArr leaf ds)
  | _ :: _, _ => false

def normArr (leaf : Val → Val) : Nat → Val → Val
  | 0, v => leaf v
  | k + 1, .slice isNil xs => .slice isNil (xs.map (normArr leaf k))
  | _ + 1, v => v

def prodNat (ds : List Nat) : Nat := ds.foldl (· * ·) 1

/-- Variant fields as `NewVariant` / `Variant.Decode` leave them.  Excluded (findings):
    dimension lists with more than one entry that contain 0. -/
def wtVariant (rec : Ty → Val → Bool) (mask alen dlen : Nat) (dims : Option (List Nat)) (vt : VTag) (value : Val) : Bool :=
  let tid := mask % 64
  decide (mask < 256) &&
  (if tid = 0 then
     decide (alen = 0 ∧ dlen = 0 ∧ dims = none ∧ vt = ⟨0, 0⟩) && value.isNil
   else if tid > 25 then false
   else if ¬ has mask 0x80 then
     decide (alen = 0 ∧ dlen = 0 ∧ dims = none ∧ vt = ⟨tid, 0⟩) && wtLeaf rec tid value
   else if alen = 4294967295 then
     !has mask 0x40 && decide (dlen = 0 ∧ dims = none ∧ vt = ⟨tid, 1⟩) &&
     (match value with
      | .slice true [] => true
      | _ => false)
   else
     decide (alen ≤ 65535) &&
     (if ¬ has mask 0x40 then
        decide (dlen = 0 ∧ dims = none ∧ vt = ⟨tid, 1⟩) && wtArr (wtLeaf rec tid) [alen] value
      else match dims with
        | none => false
        | some ds =>
          decide (ds.length = dlen ∧ dlen < 2147483648 ∧ vt = ⟨tid, max 1 dlen⟩) &&
          ds.all (fun d => decide (1 ≤ d ∧ d < 2147483648)) &&
          decide (dlen = 0 ∨ prodNat ds = alen) &&
          (if dlen < 2 then wtArr (wtLeaf rec tid) [alen] value else wtArr (wtLeaf rec tid) ds value)))

def normVariant (rec : Ty → Val → Val) (mask alen dlen : Nat) (dims : Option (List Nat)) (vt : VTag) (value : Val) : Val :=
  let tid := mask % 64
  if tid = 0 then .variant mask alen dlen dims vt value
  else .variant mask alen dlen dims vt (normArr (normLeaf rec tid) vt.depth value)

def wtFields (rec : Ty → Val → Bool) : List Ty → List Val → Bool
  | [], [] => true
  | t :: ts, v :: vs => rec t v && wtFields rec ts vs
  | _, _ => false

def normFields (rec : Ty → Val → Val) : List Ty → List Val → List Val
  | t :: ts, v :: vs => rec t v :: normFields rec ts vs
  | _, _ => []

/-- the body of an extension object must not be empty (finding C01.extobj-empty-body: a body of length 0 is
    decoded as "no value") and its length must fit the 32 bit length field -/
def bodyOk : Enc → Bool
  | .ok b => !b.isEmpty && decide (b.length < 4294967295)
  | .error _ => false

def wtExtObj (env : Env) (fuel : Nat) (rec : Ty → Val → Bool) (mask : Nat) (typeId : Option ExpNodeId) (vname : String) (value : Val) : Bool :=
  decide (mask < 256) &&
  (match typeId with
   | none => false
   | some e => wtExp e &&
     (if mask = 0 then vname.isEmpty && value.isNil
      else if vname.isEmpty && value.isNil then
        -- decoded without a value (unknown type id, or no body): re-encoded with a null body
        true
      else if mask = 2 then
        vname == xmlName && rec xmlElementPtr value && bodyOk (encode env fuel xmlElementPtr value)
      else
        !(vname == xmlName) &&
        (match lookupName env vname, (normExp e).nodeId.bind regKey with
         | some i, some key =>
           lookupId env key == some i && (entry env i).name == vname &&
           rec (.ptr (entry env i).ty) value &&
           bodyOk (encode env fuel (.ptr (entry env i).ty) value)
         | _, _ => false)))

/-- normal form of the value inside an extension object -/
def normExtValue (env : Env) (rec : Ty → Val → Val) (mask : Nat) (vname : String) (value : Val) : Val :=
  if mask = 0 then value
  else if mask = 2 then rec xmlElementPtr value
  else match lookupName env vname with
    | some i => rec (.ptr (entry env i).ty) value
    | none => value

def wt (env : Env) : Nat → Ty → Val → Bool
  | 0, _, _ => false
  | fuel + 1, t, v =>
    match t, v with
    | .bool, .bool _ => true
    | .int w, .int n => decide (n < 256 ^ w)
    | .f32, .f32 bits => decide (bits < 4294967296 ∧ canon32 bits = bits)
    | .f64, .f64 bits => decide (bits < 18446744073709551616 ∧ canon64 bits = bits)
    | .string, .str s => wtStr s
    | .time, .time t => wtTime t
    | .bytes, .bytes none => true
    | .bytes, .bytes (some b) => wtStr b
    | .slice _, .slice true xs => xs.isEmpty
    | .slice e, .slice false xs => decide (xs.length ≤ maxInt32) && xs.all (wt env fuel e)
    | .ptr e, .ptr x => wt env fuel e x
    | .struct ts, .struct vs => wtFields (wt env fuel) ts vs
    | .guid, .guid g => wtGuid g
    | .nodeId, .nodeId n => wtNodeId n
    | .expNodeId, .expNodeId e => wtExp e
    | .locText, .locText l => wtLoc l
    | .diag, .diag ls => wtDiag (fuel + 1) ls
    | .dataValue, .dataValue mask value status srcTs srcPs srvTs srvPs =>
      decide (mask < 256 ∧ status < 4294967296 ∧ srcPs < 65536 ∧ srvPs < 65536) && wtTime srcTs && wtTime srvTs &&
      decide ((has mask 0x2 = true ∨ status = 0) ∧ (has mask 0x4 = true ∨ srcTs = none) ∧ (has mask 0x10 = true ∨ srcPs = 0)
        ∧ (has mask 0x8 = true ∨ srvTs = none) ∧ (has mask 0x20 = true ∨ srvPs = 0)) &&
      (if has mask 0x1 then wt env fuel .variant value
       else match value with
         | .nil => true
         | .variant 0 0 0 none ⟨0, 0⟩ .nil => true
         | _ => false)
    | .variant, .variant mask alen dlen dims vt value => wtVariant (wt env fuel) mask alen dlen dims vt value
    | .extObj, .extObj mask typeId vname value => wtExtObj env fuel (wt env fuel) mask typeId vname value
    | .extObj, .nil => true
    | _, _ => false

def norm (env : Env) : Nat → Ty → Val → Val
  | 0, _, v => v
  | fuel + 1, t, v =>
    match t, v with
    | .time, .time t => .time (normTime t)
    | .slice e, .slice isNil xs => .slice isNil (xs.map (norm env fuel e))
    | .ptr e, .ptr x => .ptr (norm env fuel e x)
    | .struct ts, .struct vs => .struct (normFields (norm env fuel) ts vs)
    | .nodeId, .nodeId n => .nodeId (normNodeId n)
    | .expNodeId, .expNodeId e => .expNodeId (normExp e)
    | .dataValue, .dataValue mask value status srcTs srcPs srvTs srvPs =>
      .dataValue mask (if has mask 0x1 then norm env fuel .variant value else zeroVariant) status
        (normTime srcTs) srcPs (normTime srvTs) srvPs
    | .variant, .variant mask alen dlen dims vt value => normVariant (norm env fuel) mask alen dlen dims vt value
    | .extObj, .extObj mask typeId vname value =>
      .extObj mask (typeId.map normExp) vname (normExtValue env (norm env fuel) mask vname value)
    | .extObj, .nil => emptyExtObj
    | _, v => v

end Opcua.Codec
