import OpcuaModel.Gen.ReqID
/-
  C18 — the handler table of the client secure channel as a labelled
  transition system.

  One label per critical section / channel operation of
  `uasc/secure_channel.go` (granularity justified by `Gen.SendFacts`: every
  access of `handlers` happens under `handlersMu`, of `requestID` under
  `requestIDMu`):

    nextId k v     `nextRequestID()` evaluated for caller k, result v
    setCounter n   the counter is moved (stands for any number of calls in between;
                   the harness uses it to provoke a wrap-around collision)
    register k ok  the `handlersMu` section of `sendAsyncWithTimeout`
                   (ok = false: "duplicate handler registration" error)
    pop id hit     dispatcher: a message with request id `id` arrived, `popHandler(id)`
    deliver        dispatcher: `select { case ch <- msg: default: }`
    recv k         caller: `case msg := <-ch`
    abandon k hit  caller: timer / ctx.Done / disconnected branch: `popHandler(reqID)`
                   (also: `sendAsyncWithTimeout` failed after the registration — its deferred
                   `popHandler(reqID)` releases the slot before the error is returned)

  Callers are numbered; there is no bound on their number (functions on Nat).
-/
namespace Opcua.SendHandlers

/-- function update -/
def upd {α : Type} (f : Nat → α) (k : Nat) (v : α) : Nat → α := fun j => if j = k then v else f j

@[simp, grind =] theorem upd_apply {α : Type} (f : Nat → α) (k : Nat) (v : α) (j : Nat) :
    upd f k v j = if j = k then v else f j := rfl

/-- a response as it arrives at the dispatcher: the request id it carries and
    its arrival number (assigned by the model, identifies the message instance) -/
structure Msg where
  id : Nat
  serial : Nat
  deriving DecidableEq, Repr

/-- control state of one caller of `SendRequestWithTimeout` -/
inductive CS where
  | idle
  | hasId (id : Nat)
  | registered (id : Nat)
  | got (id : Nat) (m : Msg)
  | dup (id : Nat)
  | abandoned (id : Nat)
  deriving DecidableEq, Repr

structure St where
  /-- `SecureChannel.requestID` -/
  counter : Int
  /-- `SecureChannel.handlers`: request id ↦ the caller whose channel is registered -/
  handlers : Nat → Option Nat
  /-- the capacity-1 channel created by caller k's registration -/
  box : Nat → Option Msg
  cs : Nat → CS
  /-- the dispatcher between `popHandler` and the channel send -/
  disp : Option (Nat × Msg)
  /-- number of messages that arrived so far -/
  inCount : Nat
  /-- ghost: arrival number ↦ caller whose handler was popped for it -/
  owner : Nat → Option Nat
  /-- ghost: (caller, message) in the order the callers took them -/
  delivered : List (Nat × Msg)
  /-- ghost: messages without handler (unsolicited, duplicate, late) -/
  dropped : Nat
  /-- ghost: times the `default:` branch of the dispatcher's send was taken -/
  full : Nat

def init (c : Nat) : St :=
  { counter := c, handlers := fun _ => none, box := fun _ => none, cs := fun _ => .idle,
    disp := none, inCount := 0, owner := fun _ => none, delivered := [], dropped := 0, full := 0 }

inductive Label where
  | setCounter (n : Nat)
  | nextId (k : Nat) (v : Nat)
  | register (k : Nat) (ok : Bool)
  | pop (id : Nat) (hit : Bool)
  | deliver
  | recv (k : Nat)
  | abandon (k : Nat) (hit : Bool)
  deriving DecidableEq, Repr

/-- The transition function.  A label carries the outcome the implementation
    reported (`ok`, `hit`, the id value); a label whose outcome differs from the
    one the model computes is not enabled. -/
def step? (s : St) : Label → Option St
  | .setCounter n => if n < 4294967296 then some { s with counter := n } else none
  | .nextId k v =>
    match s.cs k with
    | .idle =>
      if (Gen.nextRequestID s.counter).2 = (v : Int) then
        some { s with counter := (Gen.nextRequestID s.counter).1, cs := upd s.cs k (.hasId v) }
      else none
    | _ => none
  | .register k ok =>
    match s.cs k with
    | .hasId id =>
      match s.handlers id with
      | some _ => if ok then none else some { s with cs := upd s.cs k (.dup id) }
      | none =>
        if ok then
          some { s with handlers := upd s.handlers id (some k), box := upd s.box k none,
                        cs := upd s.cs k (.registered id) }
        else none
    | _ => none
  | .pop id hit =>
    match s.disp with
    | some _ => none
    | none =>
      match s.handlers id with
      | some k =>
        if hit then
          some { s with handlers := upd s.handlers id none, disp := some (k, ⟨id, s.inCount⟩),
                        owner := upd s.owner s.inCount (some k), inCount := s.inCount + 1 }
        else none
      | none => if hit then none else some { s with inCount := s.inCount + 1, dropped := s.dropped + 1 }
  | .deliver =>
    match s.disp with
    | some (k, m) =>
      match s.box k with
      | none => some { s with box := upd s.box k (some m), disp := none }
      | some _ => some { s with disp := none, full := s.full + 1 }
    | none => none
  | .recv k =>
    match s.cs k, s.box k with
    | .registered id, some m =>
      some { s with cs := upd s.cs k (.got id m), box := upd s.box k none, delivered := (k, m) :: s.delivered }
    | _, _ => none
  | .abandon k hit =>
    match s.cs k with
    | .registered id =>
      match s.handlers id with
      | some _ =>
        if hit then some { s with handlers := upd s.handlers id none, cs := upd s.cs k (.abandoned id) } else none
      | none => if hit then none else some { s with cs := upd s.cs k (.abandoned id) }
    | _ => none

/-- states reachable from an initial state with any counter seed, by any
    number of steps of any number of callers -/
inductive Reachable : St → Prop where
  | init (c : Nat) (h : c < 4294967296) : Reachable (init c)
  | step {s s' : St} (l : Label) : Reachable s → step? s l = some s' → Reachable s'

/-- run a whole trace -/
def run? (s : St) : List Label → Option St
  | [] => some s
  | l :: ls => match step? s l with
    | some s' => run? s' ls
    | none => none

theorem reachable_run {s s' : St} (tr : List Label) (h : Reachable s) (hr : run? s tr = some s') : Reachable s' := by
  induction tr generalizing s with
  | nil => simp [run?] at hr; exact hr ▸ h
  | cons l ls ih =>
    simp only [run?] at hr
    split at hr
    · next s1 h1 => exact ih (Reachable.step l h h1) hr
    · exact absurd hr (by simp)

/-- the inductive invariant -/
structure Inv (s : St) : Prop where
  hReg : ∀ id k, s.handlers id = some k → s.cs k = .registered id
  hBox : ∀ id k, s.handlers id = some k → s.box k = none
  box : ∀ k m, s.box k = some m →
    (s.cs k = .registered m.id ∨ s.cs k = .abandoned m.id) ∧
    s.owner m.serial = some k ∧ m.serial < s.inCount
  disp : ∀ k m, s.disp = some (k, m) →
    (s.cs k = .registered m.id ∨ s.cs k = .abandoned m.id) ∧ s.box k = none ∧
    (∀ id', s.handlers id' ≠ some k) ∧ s.owner m.serial = some k ∧ m.serial < s.inCount
  dlv : ∀ k m, (k, m) ∈ s.delivered → s.cs k = .got m.id m ∧ s.owner m.serial = some k ∧ m.serial < s.inCount
  own : ∀ n, s.inCount ≤ n → s.owner n = none
  nodup : (s.delivered.map (·.1)).Nodup
  full : s.full = 0

theorem inv_init (c : Nat) : Inv (init c) := by
  constructor <;> simp [init]

theorem inv_setCounter {s s' : St} {n : Nat} (hi : Inv s) (h : step? s (.setCounter n) = some s') : Inv s' := by
  simp only [step?] at h
  split at h <;> simp at h
  subst h
  exact ⟨hi.hReg, hi.hBox, hi.box, hi.disp, hi.dlv, hi.own, hi.nodup, hi.full⟩

theorem inv_nextId {s s' : St} {k v : Nat} (hi : Inv s) (h : step? s (.nextId k v) = some s') : Inv s' := by
  simp only [step?] at h
  split at h
  · next hc =>
    split at h <;> simp at h
    subst h
    obtain ⟨h1, h2, h3, h4, h5, h6, h7, h8⟩ := hi
    constructor <;> simp only [] <;> grind
  · simp at h

theorem inv_register {s s' : St} {k : Nat} {ok : Bool} (hi : Inv s) (h : step? s (.register k ok) = some s') : Inv s' := by
  simp only [step?] at h
  obtain ⟨h1, h2, h3, h4, h5, h6, h7, h8⟩ := hi
  split at h
  · next id hc =>
    split at h
    · next k0 hh =>
      split at h <;> simp at h
      subst h
      constructor <;> simp only [] <;> grind
    · next hh =>
      split at h <;> simp at h
      subst h
      constructor <;> simp only [] <;> grind
  · simp at h

theorem inv_pop {s s' : St} {id : Nat} {hit : Bool} (hi : Inv s) (h : step? s (.pop id hit) = some s') : Inv s' := by
  simp only [step?] at h
  obtain ⟨h1, h2, h3, h4, h5, h6, h7, h8⟩ := hi
  split at h
  · simp at h
  · next hd =>
    split at h
    · next k0 hh =>
      split at h <;> simp at h
      subst h
      constructor <;> simp only [] <;> grind
    · next hh =>
      split at h <;> simp at h
      subst h
      constructor <;> simp only [] <;> grind

theorem inv_deliver {s s' : St} (hi : Inv s) (h : step? s .deliver = some s') : Inv s' := by
  simp only [step?] at h
  obtain ⟨h1, h2, h3, h4, h5, h6, h7, h8⟩ := hi
  split at h
  · next k m hd =>
    split at h
    · next hb =>
      simp at h
      subst h
      constructor <;> simp only [] <;> grind
    · next m0 hb =>
      have := (h4 k m hd).2.1
      simp [hb] at this
  · simp at h

theorem inv_recv {s s' : St} {k : Nat} (hi : Inv s) (h : step? s (.recv k) = some s') : Inv s' := by
  simp only [step?] at h
  obtain ⟨h1, h2, h3, h4, h5, h6, h7, h8⟩ := hi
  split at h
  · next id m hc hb =>
    simp at h
    subst h
    constructor <;> simp only [] <;> grind
  · simp at h

theorem inv_abandon {s s' : St} {k : Nat} {hit : Bool} (hi : Inv s) (h : step? s (.abandon k hit) = some s') : Inv s' := by
  simp only [step?] at h
  obtain ⟨h1, h2, h3, h4, h5, h6, h7, h8⟩ := hi
  split at h
  · next id hc =>
    split at h
    · next k0 hh =>
      split at h <;> simp at h
      subst h
      constructor <;> simp only [] <;> grind
    · next hh =>
      split at h <;> simp at h
      subst h
      constructor <;> simp only [] <;> grind
  · simp at h

theorem inv_step {s s' : St} {l : Label} (hi : Inv s) (h : step? s l = some s') : Inv s' := by
  cases l with
  | setCounter n => exact inv_setCounter hi h
  | nextId k v => exact inv_nextId hi h
  | register k ok => exact inv_register hi h
  | pop id hit => exact inv_pop hi h
  | deliver => exact inv_deliver hi h
  | recv k => exact inv_recv hi h
  | abandon k hit => exact inv_abandon hi h

/-- the invariant holds in every reachable state (any number of callers, any interleaving) -/
theorem reachable_inv {s : St} (h : Reachable s) : Inv s := by
  induction h with
  | init c _ => exact inv_init c
  | step l _ hs ih => exact inv_step ih hs

/-- `safeAssign(t, ptrT)` of client.go on type tags: the result variable is
    written iff the dynamic type of the response is the expected one -/
def safeAssign (got want : Nat) (old : Option Nat) : Bool × Option Nat :=
  if got = want then (true, some got) else (false, old)

end Opcua.SendHandlers
