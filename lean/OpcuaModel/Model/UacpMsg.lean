import OpcuaModel.Model.Uacp
/-
  Writer side of the UACP layer and the codec of its four message bodies:
  `(*Conn).Send` (uacp/conn.go:400), `Header.Encode`, and
  `Hello/Acknowledge/ReverseHello/Error .Encode/.Decode` (uacp/uacp.go) over
  `ua.Buffer` (`WriteUint32`, `WriteString`, `ReadUint32`, `ReadString`).

  Strings are byte strings (a Go string is one).  `WriteString("")` writes the
  null length 0xffffffff; `ReadString` maps both 0 and 0xffffffff to "".
-/
namespace Opcua.Uacp
open Opcua

/-- `Buffer.WriteUint32` -/
def encU32 (v : Nat) : Bytes := leBytes 4 v

/-- `Buffer.WriteString` -/
def encString (s : Bytes) : Bytes :=
  if s = [] then leBytes 4 0xffffffff else leBytes 4 s.length ++ s

/-- `Buffer.ReadUint32`: `none` = the buffer went into its error state -/
def readU32 (b : Bytes) : Option (Nat × Bytes) :=
  if b.length < 4 then none else some (leVal (b.take 4), b.drop 4)

/-- `Buffer.ReadString` -/
def readString (b : Bytes) : Option (Bytes × Bytes) :=
  match readU32 b with
  | none => none
  | some (n, r) =>
    if n = 0 ∨ n = 0xffffffff then some ([], r)
    else if n > r.length then none
    else some (r.take n, r.drop n)

/-- the four UACP messages -/
inductive Msg where
  | hello (version rcv snd maxMsg maxChunks : Nat) (url : Bytes)
  | ack (version rcv snd maxMsg maxChunks : Nat)
  | rhe (serverURI url : Bytes)
  | err (code : Nat) (reason : Bytes)
  deriving DecidableEq, Repr

/-- `MessageTypeHello` … as the three bytes on the wire -/
def Msg.typ : Msg → Bytes
  | .hello .. => [0x48, 0x45, 0x4c]
  | .ack .. => [0x41, 0x43, 0x4b]
  | .rhe .. => [0x52, 0x48, 0x45]
  | .err .. => [0x45, 0x52, 0x52]

/-- `Hello.Encode`, `Acknowledge.Encode`, `ReverseHello.Encode`, `Error.Encode` -/
def Msg.body : Msg → Bytes
  | .hello v r s mm mc url => encU32 v ++ encU32 r ++ encU32 s ++ encU32 mm ++ encU32 mc ++ encString url
  | .ack v r s mm mc => encU32 v ++ encU32 r ++ encU32 s ++ encU32 mm ++ encU32 mc
  | .rhe uri url => encString uri ++ encString url
  | .err c reason => encU32 c ++ encString reason

/-- `(*Conn).Send(typ, msg)` with `c.ack.SendBufSize = sndBuf`, `body = ua.Encode(msg)`:
    the frame handed to ONE `Write`, or `none` when Send returns an error before writing
    (`len(typ) != 4`, "send packet too large").  `MessageSize` is `uint32(len(body)+8)`. -/
def send (sndBuf : Nat) (typ : Bytes) (body : Bytes) : Option Bytes :=
  if typ.length ≠ 4 then none else
  let size := (body.length + hdrlen) % 4294967296
  if size > sndBuf then none
  else some (typ.take 3 ++ [typ.getD 3 0] ++ leBytes 4 size ++ body)

/-- `Hello.Decode` etc. on the frame body `b[hdrlen:]`; trailing bytes are ignored -/
def decodeHello (b : Bytes) : Option Msg := do
  let (v, b) ← readU32 b
  let (r, b) ← readU32 b
  let (s, b) ← readU32 b
  let (mm, b) ← readU32 b
  let (mc, b) ← readU32 b
  let (url, _) ← readString b
  pure (.hello v r s mm mc url)

def decodeAck (b : Bytes) : Option Msg := do
  let (v, b) ← readU32 b
  let (r, b) ← readU32 b
  let (s, b) ← readU32 b
  let (mm, b) ← readU32 b
  let (mc, _) ← readU32 b
  pure (.ack v r s mm mc)

def decodeRhe (b : Bytes) : Option Msg := do
  let (uri, b) ← readString b
  let (url, _) ← readString b
  pure (.rhe uri url)

/-- what the handshake code does with a delivered frame: `switch string(b[:4])` on
    "ACKF" / "HELF" / "RHEF", then the matching `Decode(b[hdrlen:])` -/
def decodeFrame (f : Bytes) : Option Msg :=
  let t := f.take 4
  if t = [0x48, 0x45, 0x4c, 0x46] then decodeHello (f.drop hdrlen)
  else if t = [0x41, 0x43, 0x4b, 0x46] then decodeAck (f.drop hdrlen)
  else if t = [0x52, 0x48, 0x45, 0x46] then decodeRhe (f.drop hdrlen)
  else none

/-- values a Go caller can put into the structs: uint32 fields, strings WriteByteString accepts -/
def Msg.wf : Msg → Prop
  | .hello v r s mm mc url => v < 4294967296 ∧ r < 4294967296 ∧ s < 4294967296 ∧ mm < 4294967296 ∧
      mc < 4294967296 ∧ url.length ≤ 2147483647
  | .ack v r s mm mc => v < 4294967296 ∧ r < 4294967296 ∧ s < 4294967296 ∧ mm < 4294967296 ∧ mc < 4294967296
  | .rhe uri url => uri.length ≤ 2147483647 ∧ url.length ≤ 2147483647
  | .err c reason => c < 4294967296 ∧ reason.length ≤ 2147483647

instance (m : Msg) : Decidable m.wf := by cases m <;> unfold Msg.wf <;> infer_instance

/-! ### codec lemmas -/

theorem readU32_enc (v : Nat) (hv : v < 4294967296) (rest : Bytes) :
    readU32 (encU32 v ++ rest) = some (v, rest) := by
  have hl : (encU32 v).length = 4 := by simp [encU32]
  have hlt : ¬ (encU32 v ++ rest).length < 4 := by rw [List.length_append, hl]; omega
  simp only [readU32, hlt, if_false, List.take_left' hl, List.drop_left' hl]
  simp only [encU32, leVal_leBytes]
  have : v % 256 ^ 4 = v := Nat.mod_eq_of_lt (by omega)
  rw [this]

theorem readString_enc (s : Bytes) (hs : s.length ≤ 2147483647) (rest : Bytes) :
    readString (encString s ++ rest) = some (s, rest) := by
  unfold encString readString
  by_cases he : s = []
  · subst he
    have := readU32_enc 0xffffffff (by omega) rest
    simp only [encU32] at this
    simp [this]
  · have hpos : 0 < s.length := List.length_pos_iff.mpr he
    simp only [he, if_false, List.append_assoc]
    have := readU32_enc s.length (by omega) (s ++ rest)
    simp only [encU32] at this
    rw [this]
    have h1 : ¬ (s.length = 0 ∨ s.length = 0xffffffff) := by omega
    have h2 : ¬ s.length > (s ++ rest).length := by rw [List.length_append]; omega
    simp only [h1, h2, if_false, List.take_left' rfl, List.drop_left' rfl]

/-- the existing model of `Error.Decode` inside `Receive` agrees with the codec -/
theorem decodeErr_enc (c : Nat) (reason : Bytes) (hc : c < 4294967296) (hr : reason.length ≤ 2147483647)
    (rest : Bytes) :
    decodeErr (encU32 c ++ encString reason ++ rest) = some (c, reason) := by
  have hl4 : ∀ v : Nat, (leBytes 4 v).length = 4 := fun v => leBytes_length 4 v
  have hval : ∀ v : Nat, v < 4294967296 → leVal (leBytes 4 v) = v := by
    intro v hv; rw [leVal_leBytes]; exact Nat.mod_eq_of_lt (by omega)
  unfold decodeErr encU32
  rw [List.append_assoc]
  have hlen : ¬ (leBytes 4 c ++ (encString reason ++ rest)).length < 4 := by
    rw [List.length_append, hl4]; omega
  simp only [hlen, if_false, List.take_left' (hl4 c), List.drop_left' (hl4 c), hval c hc]
  unfold encString
  by_cases he : reason = []
  · subst he
    have hlen2 : ¬ (leBytes 4 0xffffffff ++ rest).length < 4 := by rw [List.length_append, hl4]; omega
    simp only [if_true, hlen2, if_false, List.take_left' (hl4 _), hval 0xffffffff (by omega)]
    simp
  · have hpos : 0 < reason.length := List.length_pos_iff.mpr he
    simp only [he, if_false, List.append_assoc]
    have hlen2 : ¬ (leBytes 4 reason.length ++ (reason ++ rest)).length < 4 := by
      rw [List.length_append, hl4]; omega
    have hz : ¬ (reason.length = 0 ∨ reason.length = 0xffffffff) := by omega
    have hgt : ¬ reason.length > (reason ++ rest).length := by rw [List.length_append]; omega
    simp only [hlen2, if_false, List.take_left' (hl4 _), List.drop_left' (hl4 _), hval reason.length (by omega),
      hz, hgt, List.take_left' rfl]

theorem decode_body (m : Msg) (hm : m.wf) (rest : Bytes) :
    (match m with
     | .hello .. => decodeHello (m.body ++ rest) = some m
     | .ack .. => decodeAck (m.body ++ rest) = some m
     | .rhe .. => decodeRhe (m.body ++ rest) = some m
     | .err c reason => decodeErr (m.body ++ rest) = some (c, reason)) := by
  cases m with
  | hello v r s mm mc url =>
    obtain ⟨h1, h2, h3, h4, h5, h6⟩ := hm
    simp only [Msg.body, decodeHello, List.append_assoc, readU32_enc _ h1, readU32_enc _ h2, readU32_enc _ h3,
      readU32_enc _ h4, readU32_enc _ h5, readString_enc _ h6, bind, Option.bind, pure]
  | ack v r s mm mc =>
    obtain ⟨h1, h2, h3, h4, h5⟩ := hm
    simp only [Msg.body, decodeAck, List.append_assoc, readU32_enc _ h1, readU32_enc _ h2, readU32_enc _ h3,
      readU32_enc _ h4, readU32_enc _ h5, bind, Option.bind, pure]
  | rhe uri url =>
    obtain ⟨h1, h2⟩ := hm
    simp only [Msg.body, decodeRhe, List.append_assoc, readString_enc _ h1, readString_enc _ h2, bind, Option.bind, pure]
  | err c reason =>
    obtain ⟨h1, h2⟩ := hm
    simp only [Msg.body]
    exact decodeErr_enc c reason h1 h2 rest

/-- the frame `Send` writes is a complete frame for every receiver whose buffer holds it -/
theorem send_complete {sndBuf rcvBuf : Nat} {typ body f : Bytes} (h : send sndBuf typ body = some f)
    (hr : f.length ≤ rcvBuf) (hr2 : rcvBuf < 4294967296) :
    completeFrame rcvBuf f ∧ f.length = body.length + hdrlen ∧ f.length ≤ sndBuf ∧
    f.take 4 = typ ∧ f.drop hdrlen = body := by
  unfold send at h
  by_cases ht : typ.length ≠ 4
  · simp [ht] at h
  · have ht4 : typ.length = 4 := by omega
    simp only [ht, if_false] at h
    split at h
    · cases h
    · rename_i hsz
      injection h with h
      have hmod : (body.length + hdrlen) % 4294967296 = body.length + hdrlen := by
        by_cases hb : body.length + hdrlen < 4294967296
        · exact Nat.mod_eq_of_lt hb
        · exfalso
          -- a body of 4 GiB or more: the truncated size passed the check but the frame is longer than any uint32 buffer
          subst h
          simp only [List.length_append, List.length_take, List.length_cons, List.length_nil, leBytes_length, ht4, hdrlen] at hr hb
          omega
      have h3 : (typ.take 3).length = 3 := by simp [ht4]
      have hpre : (typ.take 3 ++ [typ.getD 3 0] ++ leBytes 4 ((body.length + hdrlen) % 4294967296)).length = hdrlen := by
        simp [h3, hdrlen]
      have htyp : typ.take 3 ++ [typ.getD 3 0] = typ := by
        match typ, ht4 with
        | [a, b, c, d], _ => simp
      subst h
      refine ⟨⟨?_, hr, ?_⟩, ?_, ?_, ?_, ?_⟩
      · simp only [List.length_append, hpre]; omega
      · simp only [sizeOfHeader, List.append_assoc]
        rw [← List.append_assoc (typ.take 3), htyp, List.drop_left' ht4, List.take_left' (leBytes_length 4 _),
          leVal_leBytes, List.length_append, List.length_append, ht4, leBytes_length, hmod]
        have : (body.length + hdrlen) % 256 ^ 4 = body.length + hdrlen := Nat.mod_eq_of_lt (by
          have := Nat.mod_lt (body.length + hdrlen) (show 0 < 4294967296 by omega); omega)
        rw [this]; simp [hdrlen]; omega
      · simp only [List.length_append, hpre]; omega
      · rw [hmod] at hsz
        simp only [List.length_append, hpre]; omega
      · rw [htyp, List.append_assoc, List.take_left' ht4]
      · exact List.drop_left' hpre

end Opcua.Uacp
