import OpcuaModel.Base.Bytes
import OpcuaModel.Model.CodecTy
/-
  Executable model of the OPC UA binary codec of gopcua/opcua
  (`ua/encode.go`, `ua/decode.go`, `ua/buffer.go` and the hand-written codecs in
  `ua/datatypes.go`, `ua/node_id.go`, `ua/expanded_node_id.go`,
  `ua/diagnostic_info.go`, `ua/variant.go`, `ua/extension_object.go`).

  The model mirrors the Go code as it is, defects included:

  * `decode env fuel t` / `encode env fuel t v` follow the reflective walk; the
    hand-written codecs are separate functions that receive the recursive
    coder as a parameter (open recursion), exactly where the Go code calls
    `buf.ReadStruct` / `buf.WriteStruct`.
  * `fuel` is the depth of nested coder calls (Go stack depth in units of one
    `decode`/`Decode` call); running out of it is the outcome `Fail.depth`.
  * Outcomes that are not a value or an error return are explicit:
    `panicNegLen` (reflect.MakeSlice: negative len; no longer produced by the decoder since
    `Variant.Decode` rejects array lengths below -1), `panicSlice`
    (reflect.Value.Slice out of bounds in `split`), `panicIndex` (`elems[0]` on
    an empty slice in `split`), `panicNilValue` (`Encode(nil)`), `panicNilPtr`
    (nil receiver in a hand-written `Encode`), `diverge` (`split` with step 0),
    `alloc` (the optional allocation budget `env.limit`, counted in slice
    elements requested from `reflect.MakeSlice`/`make`/`append`, is exceeded).
  * The sticky `Buffer.err` is modelled by aborting at the first error: after an
    error the Go code only reads zero values and reaches its `return …,
    buf.Error()` without any further panic (checked case by case, see
    notes/C01.md), so outcome class and value agree.

  Integers are bit patterns (`Nat` below 256^w), floats are bit patterns with
  every NaN canonicalised to the quiet NaN the code writes, strings are byte
  lists, `time.Time` is `none` (zero time) or Unix nanoseconds.
-/
namespace Opcua.Codec
open Opcua

/-! ## values -/

structure Guid where
  d1 : Nat
  d2 : Nat
  d3 : Nat
  d4 : Bytes
  deriving Repr, DecidableEq, Inhabited

/-- `ua.NodeID` (all five unexported fields) -/
structure NodeId where
  mask : Nat
  ns : Nat
  nid : Nat
  bid : Option Bytes
  gid : Option Guid
  deriving Repr, DecidableEq, Inhabited

/-- `ua.ExpandedNodeID` -/
structure ExpNodeId where
  nodeId : Option NodeId
  uri : Bytes
  idx : Nat
  deriving Repr, DecidableEq, Inhabited

/-- `ua.LocalizedText` -/
structure LocText where
  mask : Nat
  locale : Bytes
  text : Bytes
  deriving Repr, DecidableEq, Inhabited

/-- one `ua.DiagnosticInfo` without its `InnerDiagnosticInfo` pointer; a
    DiagnosticInfo value is the list of its levels, outermost first -/
structure DiagLevel where
  mask : Nat
  sym : Nat
  ns : Nat
  loc : Nat
  lt : Nat
  info : Bytes
  status : Nat
  deriving Repr, DecidableEq, Inhabited

/-- Go type of `Variant.value`: built-in type id of the element and slice nesting depth -/
structure VTag where
  base : Nat
  depth : Nat
  deriving Repr, DecidableEq, Inhabited

inductive Val where
  | bool (b : Bool)
  | int (n : Nat)
  | f32 (bits : Nat)
  | f64 (bits : Nat)
  | str (s : Bytes)
  | time (t : Option Int)
  | bytes (b : Option Bytes)
  | slice (isNil : Bool) (xs : List Val)
  /-- nil pointer / nil interface -/
  | nil
  | ptr (v : Val)
  | struct (fs : List Val)
  | guid (g : Guid)
  | nodeId (n : NodeId)
  | expNodeId (e : ExpNodeId)
  | locText (l : LocText)
  | diag (levels : List DiagLevel)
  | dataValue (mask : Nat) (value : Val) (status : Nat) (srcTs : Option Int) (srcPs : Nat)
      (srvTs : Option Int) (srvPs : Nat)
  | variant (mask : Nat) (alen : Nat) (dlen : Nat) (dims : Option (List Nat)) (vt : VTag) (value : Val)
  | extObj (mask : Nat) (typeId : Option ExpNodeId) (vname : String) (value : Val)
  deriving Repr, Inhabited

/-- the nil pointer / nil interface -/
def Val.isNil : Val → Bool
  | .nil => true
  | _ => false

/-! ## outcomes -/

inductive Fail where
  | err
  | panicNegLen
  | panicSlice
  | panicIndex
  | panicNilValue
  | panicNilPtr
  | diverge
  | depth
  | alloc
  /-- the value handed to the model's encoder does not fit the type (no Go counterpart) -/
  | illTyped
  deriving Repr, DecidableEq, Inhabited

/-- where the decoder asks for memory in proportion to a number it read from the input -/
inductive Site where
  /-- `reflect.MakeSlice(n)` in `decodeSlice` -/
  | slice
  /-- `reflect.MakeSlice(n)` for the elements of a Variant array -/
  | varArray
  /-- `make([]int32, n)` for the Variant dimensions -/
  | dims
  /-- the rows `split` appends -/
  | split
  deriving Repr, DecidableEq, Inhabited

structure Env where
  /-- allocation budget in slice elements (`none`: unlimited, the real code) -/
  limit : Option Nat
  /-- the extension object registry -/
  exts : List RegEntry
  /-- allocation sites that are not counted against the budget (used by the driver to tell which site exceeds it) -/
  exempt : List Site := []

structure St where
  buf : Bytes
  alloc : Nat
  deriving Repr

inductive Res (α : Type) where
  | ok (a : α) (s : St)
  | fail (f : Fail)
  deriving Repr

def Dec (α : Type) : Type := St → Res α

namespace Dec
@[inline] protected def pure {α : Type} (a : α) : Dec α := fun s => .ok a s
@[inline] protected def bind {α β : Type} (x : Dec α) (f : α → Dec β) : Dec β := fun s =>
  match x s with
  | .ok a s' => f a s'
  | .fail e => .fail e
@[inline] protected def fail {α : Type} (f : Fail) : Dec α := fun _ => .fail f
instance : Monad Dec where
  pure := Dec.pure
  bind := Dec.bind
end Dec

abbrev Enc := Except Fail Bytes

/-! ## constants and small arithmetic -/

def null32 : Nat := 0xffffffff
def maxInt32 : Nat := 0x7fffffff
def maxVariantArrayLength : Int := 0xffff
def qnan32 : Nat := 0xffc00000
def qnan64 : Nat := 0xfff8000000000000
/-- 100 ns ticks between 1601-01-01 and 1970-01-01 -/
def epochTicks : Int := 116444736000000000

def toInt32 (n : Nat) : Int := if n < 2147483648 then (n : Int) else (n : Int) - 4294967296
def toInt64 (n : Nat) : Int := if n < 9223372036854775808 then (n : Int) else (n : Int) - 18446744073709551616

def isNaN32 (bits : Nat) : Bool := (bits / 8388608) % 256 == 255 && bits % 8388608 != 0
def isNaN64 (bits : Nat) : Bool := (bits / 4503599627370496) % 2048 == 2047 && bits % 4503599627370496 != 0
def canon32 (bits : Nat) : Nat := if isNaN32 bits then qnan32 else bits
def canon64 (bits : Nat) : Nat := if isNaN64 bits then qnan64 else bits

/-- `x&mask == mask` -/
def has (x mask : Nat) : Bool := x &&& mask == mask

/-- `WriteTime`: zero time → 0, otherwise `uint64(UnixNano()/100 + 116444736000000000)` -/
def timeTicks : Option Int → Nat
  | none => 0
  | some ns => ((Int.tdiv ns 100 + epochTicks) % 18446744073709551616).toNat

/-- `ReadTime`: 0 → zero time, otherwise `time.Unix(0, int64((ts-116444736000000000)*100))` -/
def ticksTime (ts : Nat) : Option Int :=
  if ts = 0 then none
  else some (toInt64 ((((ts : Int) - epochTicks) * 100) % 18446744073709551616).toNat)

/-! ## Buffer reads -/

def readN (n : Nat) : Dec Bytes := fun s =>
  if n ≤ s.buf.length then .ok (s.buf.take n) { s with buf := s.buf.drop n } else .fail .err

def readUInt (w : Nat) : Dec Nat := do
  let d ← readN w
  pure (leVal d)

/-- `Buffer.ReadBytes`: 0 and 0xffffffff both give nil -/
def readBytes : Dec (Option Bytes) := do
  let n ← readUInt 4
  if n = 0 ∨ n = null32 then pure none
  else do
    let d ← readN n
    pure (some d)

def readString : Dec Bytes := do
  let b ← readBytes
  pure (b.getD [])

def readTime : Dec (Option Int) := do
  let ts ← readUInt 8
  pure (ticksTime ts)

/-- a field that is only present when its bit of the encoding mask is set -/
def optDec {α : Type} (c : Bool) (d : Dec α) (dflt : α) : Dec α := if c then d else pure dflt

/-- count an allocation of `n` slice elements against the budget -/
def request (env : Env) (n : Nat) : Dec Unit := fun s =>
  match env.limit with
  | none => .ok () s
  | some l => if s.alloc + n > l then .fail .alloc else .ok () { s with alloc := s.alloc + n }

/-- the environment as one allocation site sees it: an exempt site has no budget -/
def Env.forSite (env : Env) (site : Site) : Env :=
  if env.exempt.contains site then { env with limit := none } else env

/-- `request` at a named allocation site -/
def requestAt (env : Env) (site : Site) (n : Nat) : Dec Unit := request (env.forSite site) n

def decElems {α : Type} (d : Dec α) : Nat → Dec (List α)
  | 0 => pure []
  | n + 1 => do
    let v ← d
    let vs ← decElems d n
    pure (v :: vs)

def decFields (rec : Ty → Dec Val) : List Ty → Dec (List Val)
  | [] => pure []
  | t :: ts => do
    let v ← rec t
    let vs ← decFields rec ts
    pure (v :: vs)

/-! ## Buffer writes -/

def writeByteString : Option Bytes → Enc
  | none => .ok (leBytes 4 null32)
  | some d => if d.length > maxInt32 then .error .err else .ok (leBytes 4 d.length ++ d)

def writeString (s : Bytes) : Enc :=
  if s.isEmpty then .ok (leBytes 4 null32) else writeByteString (some s)

def writeTime (t : Option Int) : Bytes := leBytes 8 (timeTicks t)

/-- a field that is only written when its bit of the encoding mask is set -/
def optEnc (c : Bool) (e : Enc) : Enc := if c then e else .ok []
def optBytes (c : Bool) (b : Bytes) : Bytes := if c then b else []

def encFields (rec : Ty → Val → Enc) : List Ty → List Val → Enc
  | [], [] => .ok []
  | t :: ts, v :: vs => do
    let a ← rec t v
    let b ← encFields rec ts vs
    pure (a ++ b)
  | _, _ => .error .illTyped

def encElems (rec : Val → Enc) : List Val → Enc
  | [] => .ok []
  | v :: vs => do
    let a ← rec v
    let b ← encElems rec vs
    pure (a ++ b)

/-! ## GUID, NodeID, ExpandedNodeID, LocalizedText -/

def decGuid : Dec Guid := do
  let d1 ← readUInt 4
  let d2 ← readUInt 2
  let d3 ← readUInt 2
  let d4 ← readN 8
  pure ⟨d1, d2, d3, d4⟩

def encGuid (g : Guid) : Bytes := leBytes 4 g.d1 ++ leBytes 2 g.d2 ++ leBytes 2 g.d3 ++ g.d4

def decNodeId : Dec NodeId := do
  let mask ← readUInt 1
  let typ := mask % 16
  if typ = 0 then do
    let nid ← readUInt 1
    pure ⟨mask, 0, nid, none, none⟩
  else if typ = 1 then do
    let ns ← readUInt 1
    let nid ← readUInt 2
    pure ⟨mask, ns, nid, none, none⟩
  else if typ = 2 then do
    let ns ← readUInt 2
    let nid ← readUInt 4
    pure ⟨mask, ns, nid, none, none⟩
  else if typ = 4 then do
    let ns ← readUInt 2
    let g ← decGuid
    pure ⟨mask, ns, 0, none, some g⟩
  else if typ = 3 ∨ typ = 5 then do
    let ns ← readUInt 2
    let bid ← readBytes
    pure ⟨mask, ns, 0, bid, none⟩
  else Dec.fail .err

def encNodeId (n : NodeId) : Enc :=
  let typ := n.mask % 16
  let m := leBytes 1 n.mask
  if typ = 0 then .ok (m ++ leBytes 1 n.nid)
  else if typ = 1 then .ok (m ++ leBytes 1 n.ns ++ leBytes 2 n.nid)
  else if typ = 2 then .ok (m ++ leBytes 2 n.ns ++ leBytes 4 n.nid)
  else if typ = 4 then
    match n.gid with
    | none => .error .panicNilPtr
    | some g => .ok (m ++ leBytes 2 n.ns ++ encGuid g)
  else if typ = 3 ∨ typ = 5 then do
    let b ← writeByteString n.bid
    pure (m ++ leBytes 2 n.ns ++ b)
  else .error .err

def decExpNodeId : Dec ExpNodeId := do
  let n ← decNodeId
  let uri ← optDec (decide (n.mask / 128 % 2 = 1)) readString []
  let idx ← optDec (decide (n.mask / 64 % 2 = 1)) (readUInt 4) 0
  pure ⟨some n, uri, idx⟩

def encExpNodeId (e : ExpNodeId) : Enc :=
  match e.nodeId with
  | none => .ok (leBytes 2 0)
  | some n => do
    let a ← encNodeId n
    let b ← optEnc (decide (n.mask / 128 % 2 = 1)) (writeString e.uri)
    pure (a ++ b ++ optBytes (decide (n.mask / 64 % 2 = 1)) (leBytes 4 e.idx))

def decLocText : Dec LocText := do
  let mask ← readUInt 1
  let locale ← optDec (has mask 1) readString []
  let text ← optDec (has mask 2) readString []
  pure ⟨mask, locale, text⟩

def encLocText (l : LocText) : Enc := do
  let a ← optEnc (has l.mask 1) (writeString l.locale)
  let b ← optEnc (has l.mask 2) (writeString l.text)
  pure (leBytes 1 l.mask ++ a ++ b)

/-! ## DiagnosticInfo -/

def decDiagLevel : Dec DiagLevel := do
  let mask ← readUInt 1
  let sym ← optDec (has mask 0x1) (readUInt 4) 0
  let ns ← optDec (has mask 0x2) (readUInt 4) 0
  let loc ← optDec (has mask 0x8) (readUInt 4) 0
  let lt ← optDec (has mask 0x4) (readUInt 4) 0
  let info ← optDec (has mask 0x10) readString []
  let status ← optDec (has mask 0x20) (readUInt 4) 0
  pure ⟨mask, sym, ns, loc, lt, info, status⟩

/-- `(*DiagnosticInfo).Decode`; one unit of fuel per nested `ReadStruct` -/
def decDiag : Nat → Dec (List DiagLevel)
  | 0 => Dec.fail .depth
  | fuel + 1 => do
    let l ← decDiagLevel
    if has l.mask 0x40 then do
      let ls ← decDiag fuel
      pure (l :: ls)
    else pure [l]

def encDiagLevel (l : DiagLevel) : Enc := do
  let info ← optEnc (has l.mask 0x10) (writeString l.info)
  pure (leBytes 1 l.mask
    ++ optBytes (has l.mask 0x1) (leBytes 4 l.sym)
    ++ optBytes (has l.mask 0x2) (leBytes 4 l.ns)
    ++ optBytes (has l.mask 0x8) (leBytes 4 l.loc)
    ++ optBytes (has l.mask 0x4) (leBytes 4 l.lt)
    ++ info
    ++ optBytes (has l.mask 0x20) (leBytes 4 l.status))

/-- `(*DiagnosticInfo).Encode`; the empty list is the nil pointer -/
def encDiag : Nat → List DiagLevel → Enc
  | 0, _ => .error .depth
  | _ + 1, [] => .error .panicNilPtr
  | fuel + 1, l :: ls => do
    let a ← encDiagLevel l
    if has l.mask 0x40 then do
      let b ← encDiag fuel ls
      pure (a ++ b)
    else pure a

/-! ## Variant -/

/-- Go type behind a built-in type id as `decodeValue` / `encodeValue` treat it
    (15 = ByteString is special-cased: `ReadBytes` / `WriteByteString`) -/
def qualifiedNamePtr : Ty := .ptr (.struct [.int 2, .string])

def vElemTy : Nat → Option Ty
  | 1 => some .bool
  | 2 => some (.int 1)
  | 3 => some (.int 1)
  | 4 => some (.int 2)
  | 5 => some (.int 2)
  | 6 => some (.int 4)
  | 7 => some (.int 4)
  | 8 => some (.int 8)
  | 9 => some (.int 8)
  | 10 => some .f32
  | 11 => some .f64
  | 12 => some .string
  | 13 => some .time
  | 14 => some .guid
  | 16 => some .string
  | 17 => some .nodeId
  | 18 => some .expNodeId
  | 19 => some (.int 4)
  | 20 => some qualifiedNamePtr
  | 21 => some .locText
  | 22 => some .extObj
  | 23 => some .dataValue
  | 24 => some .variant
  | 25 => some .diag
  | _ => none

/-- `(*Variant).decodeValue` -/
def decVarValue (rec : Ty → Dec Val) (tid : Nat) : Dec Val :=
  if tid = 15 then do
    let b ← readBytes
    pure (.bytes b)
  else match vElemTy tid with
    | some ty => rec ty
    | none => pure .nil

/-- `vals.Slice(i, j)` at the last level of `split` -/
def splitLeaf (vals : List Val) (valsNil : Bool) (i j : Nat) : Dec Val :=
  if j < i ∨ vals.length < j then Dec.fail .panicSlice
  else pure (.slice valsNil ((vals.drop i).take (j - i)))

/-- `for ; i < j; i += step { elems = append(elems, split(level+1, i, i+step, …)) }` -/
def splitLoop (f : Nat → Nat → Dec Val) (step : Nat) : Nat → Nat → Nat → Dec (List Val)
  | 0, _, _ => pure []
  | k + 1, i, j =>
    if i < j then do
      let e ← f i (i + step)
      let es ← splitLoop f step k (i + step) j
      pure (e :: es)
    else pure []

/-- `split(level, i, j, dims, vals)`; the list argument is `dims[level:]` -/
def splitM (env : Env) (vals : List Val) (valsNil : Bool) : List Nat → Nat → Nat → Dec Val
  | [], i, j => splitLeaf vals valsNil i j
  | [_], i, j => splitLeaf vals valsNil i j
  | d :: d' :: ds, i, j =>
    if vals.length > 0 then
      let step := (j - i) / d
      if step = 0 then
        -- `for ; i < j; i += 0`: the body `split(level+1, i, i, …)` runs first (it may panic); if it returns, the
        -- loop appends its result forever
        (if i < j then do
           let _ ← splitM env vals valsNil (d' :: ds) i i
           Dec.fail .diverge
         else Dec.fail .panicIndex)
      else do
        requestAt env .split ((j - i + step - 1) / step)
        let elems ← splitLoop (fun a b => splitM env vals valsNil (d' :: ds) a b) step (j - i) i j
        if elems.isEmpty then Dec.fail .panicIndex else pure (.slice false elems)
    else do
      requestAt env .split d
      let elems ← decElems (splitM env vals valsNil (d' :: ds) 0 0) d
      if elems.isEmpty then Dec.fail .panicIndex else pure (.slice false elems)

/-- the dimension list of a Variant: each `ReadInt32`, an entry below 1 is an error -/
def decDims : Nat → Dec (List Nat)
  | 0 => pure []
  | n + 1 => do
    let d ← readUInt 4
    if toInt32 d < 1 then Dec.fail .err
    else do
      let ds ← decDims n
      pure (d :: ds)

/-- the dimension check of `Variant.Decode`: the product of the dimensions (each ≥ 1), computed in 64 bits with
    an early exit as soon as it exceeds the array length, must equal the array length; a null array (−1) cannot
    have dimensions.  (Until the repair of C02.variant-dims-overflow the product was computed in `int32`.) -/
def dimsMismatch (ds : List Nat) (alen : Nat) : Bool :=
  decide (toInt32 alen < 0 ∨ ds.foldl (· * ·) 1 ≠ (toInt32 alen).toNat)

def zeroVariant : Val := .variant 0 0 0 none ⟨0, 0⟩ .nil

/-- the flattened elements of an array Variant: none for length -1 (nil slice), else `reflect.MakeSlice` and one
    `decodeValue` per element -/
def decVarElems (env : Env) (elem : Dec Val) (n : Int) : Dec (List Val) :=
  if n = -1 then pure []
  else do
    requestAt env .varArray n.toNat
    decElems elem n.toNat

/-- `if int(m.arrayDimensionsLength) > buf.Len()/4 { return … }`: more dimensions than four-byte groups left in
    the buffer are an error (since the repair of C02.variant-dims-prealloc) -/
def checkDimCount (dl : Nat) : Dec Unit := fun s =>
  if dl > s.buf.length / 4 then .fail .err else .ok () s

/-- the dimension list: the count check, `make([]int32, dl)`, and the dimension entries -/
def decDimList (env : Env) (dl : Nat) : Dec (Option (List Nat)) := do
  checkDimCount dl
  requestAt env .dims dl
  let ds ← decDims dl
  pure (some ds)

/-- `(*Variant).Decode` -/
def decVariant (env : Env) (rec : Ty → Dec Val) : Dec Val := do
  let mask ← readUInt 1
  let tid := mask % 64
  if tid = 0 then pure (.variant mask 0 0 none ⟨0, 0⟩ .nil)
  else if tid > 25 then Dec.fail .err
  else if ¬ has mask 0x80 then do
    let v ← decVarValue rec tid
    pure (.variant mask 0 0 none ⟨tid, 0⟩ v)
  else do
    let alen ← readUInt 4
    let n := toInt32 alen
    if n > maxVariantArrayLength then Dec.fail .err
    else if n < -1 then Dec.fail .err
    else do
      let vals ← decVarElems env (decVarValue rec tid) n
      let valsNil := decide (n = -1)
      let dl ← optDec (has mask 0x40) (readUInt 4) 0
      if toInt32 dl < 0 then Dec.fail .err
      else do
        let dims ← optDec (has mask 0x40) (decDimList env dl) none
        let ds := dims.getD []
        if dl > 0 ∧ dimsMismatch ds alen then Dec.fail .err
        else if dl < 2 then pure (.variant mask alen dl dims ⟨tid, 1⟩ (.slice valsNil vals))
        else do
          let v ← splitM env vals valsNil ds 0 vals.length
          pure (.variant mask alen dl dims ⟨tid, dl⟩ v)

mutual
/-- the values `(*Variant).encode` hands to `encodeValue`, in order (for type ids other than ByteString) -/
def leaves : Val → List Val
  | .slice _ xs => leavesL xs
  | v => [v]
def leavesL : List Val → List Val
  | [] => []
  | v :: vs => leaves v ++ leavesL vs
end

/-- `encodeValue` on one value whose Go type is the built-in type `base` -/
def encVarLeaf (rec : Ty → Val → Enc) (base : Nat) (v : Val) : Enc :=
  match v with
  | .slice _ _ => .ok []
  | .bytes b => writeByteString b
  | v => match vElemTy base with
    | some ty => rec ty v
    | none => .ok []

/-- `m.encode(buf, reflect.ValueOf(m.value))`: a `[]byte` is one value, every other slice is flattened.
    `value == nil` (nil interface, tag 0) makes `val.Interface()` panic; a typed nil pointer inside the interface is
    an ordinary leaf.  (Until the repair of C01.variant-bytestring-array a Variant of type ByteString handed its
    whole value — also a `[][]byte` — to `encodeValue`, which wrote nothing for it.) -/
def encVarValue (rec : Ty → Val → Enc) (_tid : Nat) (vt : VTag) (value : Val) : Enc :=
  if value.isNil ∧ vt.base = 0 then .error .panicNilValue
  else encElems (encVarLeaf rec vt.base) (leaves value)

/-- `buf.WriteInt32(m.arrayDimensionsLength)` and `m.arrayDimensions[i]` for `i < int(m.arrayDimensionsLength)` -/
def encDimList (dlen : Nat) (dims : Option (List Nat)) : Enc :=
  let n := (toInt32 dlen).toNat
  let ds := dims.getD []
  if ds.length < n then .error .panicIndex
  else .ok (leBytes 4 dlen ++ (ds.take n).flatMap (leBytes 4))

/-- `(*Variant).Encode` -/
def encVariant (rec : Ty → Val → Enc) (mask alen dlen : Nat) (dims : Option (List Nat)) (vt : VTag) (value : Val) : Enc :=
  let tid := mask % 64
  if tid = 0 then .ok (leBytes 1 mask)
  else do
    let a := optBytes (has mask 0x80) (leBytes 4 alen)
    let b ← encVarValue rec tid vt value
    -- dimensions are written for arrays only (since the repair of C03.variant-scalar-dims-bit)
    let c ← optEnc (has mask 0x80 && has mask 0x40) (encDimList dlen dims)
    pure (leBytes 1 mask ++ a ++ b ++ c)

/-! ## DataValue -/

def decDataValue (recVariant : Dec Val) : Dec Val := do
  let mask ← readUInt 1
  let value ← optDec (has mask 0x1) recVariant zeroVariant
  let status ← optDec (has mask 0x2) (readUInt 4) 0
  let srcTs ← optDec (has mask 0x4) readTime none
  let srcPs ← optDec (has mask 0x10) (readUInt 2) 0
  let srvTs ← optDec (has mask 0x8) readTime none
  let srvPs ← optDec (has mask 0x20) (readUInt 2) 0
  pure (.dataValue mask value status srcTs srcPs srvTs srvPs)

def encDataValue (recVariant : Val → Enc) (mask : Nat) (value : Val) (status : Nat) (srcTs : Option Int)
    (srcPs : Nat) (srvTs : Option Int) (srvPs : Nat) : Enc := do
  let v ← optEnc (has mask 0x1) (recVariant value)
  pure (leBytes 1 mask ++ v
    ++ optBytes (has mask 0x2) (leBytes 4 status)
    ++ optBytes (has mask 0x4) (writeTime srcTs)
    ++ optBytes (has mask 0x10) (leBytes 2 srcPs)
    ++ optBytes (has mask 0x8) (writeTime srvTs)
    ++ optBytes (has mask 0x20) (leBytes 2 srvPs))

/-! ## ExtensionObject -/

/-- the numeric id `N` if `NodeID.String()` has the form `i=N` (the only form of a registry key) -/
def regKey (n : NodeId) : Option Nat :=
  let typ := n.mask % 16
  if typ = 0 then some n.nid
  else if (typ = 1 ∨ typ = 2) ∧ n.ns = 0 then some n.nid
  else none

def findIdx (p : RegEntry → Bool) : List RegEntry → Nat → Option Nat
  | [], _ => none
  | e :: es, i => if p e then some i else findIdx p es (i + 1)

/-- position of the entry registered under `i=id` (`eotypes.New`) -/
def lookupId (env : Env) (id : Nat) : Option Nat := findIdx (·.id == id) env.exts 0
/-- position of the entry of the Go type `*ua.<name>` (the dynamic type of `Value`) -/
def lookupName (env : Env) (name : String) : Option Nat := findIdx (·.name == name) env.exts 0
def entry (env : Env) (i : Nat) : RegEntry := env.exts.getD i default

def xmlElementPtr : Ty := .ptr .string
def xmlName : String := "XMLElement"

/-- run a decoder on the extension object body; what it leaves unread is dropped -/
def onBody {α : Type} (body : Bytes) (d : Dec α) : Dec α := fun s =>
  match d ⟨body, s.alloc⟩ with
  | .ok a s' => .ok a { s with alloc := s'.alloc }
  | .fail f => .fail f

/-- `(*ExtensionObject).Decode` -/
def decExtObj (env : Env) (rec : Ty → Dec Val) : Dec Val := do
  let tid ← decExpNodeId
  let mask ← readUInt 1
  if mask = 0 then pure (.extObj 0 (some tid) "" .nil)
  else do
    let len ← readUInt 4
    if len = 0 ∨ len = null32 then pure (.extObj mask (some tid) "" .nil)
    else do
      let body ← readN len
      if mask = 2 then do
        let v ← onBody body (rec xmlElementPtr)
        pure (.extObj mask (some tid) xmlName v)
      else match tid.nodeId.bind regKey |>.bind (lookupId env) with
        | none => pure (.extObj mask (some tid) "" .nil)
        | some i => do
          let v ← onBody body (rec (.ptr (entry env i).ty))
          pure (.extObj mask (some tid) (entry env i).name v)

/-- `buf.WriteStruct(e.TypeID)`: a nil `*ExpandedNodeID` returns the error "e was nil" -/
def encTypeId : Option ExpNodeId → Enc
  | none => .error .err
  | some e => encExpNodeId e

/-- `body.WriteStruct(e.Value)` for `Value != nil`; a typed nil pointer inside the interface encodes to nothing. -/
def encExtBody (env : Env) (rec : Ty → Val → Enc) (vname : String) (value : Val) : Enc :=
  if vname == xmlName then rec xmlElementPtr value
  else match lookupName env vname with
    | some i => rec (.ptr (entry env i).ty) value
    | none => .error .illTyped

/-- the encoder result is a panic (or the stack limit), not an error return -/
def isPanic (e : Enc) : Bool :=
  match e with
  | .error .err => false
  | .error .alloc => false
  | .error _ => true
  | .ok _ => false

/-- `(*ExtensionObject).Encode` for a non-nil receiver -/
def encExtObj (env : Env) (rec : Ty → Val → Enc) (mask : Nat) (typeId : Option ExpNodeId) (vname : String) (value : Val) : Enc :=
  -- `buf.WriteStruct(e.TypeID)` only sets the sticky error of `buf`; the body is written into its own buffer, so
  -- a panic or error while encoding the body comes before the error of the type id (a panic in the type id is first)
  let t := encTypeId typeId
  if isPanic t then t
  else if mask = 0 then do
    let tb ← t
    pure (tb ++ leBytes 1 mask)
  else if value.isNil ∧ vname.isEmpty then do
    -- `e.Value == nil` (unknown type id, or sent without a body): a null body
    -- (since the repair of C03.extobj-nil-value; `ua.Encode(nil)` used to panic here)
    let tb ← t
    pure (tb ++ leBytes 1 mask ++ leBytes 4 null32)
  else do
    let body ← encExtBody env rec vname value
    let tb ← t
    pure (tb ++ leBytes 1 mask ++ leBytes 4 body.length ++ body)

/-! ## the reflective walk -/

/-- `decodeSlice` (not the `[]byte` fast path) -/
def decSlice (env : Env) (elem : Dec Val) : Dec Val := do
  let n ← readUInt 4
  if n = null32 then pure (.slice true [])
  else if n > maxInt32 then Dec.fail .err
  else do
    requestAt env .slice n
    let vs ← decElems elem n
    pure (.slice false vs)

/-- `decodeSlice`, `[]byte` fast path -/
def decByteSlice : Dec Val := do
  let n ← readUInt 4
  if n = null32 then pure (.bytes none)
  else if n > maxInt32 then Dec.fail .err
  else do
    let d ← readN n
    pure (.bytes (some d))

/-- `ua.decode` -/
def decode (env : Env) : Nat → Ty → Dec Val
  | 0, _ => Dec.fail .depth
  | fuel + 1, t =>
    match t with
    | .bool => do
      let b ← readUInt 1
      pure (.bool (decide (b > 0)))
    | .int w => do
      let n ← readUInt w
      pure (.int n)
    | .f32 => do
      let n ← readUInt 4
      pure (.f32 (canon32 n))
    | .f64 => do
      let n ← readUInt 8
      pure (.f64 (canon64 n))
    | .string => do
      let s ← readString
      pure (.str s)
    | .time => do
      let t ← readTime
      pure (.time t)
    | .bytes => decByteSlice
    | .slice e => decSlice env (decode env fuel e)
    | .ptr e => do
      let v ← decode env fuel e
      pure (.ptr v)
    | .struct fs => do
      let vs ← decFields (decode env fuel) fs
      pure (.struct vs)
    | .guid => do
      let g ← decGuid
      pure (.guid g)
    | .nodeId => do
      let n ← decNodeId
      pure (.nodeId n)
    | .expNodeId => do
      let e ← decExpNodeId
      pure (.expNodeId e)
    | .locText => do
      let l ← decLocText
      pure (.locText l)
    | .diag => do
      let ls ← decDiag (fuel + 1)
      pure (.diag ls)
    | .dataValue => decDataValue (decode env fuel .variant)
    | .variant => decVariant env (decode env fuel)
    | .extObj => decExtObj env (decode env fuel)

/-- `writeSlice` (not the `[]byte` fast path) -/
def encSlice (elem : Val → Enc) (isNil : Bool) (xs : List Val) : Enc :=
  if isNil then .ok (leBytes 4 null32)
  else if xs.length > maxInt32 then .error .err
  else do
    let b ← encElems elem xs
    pure (leBytes 4 xs.length ++ b)

/-- `ua.encode`; a nil pointer to a type with a hand-written codec calls that
    codec with a nil receiver -/
def encode (env : Env) : Nat → Ty → Val → Enc
  | 0, _, _ => .error .depth
  | fuel + 1, t, v =>
    match t, v with
    | .bool, .bool b => .ok [if b then 1 else 0]
    | .int w, .int n => .ok (leBytes w n)
    | .f32, .f32 bits => .ok (leBytes 4 (canon32 bits))
    | .f64, .f64 bits => .ok (leBytes 8 (canon64 bits))
    | .string, .str s => writeString s
    | .time, .time t => .ok (writeTime t)
    | .bytes, .bytes b =>
      match b with
      | none => .ok (leBytes 4 null32)
      | some d => if d.length > maxInt32 then .error .err else .ok (leBytes 4 d.length ++ d)
    | .slice e, .slice isNil xs => encSlice (encode env fuel e) isNil xs
    | .ptr _, .nil => .ok []
    | .ptr e, .ptr x => encode env fuel e x
    | .struct ts, .struct vs => encFields (encode env fuel) ts vs
    | .guid, .guid g => .ok (encGuid g)
    | .guid, .nil => .error .panicNilPtr
    | .nodeId, .nodeId n => encNodeId n
    | .nodeId, .nil => .error .panicNilPtr
    | .expNodeId, .expNodeId e => encExpNodeId e
    | .expNodeId, .nil => .error .err
    | .locText, .locText l => encLocText l
    | .locText, .nil => .error .panicNilPtr
    | .diag, .diag ls => encDiag (fuel + 1) ls
    | .diag, .nil => .error .panicNilPtr
    | .dataValue, .dataValue mask value status srcTs srcPs srvTs srvPs =>
      encDataValue (encode env fuel .variant) mask value status srcTs srcPs srvTs srvPs
    | .dataValue, .nil => .error .panicNilPtr
    | .variant, .variant mask alen dlen dims vt value => encVariant (encode env fuel) mask alen dlen dims vt value
    | .variant, .nil => .error .panicNilPtr
    | .extObj, .extObj mask typeId vname value => encExtObj env (encode env fuel) mask typeId vname value
    | .extObj, .nil => .ok (leBytes 2 0 ++ leBytes 1 0)
    | _, _ => .error .illTyped

end Opcua.Codec
