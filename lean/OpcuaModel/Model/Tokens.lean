import OpcuaModel.Base.Bytes
/-
  Model of the security-token table of a gopcua client channel
  (`uasc/secure_channel.go`): `SecureChannel.instances`, a map from secure
  channel id to the list of channel instances (one per token) kept for
  decryption.

    handleOpenSecureChannelResponse:
        s.instances[resp.SecurityToken.ChannelID] = append(s.instances[ChannelID], s.openingInstance)
        go s.scheduleExpiration(instance)
    verifyAndDecrypt(m, b, nil):
        instances := s.instances[m.SecureChannelID]; len 0 → "unable to find instance"
        for i := len(instances)-1; i >= 0; i-- { if ok with instances[i] → return }  (newest first)
        return the last error
    scheduleExpiration(instance), after the timer (createdAt + 1.25·lifetime):
        oldInstances := s.instances[instance.securityTokenID]          -- indexed by TOKEN id
        s.instances[instance.securityTokenID] = []*channelInstance{}
        for _, old := range oldInstances { if old.securityTokenID == instance.securityTokenID { continue }; append }

  Key material is abstracted to an identity `key` (one per pair of nonces): a
  chunk secured with key k verifies under an instance iff the instance has key k.
-/
namespace Opcua.Tokens
open Opcua

structure Inst where
  chan : Nat
  tok : Nat
  key : Nat
  deriving Repr, DecidableEq

abbrev Table := List (Nat × List Inst)

def Table.get (t : Table) (r : Nat) : List Inst :=
  match t.find? (fun e => e.1 == r) with
  | some e => e.2
  | none => []

def Table.set (t : Table) (r : Nat) (v : List Inst) : Table :=
  (r, v) :: t.filter (fun e => !(e.1 == r))

/-- `handleOpenSecureChannelResponse`: the new instance is appended under its channel id -/
def install (t : Table) (i : Inst) : Table := t.set i.chan (t.get i.chan ++ [i])

/-- the body of `scheduleExpiration` once the timer has fired — as written -/
def expire (t : Table) (i : Inst) : Table :=
  t.set i.tok ((t.get i.tok).filter (fun o => !(o.tok == i.tok)))

inductive Verdict where
  /-- verified with the instance of this token id -/
  | accepted (tok : Nat)
  /-- `sechan: unable to find instance for SecureChannelID` -/
  | noInstance
  /-- `StatusBadSecurityChecksFailed` (every stored instance refused) -/
  | securityFailed
  deriving Repr, DecidableEq

/-- `SecureChannel.verifyAndDecrypt(m, b, nil)` for a chunk with channel id
    `chan` in its header, secured with key `key` -/
def verify (t : Table) (chan key : Nat) : Verdict :=
  match t.get chan with
  | [] => .noInstance
  | l =>
    match l.reverse.find? (fun i => i.key == key) with
    | some i => .accepted i.tok
    | none => .securityFailed

inductive Ev where
  | opn (i : Inst)
  | expire (i : Inst)
  | chunk (chan key : Nat)
  deriving Repr, DecidableEq

/-- the same on a channel in mode None: `channelInstance.verifyAndDecrypt` returns
    the chunk as it is (`SecurityMode == None && !isAsymmetric`), so the first
    instance tried — the newest one stored for the header's channel id —
    "verifies" every chunk; neither keys nor the token id of the symmetric
    security header are looked at -/
def verifyNone (t : Table) (chan : Nat) : Verdict :=
  match (t.get chan).reverse with
  | [] => .noInstance
  | i :: _ => .accepted i.tok

/-- verdicts of the chunk events of a run on a mode-None channel -/
def verdictsNone : Table → List Ev → List Verdict
  | _, [] => []
  | t, .chunk c _ :: r => verifyNone t c :: verdictsNone t r
  | t, .opn i :: r => verdictsNone (install t i) r
  | t, .expire i :: r => verdictsNone (expire t i) r

def stepEv (t : Table) : Ev → Table × Option Verdict
  | .opn i => (install t i, none)
  | .expire i => (expire t i, none)
  | .chunk c k => (t, some (verify t c k))

def runEvs : Table → List Ev → Table
  | t, [] => t
  | t, e :: r => runEvs (stepEv t e).1 r

def verdicts : Table → List Ev → List Verdict
  | _, [] => []
  | t, e :: r =>
    match (stepEv t e).2 with
    | some v => v :: verdicts (stepEv t e).1 r
    | none => verdicts (stepEv t e).1 r

/-! ### lemmas -/

theorem Table.get_set_same (t : Table) (r : Nat) (v : List Inst) : (t.set r v).get r = v := by
  simp [Table.get, Table.set]

theorem Table.find_filter_other (t : Table) {r r' : Nat} (h : r' ≠ r) :
    (t.filter (fun e => !(e.1 == r))).find? (fun e => e.1 == r') = t.find? (fun e => e.1 == r') := by
  induction t with
  | nil => rfl
  | cons e t ih =>
    rw [List.filter_cons]
    by_cases he : e.1 = r
    · have hne : ¬ e.1 = r' := by omega
      simp only [he, beq_self_eq_true, Bool.not_true, Bool.false_eq_true, if_false]
      rw [ih, List.find?_cons]
      have : (e.1 == r') = false := by simpa using hne
      simp [this]
    · have : (!(e.1 == r)) = true := by simpa using he
      simp only [this, if_true, List.find?_cons]
      split
      · rfl
      · exact ih

theorem Table.get_set_other (t : Table) {r r' : Nat} (v : List Inst) (h : r' ≠ r) :
    (t.set r v).get r' = t.get r' := by
  have h' : (r == r') = false := by
    have : ¬ r = r' := by omega
    simpa using this
  unfold Table.get Table.set
  rw [List.find?_cons]
  simp only [h']
  rw [Table.find_filter_other t h]

/-- expiry only ever touches the entry keyed by the instance's TOKEN id -/
theorem expire_get_other (t : Table) (i : Inst) {r : Nat} (h : r ≠ i.tok) :
    (expire t i).get r = t.get r := Table.get_set_other t _ h

theorem expire_get_tok (t : Table) (i : Inst) :
    (expire t i).get i.tok = (t.get i.tok).filter (fun o => !(o.tok == i.tok)) := Table.get_set_same t _ _

theorem install_get_same (t : Table) (i : Inst) : (install t i).get i.chan = t.get i.chan ++ [i] :=
  Table.get_set_same t _ _

theorem install_get_other (t : Table) (i : Inst) {r : Nat} (h : r ≠ i.chan) :
    (install t i).get r = t.get r := Table.get_set_other t _ h

/-- an instance stored under the chunk's channel id with the chunk's key makes
    `verify` accept -/
theorem verify_accepts_of_mem (t : Table) (c k : Nat) (i : Inst) (hm : i ∈ t.get c) (hk : i.key = k) :
    ∃ tok, verify t c k = .accepted tok := by
  unfold verify
  cases hl : t.get c with
  | nil => rw [hl] at hm; cases hm
  | cons a l =>
    have hm' : i ∈ (a :: l).reverse := by rw [hl] at hm; exact List.mem_reverse.mpr hm
    show ∃ tok, (match (a :: l).reverse.find? (fun i => i.key == k) with
      | some i => Verdict.accepted i.tok
      | none => Verdict.securityFailed) = .accepted tok
    cases hf : (a :: l).reverse.find? (fun i => i.key == k) with
    | some j => exact ⟨j.tok, rfl⟩
    | none =>
      rw [List.find?_eq_none] at hf
      have := hf i hm'
      simp [hk] at this

/-- every event is an OPN response for channel `c`, a chunk, or the expiry of
    an instance whose token id is not `c` -/
def NoTokEqChan (c : Nat) : List Ev → Prop
  | [] => True
  | .expire i :: r => i.tok ≠ c ∧ NoTokEqChan c r
  | _ :: r => NoTokEqChan c r

/-- an instance once stored for channel `c` survives every such event sequence -/
theorem kept_forever (c : Nat) (evs : List Ev) (t : Table) (i : Inst)
    (hno : NoTokEqChan c evs) (hm : i ∈ t.get c) : i ∈ (runEvs t evs).get c := by
  induction evs generalizing t with
  | nil => exact hm
  | cons e r ih =>
    cases e with
    | opn j =>
      apply ih _ hno
      simp only [stepEv]
      by_cases hc : c = j.chan
      · subst hc; rw [install_get_same]; exact List.mem_append_left _ hm
      · rw [install_get_other t j hc]; exact hm
    | expire j =>
      apply ih _ hno.2
      simp only [stepEv]
      rw [expire_get_other t j (fun e => hno.1 e.symm)]
      exact hm
    | chunk a k => exact ih _ hno hm


end Opcua.Tokens
