import OpcuaModel.Model.Recv
/-
  Specification side of C12: what a conforming peer may send (OPC UA Part 6,
  6.7.2: a message is split into chunks that carry the same RequestId, all but
  the last are intermediate ('C'), the last one is final ('F') or an abort
  ('A'); chunks of different messages may interleave; every chunk carries the
  next SequenceNumber of the channel), and the lemmas that relate the model of
  `Receive` to it.
-/
namespace Opcua.Recv.Spec
open Opcua Opcua.Recv

/-- one message as the sender put it on the wire -/
structure SMsg where
  req : Nat
  /-- (sequence number, payload) of the intermediate chunks -/
  inter : List (Nat × Bytes)
  lastSeq : Nat
  /-- payload of the last chunk (for an aborted message: the MessageAbort body) -/
  last : Bytes
  /-- the last chunk is an abort chunk instead of a final chunk -/
  abort : Bool
  deriving Repr, DecidableEq

def SMsg.interChunks (m : SMsg) : List Chunk := m.inter.map fun p => ⟨ctC, p.1, m.req, p.2⟩
def SMsg.lastChunk (m : SMsg) : Chunk := ⟨if m.abort then ctA else ctF, m.lastSeq, m.req, m.last⟩
/-- the chunks of the message in sending order -/
def SMsg.chunks (m : SMsg) : List Chunk := m.interChunks ++ [m.lastChunk]
/-- the message body the chunks encode: all payloads in order -/
def SMsg.body (m : SMsg) : Bytes := allData m.chunks

/-- what the receiver has to return when the last chunk of `m` arrives -/
def SMsg.expected (m : SMsg) : Out :=
  if m.abort then
    match decodeAbort m.last with
    | some code => .abort m.req code
    | none => .abortBad m.req
  else .merged m.req m.body

/-- the message respects the negotiated limits -/
def SMsg.fits (cfg : Cfg) (m : SMsg) : Prop :=
  exceeds cfg.chunk0 m.inter.length cfg.maxChunkCount = false ∧
  (m.abort = false → exceeds cfg.size0 m.body.length cfg.maxMessageSize = false)

/-- the duplicate filter of `mergeChunks` skips no chunk: the message is
    aborted, or neighbouring chunks carry different numbers -/
def SMsg.noDrop (m : SMsg) : Prop :=
  m.abort = true ∨ adjDistinct (m.chunks.map (·.seq))

instance (cfg : Cfg) (m : SMsg) : Decidable (m.fits cfg) := by unfold SMsg.fits; infer_instance
instance (m : SMsg) : Decidable m.noDrop := by unfold SMsg.noDrop; infer_instance

/-- the result the specification prescribes for each chunk of a stream made of
    the messages `msgs`: nothing for an intermediate chunk, the message (or its
    abort status) for the last chunk of a message -/
def specOut (msgs : List SMsg) (c : Chunk) : Out :=
  if c.ct = ctC then .cont else
  match msgs.find? (fun m => m.req == c.req) with
  | some m => m.expected
  | none => .cont

/-- progress of message `m`: `buf` = chunks already buffered, `R` = chunks of
    this request id still to come -/
def Good (m : SMsg) (buf R : List Chunk) : Prop :=
  (buf = [] ∧ R = []) ∨ (R ≠ [] ∧ buf ++ R = m.chunks)

theorem interChunks_ct (m : SMsg) {c : Chunk} (h : c ∈ m.interChunks) : c.ct = ctC := by
  simp only [SMsg.interChunks, List.mem_map] at h
  obtain ⟨p, _, rfl⟩ := h
  rfl

theorem lastChunk_ct (m : SMsg) : m.lastChunk.ct ≠ ctC := by
  unfold SMsg.lastChunk
  cases m.abort <;> simp [ctA, ctC, ctF]

/-- one chunk of message `m` through `step1` -/
theorem step1_good (cfg : Cfg) (m : SMsg) (hfit : m.fits cfg) (hg : m.noDrop)
    (buf R : List Chunk) (c : Chunk) (hc : c.req = m.req) (h : Good m buf (c :: R)) :
    (step1 cfg buf c).2 = (if c.ct = ctC then Out.cont else m.expected) ∧
    Good m (step1 cfg buf c).1 R := by
  rcases h with ⟨_, h⟩ | ⟨_, h⟩
  · cases h
  by_cases hR : R = []
  · -- c is the last chunk
    subst hR
    have hh : buf = m.interChunks ∧ [c] = [m.lastChunk] := by
      apply List.append_inj' h
      rfl
    obtain ⟨hb, hl⟩ := hh
    have hl : c = m.lastChunk := by simpa using hl
    have hct : c.ct ≠ ctC := hl ▸ lastChunk_ct m
    subst hb
    rw [if_neg hct]
    unfold step1
    by_cases ha : m.abort = true
    · have hA : c.ct = ctA := by rw [hl]; simp [SMsg.lastChunk, ha]
      have hd : c.data = m.last := by rw [hl]; rfl
      simp only [if_pos hA, SMsg.expected, ha, if_true, hd, hc]
      exact ⟨rfl, Or.inl ⟨rfl, rfl⟩⟩
    · have ha' : m.abort = false := by simpa using ha
      have hF : c.ct = ctF := by rw [hl]; simp [SMsg.lastChunk, ha']
      have hA : ¬ c.ct = ctA := by rw [hF]; decide
      have hall : m.interChunks ++ [c] = m.chunks := by rw [hl]; rfl
      have hmerge : mergeChunks m.chunks = m.body := by
        apply mergeChunks_all
        rcases hg with hg | hg
        · rw [ha'] at hg; cases hg
        · exact hg
      have hlen : ¬ (exceeds cfg.size0 m.body.length cfg.maxMessageSize = true) := by
        rw [hfit.2 ha']; simp
      simp only [if_neg hA, if_neg hct, hall, hmerge, if_neg hlen, SMsg.expected, ha', hc]
      exact ⟨by simp, Or.inl ⟨rfl, rfl⟩⟩
  · -- c is an intermediate chunk
    obtain ⟨R', x, rfl⟩ : ∃ R' x, R = R' ++ [x] := by
      rcases List.eq_nil_or_concat R with h0 | ⟨R', x, h1⟩
      · exact absurd h0 hR
      · exact ⟨R', x, by simpa using h1⟩
    have hh : buf ++ c :: R' = m.interChunks ∧ [x] = [m.lastChunk] := by
      apply List.append_inj'
      · simpa [SMsg.chunks, List.append_assoc] using h
      · rfl
    have hmem : c ∈ m.interChunks := by rw [← hh.1]; simp
    have hct : c.ct = ctC := interChunks_ct m hmem
    have hA : ¬ c.ct = ctA := by rw [hct]; decide
    have hlen : ¬ (exceeds cfg.chunk0 (buf ++ [c]).length cfg.maxChunkCount = true) := by
      have h1 : (buf ++ c :: R').length = m.inter.length := by
        rw [hh.1]; simp [SMsg.interChunks]
      have h3 : (buf ++ [c]).length ≤ m.inter.length := by
        simp only [List.length_append, List.length_cons, List.length_nil] at h1 ⊢
        omega
      rw [exceeds_mono hfit.1 h3]; simp
    unfold step1
    simp only [if_neg hA, if_pos hct, if_neg hlen]
    refine ⟨trivial, Or.inr ⟨by simp, ?_⟩⟩
    simpa [List.append_assoc] using h

/-- Every chunk of the stream belongs to one of the messages, and for every
    message the sub-stream of its request id, together with what is buffered,
    is exactly its chunk sequence: then the receiver returns, chunk by chunk,
    what the specification prescribes, and ends with empty buffers. -/
theorem run_spec (cfg : Cfg) (msgs : List SMsg)
    (hfit : ∀ m ∈ msgs, m.fits cfg) (hg : ∀ m ∈ msgs, m.noDrop) :
    ∀ (stream : List Chunk) (bufs : Bufs),
      (∀ c ∈ stream, ∃ m ∈ msgs, m.req = c.req) →
      (∀ m ∈ msgs, Good m (bufs.get m.req) (stream.filter (fun c => c.req == m.req))) →
      runOuts cfg bufs stream = stream.map (specOut msgs) ∧
      (∀ m ∈ msgs, (runFinal cfg bufs stream).get m.req = []) ∧
      (∀ r, (∀ m ∈ msgs, m.req ≠ r) → (runFinal cfg bufs stream).get r = bufs.get r) := by
  intro stream
  induction stream with
  | nil =>
    intro bufs _ hgood
    refine ⟨rfl, ?_, fun _ _ => rfl⟩
    intro m hm
    rcases hgood m hm with ⟨h, _⟩ | ⟨h, _⟩
    · exact h
    · simp at h
  | cons c rest ih =>
    intro bufs hcover hgood
    have hstep := step_get_same cfg bufs c
    have hs1 : (step cfg bufs c).1.get c.req = (step1 cfg (bufs.get c.req) c).1 := by
      rw [← hstep]
    have hs2 : (step cfg bufs c).2 = (step1 cfg (bufs.get c.req) c).2 := by
      rw [← hstep]
    -- the invariant after the step
    have hgood' : ∀ m ∈ msgs, Good m ((step cfg bufs c).1.get m.req) (rest.filter (fun c => c.req == m.req)) := by
      intro m hm
      have hgm := hgood m hm
      by_cases hreq : c.req = m.req
      · have hf : (c :: rest).filter (fun c => c.req == m.req) = c :: rest.filter (fun c => c.req == m.req) := by
          simp [hreq]
        rw [hf, ← hreq] at hgm
        have := (step1_good cfg m (hfit m hm) (hg m hm) _ _ c hreq hgm).2
        rw [← hreq, hs1]
        exact this
      · have hf : (c :: rest).filter (fun c => c.req == m.req) = rest.filter (fun c => c.req == m.req) := by
          simp [hreq]
        rw [hf] at hgm
        rw [step_get_other cfg bufs c (fun h => hreq h.symm)]
        exact hgm
    have hcover' : ∀ c ∈ rest, ∃ m ∈ msgs, m.req = c.req := fun c hc => hcover c (List.mem_cons_of_mem _ hc)
    obtain ⟨ih1, ih2, ih3⟩ := ih (step cfg bufs c).1 hcover' hgood'
    refine ⟨?_, ih2, ?_⟩
    · simp only [runOuts, List.map_cons, ih1]
      congr 1
      -- the result for c
      obtain ⟨m0, hm0, hreq0⟩ := hcover c (List.mem_cons_self ..)
      have hfind : ∃ m, msgs.find? (fun m => m.req == c.req) = some m := by
        cases hf : msgs.find? (fun m => m.req == c.req) with
        | some m => exact ⟨m, rfl⟩
        | none =>
          rw [List.find?_eq_none] at hf
          have := hf m0 hm0
          simp [hreq0] at this
      obtain ⟨m, hfm⟩ := hfind
      have hm : m ∈ msgs := List.mem_of_find?_eq_some hfm
      have hreq : c.req = m.req := by
        have := List.find?_some hfm
        simp at this
        exact this.symm
      have hgm := hgood m hm
      have hf : (c :: rest).filter (fun c => c.req == m.req) = c :: rest.filter (fun c => c.req == m.req) := by
        simp [hreq]
      rw [hf, ← hreq] at hgm
      have := (step1_good cfg m (hfit m hm) (hg m hm) _ _ c hreq hgm).1
      rw [hs2, this]
      unfold specOut
      rw [hfm]
    · intro r hr
      simp only [runFinal]
      rw [ih3 r hr]
      obtain ⟨m0, hm0, hreq0⟩ := hcover c (List.mem_cons_self ..)
      apply step_get_other
      intro h
      exact hr m0 hm0 (by omega)

/-! ### conforming sequence numbering -/

/-- `b` may follow `a` (Part 6, 6.7.2.4): the next number, or — once `a` is
    beyond 4294966271 = UInt32.MaxValue − 1024 — any number below 1024 -/
def nextOk (a b : Nat) : Prop := (b = a + 1 ∧ b < 4294967296) ∨ (a > 4294966271 ∧ b < 1024)

instance (a b : Nat) : Decidable (nextOk a b) := by unfold nextOk; infer_instance

/-- a conforming numbering of a chunk stream: any start value below 2^32 -/
def Numbered : List Nat → Prop
  | [] => True
  | [a] => a < 4294967296
  | a :: b :: r => a < 4294967296 ∧ nextOk a b ∧ Numbered (b :: r)

instance : (l : List Nat) → Decidable (Numbered l)
  | [] => isTrue trivial
  | [a] => by unfold Numbered; infer_instance
  | a :: b :: r => by
      unfold Numbered
      have := instDecidableNumbered (b :: r)
      infer_instance

/-- numbering without wrap-around: consecutive numbers -/
def consecutive : Nat → List Nat → Prop
  | _, [] => True
  | s, a :: r => a = s ∧ consecutive (s + 1) r

theorem consecutive_lb {s : Nat} {l : List Nat} (h : consecutive s l) : ∀ x ∈ l, s ≤ x := by
  induction l generalizing s with
  | nil => intro x hx; cases hx
  | cons a r ih =>
    intro x hx
    obtain ⟨h1, h2⟩ := h
    rcases List.mem_cons.mp hx with rfl | hx
    · omega
    · have := ih h2 x hx; omega

theorem consecutive_nodup {s : Nat} {l : List Nat} (h : consecutive s l) : l.Nodup := by
  induction l generalizing s with
  | nil => exact List.nodup_nil
  | cons a r ih =>
    obtain ⟨h1, h2⟩ := h
    rw [List.nodup_cons]
    refine ⟨?_, ih h2⟩
    intro hmem
    have := consecutive_lb h2 a hmem
    omega

/-- in a list without repetition neighbouring elements differ -/
theorem seqChain_of_nodup {prev : Nat} {l : List Nat} (h : (prev :: l).Nodup) : seqChain prev l := by
  induction l generalizing prev with
  | nil => trivial
  | cons a r ih =>
    rw [List.nodup_cons] at h
    obtain ⟨h1, h2⟩ := h
    refine ⟨?_, ih h2⟩
    intro he
    apply h1
    rw [he]
    exact List.mem_cons_self ..

theorem adjDistinct_of_nodup {l : List Nat} (h : l.Nodup) : adjDistinct l := by
  cases l with
  | nil => trivial
  | cons a r => exact seqChain_of_nodup h

/-- if the numbers of a stream are pairwise different, no chunk of a message
    whose chunks are a sub-stream of it is skipped -/
theorem noDrop_of_nodup (m : SMsg) (stream : List Chunk)
    (hsub : stream.filter (fun c => c.req == m.req) = m.chunks)
    (hnd : (stream.map (·.seq)).Nodup) : m.noDrop := by
  right
  apply adjDistinct_of_nodup
  have hsl : List.Sublist (m.chunks.map (·.seq)) (stream.map (·.seq)) := by
    rw [← hsub]
    exact List.Sublist.map _ List.filter_sublist
  exact hnd.sublist hsl

/-! ### a conforming numbering does not repeat a number within a full cycle -/

theorem numbered_tail {a : Nat} {l : List Nat} (h : Numbered (a :: l)) : Numbered l := by
  cases l with
  | nil => trivial
  | cons b r => exact h.2.2

/-- after `k+1` steps from `a` the number is `a+k+1`, or a wrap-around lies in
    between — which costs at least `4294966272 - a + b - 1022` steps -/
theorem numbered_reach {a : Nat} {l : List Nat} (h : Numbered (a :: l)) :
    ∀ (k b : Nat), l[k]? = some b → b = a + (k + 1) ∨ (k + 1) + a + 1022 ≥ 4294966272 + b := by
  induction l generalizing a with
  | nil => intro k b hb; simp at hb
  | cons a' r ih =>
    intro k b hb
    obtain ⟨_, hn, hr⟩ := h
    cases k with
    | zero =>
      simp at hb
      subst hb
      rcases hn with ⟨h1, _⟩ | ⟨h1, h2⟩
      · left; omega
      · right; omega
    | succ k =>
      have hb' : r[k]? = some b := by simpa using hb
      have := ih hr k b hb'
      rcases hn with ⟨h1, _⟩ | ⟨h1, h2⟩
      · rcases this with t | t
        · left; omega
        · right; omega
      · rcases this with t | t
        · right; omega
        · right; omega

/-- so a conforming numbering of fewer than 4294965250 chunks never repeats a number -/
theorem numbered_nodup {l : List Nat} (h : Numbered l) (hlen : l.length ≤ 4294965249) : l.Nodup := by
  induction l with
  | nil => exact List.nodup_nil
  | cons a r ih =>
    rw [List.nodup_cons]
    refine ⟨?_, ih (numbered_tail h) (by simp at hlen; omega)⟩
    intro hm
    obtain ⟨k, hk, hget⟩ := List.mem_iff_getElem.mp hm
    have hq : r[k]? = some a := by rw [List.getElem?_eq_getElem hk, hget]
    have := numbered_reach h k a hq
    simp at hlen
    rcases this with t | t <;> omega

end Opcua.Recv.Spec
