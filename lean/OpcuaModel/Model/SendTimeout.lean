import OpcuaModel.Gen.SendFacts
/-
  C19 — request timeouts, the pending slot and the receive gate `rcvLocker`,
  as a labelled transition system with a discrete clock (milliseconds).

  Threads: any number of callers (request id = caller index; `open()` for the
  OpenSecureChannel request, `sendRequestWithTimeout` for ordinary ones), the
  dispatcher, the timers.  Shared: `handlers`, the capacity-1 response channel
  of each caller, `rcvLocker.bLock`.

    cSend k tmo opn   handler registered, request written, `timer := NewTimer(tmo + leniency)`, select entered
                      (opn: inside `open()`, whose deferred `rcvLocker.unlock()` is pending)
    cSendFail k       `sendAsyncWithTimeout` failed after the registration: its deferred `popHandler`
                      releases the slot and the call returns the error at once
    cRecv k           `case msg := <-ch`
    cTimeout k hit    `case <-timer.C`: `popHandler(reqID)`          (needs now ≥ deadline)
    cCancel k hit     `case <-ctx.Done()` / `<-s.disconnected`: `popHandler(reqID)`
    cUnlock k         `open()` returns: deferred `s.rcvLocker.unlock()`
    dRecv id opn hit  dispatcher: message for request id arrived (opn: an OpenSecureChannelResponse), `popHandler`
    dRcvLock          dispatcher: `s.rcvLocker.lock()`            (only for an OpenSecureChannelResponse)
    dSend             dispatcher: `ch <- msg`
    dWait             dispatcher: `s.rcvLocker.waitIfLock()` returns (needs the gate open)
    tick d            d ms pass; not possible while some timer is overdue by `slack` ms
                      (the scheduler runs an expired timer's goroutine within `slack`)
-/
namespace Opcua.SendTimeout

def upd {α : Type} (f : Nat → α) (k : Nat) (v : α) : Nat → α := fun j => if j = k then v else f j

@[simp, grind =] theorem upd_apply {α : Type} (f : Nat → α) (k : Nat) (v : α) (j : Nat) :
    upd f k v j = if j = k then v else f j := rfl

/-- `timeoutLeniency` (generated from the source) -/
def leniency : Nat := Gen.SendFacts.timeoutLeniencyMs

inductive How where
  | got | timeout | cancelled | sendError
  deriving DecidableEq, Repr

inductive CPC where
  | idle
  | waiting (deadline : Nat) (opn : Bool)
  /-- returned from the select at time `t`; for `open()` the deferred unlock is still to run -/
  | returned (t : Nat) (how : How) (opn : Bool)
  | finished (t : Nat) (how : How)
  deriving DecidableEq, Repr

inductive DPC where
  | recv
  | popped (k : Nat) (opn : Bool)
  | lockedD (k : Nat)
  | sent (k : Nat) (opn : Bool)
  deriving DecidableEq, Repr

structure St where
  n : Nat
  slack : Nat
  now : Nat
  handlers : Nat → Bool
  box : Nat → Bool
  cpc : Nat → CPC
  /-- ghost: when caller k entered its select, and with which timeout -/
  t0 : Nat → Nat
  tmo : Nat → Nat
  dpc : DPC
  rcvLocked : Bool
  /-- ghost: the open() call on whose behalf the dispatcher locked the gate -/
  lockFor : Option Nat
  /-- ghost: responses that reached a caller's channel / were dropped -/
  delivered : Nat
  dropped : Nat

def init (n slack : Nat) : St :=
  { n := n, slack := slack, now := 0, handlers := fun _ => false, box := fun _ => false, cpc := fun _ => .idle,
    t0 := fun _ => 0, tmo := fun _ => 0, dpc := .recv, rcvLocked := false, lockFor := none, delivered := 0, dropped := 0 }

inductive Label where
  | cSend (k tmo : Nat) (opn : Bool)
  | cSendFail (k : Nat)
  | cRecv (k : Nat)
  | cTimeout (k : Nat) (hit : Bool)
  | cCancel (k : Nat) (hit : Bool)
  | cUnlock (k : Nat)
  | dRecv (id : Nat) (opn : Bool) (hit : Bool)
  | dRcvLock
  | dSend
  | dWait
  | tick (d : Nat)
  deriving DecidableEq, Repr

/-- caller k's timer is overdue by more than the slack -/
def overdue (s : St) (k : Nat) : Bool :=
  match s.cpc k with
  | .waiting dl _ => decide (dl + s.slack ≤ s.now)
  | _ => false

/-- an `open()` is in flight (holds `openingMu`) -/
def openBusy (s : St) (k : Nat) : Bool :=
  match s.cpc k with
  | .waiting _ true => true
  | .returned _ _ true => true
  | _ => false

def anyBelow (n : Nat) (p : Nat → Bool) : Bool := (List.range n).any p

def step? (s : St) : Label → Option St
  | .cSend k tmo opn =>
    if k < s.n ∧ s.cpc k = .idle ∧ (opn = true → anyBelow s.n (openBusy s) = false) then
      some { s with handlers := upd s.handlers k true, box := upd s.box k false,
                    cpc := upd s.cpc k (.waiting (s.now + tmo + leniency) opn), t0 := upd s.t0 k s.now, tmo := upd s.tmo k tmo }
    else none
  | .cSendFail k =>
    if k < s.n ∧ s.cpc k = .idle then
      some { s with cpc := upd s.cpc k (.finished s.now .sendError), t0 := upd s.t0 k s.now, tmo := upd s.tmo k 0 }
    else none
  | .cRecv k =>
    match s.cpc k with
    | .waiting _ opn =>
      if s.box k then
        some { s with box := upd s.box k false,
                      cpc := upd s.cpc k (if opn then .returned s.now .got true else .finished s.now .got) }
      else none
    | _ => none
  | .cTimeout k hit =>
    match s.cpc k with
    | .waiting dl opn =>
      if dl ≤ s.now ∧ hit = s.handlers k then
        some { s with handlers := upd s.handlers k false,
                      cpc := upd s.cpc k (if opn then .returned s.now .timeout true else .finished s.now .timeout) }
      else none
    | _ => none
  | .cCancel k hit =>
    match s.cpc k with
    | .waiting _ opn =>
      if hit = s.handlers k then
        some { s with handlers := upd s.handlers k false,
                      cpc := upd s.cpc k (if opn then .returned s.now .cancelled true else .finished s.now .cancelled) }
      else none
    | _ => none
  | .cUnlock k =>
    match s.cpc k with
    | .returned t how true => some { s with rcvLocked := false, lockFor := none, cpc := upd s.cpc k (.finished t how) }
    | _ => none
  | .dRecv id opn hit =>
    match s.dpc with
    | .recv =>
      if hit = s.handlers id then
        if hit then some { s with handlers := upd s.handlers id false, dpc := .popped id opn }
        else some { s with dropped := s.dropped + 1 }
      else none
    | _ => none
  | .dRcvLock =>
    match s.dpc with
    | .popped k true => some { s with dpc := .lockedD k, rcvLocked := true, lockFor := some k }
    | _ => none
  | .dSend =>
    match s.dpc with
    | .popped k false => some { s with dpc := .sent k false, box := upd s.box k true, delivered := s.delivered + 1 }
    | .lockedD k => some { s with dpc := .sent k true, box := upd s.box k true, delivered := s.delivered + 1 }
    | _ => none
  | .dWait =>
    match s.dpc with
    | .sent _ _ => if s.rcvLocked then none else some { s with dpc := .recv }
    | _ => none
  | .tick d =>
    if anyBelow s.n (overdue { s with now := s.now + d }) then none else some { s with now := s.now + d }

def run? (s : St) : List Label → Option St
  | [] => some s
  | l :: ls => match step? s l with
    | some s' => run? s' ls
    | none => none

inductive Reachable : St → Prop where
  | init (n slack : Nat) : Reachable (init n slack)
  | step {s s' : St} (l : Label) : Reachable s → step? s l = some s' → Reachable s'

theorem reachable_run {s s' : St} (tr : List Label) (h : Reachable s) (hr : run? s tr = some s') : Reachable s' := by
  induction tr generalizing s with
  | nil => simp [run?] at hr; exact hr ▸ h
  | cons l ls ih =>
    simp only [run?] at hr
    split at hr
    · next s1 h1 => exact ih (Reachable.step l h h1) hr
    · exact absurd hr (by simp)

theorem anyBelow_false {n : Nat} {p : Nat → Bool} (h : anyBelow n p = false) (k : Nat) (hk : k < n) : p k = false := by
  unfold anyBelow at h
  cases hp : p k
  · rfl
  · have : (List.range n).any p = true := List.any_eq_true.2 ⟨k, List.mem_range.2 hk, hp⟩
    rw [h] at this; cases this

def DPC.atGate : DPC → Bool
  | .sent _ _ => true
  | _ => false

/-- the dispatcher waits at the gate and nobody is going to open it -/
def Wedged (s : St) : Prop :=
  s.dpc.atGate = true ∧ s.rcvLocked = true ∧ anyBelow s.n (openBusy s) = false

instance (s : St) : Decidable (Wedged s) := by unfold Wedged; exact inferInstance

/-- Guard (decidable): an `open()` does not leave its select by timeout or
    cancellation while the dispatcher sits between `popHandler` and
    `rcvLocker.lock()` for its response. -/
def Guard (s : St) : Label → Prop
  | .cTimeout k _ => s.dpc ≠ .popped k true
  | .cCancel k _ => s.dpc ≠ .popped k true
  | _ => True

instance (s : St) (l : Label) : Decidable (Guard s l) := by
  cases l <;> simp only [Guard] <;> exact inferInstance

inductive ReachableG : St → Prop where
  | init (n slack : Nat) : ReachableG (init n slack)
  | step {s s' : St} (l : Label) : ReachableG s → Guard s l → step? s l = some s' → ReachableG s'

end Opcua.SendTimeout
