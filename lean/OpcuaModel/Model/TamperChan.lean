import OpcuaModel.Model.Tamper
/-
  What calls `channelInstance.verifyAndDecrypt` (property C09, round 3):

    SecureChannel.readChunk        (uasc/secure_channel.go:450)  → `readChunk`
      header / security header decoding (`MessageChunk.Decode`)   → `parseHeaders`
      message-type dispatch, the OPN branch that overwrites
      cfg.SecurityPolicyURI and re-derives the algorithm from the
      certificate carried in the chunk                            → `derive`
    SecureChannel.verifyAndDecrypt (uasc/secure_channel.go:544)   → `channelVerify`
      instance given (OPN) or retry over the instances stored for
      the chunk's SecureChannelID, newest first

  Crypto stays abstract: each instance carries its own `dec` / `verify`.
-/
namespace Opcua.Tamper
open Opcua

/-- crypto and sizes of one channel instance (`c.algo`) -/
structure Inst where
  RS : Nat
  S : Nat
  dec : Bytes → Option Bytes
  verify : Bytes → Bytes → Bool

inductive Kind where
  | opn | msg | clo
  deriving Repr, DecidableEq

/-- `Buffer.ReadBytes` / `ReadString`: a uint32 length; 0 and 0xFFFFFFFF mean
    empty; otherwise that many bytes must be present. Result: bytes consumed
    (4 + payload) and the payload. -/
def readLenPrefixed (b : Bytes) : Option (Nat × Bytes) :=
  if b.length < 4 then none else
  let n := leVal (b.take 4)
  if n = 0 ∨ n = 4294967295 then some (4, [])
  else if n > (b.drop 4).length then none
  else some (4 + n, (b.drop 4).take n)

/-- the decoded headers of a chunk -/
structure Headers where
  kind : Kind
  /-- `SecureChannelID` -/
  channelID : Nat
  /-- `headerLength` = bytes consumed by `MessageChunk.Decode` -/
  H : Nat
  /-- OPN: SecurityPolicyURI and SenderCertificate as bytes -/
  uri : Bytes := []
  cert : Bytes := []
  deriving Repr, DecidableEq

/-- `MessageChunk.Decode`: 12-byte header, then the symmetric (4 bytes) or the
    asymmetric (three length-prefixed fields) security header. `none` = decode error. -/
def parseHeaders (f : Bytes) : Option Headers :=
  if f.length < 12 then none else
  let ty := f.take 3
  let ch := leVal ((f.drop 8).take 4)
  if ty = [0x4f, 0x50, 0x4e] then           -- "OPN"
    match readLenPrefixed (f.drop 12) with
    | none => none
    | some (n1, uri) =>
      match readLenPrefixed (f.drop (12 + n1)) with
      | none => none
      | some (n2, cert) =>
        match readLenPrefixed (f.drop (12 + n1 + n2)) with
        | none => none
        | some (n3, _) => some { kind := .opn, channelID := ch, H := 12 + n1 + n2 + n3, uri := uri, cert := cert }
  else if ty = [0x4d, 0x53, 0x47] ∨ ty = [0x43, 0x4c, 0x4f] then   -- "MSG" / "CLO"
    if f.length < 16 then none
    else some { kind := if ty = [0x4d, 0x53, 0x47] then .msg else .clo, channelID := ch, H := 16 }
  else none                                 -- invalid message type

theorem readLenPrefixed_bounds (b : Bytes) (n : Nat) (p : Bytes) (hb : readLenPrefixed b = some (n, p)) :
    4 ≤ n ∧ n ≤ b.length := by
  unfold readLenPrefixed at hb
  by_cases h4 : b.length < 4
  · simp [h4] at hb
  · simp only [h4, if_false] at hb
    by_cases h0 : leVal (b.take 4) = 0 ∨ leVal (b.take 4) = 4294967295
    · simp only [h0, if_true, Option.some.injEq, Prod.mk.injEq] at hb
      omega
    · simp only [h0, if_false] at hb
      by_cases hl : leVal (b.take 4) > (b.drop 4).length
      · rw [if_pos hl] at hb
        cases hb
      · rw [if_neg hl] at hb
        simp only [Option.some.injEq, Prod.mk.injEq] at hb
        simp only [List.length_drop] at hl
        omega

theorem parseHeaders_bounds (f : Bytes) (h : Headers) (hp : parseHeaders f = some h) :
    16 ≤ h.H ∧ h.H ≤ f.length := by
  unfold parseHeaders at hp
  by_cases hlen : f.length < 12
  · simp [hlen] at hp
  · simp only [hlen, if_false] at hp
    by_cases hopn : f.take 3 = [0x4f, 0x50, 0x4e]
    · simp only [hopn, if_true] at hp
      cases h1 : readLenPrefixed (f.drop 12) with
      | none => simp [h1] at hp
      | some r1 =>
        obtain ⟨n1, uri⟩ := r1
        simp only [h1] at hp
        cases h2 : readLenPrefixed (f.drop (12 + n1)) with
        | none => simp [h2] at hp
        | some r2 =>
          obtain ⟨n2, cert⟩ := r2
          simp only [h2] at hp
          cases h3 : readLenPrefixed (f.drop (12 + n1 + n2)) with
          | none => simp [h3] at hp
          | some r3 =>
            obtain ⟨n3, x⟩ := r3
            simp only [h3, Option.some.injEq] at hp
            have a1 := readLenPrefixed_bounds _ _ _ h1
            have a2 := readLenPrefixed_bounds _ _ _ h2
            have a3 := readLenPrefixed_bounds _ _ _ h3
            simp only [List.length_drop] at a1 a2 a3
            subst hp
            constructor <;> simp only <;> omega
    · simp only [hopn, if_false] at hp
      by_cases hm : f.take 3 = [0x4d, 0x53, 0x47] ∨ f.take 3 = [0x43, 0x4c, 0x4f]
      · simp only [hm, if_true] at hp
        by_cases h16 : f.length < 16
        · simp [h16] at hp
        · simp only [h16, if_false, Option.some.injEq] at hp
          subst hp
          constructor <;> simp only <;> omega
      · simp [hm] at hp

/-- the secure channel as far as reading a chunk is concerned -/
structure ChanState where
  /-- `cfg.SecurityMode == None`, `== SignAndEncrypt` (shared by all instances) -/
  modeNone : Bool
  modeSE : Bool
  /-- `cfg.SecurityPolicyURI == None`; overwritten by every incoming OPN chunk -/
  policyNone : Bool
  /-- `s.openingInstance` -/
  opening : Option Inst
  /-- `s.instances[id]`, oldest first (a renewal appends) -/
  instances : Nat → List Inst

/-- result of `readChunk` -/
inductive ROut where
  /-- chunk returned: sequence header (8 bytes) and body -/
  | deliver (seqHdr body : Bytes)
  | err
  | eof
  | panic (s : Site)

def ROut.isPanic : ROut → Bool
  | .panic _ => true
  | _ => false

def paramsOf (st : ChanState) (h : Headers) (i : Inst) : Params :=
  { H := h.H, RS := i.RS, S := i.S, enc := st.modeSE || decide (h.kind = .opn) }

/-- one instance on one chunk: `instances[i].verifyAndDecrypt(m, b)` -/
def instVerify (st : ChanState) (h : Headers) (i : Inst) (f : Bytes) : Out :=
  receive st.modeNone st.policyNone (decide (h.kind = .opn)) (paramsOf st h i) i.dec i.verify f

/-- `for i := len(instances)-1; i >= 0; i-- { if …; err == nil { return } }; return nil, err`
    over the instances NEWEST FIRST (the argument is already reversed) -/
def tryInstances (st : ChanState) (h : Headers) (f : Bytes) : List Inst → Out
  | [] => .err
  | i :: rest =>
    match instVerify st h i f with
    | .ok d => .ok d
    | .panic s => .panic s
    | .err => tryInstances st h f rest

theorem tryInstances_ok (st : ChanState) (h : Headers) (f : Bytes) (l : List Inst) (d : Bytes)
    (hk : tryInstances st h f l = .ok d) : ∃ i ∈ l, instVerify st h i f = .ok d := by
  induction l with
  | nil => simp [tryInstances] at hk
  | cons i rest ih =>
    unfold tryInstances at hk
    cases hi : instVerify st h i f with
    | ok d' =>
      simp only [hi, Out.ok.injEq] at hk
      exact ⟨i, by simp, by rw [hi, hk]⟩
    | panic s => simp [hi] at hk
    | err =>
      simp only [hi] at hk
      obtain ⟨j, hj, hv⟩ := ih hk
      exact ⟨j, by simp [hj], hv⟩

theorem tryInstances_noPanic (st : ChanState) (h : Headers) (f : Bytes) (l : List Inst)
    (hn : ∀ i ∈ l, (instVerify st h i f).isPanic = false) : (tryInstances st h f l).isPanic = false := by
  induction l with
  | nil => simp [tryInstances, Out.isPanic]
  | cons i rest ih =>
    unfold tryInstances
    have hi := hn i (by simp)
    cases hv : instVerify st h i f with
    | ok d => simp [Out.isPanic]
    | panic s => simp [hv, Out.isPanic] at hi
    | err => exact ih (fun j hj => hn j (by simp [hj]))

theorem tryInstances_err (st : ChanState) (h : Headers) (f : Bytes) (l : List Inst)
    (he : ∀ i ∈ l, instVerify st h i f = .err) : tryInstances st h f l = .err := by
  induction l with
  | nil => rfl
  | cons i rest ih =>
    unfold tryInstances
    rw [he i (by simp)]
    exact ih (fun j hj => he j (by simp [hj]))

/-- `SecureChannel.verifyAndDecrypt(m, b, instance)` -/
def channelVerify (st : ChanState) (h : Headers) (given : Option Inst) (f : Bytes) : Out :=
  match given with
  | some i => instVerify st h i f
  | none =>
    -- `if len(instances) == 0 { return error "unable to find instance" }`
    tryInstances st h f (st.instances h.channelID).reverse

/-- `SecureChannel.readChunk` on one received frame. `derive uri cert` is the
    OPN branch: parse the certificate and build `uapolicy.Asymmetric(uri, localKey,
    remoteKey)` (`none` = certificate does not parse / key refused);
    `uriIsNone` tells whether the URI in the chunk is policy None. -/
def readChunk (derive : Bytes → Bytes → Option Inst) (uriIsNone : Bytes → Bool)
    (st : ChanState) (f : Bytes) : ChanState × ROut :=
  match parseHeaders f with
  | none => (st, .err)
  | some h =>
    let finish (st' : ChanState) (given : Option Inst) : ChanState × ROut :=
      match channelVerify st' h given f with
      | .err => (st', .err)
      | .panic s => (st', .panic s)
      | .ok d =>
        -- `m.SequenceHeader.Decode(m.Data)`: 8 bytes needed
        if d.length < 8 then (st', .err) else (st', .deliver (d.take 8) (d.drop 8))
    match h.kind with
    | .clo => (st, .eof)
    | .msg => finish st none
    | .opn =>
      match st.opening with
      | none => (st, .err)                         -- "invalid state. openingInstance is nil."
      | some op =>
        -- `s.cfg.SecurityPolicyURI = m.SecurityPolicyURI` — before anything is verified
        let st1 := { st with policyNone := uriIsNone h.uri }
        if uriIsNone h.uri then finish st1 (some op)
        else
          match derive h.uri h.cert with
          | none => (st1, .err)
          | some a =>
            let st2 := { st1 with opening := some a }   -- `s.openingInstance.algo = algo`
            finish st2 (some a)

/-- the instances `readChunk` may use for this chunk -/
def candidates (derive : Bytes → Bytes → Option Inst) (uriIsNone : Bytes → Bool) (st : ChanState)
    (h : Headers) : List Inst :=
  match h.kind with
  | .clo => []
  | .msg => st.instances h.channelID
  | .opn =>
    match st.opening with
    | none => []
    | some op => if uriIsNone h.uri then [op] else (derive h.uri h.cert).toList

end Opcua.Tamper
