import OpcuaModel.Gen.SrvSession
/-
  C35 / C29 — model of the server's service dispatch (`handleService`) and of
  the 14 services the server implements, as total functions

      step : St → Tok → Req → St × Out

  over an abstract server state.  Mirrors, as they are (defects included):
    server/service_handlers.go   handleService, initHandlers (table: Gen/SrvSession.lean)
    server/discovery_service.go  FindServers, GetEndpoints
    server/session_service.go    CreateSession, ActivateSession, CloseSession
    server/session_broker.go     NewSession, Session, Close
    server/attribute_service.go  Read, Write
    server/view_service.go       Browse (crash behaviour only; result semantics are C33)
    server/subscription_service.go CreateSubscription, Publish, DeleteSubscriptions, Subscription.run (start-up)
    server/monitored_item_service.go CreateMonitoredItems, SetMonitoringMode, DeleteMonitoredItems

  Which handlers exist, which of them only return BadServiceUnsupported, which
  look up the session and which compare the result with nil is NOT written
  here: it is read from the generated table, so the model follows the source.

  A Go nil-pointer dereference / failed type assertion / index out of range in
  a handler is an unrecovered panic in the single dispatcher goroutine
  (`monitorConnections`) or in a subscription goroutine: the process dies.
  That is outcome `crash`.
-/
namespace Opcua.Srv
open Opcua.Gen.SrvSession

/-- identity of an authentication token; 0 is the null NodeID -/
abbrev Tok := Nat

structure Session where
  token : Tok
  /-- ghost: an ActivateSession for this token succeeded.  The code keeps no such flag. -/
  activated : Bool
  /-- len(PublishRequests) -/
  queued : Nat
  /-- `remoteCertificate` (from CreateSession) parses as a certificate with an RSA key -/
  certRsa : Bool := true
  deriving DecidableEq, Repr

structure Sub where
  id : Nat
  /-- `sub.Session`: the session object found for the creating request's token, `none` = nil -/
  owner : Option Tok
  deriving DecidableEq, Repr

structure Item where
  id : Nat
  sub : Nat
  deriving DecidableEq, Repr

/-- what the attribute map of the test node holds for an attribute a client may overwrite -/
inductive AttrV where
  | absent      -- no entry
  | good        -- a DataValue with a Variant of the type the readers expect
  | wrongType   -- a DataValue whose Variant has another type
  | noValue     -- a DataValue without value (EncodingMask 0): the decoder still allocates an empty Variant
  deriving DecidableEq, Repr

structure St where
  sessions : List Session := []
  subs : List Sub := []
  items : List Item := []
  /-- MonitoredItemService.id -/
  nextItem : Nat := 0
  /-- SubscriptionService.lastSubID (the id of the most recently created subscription) -/
  lastSub : Nat := 0
  /-- value of the writable test variable -/
  value : Int := 0
  /-- `len(s.endpoints) == 0` (no EnableSecurity option) -/
  endpointsEmpty : Bool := false
  /-- UserAccessLevel / AccessLevel entry of the test node -/
  accessAttr : AttrV := .absent
  /-- DataType entry of the test node (read by Browse of a node that references it) -/
  dataTypeAttr : AttrV := .good
  deriving DecidableEq, Repr

/-- where the process dies -/
abbrev Site := String

inductive Out where
  | ok (detail : String)      -- typed response, ServiceResult Good; detail = per-element results
  | sessionErr                -- BadSessionIDInvalid (ServiceFault or header of the typed response)
  | fault (code : String)     -- ServiceFault with another status
  | noResponse                -- handler returned (nil, nil)
  | crash (site : Site)       -- unrecovered panic: the server process exits
  deriving DecidableEq, Repr

/-- certificate in CreateSessionRequest.ClientCertificate -/
inductive CertCls where
  | rsa | nonRsa | unparsable
  deriving DecidableEq, Repr

/-- requested publishing interval, as `time.Duration(ms float64) * time.Millisecond` sees it -/
inductive Interval where
  | subMs      -- < 1 ms (0, 0.5, negative, NaN): `time.NewTicker` panics
  | small      -- a few ms: ticks happen during the test
  | huge       -- hours: no tick during the test
  deriving DecidableEq, Repr

/-- how a Browse request meets `suitableRefType` (computed from the address space, C29 driver) -/
inductive BrowseCls where
  | plain            -- no deletion loop is entered
  | loopPanics       -- IncludeSubtypes=false and HasSubtype sits at an index > 0 of the subtype list
  deriving DecidableEq, Repr

inductive Req where
  | findServers | getEndpoints
  | createSession (newTok : Tok) (chanSecure : Bool) (cert : CertCls)
  | activateSession (chanSecure : Bool) (sigOk : Bool)
  | closeSession
  | read | write (v : Int)
  | writeAttr (which : String) (v : AttrV)     -- Write of AccessLevel / UserAccessLevel / DataType of the test node
  | browse (cls : BrowseCls) (refsTestNode : Bool)
  | createSubscription (iv : Interval)
  | publish
  | deleteSubscriptions (ids : List Nat)
  | createMonitoredItems (sub : Nat) (n : Nat)
  | setMonitoringMode (ids : List Nat)
  | deleteMonitoredItems (ids : List Nat)
  | other (request : String)                   -- any other service type, by request name
  deriving DecidableEq, Repr

/-- the request type name used in `initHandlers` -/
def Req.name : Req → String
  | .findServers => "FindServersRequest" | .getEndpoints => "GetEndpointsRequest"
  | .createSession .. => "CreateSessionRequest" | .activateSession .. => "ActivateSessionRequest"
  | .closeSession => "CloseSessionRequest"
  | .read => "ReadRequest" | .write _ => "WriteRequest" | .writeAttr .. => "WriteRequest"
  | .browse .. => "BrowseRequest"
  | .createSubscription _ => "CreateSubscriptionRequest" | .publish => "PublishRequest"
  | .deleteSubscriptions _ => "DeleteSubscriptionsRequest"
  | .createMonitoredItems .. => "CreateMonitoredItemsRequest"
  | .setMonitoringMode _ => "SetMonitoringModeRequest"
  | .deleteMonitoredItems _ => "DeleteMonitoredItemsRequest"
  | .other r => r

def handlerOf (request : String) : Option Handler := handlers.find? (·.request == request)

/-- `sessionBroker.Session(token)` -/
def findSession (st : St) (t : Tok) : Option Session := st.sessions.find? (·.token == t)

def findSub (st : St) (id : Nat) : Option Sub := st.subs.find? (·.id == id)
def findItem (st : St) (id : Nat) : Option Item := st.items.find? (·.id == id)

/-- `s.Subs[id] = sub` (a map: an existing entry with the id is replaced) -/
def putSub (subs : List Sub) (s : Sub) : List Sub := subs.filter (·.id != s.id) ++ [s]

def unsupportedFault : Out := .fault "BadServiceUnsupported"

def joinCodes (l : List String) : String := ",".intercalate l

/-- `Node.Access`: `access.Value.Value.Value()` on the UserAccessLevel / AccessLevel entry -/
def accessCheck (a : AttrV) : Option Bool :=   -- none = nil dereference (not reachable over the wire)
  match a with
  | .absent => some true
  | .good => some true
  | .wrongType => some false      -- `val, ok := val0.(uint8); if !ok { return false }`
  | .noValue => some false        -- `DataValue.Decode` always sets `Value = new(Variant)`: nil.(uint8) fails

/-- the loop of DeleteSubscriptions over the requested ids: per-id results and the ids whose
    deletion was started (`go s.DeleteSubscription(subid)`), or the site of the panic -/
def delSubsLoop (st : St) (caller : Option Session) : List Nat → Except Site (List String × List Nat)
  | [] => .ok ([], [])
  | id :: rest =>
    match findSub st id with
    | none =>
      match delSubsLoop st caller rest with
      | .ok (codes, dels) => .ok ("BadSubscriptionIDInvalid" :: codes, dels)
      | .error e => .error e
    | some sub =>
      -- session.AuthTokenID.String() != sub.Session.AuthTokenID.String()
      match caller, sub.owner with
      | none, _ => .error "SubscriptionService.DeleteSubscriptions"
      | some _, none => .error "SubscriptionService.DeleteSubscriptions"
      | some c, some o =>
        match delSubsLoop st caller rest with
        | .error e => .error e
        | .ok (codes, dels) =>
          if c.token != o then .ok ("BadSessionIDInvalid" :: codes, dels)
          else .ok ("Good" :: codes, id :: dels)

/-- the loop of SetMonitoringMode / DeleteMonitoredItems over the requested ids.  Two regenerated
    facts decide its shape: `unknownContinues` — a failed lookup is answered
    BadMonitoredItemIDInvalid and skipped before `item.Sub.Session…` is evaluated (otherwise the nil
    item is dereferenced); `mismatchContinues` — an item of another session is answered
    BadSessionIDInvalid and skipped (otherwise the verdict is overwritten by Good).  The test itself,
    `item.Sub.Session.AuthTokenID.String() != sess.AuthTokenID.String()`, dereferences the
    subscription's session and the caller's session without nil check. -/
def itemLoop (st : St) (caller : Option Session) (site : Site) (unknownContinues mismatchContinues : Bool) :
    List Nat → Except Site (List String)
  | [] => .ok []
  | id :: rest =>
    match findItem st id with
    | none =>
      if unknownContinues then
        match itemLoop st caller site unknownContinues mismatchContinues rest with
        | .ok codes => .ok ("BadMonitoredItemIDInvalid" :: codes)
        | .error e => .error e
      else .error site                          -- `item` is nil: item.Sub
    | some it =>
      match findSub st it.sub with
      | none => .error site                     -- not reachable: items of a deleted subscription are purged
      | some sub =>
        match sub.owner, caller with
        | none, _ => .error site
        | some _, none => .error site
        | some o, some c =>
          match itemLoop st caller site unknownContinues mismatchContinues rest with
          | .ok codes => .ok ((if mismatchContinues && o != c.token then "BadSessionIDInvalid" else "Good") :: codes)
          | .error e => .error e

/-- the ids a DeleteMonitoredItems request really deletes: every id that was answered Good -/
def deletedItems (ids : List Nat) (codes : List String) : List Nat :=
  (ids.zip codes).filterMap fun p => if p.2 == "Good" then some p.1 else none

/-- items `nextItem+1 … nextItem+n` for subscription `sub` -/
def newItems (next : Nat) (sub : Nat) : Nat → List Item
  | 0 => []
  | n + 1 => ⟨next + 1, sub⟩ :: newItems (next + 1) sub n

/-- the interval class the subscription goroutine works with: the requested one, or — when
    CreateSubscription revises the interval into [min, max] first (regenerated fact) — never `subMs` -/
def effectiveInterval (iv : Interval) : Interval :=
  if publishingIntervalRevised && iv == .subMs then .small else iv

/-- the body of an implemented handler, after the (generated) session guard -/
def body (st : St) (t : Tok) : Req → St × Out
  | .findServers =>
    -- s.srv.Endpoints()[0].Server: index out of range on an empty endpoint list unless it is checked first
    if st.endpointsEmpty && !findServersChecksEndpoints then (st, .crash "DiscoveryService.FindServers") else (st, .ok "")
  | .getEndpoints => (st, .ok "")
  | .createSession k chanSecure cert =>
    -- sb.NewSession() first; the signature is made afterwards
    let st' := { st with sessions := st.sessions.filter (·.token != k) ++ [⟨k, false, 0, cert == .rsa⟩] }
    if !chanSecure then (st', .ok "")
    else match cert with
      | .rsa => (st', .ok "")
      | .unparsable => (st', .fault "BadInternalError")
      | .nonRsa =>
        -- PublicKey.(*rsa.PublicKey): unchecked ⇒ panic; checked ⇒ "error creating session signature"
        if newSessionSignatureChecked then (st', .fault "BadCertificateInvalid")
        else (st', .crash "SecureChannel.NewSessionSignature")
  | .activateSession chanSecure sigOk =>
    match findSession st t with
    | none => (st, .sessionErr)      -- only reached when the generated guard is off
    | some s =>
      if chanSecure && !s.certRsa then
        (if verifySessionSignatureChecked then (st, .fault "BadSecurityChecksFailed")
         else (st, .crash "SecureChannel.VerifySessionSignature"))
      else if chanSecure && !sigOk then (st, .fault "BadSecurityChecksFailed")
      else ({ st with sessions := st.sessions.map fun x => if x.token == t then { x with activated := true } else x }, .ok "")
  | .closeSession =>
    -- sb.Close never fails: an unknown token is only logged
    ({ st with sessions := st.sessions.filter (·.token != t) }, .ok "")
  | .read =>
    match accessCheck st.accessAttr with
    | none => (st, .crash "Node.Access")
    | some true => (st, .ok "Good")
    | some false => (st, .ok "BadUserAccessDenied")
  | .write v =>
    match accessCheck st.accessAttr with
    | none => (st, .crash "Node.Access")
    | some true => ({ st with value := v }, .ok "Good")
    | some false => (st, .ok "BadUserAccessDenied")
  | .writeAttr which v =>
    match accessCheck st.accessAttr with
    | none => (st, .crash "Node.Access")
    | some false => (st, .ok "BadUserAccessDenied")
    | some true =>
      -- n.attr[id] = val: any attribute, any DataValue
      if which == "DataType" then ({ st with dataTypeAttr := v }, .ok "Good")
      else ({ st with accessAttr := v }, .ok "Good")
  | .browse cls refsTestNode =>
    match cls with
    | .loopPanics => (st, .crash "suitableRefType")
    | .plain =>
      -- td.DataType(): v.Value.Value().(*ua.ExpandedNodeID) on the DataType entry of every target
      if refsTestNode then
        match st.dataTypeAttr with
        | .wrongType =>                                -- `.(*ua.ExpandedNodeID)`: unchecked ⇒ panic
          if dataTypeAssertionChecked then (st, .ok "Good") else (st, .crash "Node.DataType")
        | _ => (st, .ok "Good")                        -- nil value: falls through to the reference scan
      else (st, .ok "Good")
  | .createSubscription iv =>
    -- `uint32(len(s.Subs)) + 1` (ids are reused) or `s.lastSubID++` (never reused): regenerated fact
    let id := if subIdByLen then st.subs.length + 1 else st.lastSub + 1
    let owner := (findSession st t).map (·.token)
    let st' := { st with subs := putSub st.subs ⟨id, owner⟩, lastSub := id }
    -- sub.Start(): go run(); the handler itself answers
    match effectiveInterval iv with
    | .subMs => (st', .crash "Subscription.run")          -- time.NewTicker(non-positive)
    | .small => if owner.isNone then (st', .crash "Subscription.run") else (st', .ok "")   -- s.Session.PublishRequests at the first keep-alive
    | .huge => (st', .ok "")
  | .publish =>
    match findSession st t with
    | none => (st, .sessionErr)      -- only reached when the generated guard is off
    | some _ =>
      ({ st with sessions := st.sessions.map fun x => if x.token == t && x.queued < 100 then { x with queued := x.queued + 1 } else x }, .noResponse)
  | .deleteSubscriptions ids =>
    match delSubsLoop st (findSession st t) ids with
    | .error site => (st, .crash site)
    | .ok (codes, dels) =>
      -- go s.DeleteSubscription(id): the subscription and its items disappear
      ({ st with subs := st.subs.filter (fun s => !dels.contains s.id),
                 items := st.items.filter (fun i => !dels.contains i.sub) }, .ok (joinCodes codes))
  | .createMonitoredItems subId n =>
    match findSub st subId with
    | none => (st, .fault "BadUnexpectedError")          -- errors.New("sub doesn't exist")
    | some sub =>
      match sub.owner, findSession st t with
      | none, _ => (st, .crash "MonitoredItemService.CreateMonitoredItems")
      | some _, none => (st, .crash "MonitoredItemService.CreateMonitoredItems")
      | some o, some c =>
        if o != c.token then (st, .fault "BadUnexpectedError")   -- "not your subscription, bro"
        else ({ st with items := st.items ++ newItems st.nextItem subId n, nextItem := st.nextItem + n },
              .ok (joinCodes (List.replicate n "Good")))
  | .setMonitoringMode ids =>
    match itemLoop st (findSession st t) "MonitoredItemService.SetMonitoringMode" setModeUnknownContinues setModeMismatchContinues ids with
    | .error site => (st, .crash site)
    | .ok codes => (st, .ok (joinCodes codes))
  | .deleteMonitoredItems ids =>
    match itemLoop st (findSession st t) "MonitoredItemService.DeleteMonitoredItems" delItemsUnknownContinues delItemsMismatchContinues ids with
    | .error site => (st, .crash site)
    | .ok codes =>
      -- go s.DeleteMonitoredItem(id) for the ids that got past both tests
      ({ st with items := st.items.filter (fun i => !(deletedItems ids codes).contains i.id) }, .ok (joinCodes codes))
  | .other _ => (st, unsupportedFault)

/-- `handleService`: dispatch through the registration table -/
def step (st : St) (t : Tok) (r : Req) : St × Out :=
  match handlerOf r.name with
  | none => (st, unsupportedFault)                     -- no handler: err = StatusBadServiceUnsupported
  | some h =>
    if h.unsupported then (st, unsupportedFault)       -- return serviceUnsupported(hdr), nil
    else if h.lookup == "session" && h.nilChecked && (findSession st t).isNone then (st, .sessionErr)
    else body st t r

/-! ### the property's vocabulary -/

/-- discovery and session establishment (Part 4: services that do not need an activated session) -/
def exempt : Req → Bool
  | .findServers | .getEndpoints | .createSession .. | .activateSession .. | .closeSession => true
  | .other r => ["FindServersOnNetworkRequest", "RegisterServerRequest", "RegisterServer2Request"].contains r
  | _ => false

/-- the token names a session that was created and activated here and not closed -/
def validToken (st : St) (t : Tok) : Bool :=
  match findSession st t with
  | some s => s.activated
  | none => false

/-- the token names a session that was created here, not closed, and never activated -/
def notActivated (st : St) (t : Tok) : Bool :=
  match findSession st t with
  | some s => !s.activated
  | none => false

def Out.isSessionErr : Out → Bool
  | .sessionErr => true
  | _ => false

def Out.isCrash : Out → Bool
  | .crash _ => true
  | _ => false

/-- finding signature (C35) of a non-exempt request that is not refused with a session error -/
def family : Req → String
  | .read => "read" | .write _ => "write" | .writeAttr .. => "write" | .browse .. => "browse"
  | .createSubscription _ | .deleteSubscriptions _ => "subscription"
  | .publish => "publish"
  | .createMonitoredItems .. | .setMonitoringMode _ | .deleteMonitoredItems _ => "monitoreditems"
  | .other _ => "unsupported"
  | _ => "exempt"

def classify35 (st : St) (t : Tok) (r : Req) : String :=
  if notActivated st t then "C35.not-activated-session-accepted"
  else "C35." ++ family r ++ "-without-session"

end Opcua.Srv
