import OpcuaModel.Model.Session
import OpcuaModel.Model.ConnLts
/-
  C22 ∘ C25 — the `recreateSession` action of `Client.monitor` calls the same
  `CreateSession` / `ActivateSession` / `UpdateNamespaces` sequence as
  `Connect`.  `recreateSession` below is that action as a function of the
  server's behaviour (the session model of C22); `ltsTarget` is the branch of
  the C25 LTS (`ConnLts.tau` at `recreate1`) it corresponds to.
-/
namespace Opcua.ReconnectSession
open Opcua Opcua.Session

inductive Recreated where
  | session   -- session created, activated, namespaces read: action = transferSubscriptions
  | retry     -- an error: action = createSecureChannel
  | panic
  deriving Repr, DecidableEq

structure Result where
  outcome : Recreated
  /-- the client holds a session afterwards (`c.Session() != nil`) -/
  hasSession : Bool
  /-- an ActivateSessionRequest was sent -/
  activateSent : Bool
  deriving Repr, DecidableEq

/-- `case recreateSession:` of `Client.monitor` -/
def recreateSession (f : CodeFacts) (m : Mode) (s : Server) : Result :=
  -- c.setSession(nil); s, err := c.CreateSession(ctx, c.cfg.session)
  match createSession f s.create (verifySessionSignature f m s) with
  | .panic => ⟨.panic, false, false⟩
  -- if err != nil { action = createSecureChannel; continue }
  | .error => ⟨.retry, false, false⟩
  | c =>
    -- if err := c.ActivateSession(ctx, s); err != nil { action = createSecureChannel; continue }
    match activateSession f (c == .nilNoErr) s.activate with
    | (.panic, sent) => ⟨.panic, false, sent⟩
    | (.error, sent) => ⟨.retry, false, sent⟩
    | (.ok, sent) =>
      -- if err := c.UpdateNamespaces(ctx); err != nil { action = createSecureChannel; continue }
      if updateNamespaces s then ⟨.session, true, sent⟩ else ⟨.retry, true, sent⟩

/-- the state the C25 LTS is in after the action (`none` for a panic: the process is gone) -/
def ltsTarget (st : ConnLts.St) (r : Result) : Option ConnLts.St :=
  match r.outcome with
  | .session => some { st with mpc := .top .transferSubscriptions, sess := true }
  | .retry => some { st with mpc := .top .createSecureChannel, sess := r.hasSession }
  | .panic => none

end Opcua.ReconnectSession
