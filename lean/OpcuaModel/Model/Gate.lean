/-
  The receive gate of a client channel (`uasc/secure_channel.go`, dispatcher):

      msg := s.Receive(ctx)
      ch, ok := s.popHandler(msg.RequestID); if !ok { continue }
      if _, ok := msg.Response().(*ua.OpenSecureChannelResponse); ok { s.rcvLocker.lock() }   // "HACK"
      ch <- msg
      s.rcvLocker.waitIfLock()

  `rcvLocker.unlock()` is called in exactly two places: `defer` in `open()` and in
  `close()`.  The dispatcher does not check that the response belongs to an
  OpenSecureChannel request: ANY response whose body is an
  OpenSecureChannelResponse and whose request id has a handler locks the gate.
-/
namespace Opcua.Gate

/-- a decoded response read by the dispatcher -/
structure Resp where
  req : Nat
  isOPN : Bool
  deriving Repr, DecidableEq

structure St where
  /-- `rcvLocker.bLock` -/
  locked : Bool := false
  /-- request ids with a registered handler -/
  handlers : List Nat := []
  /-- responses that have arrived on the socket and are not yet read -/
  queue : List Resp := []
  /-- request ids whose handler received its message, newest first -/
  delivered : List Nat := []
  deriving Repr, DecidableEq

inductive Ev where
  /-- a response arrives on the socket -/
  | arrive (r : Resp)
  /-- a request is sent: its handler is registered -/
  | register (req : Nat)
  /-- the caller's timer fires: `popHandler(reqID)` -/
  | timeout (req : Nat)
  /-- the dispatcher performs one loop iteration (possible only while the gate is open) -/
  | dispatch
  /-- some `open()` returns (successfully or by its timeout): deferred `rcvLocker.unlock()` -/
  | openReturns
  /-- `Close()` -/
  | close
  deriving Repr, DecidableEq

def step (st : St) : Ev → St
  | .arrive r => { st with queue := st.queue ++ [r] }
  | .register q => { st with handlers := q :: st.handlers }
  | .timeout q => { st with handlers := st.handlers.filter (· ≠ q) }
  | .dispatch =>
    if st.locked then st else
    match st.queue with
    | [] => st
    | r :: rest =>
      if r.req ∈ st.handlers then
        { locked := r.isOPN, handlers := st.handlers.filter (· ≠ r.req), queue := rest, delivered := r.req :: st.delivered }
      else { st with queue := rest }
  | .openReturns => { st with locked := false }
  | .close => { st with locked := false }

def run : St → List Ev → St
  | st, [] => st
  | st, e :: r => run (step st e) r

/-- the events that can happen while nobody calls `open()` or `Close()` -/
def Ev.quiet : Ev → Bool
  | .openReturns => false
  | .close => false
  | _ => true

theorem step_locked_quiet (st : St) (e : Ev) (hl : st.locked = true) (hq : e.quiet = true) :
    (step st e).locked = true ∧ (step st e).delivered = st.delivered ∧
    st.queue.length ≤ (step st e).queue.length := by
  cases e <;> simp_all [step, Ev.quiet]

/-- while the gate is locked and no `open()` returns, nothing is delivered and
    nothing is taken from the socket, however many responses arrive -/
theorem wedged (st : St) (evs : List Ev) (hl : st.locked = true) (hq : ∀ e ∈ evs, e.quiet = true) :
    (run st evs).locked = true ∧ (run st evs).delivered = st.delivered ∧
    st.queue.length ≤ (run st evs).queue.length := by
  induction evs generalizing st with
  | nil => exact ⟨hl, rfl, Nat.le_refl _⟩
  | cons e r ih =>
    obtain ⟨h1, h2, h3⟩ := step_locked_quiet st e hl (hq e (List.mem_cons_self ..))
    obtain ⟨i1, i2, i3⟩ := ih (step st e) h1 (fun x hx => hq x (List.mem_cons_of_mem _ hx))
    exact ⟨i1, i2.trans h2, Nat.le_trans h3 i3⟩

end Opcua.Gate
