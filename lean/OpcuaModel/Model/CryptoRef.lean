import OpcuaModel.Base.Bytes

/-!
  Executable reference implementations of the symmetric primitives used by the
  OPC UA security policies, written from the standards:

  * SHA-1 and SHA-256        FIPS 180-4
  * HMAC                     RFC 2104
  * AES-128 / AES-256        FIPS 197 (Cipher and InvCipher, KeyExpansion)
  * CBC mode                 NIST SP 800-38A

  Nothing here is taken from the Go code under test.  The functions are total,
  core Lean only, and work on `ByteArray` so that the native drivers are fast;
  `Bytes` (= `List UInt8`) wrappers are provided for the models.  The standard
  test vectors are checked when this file is compiled (`#guard`) and again at
  run time by `selfTest`.
-/
namespace Opcua.CryptoRef

/-! ### byte helpers -/

/-- total read, 0 outside the array (never reached by the code below) -/
@[inline] def gb (a : ByteArray) (i : Nat) : UInt8 :=
  if h : i < a.size then a[i] else 0

@[inline] def gw (a : Array UInt32) (i : Nat) : UInt32 :=
  if h : i < a.size then a[i] else 0

def ofBytes (l : Bytes) : ByteArray := ByteArray.mk l.toArray
def toBytes (b : ByteArray) : Bytes := b.data.toList

/-- big-endian 32-bit word at byte offset `i` -/
@[inline] def be32 (m : ByteArray) (i : Nat) : UInt32 :=
  ((gb m i).toUInt32 <<< 24) ||| ((gb m (i + 1)).toUInt32 <<< 16) |||
  ((gb m (i + 2)).toUInt32 <<< 8) ||| (gb m (i + 3)).toUInt32

/-- big-endian serialisation of a word array -/
def wordsBE (ws : Array UInt32) : ByteArray := Id.run do
  let mut o := ByteArray.emptyWithCapacity (4 * ws.size)
  for w in ws do
    o := o.push (w >>> 24).toUInt8
    o := o.push (w >>> 16).toUInt8
    o := o.push (w >>> 8).toUInt8
    o := o.push w.toUInt8
  return o

@[inline] def rotl (x : UInt32) (n : UInt32) : UInt32 := (x <<< n) ||| (x >>> (32 - n))
@[inline] def rotr (x : UInt32) (n : UInt32) : UInt32 := (x >>> n) ||| (x <<< (32 - n))

/-! ### FIPS 180-4 -/

/-- 5.1.1: append bit 1, `k` zero bits, and the 64-bit big-endian bit length,
    `k` least with `l + 1 + k ≡ 448 (mod 512)`.  In bytes: `0x80`, then
    `(119 - l mod 64) mod 64` zero bytes, then 8 length bytes. -/
def shaPad (m : ByteArray) : ByteArray := Id.run do
  let l := m.size
  let k := (119 - l % 64) % 64
  let mut p := m
  p := p.push 0x80
  for _ in [0:k] do
    p := p.push 0
  let bits := 8 * l
  for i in [0:8] do
    p := p.push (bits >>> (8 * (7 - i))).toUInt8
  return p

@[inline] def ch (x y z : UInt32) : UInt32 := (x &&& y) ^^^ (~~~x &&& z)
@[inline] def maj (x y z : UInt32) : UInt32 := (x &&& y) ^^^ (x &&& z) ^^^ (y &&& z)
@[inline] def parity (x y z : UInt32) : UInt32 := x ^^^ y ^^^ z

/-- 4.1.1 / 4.2.1: round function and constant of SHA-1 -/
@[inline] def sha1F (t : Nat) (b c d : UInt32) : UInt32 :=
  if t < 20 then ch b c d else if t < 40 then parity b c d
  else if t < 60 then maj b c d else parity b c d

@[inline] def sha1K (t : Nat) : UInt32 :=
  if t < 20 then 0x5a827999 else if t < 40 then 0x6ed9eba1
  else if t < 60 then 0x8f1bbcdc else 0xca62c1d6

def sha1H0 : Array UInt32 := #[0x67452301, 0xefcdab89, 0x98badcfe, 0x10325476, 0xc3d2e1f0]

/-- 6.1.2, one 512-bit block at byte offset `off` of the padded message -/
def sha1Block (h : Array UInt32) (m : ByteArray) (off : Nat) : Array UInt32 := Id.run do
  let mut w : Array UInt32 := Array.replicate 80 0
  for t in [0:16] do
    w := w.set! t (be32 m (off + 4 * t))
  for t in [16:80] do
    w := w.set! t (rotl (gw w (t - 3) ^^^ gw w (t - 8) ^^^ gw w (t - 14) ^^^ gw w (t - 16)) 1)
  let mut a := gw h 0
  let mut b := gw h 1
  let mut c := gw h 2
  let mut d := gw h 3
  let mut e := gw h 4
  for t in [0:80] do
    let tmp := rotl a 5 + sha1F t b c d + e + sha1K t + gw w t
    e := d
    d := c
    c := rotl b 30
    b := a
    a := tmp
  return #[gw h 0 + a, gw h 1 + b, gw h 2 + c, gw h 3 + d, gw h 4 + e]

def sha1 (m : ByteArray) : ByteArray := Id.run do
  let p := shaPad m
  let mut h := sha1H0
  for i in [0:p.size / 64] do
    h := sha1Block h p (64 * i)
  return wordsBE h

/-- 4.2.2 -/
def sha256K : Array UInt32 := #[
  0x428a2f98, 0x71374491, 0xb5c0fbcf, 0xe9b5dba5, 0x3956c25b, 0x59f111f1, 0x923f82a4, 0xab1c5ed5,
  0xd807aa98, 0x12835b01, 0x243185be, 0x550c7dc3, 0x72be5d74, 0x80deb1fe, 0x9bdc06a7, 0xc19bf174,
  0xe49b69c1, 0xefbe4786, 0x0fc19dc6, 0x240ca1cc, 0x2de92c6f, 0x4a7484aa, 0x5cb0a9dc, 0x76f988da,
  0x983e5152, 0xa831c66d, 0xb00327c8, 0xbf597fc7, 0xc6e00bf3, 0xd5a79147, 0x06ca6351, 0x14292967,
  0x27b70a85, 0x2e1b2138, 0x4d2c6dfc, 0x53380d13, 0x650a7354, 0x766a0abb, 0x81c2c92e, 0x92722c85,
  0xa2bfe8a1, 0xa81a664b, 0xc24b8b70, 0xc76c51a3, 0xd192e819, 0xd6990624, 0xf40e3585, 0x106aa070,
  0x19a4c116, 0x1e376c08, 0x2748774c, 0x34b0bcb5, 0x391c0cb3, 0x4ed8aa4a, 0x5b9cca4f, 0x682e6ff3,
  0x748f82ee, 0x78a5636f, 0x84c87814, 0x8cc70208, 0x90befffa, 0xa4506ceb, 0xbef9a3f7, 0xc67178f2]

/-- 5.3.3 -/
def sha256H0 : Array UInt32 := #[
  0x6a09e667, 0xbb67ae85, 0x3c6ef372, 0xa54ff53a, 0x510e527f, 0x9b05688c, 0x1f83d9ab, 0x5be0cd19]

/-- 4.1.2 -/
@[inline] def bigSigma0 (x : UInt32) : UInt32 := rotr x 2 ^^^ rotr x 13 ^^^ rotr x 22
@[inline] def bigSigma1 (x : UInt32) : UInt32 := rotr x 6 ^^^ rotr x 11 ^^^ rotr x 25
@[inline] def smallSigma0 (x : UInt32) : UInt32 := rotr x 7 ^^^ rotr x 18 ^^^ (x >>> 3)
@[inline] def smallSigma1 (x : UInt32) : UInt32 := rotr x 17 ^^^ rotr x 19 ^^^ (x >>> 10)

/-- 6.2.2, one 512-bit block at byte offset `off` of the padded message -/
def sha256Block (hh : Array UInt32) (m : ByteArray) (off : Nat) : Array UInt32 := Id.run do
  let mut w : Array UInt32 := Array.replicate 64 0
  for t in [0:16] do
    w := w.set! t (be32 m (off + 4 * t))
  for t in [16:64] do
    w := w.set! t (smallSigma1 (gw w (t - 2)) + gw w (t - 7) + smallSigma0 (gw w (t - 15)) + gw w (t - 16))
  let mut a := gw hh 0
  let mut b := gw hh 1
  let mut c := gw hh 2
  let mut d := gw hh 3
  let mut e := gw hh 4
  let mut f := gw hh 5
  let mut g := gw hh 6
  let mut h := gw hh 7
  for t in [0:64] do
    let t1 := h + bigSigma1 e + ch e f g + gw sha256K t + gw w t
    let t2 := bigSigma0 a + maj a b c
    h := g
    g := f
    f := e
    e := d + t1
    d := c
    c := b
    b := a
    a := t1 + t2
  return #[gw hh 0 + a, gw hh 1 + b, gw hh 2 + c, gw hh 3 + d,
           gw hh 4 + e, gw hh 5 + f, gw hh 6 + g, gw hh 7 + h]

def sha256 (m : ByteArray) : ByteArray := Id.run do
  let p := shaPad m
  let mut h := sha256H0
  for i in [0:p.size / 64] do
    h := sha256Block h p (64 * i)
  return wordsBE h

inductive HashAlg | sha1 | sha256
  deriving Repr, DecidableEq

def HashAlg.run : HashAlg → ByteArray → ByteArray
  | .sha1, m => CryptoRef.sha1 m
  | .sha256, m => CryptoRef.sha256 m

def HashAlg.outLen : HashAlg → Nat
  | .sha1 => 20
  | .sha256 => 32

/-! ### RFC 2104 -/

/-- `H(K xor opad, H(K xor ipad, text))`, `B = 64` for both hashes; a key longer
    than `B` is replaced by its hash, a shorter one is padded with zeros. -/
def hmacBA (h : HashAlg) (key msg : ByteArray) : ByteArray := Id.run do
  let k0 := if key.size > 64 then h.run key else key
  let mut ipad := ByteArray.emptyWithCapacity (64 + msg.size)
  let mut opad := ByteArray.emptyWithCapacity (64 + h.outLen)
  for i in [0:64] do
    let kb := gb k0 i
    ipad := ipad.push (kb ^^^ 0x36)
    opad := opad.push (kb ^^^ 0x5c)
  let inner := h.run (ipad ++ msg)
  return h.run (opad ++ inner)

def hmac (h : HashAlg) (key msg : Bytes) : Bytes :=
  toBytes (hmacBA h (ofBytes key) (ofBytes msg))

/-! ### FIPS 197 -/

/-- Figure 7 -/
def sbox : ByteArray := ByteArray.mk #[
  0x63, 0x7c, 0x77, 0x7b, 0xf2, 0x6b, 0x6f, 0xc5, 0x30, 0x01, 0x67, 0x2b, 0xfe, 0xd7, 0xab, 0x76,
  0xca, 0x82, 0xc9, 0x7d, 0xfa, 0x59, 0x47, 0xf0, 0xad, 0xd4, 0xa2, 0xaf, 0x9c, 0xa4, 0x72, 0xc0,
  0xb7, 0xfd, 0x93, 0x26, 0x36, 0x3f, 0xf7, 0xcc, 0x34, 0xa5, 0xe5, 0xf1, 0x71, 0xd8, 0x31, 0x15,
  0x04, 0xc7, 0x23, 0xc3, 0x18, 0x96, 0x05, 0x9a, 0x07, 0x12, 0x80, 0xe2, 0xeb, 0x27, 0xb2, 0x75,
  0x09, 0x83, 0x2c, 0x1a, 0x1b, 0x6e, 0x5a, 0xa0, 0x52, 0x3b, 0xd6, 0xb3, 0x29, 0xe3, 0x2f, 0x84,
  0x53, 0xd1, 0x00, 0xed, 0x20, 0xfc, 0xb1, 0x5b, 0x6a, 0xcb, 0xbe, 0x39, 0x4a, 0x4c, 0x58, 0xcf,
  0xd0, 0xef, 0xaa, 0xfb, 0x43, 0x4d, 0x33, 0x85, 0x45, 0xf9, 0x02, 0x7f, 0x50, 0x3c, 0x9f, 0xa8,
  0x51, 0xa3, 0x40, 0x8f, 0x92, 0x9d, 0x38, 0xf5, 0xbc, 0xb6, 0xda, 0x21, 0x10, 0xff, 0xf3, 0xd2,
  0xcd, 0x0c, 0x13, 0xec, 0x5f, 0x97, 0x44, 0x17, 0xc4, 0xa7, 0x7e, 0x3d, 0x64, 0x5d, 0x19, 0x73,
  0x60, 0x81, 0x4f, 0xdc, 0x22, 0x2a, 0x90, 0x88, 0x46, 0xee, 0xb8, 0x14, 0xde, 0x5e, 0x0b, 0xdb,
  0xe0, 0x32, 0x3a, 0x0a, 0x49, 0x06, 0x24, 0x5c, 0xc2, 0xd3, 0xac, 0x62, 0x91, 0x95, 0xe4, 0x79,
  0xe7, 0xc8, 0x37, 0x6d, 0x8d, 0xd5, 0x4e, 0xa9, 0x6c, 0x56, 0xf4, 0xea, 0x65, 0x7a, 0xae, 0x08,
  0xba, 0x78, 0x25, 0x2e, 0x1c, 0xa6, 0xb4, 0xc6, 0xe8, 0xdd, 0x74, 0x1f, 0x4b, 0xbd, 0x8b, 0x8a,
  0x70, 0x3e, 0xb5, 0x66, 0x48, 0x03, 0xf6, 0x0e, 0x61, 0x35, 0x57, 0xb9, 0x86, 0xc1, 0x1d, 0x9e,
  0xe1, 0xf8, 0x98, 0x11, 0x69, 0xd9, 0x8e, 0x94, 0x9b, 0x1e, 0x87, 0xe9, 0xce, 0x55, 0x28, 0xdf,
  0x8c, 0xa1, 0x89, 0x0d, 0xbf, 0xe6, 0x42, 0x68, 0x41, 0x99, 0x2d, 0x0f, 0xb0, 0x54, 0xbb, 0x16]

/-- Figure 14, obtained by inverting `sbox` (evaluated once, at initialisation) -/
def invSbox : ByteArray := Id.run do
  let mut t := ByteArray.mk (Array.replicate 256 0)
  for i in [0:256] do
    t := t.set! (gb sbox i).toNat i.toUInt8
  return t

/-- 4.2.1: multiplication by `x` in GF(2^8) modulo `x^8 + x^4 + x^3 + x + 1` -/
@[inline] def xtime (a : UInt8) : UInt8 :=
  if a &&& 0x80 != 0 then (a <<< 1) ^^^ 0x1b else a <<< 1

/-- 4.2: multiplication in GF(2^8) (shift and add; used for the S-box check only) -/
def gmul (a b : UInt8) : UInt8 := Id.run do
  let mut r : UInt8 := 0
  let mut x := a
  let mut y := b
  for _ in [0:8] do
    if y &&& 1 != 0 then r := r ^^^ x
    x := xtime x
    y := y >>> 1
  return r

/-- 5.1.1: multiplicative inverse (`a^254 = a^2 a^4 .. a^128`, 0 for 0) followed
    by the affine map -/
def sboxFromDefinition : ByteArray := Id.run do
  let mut t := ByteArray.emptyWithCapacity 256
  for i in [0:256] do
    let a := i.toUInt8
    let mut inv : UInt8 := 1
    let mut p := a
    for _ in [0:7] do
      p := gmul p p
      inv := gmul inv p
    let b := inv
    let rot (n : UInt8) : UInt8 := (b <<< n) ||| (b >>> (8 - n))
    t := t.push (b ^^^ rot 1 ^^^ rot 2 ^^^ rot 3 ^^^ rot 4 ^^^ 0x63)
  return t

/-- 5.2 KeyExpansion on bytes: word `i` of the schedule is bytes `4i .. 4i+3`.
    Result has `16 * (Nr + 1)` bytes; empty for a key that is not 16 or 32 bytes. -/
def aesKeyExpand (key : ByteArray) : ByteArray := Id.run do
  if key.size != 16 && key.size != 32 then return ByteArray.empty
  let nk := key.size / 4
  let nr := nk + 6
  let mut w := key
  let mut rcon : UInt8 := 1
  for i in [nk : 4 * (nr + 1)] do
    let mut t0 := gb w (4 * i - 4)
    let mut t1 := gb w (4 * i - 3)
    let mut t2 := gb w (4 * i - 2)
    let mut t3 := gb w (4 * i - 1)
    if i % nk == 0 then
      let r0 := t0
      t0 := gb sbox t1.toNat ^^^ rcon
      t1 := gb sbox t2.toNat
      t2 := gb sbox t3.toNat
      t3 := gb sbox r0.toNat
      rcon := xtime rcon
    else if nk > 6 && i % nk == 4 then
      t0 := gb sbox t0.toNat
      t1 := gb sbox t1.toNat
      t2 := gb sbox t2.toNat
      t3 := gb sbox t3.toNat
    let j := 4 * (i - nk)
    w := w.push (gb w j ^^^ t0)
    w := w.push (gb w (j + 1) ^^^ t1)
    w := w.push (gb w (j + 2) ^^^ t2)
    w := w.push (gb w (j + 3) ^^^ t3)
  return w

/-- number of rounds for an expanded key (10 / 14; 0 for the empty schedule) -/
def aesRounds (rk : ByteArray) : Nat := rk.size / 16 - 1

/-  The state is 16 bytes, `s[r + 4c]` = row `r`, column `c` (3.4): the input
    block and each 16-byte round key map onto it index by index. -/

@[inline] def addRoundKey (rk : ByteArray) (round : Nat) (s : ByteArray) : ByteArray := Id.run do
  let mut o := ByteArray.emptyWithCapacity 16
  for i in [0:16] do
    o := o.push (gb s i ^^^ gb rk (16 * round + i))
  return o

/-- 5.1.1 / 5.3.2 with the table given -/
@[inline] def subBytes (box : ByteArray) (s : ByteArray) : ByteArray := Id.run do
  let mut o := ByteArray.emptyWithCapacity 16
  for i in [0:16] do
    o := o.push (gb box (gb s i).toNat)
  return o

/-- 5.1.2: `s'[r, c] = s[r, (c + r) mod 4]` -/
def shiftRows (s : ByteArray) : ByteArray := Id.run do
  let mut o := ByteArray.emptyWithCapacity 16
  for c in [0:4] do
    for r in [0:4] do
      o := o.push (gb s (r + 4 * ((c + r) % 4)))
  return o

/-- 5.3.1: `s'[r, (c + r) mod 4] = s[r, c]` -/
def invShiftRows (s : ByteArray) : ByteArray := Id.run do
  let mut o := ByteArray.emptyWithCapacity 16
  for c in [0:4] do
    for r in [0:4] do
      o := o.push (gb s (r + 4 * ((c + 4 - r) % 4)))
  return o

/-- 5.1.3: each column times `{03}x^3 + {01}x^2 + {01}x + {02}` -/
def mixColumns (s : ByteArray) : ByteArray := Id.run do
  let mut o := ByteArray.emptyWithCapacity 16
  for c in [0:4] do
    let a0 := gb s (4 * c)
    let a1 := gb s (4 * c + 1)
    let a2 := gb s (4 * c + 2)
    let a3 := gb s (4 * c + 3)
    let d0 := xtime a0
    let d1 := xtime a1
    let d2 := xtime a2
    let d3 := xtime a3
    o := o.push (d0 ^^^ (d1 ^^^ a1) ^^^ a2 ^^^ a3)
    o := o.push (a0 ^^^ d1 ^^^ (d2 ^^^ a2) ^^^ a3)
    o := o.push (a0 ^^^ a1 ^^^ d2 ^^^ (d3 ^^^ a3))
    o := o.push ((d0 ^^^ a0) ^^^ a1 ^^^ a2 ^^^ d3)
  return o

/-- the products `{09}a, {0b}a, {0d}a, {0e}a` -/
@[inline] def invMul (a : UInt8) : UInt8 × UInt8 × UInt8 × UInt8 :=
  let a2 := xtime a
  let a4 := xtime a2
  let a8 := xtime a4
  (a8 ^^^ a, a8 ^^^ a2 ^^^ a, a8 ^^^ a4 ^^^ a, a8 ^^^ a4 ^^^ a2)

/-- 5.3.3: each column times `{0b}x^3 + {0d}x^2 + {09}x + {0e}` -/
def invMixColumns (s : ByteArray) : ByteArray := Id.run do
  let mut o := ByteArray.emptyWithCapacity 16
  for c in [0:4] do
    let (a09, a0b, a0d, a0e) := invMul (gb s (4 * c))
    let (b09, b0b, b0d, b0e) := invMul (gb s (4 * c + 1))
    let (c09, c0b, c0d, c0e) := invMul (gb s (4 * c + 2))
    let (d09, d0b, d0d, d0e) := invMul (gb s (4 * c + 3))
    o := o.push (a0e ^^^ b0b ^^^ c0d ^^^ d09)
    o := o.push (a09 ^^^ b0e ^^^ c0b ^^^ d0d)
    o := o.push (a0d ^^^ b09 ^^^ c0e ^^^ d0b)
    o := o.push (a0b ^^^ b0d ^^^ c09 ^^^ d0e)
  return o

/-- 5.1 Cipher.  `rk` is `aesKeyExpand key`, `nr` its round count (10 / 14).
    A block that is not 16 bytes or a schedule that does not have `16 * (nr + 1)`
    bytes (in particular the empty one) leaves the input unchanged. -/
def aesEncryptBlock (rk : ByteArray) (nr : Nat) (blk : ByteArray) : ByteArray := Id.run do
  if blk.size != 16 || nr == 0 || rk.size != 16 * (nr + 1) then return blk
  let mut s := addRoundKey rk 0 blk
  for round in [1:nr] do
    s := addRoundKey rk round (mixColumns (shiftRows (subBytes sbox s)))
  return addRoundKey rk nr (shiftRows (subBytes sbox s))

/-- 5.3 InvCipher, same conventions as `aesEncryptBlock` -/
def aesDecryptBlock (rk : ByteArray) (nr : Nat) (blk : ByteArray) : ByteArray := Id.run do
  if blk.size != 16 || nr == 0 || rk.size != 16 * (nr + 1) then return blk
  let mut s := addRoundKey rk nr blk
  for k in [1:nr] do
    s := invMixColumns (addRoundKey rk (nr - k) (subBytes invSbox (invShiftRows s)))
  return addRoundKey rk 0 (subBytes invSbox (invShiftRows s))

/-! ### SP 800-38A, 6.2 -/

/-- admissible parameters of the CBC functions -/
def cbcParamsOk (key iv data : ByteArray) : Bool :=
  (key.size == 16 || key.size == 32) && iv.size == 16 && data.size % 16 == 0

/-- `C_1 = CIPH_K(P_1 xor IV)`, `C_j = CIPH_K(P_j xor C_{j-1})`.
    The caller checks the parameters; when `cbcParamsOk` is false the result is
    the empty array (for every input, so a misuse cannot pass for a result). -/
def cbcEncryptBA (key iv pt : ByteArray) : ByteArray := Id.run do
  if !cbcParamsOk key iv pt then return ByteArray.empty
  let rk := aesKeyExpand key
  let nr := aesRounds rk
  let mut out := ByteArray.emptyWithCapacity pt.size
  let mut prev := iv
  for j in [0:pt.size / 16] do
    let mut x := ByteArray.emptyWithCapacity 16
    for i in [0:16] do
      x := x.push (gb pt (16 * j + i) ^^^ gb prev i)
    let c := aesEncryptBlock rk nr x
    out := out ++ c
    prev := c
  return out

/-- `P_1 = CIPH^-1_K(C_1) xor IV`, `P_j = CIPH^-1_K(C_j) xor C_{j-1}`;
    same conventions as `cbcEncryptBA`. -/
def cbcDecryptBA (key iv ct : ByteArray) : ByteArray := Id.run do
  if !cbcParamsOk key iv ct then return ByteArray.empty
  let rk := aesKeyExpand key
  let nr := aesRounds rk
  let mut out := ByteArray.emptyWithCapacity ct.size
  for j in [0:ct.size / 16] do
    let c := ct.extract (16 * j) (16 * j + 16)
    let d := aesDecryptBlock rk nr c
    for i in [0:16] do
      let p := if j == 0 then gb iv i else gb ct (16 * (j - 1) + i)
      out := out.push (gb d i ^^^ p)
  return out

def cbcEncrypt (key iv pt : Bytes) : Bytes :=
  toBytes (cbcEncryptBA (ofBytes key) (ofBytes iv) (ofBytes pt))

def cbcDecrypt (key iv ct : Bytes) : Bytes :=
  toBytes (cbcDecryptBA (ofBytes key) (ofBytes iv) (ofBytes ct))

/-! ### test vectors -/

def hex (b : ByteArray) : String := toHex (toBytes b)

def unhex (s : String) : ByteArray :=
  match fromHex s with
  | some l => ofBytes l
  | none => ByteArray.empty

/-- `n` bytes `(a * i + b) mod 256`: the inputs of the cross-checks against
    Python `hashlib` / `hmac` and `openssl enc` -/
def pat (n : Nat) (a : Nat := 7) (b : Nat := 3) : ByteArray := Id.run do
  let mut o := ByteArray.emptyWithCapacity n
  for i in [0:n] do
    o := o.push (a * i + b).toUInt8
  return o

def msg56 : ByteArray := "abcdbcdecdefdefgefghfghighijhijkijkljklmklmnlmnomnopnopq".toUTF8
def key0b : ByteArray := ByteArray.mk (Array.replicate 20 0x0b)
def keyAa : ByteArray := ByteArray.mk (Array.replicate 131 0xaa)
def jefe : ByteArray := "Jefe".toUTF8
def jefeData : ByteArray := "what do ya want for nothing?".toUTF8
def hiThere : ByteArray := "Hi There".toUTF8
def largeKeyData : ByteArray := "Test Using Larger Than Block-Size Key - Hash Key First".toUTF8

def fipsKey128 : ByteArray := unhex "000102030405060708090a0b0c0d0e0f"
def fipsKey256 : ByteArray := unhex "000102030405060708090a0b0c0d0e0f101112131415161718191a1b1c1d1e1f"
def fipsPt : ByteArray := unhex "00112233445566778899aabbccddeeff"
def fipsCt128 : String := "69c4e0d86a7b0430d8cdb78070b4c55a"
def fipsCt256 : String := "8ea2b7ca516745bfeafc49904b496089"

def ecbEnc (key blk : ByteArray) : ByteArray :=
  let rk := aesKeyExpand key
  aesEncryptBlock rk (aesRounds rk) blk

def ecbDec (key blk : ByteArray) : ByteArray :=
  let rk := aesKeyExpand key
  aesDecryptBlock rk (aesRounds rk) blk

def cbcKey128 : ByteArray := unhex "2b7e151628aed2a6abf7158809cf4f3c"
def cbcKey256 : ByteArray :=
  unhex "603deb1015ca71be2b73aef0857d77811f352c073b6108d72d9810a30914dff4"
def cbcIv : ByteArray := unhex "000102030405060708090a0b0c0d0e0f"
def cbcPt : String :=
  "6bc1bee22e409f96e93d7e117393172a" ++ "ae2d8a571e03ac9c9eb76fac45af8e51" ++
  "30c81c46a35ce411e5fbc1191a0a52ef" ++ "f69f2445df4f9b17ad2b417be66c3710"
def cbcCt128 : String :=
  "7649abac8119b246cee98e9b12e9197d" ++ "5086cb9b507219ee95db113a917678b2" ++
  "73bed6b8e3c1743b7116e69e22229516" ++ "3ff1caa1681fac09120eca307586e1a7"
def cbcCt256 : String :=
  "f58c4c04d6e5f1ba779eabfb5f7bfbd6" ++ "9cfc4e967edb808d679f777bc6702c7d" ++
  "39f23369a9d9bacfa530e26304231461" ++ "b2eb05e2c39be9fcda6c19078c6a9d1b"

/-- Every test vector, evaluated when called (natively: at initialisation). -/
def selfTest : List (String × Bool) := [
  ("sbox = FIPS 197 5.1.1 definition", hex sbox == hex sboxFromDefinition),
  ("invSbox inverts sbox",
    (List.range 256).all fun i => (gb invSbox (gb sbox i).toNat).toNat == i),
  ("sha1 empty", hex (sha1 ByteArray.empty) == "da39a3ee5e6b4b0d3255bfef95601890afd80709"),
  ("sha1 abc", hex (sha1 "abc".toUTF8) == "a9993e364706816aba3e25717850c26c9cd0d89d"),
  ("sha1 56 bytes", hex (sha1 msg56) == "84983e441c3bd26ebaae4aa1f95129e5e54670f1"),
  ("sha256 empty", hex (sha256 ByteArray.empty) ==
    "e3b0c44298fc1c149afbf4c8996fb92427ae41e4649b934ca495991b7852b855"),
  ("sha256 abc", hex (sha256 "abc".toUTF8) ==
    "ba7816bf8f01cfea414140de5dae2223b00361a396177a9cb410ff61f20015ad"),
  ("sha256 56 bytes", hex (sha256 msg56) ==
    "248d6a61d20638b8e5c026930c3e6039a33ce45964ff2167f6ecedd419db06c1"),
  ("hmac-sha1 RFC 2202 case 1", hex (hmacBA .sha1 key0b hiThere) ==
    "b617318655057264e28bc0b6fb378c8ef146be00"),
  ("hmac-sha1 RFC 2202 case 2", hex (hmacBA .sha1 jefe jefeData) ==
    "effcdf6ae5eb2fa2d27416d5f184df9c259a7c79"),
  ("hmac-sha256 RFC 4231 case 1", hex (hmacBA .sha256 key0b hiThere) ==
    "b0344c61d8db38535ca8afceaf0bf12b881dc200c9833da726e9376c2e32cff7"),
  ("hmac-sha256 RFC 4231 case 2", hex (hmacBA .sha256 jefe jefeData) ==
    "5bdcc146bf60754e6a042426089575c75a003f089d2739839dec58b964ec3843"),
  ("hmac-sha256 RFC 4231 case 6", hex (hmacBA .sha256 keyAa largeKeyData) ==
    "60e431591ee0b67f0d8a26aacbf5b77f8e0bc6213728c5140546040f0ee37f54"),
  ("hmac list wrapper", toHex (hmac .sha256 (toBytes jefe) (toBytes jefeData)) ==
    "5bdcc146bf60754e6a042426089575c75a003f089d2739839dec58b964ec3843"),
  ("aes-128 FIPS 197 C.1 encrypt", hex (ecbEnc fipsKey128 fipsPt) == fipsCt128),
  ("aes-128 FIPS 197 C.1 decrypt", hex (ecbDec fipsKey128 (unhex fipsCt128)) == hex fipsPt),
  ("aes-256 FIPS 197 C.3 encrypt", hex (ecbEnc fipsKey256 fipsPt) == fipsCt256),
  ("aes-256 FIPS 197 C.3 decrypt", hex (ecbDec fipsKey256 (unhex fipsCt256)) == hex fipsPt),
  ("aes bad key leaves the block", hex (ecbEnc (pat 24) fipsPt) == hex fipsPt
    && hex (ecbDec (pat 24) fipsPt) == hex fipsPt && (aesKeyExpand (pat 24)).size == 0),
  ("cbc-aes128 SP 800-38A F.2.1", hex (cbcEncryptBA cbcKey128 cbcIv (unhex cbcPt)) == cbcCt128),
  ("cbc-aes128 SP 800-38A F.2.2", hex (cbcDecryptBA cbcKey128 cbcIv (unhex cbcCt128)) == cbcPt),
  ("cbc-aes256 SP 800-38A F.2.5", hex (cbcEncryptBA cbcKey256 cbcIv (unhex cbcPt)) == cbcCt256),
  ("cbc-aes256 SP 800-38A F.2.6", hex (cbcDecryptBA cbcKey256 cbcIv (unhex cbcCt256)) == cbcPt),
  ("cbc list wrappers",
    toHex (cbcEncrypt (toBytes cbcKey128) (toBytes cbcIv) (toBytes (unhex cbcPt))) == cbcCt128
    && toHex (cbcDecrypt (toBytes cbcKey256) (toBytes cbcIv) (toBytes (unhex cbcCt256))) == cbcPt),
  ("cbc bad parameters give empty",
    (cbcEncryptBA (pat 24) cbcIv (pat 16)).size == 0 && (cbcEncryptBA cbcKey128 (pat 15) (pat 16)).size == 0
    && (cbcDecryptBA cbcKey128 cbcIv (pat 17)).size == 0 && (cbcEncryptBA cbcKey128 cbcIv (pat 0)).size == 0),
  ("sha1 1000 bytes (hashlib)", hex (sha1 (pat 1000)) == "4231a8a50a10fa9758db8ec71fdef855b751048a"),
  ("sha256 119 bytes (hashlib)", hex (sha256 (pat 119)) ==
    "9ce7368e4daf32341631b492e80359dc9f594b48453cd0dd5bf0b19279cc177e"),
  ("sha256 1000 bytes (hashlib)", hex (sha256 (pat 1000)) ==
    "1e9bc38cbf860b9ec31918b065f9b52476c549a782e0e7990bed8ce3868d2371"),
  ("hmac-sha1 64-byte key (python hmac)", hex (hmacBA .sha1 (pat 64 5 1) (pat 77)) ==
    "9d112d49a2f38d03ac78795b509efd038ecf8061"),
  ("hmac-sha256 65-byte key (python hmac)", hex (hmacBA .sha256 (pat 65 5 1) (pat 77)) ==
    "34ec98b9b588709870ea70a87904dc36f51bb80730d94208bbcdb5d2493a5b35"),
  ("cbc-aes256 2 blocks (openssl)", hex (cbcEncryptBA (pat 32 11 2) (pat 16 13 5) (pat 32)) ==
    "da7b1a5ec82a08289494a30a8b6355c3783842d502ae6b18430d29fc0ab1537d"),
  ("cbc-aes128 7 blocks round trip",
    hex (cbcDecryptBA (pat 16 11 2) (pat 16 13 5) (cbcEncryptBA (pat 16 11 2) (pat 16 13 5) (pat 112)))
      == hex (pat 112))]

/-- names of the failed entries of `selfTest` -/
def selfTestFailures : List String := (selfTest.filter fun t => !t.2).map (·.1)

/-! Compile-time checks (interpreter). -/

#guard hex sbox == hex sboxFromDefinition
#guard (List.range 256).all fun i => (gb invSbox (gb sbox i).toNat).toNat == i

#guard hex (sha1 ByteArray.empty) == "da39a3ee5e6b4b0d3255bfef95601890afd80709"
#guard hex (sha1 "abc".toUTF8) == "a9993e364706816aba3e25717850c26c9cd0d89d"
#guard hex (sha1 msg56) == "84983e441c3bd26ebaae4aa1f95129e5e54670f1"
#guard hex (sha256 ByteArray.empty) == "e3b0c44298fc1c149afbf4c8996fb92427ae41e4649b934ca495991b7852b855"
#guard hex (sha256 "abc".toUTF8) == "ba7816bf8f01cfea414140de5dae2223b00361a396177a9cb410ff61f20015ad"
#guard hex (sha256 msg56) == "248d6a61d20638b8e5c026930c3e6039a33ce45964ff2167f6ecedd419db06c1"

#guard hex (hmacBA .sha1 key0b hiThere) == "b617318655057264e28bc0b6fb378c8ef146be00"
#guard hex (hmacBA .sha1 jefe jefeData) == "effcdf6ae5eb2fa2d27416d5f184df9c259a7c79"
#guard hex (hmacBA .sha256 key0b hiThere) ==
  "b0344c61d8db38535ca8afceaf0bf12b881dc200c9833da726e9376c2e32cff7"
#guard hex (hmacBA .sha256 jefe jefeData) ==
  "5bdcc146bf60754e6a042426089575c75a003f089d2739839dec58b964ec3843"
#guard hex (hmacBA .sha256 keyAa largeKeyData) ==
  "60e431591ee0b67f0d8a26aacbf5b77f8e0bc6213728c5140546040f0ee37f54"

#guard hex (ecbEnc fipsKey128 fipsPt) == fipsCt128
#guard hex (ecbDec fipsKey128 (unhex fipsCt128)) == hex fipsPt
#guard hex (ecbEnc fipsKey256 fipsPt) == fipsCt256
#guard hex (ecbDec fipsKey256 (unhex fipsCt256)) == hex fipsPt

#guard hex (cbcEncryptBA cbcKey128 cbcIv (unhex cbcPt)) == cbcCt128
#guard hex (cbcDecryptBA cbcKey128 cbcIv (unhex cbcCt128)) == cbcPt
#guard hex (cbcEncryptBA cbcKey256 cbcIv (unhex cbcPt)) == cbcCt256
#guard hex (cbcDecryptBA cbcKey256 cbcIv (unhex cbcCt256)) == cbcPt

#guard hex (sha1 (pat 1000)) == "4231a8a50a10fa9758db8ec71fdef855b751048a"
#guard hex (sha256 (pat 119)) == "9ce7368e4daf32341631b492e80359dc9f594b48453cd0dd5bf0b19279cc177e"
#guard hex (hmacBA .sha256 (pat 65 5 1) (pat 77)) ==
  "34ec98b9b588709870ea70a87904dc36f51bb80730d94208bbcdb5d2493a5b35"
#guard hex (cbcEncryptBA (pat 32 11 2) (pat 16 13 5) (pat 32)) ==
  "da7b1a5ec82a08289494a30a8b6355c3783842d502ae6b18430d29fc0ab1537d"

#guard selfTestFailures == []

end Opcua.CryptoRef
