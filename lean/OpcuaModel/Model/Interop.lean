import OpcuaModel.Model.Asym
import OpcuaModel.Gen.Asym
import OpcuaModel.Gen.Interop
/-
  Model of the connect pipeline at the level of sizes and acceptance decisions
  (property C37):

    server.initEndpoints      → `serverEndpoints`   (server/server.go:373)
    endpoint selection        → `selectEndpoint`    (what the runner does with GetEndpoints)
    opcua.SecurityFromEndpoint→ `securityFromEndpoint` (config.go:409)
    uapolicy.Asymmetric guards→ `accepts`           (generated, Gen/Asym.lean)
    signAndEncrypt (OPN)      → `asymSecure`        (uasc/secure_channel_instance.go:186, isAsymmetric)
    EncodeChunks (OPN)        → never splits: one chunk, must fit the receive buffer (uacp.Conn.Receive)
    EncryptUserPassword       → `passwordCipherLen` (uasc/secure_channel_crypto.go)

  Symmetric traffic after the handshake (CreateSession … Read/Write) is the
  business of C07/C38; here it only contributes the key-acceptance checks of
  the session signatures.
-/
namespace Opcua.Interop
open Opcua Opcua.Asym

inductive Auth where
  | anonymous | username
  deriving Repr, DecidableEq

def Auth.name : Auth → String
  | .anonymous => "anonymous"
  | .username => "username"

/-- one security configuration; the policy is an index into
    `Gen.interopPolicies` / `Gen.asymRows` (same order, `C37_index_aligned`) so
    that no string operation is on the evaluation path -/
structure Config where
  pol : Nat
  /-- ua.MessageSecurityMode: 1 None, 2 Sign, 3 SignAndEncrypt -/
  mode : Nat
  /-- client key size in bits, 0 = no certificate / key configured -/
  cbits : Nat
  sbits : Nat
  auth : Auth
  /-- a second, secured policy (index) the server enables besides `pol`, in mode
      SignAndEncrypt; used for the rows "username login over the None endpoint",
      where the None endpoint advertises the username token under that policy -/
  extra : Option Nat := none
  deriving Repr, DecidableEq

def policyInfo (i : Nat) : Option Gen.InteropPolicy := Gen.interopPolicies[i]?
def findRow (i : Nat) : Option AsymRow := Gen.asymRows[i]?
def polName (i : Nat) : String := ((policyInfo i).map (·.name)).getD "?"
def polIndex (name : String) : Option Nat := Gen.interopPolicies.findIdx? (·.name == name)
def polIsNone (i : Nat) : Bool := ((policyInfo i).map (·.isNone)).getD false

def Config.show (c : Config) : String :=
  s!"{polName c.pol},{c.mode},{c.cbits},{c.sbits},{c.auth.name},{match c.extra with | none => "-" | some j => polName j}"

/-! ### The finite table -/

def keySizes : List Nat := Gen.testKeys.map (·.1)

def inRange (r : Int × Int) (bits : Nat) : Bool :=
  decide (r.1 ≤ (bits : Int)) && decide ((bits : Int) ≤ r.2)

/-- Part 7: is a key of `bits` bits allowed for the policy? -/
def keyAllowed (pol : String) (bits : Nat) : Bool :=
  match Spec.keyBits pol with
  | some r => inRange r bits
  | none => true

def enumFrom {α} : Nat → List α → List (Nat × α)
  | _, [] => []
  | i, x :: xs => (i, x) :: enumFrom (i + 1) xs

/-- every supported policy × its modes × every committed key size Part 7 allows on
    each side × the user token types that need no external credentials.
    Policy None: anonymous with and without certificates configured (a server
    that enables only None advertises no username token), and username over
    the None endpoint of a server that also enables a secured policy `q`, for
    every `q` and every server key size `q` allows (the password is encrypted
    with the server certificate under `q`), without and with a client key -/
def configTable : List Config :=
  (enumFrom 0 Gen.interopPolicies).flatMap fun (i, p) =>
    let range := Spec.keyBits p.name
    p.modes.flatMap fun m =>
      match range with
      | none =>
        [⟨i, m, 0, 0, .anonymous, none⟩, ⟨i, m, 2048, 2048, .anonymous, none⟩] ++
        -- a server that also enables a secured policy `q` advertises `username_q` on this endpoint
        (enumFrom 0 Gen.interopPolicies).flatMap fun (j, q) =>
          match Spec.keyBits q.name with
          | none => []
          | some rq => keySizes.flatMap fun sb =>
              if inRange rq sb then
                [⟨i, m, 0, sb, .username, some j⟩, ⟨i, m, 2048, sb, .username, some j⟩]
              else []
      | some r =>
        keySizes.flatMap fun cb => keySizes.flatMap fun sb =>
          if inRange r cb && inRange r sb then
            [⟨i, m, cb, sb, .anonymous, none⟩, ⟨i, m, cb, sb, .username, none⟩]
          else []

/-! ### Server: advertised endpoints (`initEndpoints`) -/

/-- a `UserTokenPolicy`: token type and `SecurityPolicyURI` (`none` = the URI of
    policy None, `some i` = policy `i`). The Go code identifies policies by the
    string `PolicyID = lower(type ++ "_" ++ policy)`, see `policyIDString`;
    these strings are pairwise distinct (`C37_policy_ids_distinct`), so the
    duplicate check on (type, policy) is the duplicate check on the string. -/
structure Token where
  typ : Auth
  secPol : Option Nat
  deriving Repr, DecidableEq

structure Endpoint where
  pol : Nat
  mode : Nat
  tokens : List Token
  deriving Repr, DecidableEq

def lower (s : String) : String := s.map Char.toLower

def policyIDString (t : Token) : String :=
  lower (t.typ.name ++ "_" ++ (match t.secPol with | none => "None" | some i => polName i))

/-- the two nested loops over `enabledAuth` × `enabledSec` with the duplicate check -/
def tokensFor (enabledSec : List (Nat × Nat)) (enabledAuth : List Auth) : List Token :=
  enabledAuth.foldl (fun acc auth =>
    enabledSec.foldl (fun acc authSec =>
      let secPol : Option Nat := if auth = .anonymous ∨ polIsNone authSec.1 then none else some authSec.1
      if auth ≠ .anonymous ∧ polIsNone authSec.1 then acc          -- `continue`
      else
        let tok : Token := ⟨auth, secPol⟩
        if acc.any (· == tok) then acc                              -- `dup`
        else acc ++ [tok]) acc) []

def serverEndpoints (enabledSec : List (Nat × Nat)) (enabledAuth : List Auth) : List Endpoint :=
  enabledSec.map fun sec => ⟨sec.1, sec.2, tokensFor enabledSec enabledAuth⟩

/-! ### Client: endpoint and token selection -/

def selectEndpoint (eps : List Endpoint) (pol : Nat) (mode : Nat) : Option Endpoint :=
  eps.find? fun e => e.pol = pol ∧ e.mode = mode

/-- `SecurityFromEndpoint`: first token of the wanted type; result = AuthPolicyURI
    (the token's SecurityPolicyURI is never empty in `initEndpoints`) -/
def securityFromEndpoint (ep : Endpoint) (auth : Auth) : Option (Option Nat) :=
  (ep.tokens.find? (·.typ = auth)).map (·.secPol)

/-! ### Keys -/

/-- `uapolicy.Asymmetric(pol, local, remote)` returns an algorithm; `none` = nil key -/
def accepts (pol : Nat) (localBits remoteBits : Option Nat) : Bool :=
  match findRow pol with
  | none => false
  | some row =>
    row.accept localBits.isSome ((localBits.getD 0 : Nat) : Int)
      remoteBits.isSome ((remoteBits.getD 0 : Nat) : Int)

def certLenClient (bits : Nat) : Nat := ((Gen.testKeys.find? (·.1 = bits)).map (·.2.1)).getD 0
def certLenServer (bits : Nat) : Nat := ((Gen.testKeys.find? (·.1 = bits)).map (·.2.2)).getD 0

/-! ### OPN chunk sizes -/

structure Secured where
  /-- value written into MessageSize -/
  sizeField : Int
  /-- length of the slice signAndEncrypt returns -/
  chunkLen : Int
  deriving Repr, DecidableEq

/-- `signAndEncrypt` for an asymmetric message: `H` header length, `n` bytes of
    sequence header + body, `sigLen` = local key bytes, `k` = remote key bytes,
    `ptPad` the constant of `PlaintextBlockSize()`, `encPad` the constant of the
    `Encrypt` loop. -/
def asymSecure (H n sigLen k ptPad encPad : Int) : Secured :=
  let plaintextBlockSize := k - ptPad
  let extraPadding := decide (k > 256)              -- RemoteSignatureLength() > 256
  let paddingBytes : Int := if extraPadding then 2 else 1
  let remainder := Int.tmod (n + sigLen + paddingBytes) plaintextBlockSize
  let paddingLength : Int := if remainder ≠ 0 then plaintextBlockSize - remainder else 0
  let n2 := n + (paddingLength + 1) + (if extraPadding then 1 else 0)
  let encryptedLength := Int.tdiv (n2 + sigLen) plaintextBlockSize * k
  -- Encrypt: ⌈plain / (k − encPad)⌉ blocks of k bytes (C15_blocks)
  let plain := n2 + sigLen
  let maxBlock := k - encPad
  let blocks := if maxBlock ≤ 0 then 0 else (plain + maxBlock - 1) / maxBlock
  { sizeField := H + encryptedLength, chunkLen := H + blocks * k }

/-- header length of an OPN chunk: 12 + (4+|uri|) + (4+|cert|) + (4+|thumbprint|) -/
def opnHeaderLen (uriLen certLen thumbLen : Nat) : Int := 12 + 12 + uriLen + certLen + thumbLen

/-- the secured OpenSecureChannel request (client → server) -/
def opnRequest (c : Config) : Option Secured := do
  let p ← policyInfo c.pol
  let row ← findRow c.pol
  if c.mode = 1 then
    -- mode None: signAndEncrypt returns the chunk unchanged; no thumbprint is sent
    let l := opnHeaderLen p.uriLen (certLenClient c.cbits) 0 + 8 + p.opnReqBody
    pure ⟨l, l⟩
  else
    pure (asymSecure (opnHeaderLen p.uriLen (certLenClient c.cbits) 20) (8 + p.opnReqBody)
      (sizeOfBits c.cbits) (sizeOfBits c.sbits) row.ptPad row.encPad)

/-- the secured OpenSecureChannel response (server → client) -/
def opnResponse (c : Config) : Option Secured := do
  let p ← policyInfo c.pol
  let row ← findRow c.pol
  if c.mode = 1 then
    let l := opnHeaderLen p.uriLen (certLenServer c.sbits) 0 + 8 + p.opnRespBody
    pure ⟨l, l⟩
  else
    pure (asymSecure (opnHeaderLen p.uriLen (certLenServer c.sbits) 20) (8 + p.opnRespBody)
      (sizeOfBits c.sbits) (sizeOfBits c.cbits) row.ptPad row.encPad)

/-- `EncryptUserPassword`: length of the encrypted secret `len ‖ password ‖ serverNonce` -/
def passwordCipherLen (tokenPol : Nat) (sbits pwLen : Nat) : Option Int := do
  let row ← findRow tokenPol
  if row.scheme = .none then pure pwLen else
  let k := sizeOfBits sbits
  let maxBlock := k - row.encPad
  if maxBlock ≤ 0 then none else
  pure ((((4 + pwLen + Gen.sessionNonceLength : Nat) : Int) + maxBlock - 1) / maxBlock * k)

/-! ### The pipeline -/

/-- How a server admits an OpenSecureChannel request with a given (policy, mode)
    (`handleOpenSecureChannelRequest`). The code as it is admits EVERY pair
    (`any`; that is the recorded C30 defect). `enabledOnly` is the withdrawn C30
    repair (only pairs registered with EnableSecurity), `enabledOrDiscovery` the
    repair Part 4 §5.4.1 allows: enabled pairs, plus the unsecured None/None
    channel for the Discovery services. -/
inductive Admission where
  | any | enabledOnly | enabledOrDiscovery
  deriving Repr, DecidableEq

def admits (a : Admission) (enabled : List (Nat × Nat)) (polIsNoneChan : Bool) (pol mode : Nat) : Bool :=
  match a with
  | .any => true
  | .enabledOnly => enabled.contains (pol, mode)
  | .enabledOrDiscovery => enabled.contains (pol, mode) || (polIsNoneChan && mode == 1)

inductive Stage where
  | ok
  | unsupportedPolicy
  | discoveryRefused       -- the None/None channel of opcua.GetEndpoints is not admitted
  | channelRefused         -- the (policy, mode) of the selected endpoint is not admitted
  | noEndpoint
  | tokenNotAdvertised
  | clientRefusesKeys      -- uapolicy.Asymmetric on the client (open, session signatures)
  | serverRefusesKeys      -- uapolicy.Asymmetric on the server (readChunk, session signatures)
  | opnRequestBad          -- MessageSize ≠ chunk length, or larger than the server's receive buffer
  | opnResponseBad
  | passwordRefused
  deriving Repr, DecidableEq

def Stage.name : Stage → String
  | .ok => "ok"
  | .unsupportedPolicy => "fail:unsupported-policy"
  | .discoveryRefused => "fail:discovery"
  | .channelRefused => "fail:channel-refused"
  | .noEndpoint => "fail:no-endpoint"
  | .tokenNotAdvertised => "fail:token-not-advertised"
  | .clientRefusesKeys => "fail:client-refuses-keys"
  | .serverRefusesKeys => "fail:server-refuses-keys"
  | .opnRequestBad => "fail:opn-request"
  | .opnResponseBad => "fail:opn-response"
  | .passwordRefused => "fail:password"

def fitsOne (s : Option Secured) : Bool :=
  match s with
  | none => false
  | some x => decide (x.sizeField = x.chunkLen) && decide (x.chunkLen ≤ (Gen.defaultReceiveBufSize : Int))

/-- a server that enables (policy, mode) — plus `extra` in SignAndEncrypt — with
    the anonymous and the username token type; a client that selects the
    advertised (policy, mode) endpoint -/
def connectWith (adm : Admission) (c : Config) : Stage :=
  if (policyInfo c.pol).isNone ∨ (findRow c.pol).isNone then .unsupportedPolicy else
  let enabled := (c.pol, c.mode) :: (match c.extra with | none => [] | some j => [(j, 3)])
  -- discovery: opcua.GetEndpoints opens an unsecured (None, None) channel first;
  -- the server must admit it although None need not be among its endpoints
  let nonePol := (Gen.interopPolicies.findIdx? (·.isNone)).getD 0
  if !admits adm enabled true nonePol 1 then .discoveryRefused
  else if !admits adm enabled (polIsNone c.pol) c.pol c.mode then .channelRefused else
  let eps := serverEndpoints enabled [.anonymous, .username]
  match selectEndpoint eps c.pol c.mode with
  | none => .noEndpoint
  | some ep =>
    match securityFromEndpoint ep c.auth with
    | none => .tokenNotAdvertised
    | some authPolicy =>
      let secured := decide (c.mode ≠ 1)
      let ck : Option Nat := if secured then some c.cbits else none
      let sk : Option Nat := if secured then some c.sbits else none
      -- client: open(), VerifySessionSignature, NewSessionSignature
      if secured && c.cbits = 0 then .clientRefusesKeys
      else if !accepts c.pol ck sk then .clientRefusesKeys
      -- server: readChunk (OPN), handleOpenSecureChannelRequest, NewSessionSignature, VerifySessionSignature
      else if !accepts c.pol sk ck then .serverRefusesKeys
      else if !fitsOne (opnRequest c) then .opnRequestBad
      else if !fitsOne (opnResponse c) then .opnResponseBad
      else if c.auth = .username then
        -- EncryptUserPassword(AuthPolicyURI, …): Asymmetric(AuthPolicyURI, clientKey, serverKey)
        match authPolicy with
        | none => .ok                                             -- policy None: the password travels in clear
        | some ap =>
          if !accepts ap (if c.cbits = 0 then none else some c.cbits) (some c.sbits) then .passwordRefused
          else if (passwordCipherLen ap c.sbits 1).isNone then .passwordRefused
          else .ok
      else .ok

end Opcua.Interop

namespace Opcua.Interop
/-- the code as it is: every channel is admitted -/
def connect (c : Config) : Stage := connectWith .any c
end Opcua.Interop
