/-
  Model for C28 (node monitor):

  (A) the handle ↦ node map of `monitor.Subscription` (monitor/subscription.go):
      `AddMonitorItems`, `RemoveMonitorItems`, the lookup in `pump`, together with
      what the server stores for each monitored item (node and the client handle
      it received on the wire);
  (B) the server's change-notification path (server/monitored_item_service.go,
      server/subscription_service.go): a write stores the value and then calls
      `ChangeNotification`, which — under the service lock — reads the *current*
      value and sends (client handle, value) into the subscription's FIFO
      `NotifyChannel`; `CreateMonitoredItems` schedules the same call in a goroutine
      (initial value); the subscription's `run` loop collects the channel into a
      `publishQueue` keyed by client handle and publishes it; the client delivers
      published values in order.

  The code is mirrored as it is.
-/
namespace Opcua.Mon

abbrev Node := Nat

/-! ### (A) handles -/

/-- a `monitor.Request`: the node and the identity of the `*ua.MonitoringParameters`
    object it points to (`none` = nil); requests may share one object -/
structure Req where
  node : Node
  params : Option Nat
  deriving DecidableEq, Repr

/-- a `monitor.Item` (entry of `itemLookup`) -/
structure Item where
  id : Nat
  node : Node
  handle : Nat
  deriving DecidableEq, Repr

/-- what the server keeps for a monitored item: the node it samples and the client
    handle that was in the create request -/
structure SrvItem where
  id : Nat
  node : Node
  handle : Nat
  deriving DecidableEq, Repr

/-- an entry of `opcua.Subscription.items`: the create request kept for a later
    recreation (its node and the client handle in its RequestedParameters), under the
    monitored item id the server returned (0 for an item the server refused) -/
structure Stored where
  key : Nat
  node : Node
  handle : Nat
  deriving DecidableEq, Repr

structure St where
  /-- `NodeMonitor.nextClientHandle` (shared by all subscriptions of the monitor) -/
  next : Nat
  /-- `Subscription.handles` -/
  handles : Nat → Option Node
  /-- `Subscription.itemLookup` -/
  items : List Item
  /-- monitored items alive on the server -/
  srv : List SrvItem
  /-- the server's item id counter -/
  nextItem : Nat
  /-- `opcua.Subscription.items` (a map: one entry per key) -/
  stored : List Stored

def St.empty : St :=
  { next := 100, handles := fun _ => none, items := [], srv := [], nextItem := 0, stored := [] }

/-- map insert -/
def storePut (l : List Stored) (e : Stored) : List Stored := l.filter (·.key != e.key) ++ [e]

def setKey (m : Nat → Option Node) (k : Nat) (v : Option Node) : Nat → Option Node :=
  fun x => if x = k then v else m x

/-- the handles `atomic.AddUint32(&nextClientHandle, 1)` returns for the requests -/
def assign (next : Nat) : List Req → List (Req × Nat)
  | [] => []
  | r :: rs => (r, next + 1) :: assign (next + 1) rs

/-- first loop of `AddMonitorItems`: register every handle -/
def addHandles (m : Nat → Option Node) : List (Req × Nat) → Nat → Option Node
  | [] => m
  | (r, h) :: rest => addHandles (setKey m h (some r.node)) rest

/-- result loop: a failed item loses its handle; a good one is stored in `itemLookup`
    and exists on the server with the handle that was on the wire.  The request carries a
    *copy* of the caller's MonitoringParameters (`params := *node.MonitoringParameters;
    params.ClientHandle = handle`), so the handle on the wire is the request's own whether
    or not several requests point to the same parameters object. -/
def addResults : List (Req × Nat) → List Bool → St → St
  | (r, h) :: rest, ok :: oks, s =>
    if ok then
      let id := s.nextItem + 1
      addResults rest oks
        { s with items := s.items ++ [⟨id, r.node, h⟩], srv := s.srv ++ [⟨id, r.node, h⟩], nextItem := id,
                 stored := storePut s.stored ⟨id, r.node, h⟩ }
    else
      -- `Subscription.Monitor` keeps the request of a refused item too (under id 0)
      addResults rest oks { s with handles := setKey s.handles h none, stored := storePut s.stored ⟨0, r.node, h⟩ }
  | _, _, s => s

/-- `AddMonitorItems` with the per-item results of the server (true = Good) -/
def add (s : St) (reqs : List Req) (oks : List Bool) : St :=
  let all := assign s.next reqs
  addResults all oks { s with next := s.next + reqs.length, handles := addHandles s.handles all }

/-- `AddMonitorItems` when the CreateMonitoredItems call itself fails: the handles stay -/
def addErr (s : St) (reqs : List Req) : St :=
  let all := assign s.next reqs
  { s with next := s.next + reqs.length, handles := addHandles s.handles all }

/-- first loop of `RemoveMonitorItems`: stops at the first unknown item -/
def removeLocal : List Nat → St → List Nat → St × List Nat × Bool
  | [], s, acc => (s, acc, true)
  | id :: ids, s, acc =>
    match s.items.find? (·.id == id) with
    | none => (s, acc, false)
    | some it =>
      removeLocal ids { s with items := s.items.filter (·.id != id), handles := setKey s.handles it.handle none } (acc ++ [id])

/-- `RemoveMonitorItems`: the server deletes the items only when the first loop went through -/
def remove (s : St) (ids : List Nat) : St :=
  let (s', gone, ok) := removeLocal ids s []
  if ok then { s' with srv := s'.srv.filter (fun it => !gone.contains it.id),
                       stored := s'.stored.filter fun e => !gone.contains e.key } else s'

/-- fresh monitored item ids for recreated requests -/
def freshIds (next : Nat) : List Stored → List Stored
  | [] => []
  | e :: es => { e with key := next + 1 } :: freshIds (next + 1) es

/-- a reconnect recreates the subscription: `recreate_monitoredItems` empties
    `Subscription.items`, re-sends the *stored request objects* (map order `order`; each
    still carries the client handle written when it was built) and stores the new ids; the
    old server items are gone (new subscription).  The monitor's `handles` / `itemLookup`
    are not touched — the monitor does not notice the recreation.  When the create fails
    the items stay lost. -/
def recreate (s : St) (order : List Nat) (ok : Bool) : St :=
  let reqs := order.filterMap fun k => s.stored.find? (·.key == k)
  if ok then
    let fresh := freshIds s.nextItem reqs
    { s with srv := fresh.map (fun e => ⟨e.key, e.node, e.handle⟩), stored := fresh,
             nextItem := s.nextItem + reqs.length }
  else { s with srv := [], stored := [] }

/-- `pump`: the node a notification of server item `it` is delivered under
    (`none` = "handle not found" error message) -/
def deliver (s : St) (it : SrvItem) : Option Node := s.handles it.handle

inductive Op where
  | add (reqs : List Req) (oks : List Bool)
  | addErr (reqs : List Req)
  | remove (ids : List Nat)
  | recreate (order : List Nat) (ok : Bool)
  deriving Repr

def apply (s : St) : Op → St
  | .add reqs oks => add s reqs oks
  | .addErr reqs => addErr s reqs
  | .remove ids => remove s ids
  | .recreate order ok => recreate s order ok

def runOps (s : St) : List Op → St
  | [] => s
  | o :: os => runOps (apply s o) os

/-! ### (B) change notifications -/

def orr {α : Type} : Option α → Option α → Option α
  | some a, _ => some a
  | none, b => b

structure Srv where
  vals : Node → Int
  /-- `ChangeNotification(n)` calls that have been scheduled and have not run yet
      (by a writer after it stored the value, or by `go s.ChangeNotification(nodeid)`) -/
  pending : List Node
  /-- `Subscription.NotifyChannel` (FIFO) -/
  chan : List (Nat × Int)
  /-- `publishQueue` of the current cycle -/
  queue : Nat → Option Int
  /-- the last value the application received per client handle -/
  last : Nat → Option Int
  /-- monitored items: (client handle, node) -/
  items : List (Nat × Node)

def Srv.empty : Srv :=
  { vals := fun _ => 0, pending := [], chan := [], queue := fun _ => none, last := fun _ => none, items := [] }

inductive Ev where
  | write (n : Node) (v : Int)   -- SetAttribute stores; the writer's ChangeNotification call is pending
  | cn (i : Nat)                 -- the i-th pending ChangeNotification runs (under MonitoredItemService.Mu)
  | collect                      -- `run` receives one entry from NotifyChannel into publishQueue
  | publish                      -- `run` sends the queue; the client delivers it
  | create (h : Nat) (n : Node)  -- CreateMonitoredItems: item registered, `go ChangeNotification(n)`
  deriving DecidableEq, Repr

def sstep (s : Srv) : Ev → Option Srv
  | .write n v => some { s with vals := fun x => if x = n then v else s.vals x, pending := s.pending ++ [n] }
  | .cn i =>
    match s.pending[i]? with
    | none => none
    | some n =>
      some { s with pending := s.pending.eraseIdx i,
                    chan := s.chan ++ (s.items.filter (·.2 = n)).map fun it => (it.1, s.vals n) }
  | .collect =>
    match s.chan with
    | [] => none
    | (h, v) :: rest => some { s with chan := rest, queue := fun x => if x = h then some v else s.queue x }
  | .publish => some { s with queue := fun _ => none, last := fun h => orr (s.queue h) (s.last h) }
  | .create h n => some { s with items := s.items ++ [(h, n)], pending := s.pending ++ [n] }

def srun : Srv → List Ev → Option Srv
  | s, [] => some s
  | s, e :: es => match sstep s e with
    | some s' => srun s' es
    | none => none

/-- a created item carries a client handle no other item of the subscription has -/
def freshCreate (s : Srv) : Ev → Bool
  | .create h _ => !s.items.any (·.1 = h)
  | _ => true

/-- reachability when every monitored item has its own client handle -/
inductive SReach : Srv → Prop where
  | init : SReach Srv.empty
  | step {s s' : Srv} (e : Ev) : SReach s → freshCreate s e = true → sstep s e = some s' → SReach s'

/-- the newest value on its way to the application for a handle: the rightmost entry
    of the channel, else the queue, else what was delivered last -/
def chanLast (c : List (Nat × Int)) (h : Nat) : Option Int :=
  c.foldl (fun acc e => if e.1 = h then some e.2 else acc) none

def latest (s : Srv) (h : Nat) : Option Int := orr (chanLast s.chan h) (orr (s.queue h) (s.last h))

/-- nothing is under way: no scheduled notification, empty channel, empty queue -/
def quiet (s : Srv) : Prop := s.pending = [] ∧ s.chan = [] ∧ ∀ h, s.queue h = none

/-! #### validation of observed server traces (used by the driver) -/

/-- fold a channel prefix into a queue (association list, later entries win) -/
def foldQueue : List (Nat × Int) → List (Nat × Int) → List (Nat × Int)
  | q, [] => q
  | q, (h, v) :: rest => foldQueue ((q.filter (·.1 != h)) ++ [(h, v)]) rest

def sameMap (a b : List (Nat × Int)) : Bool :=
  a.length == b.length && a.all fun e => b.contains e

/-- observed events: an enqueue (under the service lock) or a published batch -/
inductive Obs where
  | enq (h : Nat) (v : Int)
  | pub (batch : List (Nat × Int))
  deriving Repr

/-- is the observed sequence explained by the FIFO channel + keyed queue?  At a
    publish some prefix of the channel has been collected. -/
def explain : Nat → List (Nat × Int) → List Obs → Bool
  | 0, _, _ => false
  | _ + 1, _, [] => true
  | fuel + 1, chan, .enq h v :: rest => explain fuel (chan ++ [(h, v)]) rest
  | fuel + 1, chan, .pub batch :: rest =>
    (List.range (chan.length + 1)).any fun k =>
      sameMap (foldQueue [] (chan.take k)) batch && explain fuel (chan.drop k) rest

/-- when the values stored in a node only grow, the values sent for a client handle never
    go back: every `cn` reads the then-current value under the lock under which it sends -/
def monoOK : List (Nat × Int) → List Obs → Bool
  | _, [] => true
  | seen, .enq h v :: rest =>
    (match seen.find? (·.1 == h) with
     | some (_, w) => decide (w ≤ v)
     | none => true) && monoOK ((seen.filter (·.1 != h)) ++ [(h, v)]) rest
  | seen, .pub _ :: rest => monoOK seen rest

end Opcua.Mon
