import OpcuaModel.Model.SrvIds
/-
  Helper lemmas about the C32 model (used by Props/C32.lean).
-/
namespace Opcua.SrvIds

theorem nextID_small (c : Nat) (h : c + 1 < 4294967296) : nextID c = c + 1 := by
  unfold nextID
  have : (c + 1) % 4294967296 = c + 1 := Nat.mod_eq_of_lt h
  simp [this]

/-- below the wrap the allocated ids are ctr+1 … ctr+n -/
theorem allocIds_small : ∀ (n c : Nat), c + n < 4294967296 →
    (allocIds n c).2 = c + n ∧ ∀ i, i ∈ (allocIds n c).1 ↔ (c < i ∧ i ≤ c + n)
  | 0, c, _ => by simp [allocIds]
  | n + 1, c, h => by
    have hn : nextID c = c + 1 := nextID_small c (by omega)
    obtain ⟨h2, h3⟩ := allocIds_small n (c + 1) (by omega)
    simp only [allocIds, hn]
    refine ⟨by rw [h2]; omega, ?_⟩
    intro i
    simp only [List.mem_cons, h3]
    omega

theorem allocIds_nodup : ∀ (n c : Nat), c + n < 4294967296 → (allocIds n c).1.Nodup
  | 0, c, _ => by simp [allocIds]
  | n + 1, c, h => by
    have hn : nextID c = c + 1 := nextID_small c (by omega)
    simp only [allocIds, hn, List.nodup_cons]
    refine ⟨?_, allocIds_nodup n (c + 1) (by omega)⟩
    intro hm
    have := ((allocIds_small n (c + 1) (by omega)).2 (c + 1)).1 hm
    omega

theorem putSub_fresh (l : List (Nat × SubObj)) (id : Nat) (o : SubObj) (h : id ∉ l.map (·.1)) :
    putSub l id o = l ++ [(id, o)] := by
  induction l with
  | nil => rfl
  | cons e r ih =>
    obtain ⟨k, x⟩ := e
    simp only [List.map_cons, List.mem_cons, not_or] at h
    have hk : ¬ k = id := fun e => h.1 e.symm
    simp [putSub, hk, ih h.2]

theorem lookupSub_mem {l : List (Nat × SubObj)} {id : Nat} {o : SubObj} (h : lookupSub l id = some o) :
    (id, o) ∈ l := by
  induction l with
  | nil => simp [lookupSub] at h
  | cons e r ih =>
    obtain ⟨k, x⟩ := e
    unfold lookupSub at h
    by_cases hk : k = id
    · simp only [hk, ↓reduceIte, Option.some.injEq] at h; simp [hk, h]
    · simp only [hk, ↓reduceIte] at h; simp [ih h]

/-- what `DeleteSubscriptions` spawns are ids of subscriptions of the requesting session -/
theorem deleteSubsLoop_spawned (subs : List (Nat × SubObj)) (sess : Nat) :
    ∀ ids id, id ∈ (deleteSubsLoop subs sess ids).2.1 →
      ∃ o, lookupSub subs id = some o ∧ o.owner = sess ∧ sess ≠ 0 := by
  intro ids
  induction ids with
  | nil => intro id h; simp [deleteSubsLoop] at h
  | cons a rest ih =>
    intro id h
    unfold deleteSubsLoop at h
    cases hl : lookupSub subs a with
    | none => simp only [hl] at h; exact ih id h
    | some o =>
      simp only [hl] at h
      by_cases hp : sess = 0 ∨ o.owner = 0
      · rw [if_pos hp] at h; simp at h
      · rw [if_neg hp] at h
        by_cases hne : sess ≠ o.owner
        · rw [if_pos hne] at h; exact ih id h
        · rw [if_neg hne] at h; simp only [List.mem_cons] at h
          have he : sess = o.owner := by simpa using hne
          rcases h with rfl | h
          · exact ⟨o, hl, he.symm, fun z => hp (Or.inl z)⟩
          · exact ih id h

/-- the status of a named subscription that belongs to somebody else or does not exist -/
theorem deleteSubsLoop_refuses (subs : List (Nat × SubObj)) (sess : Nat) (ids : List Nat)
    (hall : ∀ id ∈ ids, lookupSub subs id = none ∨ ∃ o, lookupSub subs id = some o ∧ o.owner ≠ sess ∧ o.owner ≠ 0)
    (hs : sess ≠ 0) :
    (deleteSubsLoop subs sess ids).2 = ([], false) ∧
    (deleteSubsLoop subs sess ids).1.length = ids.length ∧
    ∀ s ∈ (deleteSubsLoop subs sess ids).1, s = .badSubscriptionIdInvalid ∨ s = .badSessionIdInvalid := by
  induction ids with
  | nil => simp [deleteSubsLoop]
  | cons a rest ih =>
    have hr := ih (fun id h => hall id (by simp [h]))
    unfold deleteSubsLoop
    rcases hall a (by simp) with hn | ⟨o, ho, h1, h2⟩
    · simp only [hn]
      refine ⟨hr.1, by simp [hr.2.1], ?_⟩
      intro s hs'; simp only [List.mem_cons] at hs'
      rcases hs' with rfl | hs'
      · exact Or.inl rfl
      · exact hr.2.2 s hs'
    · have hp : ¬ (sess = 0 ∨ o.owner = 0) := by simp [hs, h2]
      have hne : sess ≠ o.owner := fun e => h1 e.symm
      simp only [ho]; rw [if_neg hp, if_pos hne]
      refine ⟨hr.1, by simp [hr.2.1], ?_⟩
      intro s hs'; simp only [List.mem_cons] at hs'
      rcases hs' with rfl | hs'
      · exact Or.inr rfl
      · exact hr.2.2 s hs'

theorem setItemMode_other (l : List Item) (id mode : Nat) (it : Item) (h : it ∈ l) (hne : it.id ≠ id) :
    it ∈ setItemMode l id mode := by
  unfold setItemMode
  refine List.mem_map.2 ⟨it, h, ?_⟩
  simp [hne]

/-- `SetMonitoringMode` leaves every item it does not name as it was -/
theorem setModeLoop_frame (sess mode : Nat) :
    ∀ (ids : List Nat) (items : List Item) (it : Item), it ∈ items → it.id ∉ ids →
      it ∈ (setModeLoop items sess mode ids).2.1 := by
  intro ids
  induction ids with
  | nil => intro items it h _; simpa [setModeLoop] using h
  | cons a rest ih =>
    intro items it h hn
    simp only [List.mem_cons, not_or] at hn
    unfold setModeLoop
    cases lookupItem items a with
    | none => simpa using h
    | some x =>
      simp only []
      split
      · simpa using h
      · exact ih _ it (setItemMode_other items a mode it h hn.1) hn.2

/-- `DeleteMonitoredItems` deletes only ids it names -/
theorem deleteItemsLoop_named (items : List Item) (sess : Nat) :
    ∀ (ids : List Nat) (id : Nat), id ∈ (deleteItemsLoop items sess ids).2.1 → id ∈ ids := by
  intro ids
  induction ids with
  | nil => intro id h; simp [deleteItemsLoop] at h
  | cons a rest ih =>
    intro id h
    unfold deleteItemsLoop at h
    cases hl : lookupItem items a with
    | none => simp [hl] at h
    | some x =>
      simp only [hl] at h
      split at h
      · simp at h
      · simp only [List.mem_cons] at h
        rcases h with rfl | h
        · simp
        · simp [ih id h]

end Opcua.SrvIds
