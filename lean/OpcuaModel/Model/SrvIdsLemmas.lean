import OpcuaModel.Model.SrvIds
/-
  Helper lemmas about the C32 model (used by Props/C32.lean).
-/
namespace Opcua.SrvIds

theorem nextID_small (c : Nat) (h : c + 1 < 4294967296) : nextID c = c + 1 := by
  unfold nextID
  have : (c + 1) % 4294967296 = c + 1 := Nat.mod_eq_of_lt h
  simp [this]

/-- below the wrap the allocated ids are ctr+1 … ctr+n -/
theorem allocIds_small : ∀ (n c : Nat), c + n < 4294967296 →
    (allocIds n c).2 = c + n ∧ ∀ i, i ∈ (allocIds n c).1 ↔ (c < i ∧ i ≤ c + n)
  | 0, c, _ => by simp [allocIds]
  | n + 1, c, h => by
    have hn : nextID c = c + 1 := nextID_small c (by omega)
    obtain ⟨h2, h3⟩ := allocIds_small n (c + 1) (by omega)
    simp only [allocIds, hn]
    refine ⟨by rw [h2]; omega, ?_⟩
    intro i
    simp only [List.mem_cons, h3]
    omega

theorem allocIds_nodup : ∀ (n c : Nat), c + n < 4294967296 → (allocIds n c).1.Nodup
  | 0, c, _ => by simp [allocIds]
  | n + 1, c, h => by
    have hn : nextID c = c + 1 := nextID_small c (by omega)
    simp only [allocIds, hn, List.nodup_cons]
    refine ⟨?_, allocIds_nodup n (c + 1) (by omega)⟩
    intro hm
    have := ((allocIds_small n (c + 1) (by omega)).2 (c + 1)).1 hm
    omega

theorem putSub_fresh (l : List (Nat × SubObj)) (id : Nat) (o : SubObj) (h : id ∉ l.map (·.1)) :
    putSub l id o = l ++ [(id, o)] := by
  induction l with
  | nil => rfl
  | cons e r ih =>
    obtain ⟨k, x⟩ := e
    simp only [List.map_cons, List.mem_cons, not_or] at h
    have hk : ¬ k = id := fun e => h.1 e.symm
    simp [putSub, hk, ih h.2]

theorem lookupSub_mem {l : List (Nat × SubObj)} {id : Nat} {o : SubObj} (h : lookupSub l id = some o) :
    (id, o) ∈ l := by
  induction l with
  | nil => simp [lookupSub] at h
  | cons e r ih =>
    obtain ⟨k, x⟩ := e
    unfold lookupSub at h
    by_cases hk : k = id
    · simp only [hk, ↓reduceIte, Option.some.injEq] at h; simp [hk, h]
    · simp only [hk, ↓reduceIte] at h; simp [ih h]

/-- what `DeleteSubscriptions` spawns are ids of subscriptions of the requesting session -/
theorem deleteSubsLoop_spawned (subs : List (Nat × SubObj)) (sess : Nat) :
    ∀ ids id, id ∈ (deleteSubsLoop subs sess ids).2.1 →
      ∃ o, lookupSub subs id = some o ∧ o.owner = sess ∧ sess ≠ 0 := by
  intro ids
  induction ids with
  | nil => intro id h; simp [deleteSubsLoop] at h
  | cons a rest ih =>
    intro id h
    unfold deleteSubsLoop at h
    cases hl : lookupSub subs a with
    | none => simp only [hl] at h; exact ih id h
    | some o =>
      simp only [hl] at h
      by_cases hp : sess = 0 ∨ o.owner = 0
      · rw [if_pos hp] at h; simp at h
      · rw [if_neg hp] at h
        by_cases hne : sess ≠ o.owner
        · rw [if_pos hne] at h; exact ih id h
        · rw [if_neg hne] at h; simp only [List.mem_cons] at h
          have he : sess = o.owner := by simpa using hne
          rcases h with rfl | h
          · exact ⟨o, hl, he.symm, fun z => hp (Or.inl z)⟩
          · exact ih id h

/-- the status of a named subscription that belongs to somebody else or does not exist -/
theorem deleteSubsLoop_refuses (subs : List (Nat × SubObj)) (sess : Nat) (ids : List Nat)
    (hall : ∀ id ∈ ids, lookupSub subs id = none ∨ ∃ o, lookupSub subs id = some o ∧ o.owner ≠ sess ∧ o.owner ≠ 0)
    (hs : sess ≠ 0) :
    (deleteSubsLoop subs sess ids).2 = ([], false) ∧
    (deleteSubsLoop subs sess ids).1.length = ids.length ∧
    ∀ s ∈ (deleteSubsLoop subs sess ids).1, s = .badSubscriptionIdInvalid ∨ s = .badSessionIdInvalid := by
  induction ids with
  | nil => simp [deleteSubsLoop]
  | cons a rest ih =>
    have hr := ih (fun id h => hall id (by simp [h]))
    unfold deleteSubsLoop
    rcases hall a (by simp) with hn | ⟨o, ho, h1, h2⟩
    · simp only [hn]
      refine ⟨hr.1, by simp [hr.2.1], ?_⟩
      intro s hs'; simp only [List.mem_cons] at hs'
      rcases hs' with rfl | hs'
      · exact Or.inl rfl
      · exact hr.2.2 s hs'
    · have hp : ¬ (sess = 0 ∨ o.owner = 0) := by simp [hs, h2]
      have hne : sess ≠ o.owner := fun e => h1 e.symm
      simp only [ho]; rw [if_neg hp, if_pos hne]
      refine ⟨hr.1, by simp [hr.2.1], ?_⟩
      intro s hs'; simp only [List.mem_cons] at hs'
      rcases hs' with rfl | hs'
      · exact Or.inr rfl
      · exact hr.2.2 s hs'

/-- changing the mode of the table entry `id`, which belongs to `sess`, leaves the
    items of every other session as they are -/
theorem setItemMode_foreign (l : List Item) (id mode sess : Nat) (x : Item)
    (hx : lookupItem l id = some x) (hown : x.sub.owner = sess) (it : Item) (h : it ∈ l)
    (hf : it.sub.owner ≠ sess) : it ∈ setItemMode l id mode := by
  induction l with
  | nil => simp at h
  | cons a r ih =>
    unfold setItemMode
    by_cases ha : a.id = id
    · have : x = a := by simpa [lookupItem, List.find?, ha] using hx.symm
      subst this
      simp only [ha, ↓reduceIte, List.mem_cons]
      simp only [List.mem_cons] at h
      rcases h with rfl | h
      · exact absurd hown hf
      · exact Or.inr h
    · simp only [ha, ↓reduceIte, List.mem_cons]
      simp only [List.mem_cons] at h
      rcases h with rfl | h
      · exact Or.inl rfl
      · have hx' : lookupItem r id = some x := by simpa [lookupItem, List.find?, ha] using hx
        exact Or.inr (ih hx' h)

/-- `SetMonitoringMode` by `sess` leaves every item of another session exactly as it was
    (whatever ids it names, known or not, and even if it ends in a nil dereference) -/
theorem setModeLoop_scoped (sess mode : Nat) :
    ∀ (ids : List Nat) (items : List Item) (it : Item), it ∈ items → it.sub.owner ≠ sess →
      it ∈ (setModeLoop items sess mode ids).2.1 := by
  intro ids
  induction ids with
  | nil => intro items it h _; simpa [setModeLoop] using h
  | cons a rest ih =>
    intro items it h hf
    unfold setModeLoop
    cases hl : lookupItem items a with
    | none => simpa using ih items it h hf
    | some x =>
      simp only []
      by_cases hp : x.sub.owner = 0 ∨ sess = 0
      · rw [if_pos hp]; exact h
      · rw [if_neg hp]
        by_cases hne : x.sub.owner ≠ sess
        · rw [if_pos hne]; exact ih items it h hf
        · rw [if_neg hne]
          have hown : x.sub.owner = sess := by simpa using hne
          exact ih _ it (setItemMode_foreign items a mode sess x hl hown it h hf) hf

/-- what `DeleteMonitoredItems` spawns are ids whose table entry belongs to the requester -/
theorem deleteItemsLoop_own (items : List Item) (sess : Nat) :
    ∀ (ids : List Nat) (id : Nat), id ∈ (deleteItemsLoop items sess ids).2.1 →
      ∃ x, lookupItem items id = some x ∧ x.sub.owner = sess := by
  intro ids
  induction ids with
  | nil => intro id h; simp [deleteItemsLoop] at h
  | cons a rest ih =>
    intro id h
    unfold deleteItemsLoop at h
    cases hl : lookupItem items a with
    | none => simp only [hl] at h; exact ih id h
    | some x =>
      simp only [hl] at h
      by_cases hp : x.sub.owner = 0 ∨ sess = 0
      · rw [if_pos hp] at h; simp at h
      · rw [if_neg hp] at h
        by_cases hne : x.sub.owner ≠ sess
        · rw [if_pos hne] at h; exact ih id h
        · rw [if_neg hne] at h
          simp only [List.mem_cons] at h
          rcases h with rfl | h
          · exact ⟨x, hl, by simpa using hne⟩
          · exact ih id h

/-- with unique ids the table entry under an item's id is that item -/
theorem lookupItem_self (l : List Item) (hn : (l.map (·.id)).Nodup) (it : Item) (h : it ∈ l) :
    lookupItem l it.id = some it := by
  induction l with
  | nil => simp at h
  | cons a r ih =>
    simp only [List.map_cons, List.nodup_cons, List.mem_map, not_exists, not_and] at hn
    simp only [List.mem_cons] at h
    rcases h with rfl | h
    · simp [lookupItem, List.find?]
    · have hne : ¬ a.id = it.id := fun e => hn.1 it h e.symm
      simpa [lookupItem, List.find?, hne] using ih hn.2 h

theorem setModeLoop_refuses (items : List Item) (sess mode : Nat) (ids : List Nat) (hs : sess ≠ 0)
    (hall : ∀ id ∈ ids, lookupItem items id = none ∨
      ∃ x, lookupItem items id = some x ∧ x.sub.owner ≠ sess ∧ x.sub.owner ≠ 0) :
    (setModeLoop items sess mode ids).2 = (items, false) ∧
    (setModeLoop items sess mode ids).1.length = ids.length ∧
    ∀ s ∈ (setModeLoop items sess mode ids).1, s = .badMonitoredItemIdInvalid ∨ s = .badSessionIdInvalid := by
  induction ids with
  | nil => simp [setModeLoop]
  | cons a rest ih =>
    have hr := ih (fun id h => hall id (by simp [h]))
    unfold setModeLoop
    rcases hall a (by simp) with hn | ⟨x, hx, h1, h2⟩
    · simp only [hn]
      refine ⟨hr.1, by simp [hr.2.1], ?_⟩
      intro s hs'; simp only [List.mem_cons] at hs'
      rcases hs' with rfl | hs'
      · exact Or.inl rfl
      · exact hr.2.2 s hs'
    · have hp : ¬ (x.sub.owner = 0 ∨ sess = 0) := by simp [hs, h2]
      simp only [hx]; rw [if_neg hp, if_pos h1]
      refine ⟨hr.1, by simp [hr.2.1], ?_⟩
      intro s hs'; simp only [List.mem_cons] at hs'
      rcases hs' with rfl | hs'
      · exact Or.inr rfl
      · exact hr.2.2 s hs'

theorem deleteItemsLoop_refuses (items : List Item) (sess : Nat) (ids : List Nat) (hs : sess ≠ 0)
    (hall : ∀ id ∈ ids, lookupItem items id = none ∨
      ∃ x, lookupItem items id = some x ∧ x.sub.owner ≠ sess ∧ x.sub.owner ≠ 0) :
    (deleteItemsLoop items sess ids).2 = ([], false) ∧
    (deleteItemsLoop items sess ids).1.length = ids.length ∧
    ∀ s ∈ (deleteItemsLoop items sess ids).1, s = .badMonitoredItemIdInvalid ∨ s = .badSessionIdInvalid := by
  induction ids with
  | nil => simp [deleteItemsLoop]
  | cons a rest ih =>
    have hr := ih (fun id h => hall id (by simp [h]))
    unfold deleteItemsLoop
    rcases hall a (by simp) with hn | ⟨x, hx, h1, h2⟩
    · simp only [hn]
      refine ⟨hr.1, by simp [hr.2.1], ?_⟩
      intro s hs'; simp only [List.mem_cons] at hs'
      rcases hs' with rfl | hs'
      · exact Or.inl rfl
      · exact hr.2.2 s hs'
    · have hp : ¬ (x.sub.owner = 0 ∨ sess = 0) := by simp [hs, h2]
      simp only [hx]; rw [if_neg hp, if_pos h1]
      refine ⟨hr.1, by simp [hr.2.1], ?_⟩
      intro s hs'; simp only [List.mem_cons] at hs'
      rcases hs' with rfl | hs'
      · exact Or.inr rfl
      · exact hr.2.2 s hs'

theorem liveSubIds_erase (l : List (Nat × SubObj)) (id x : Nat) (h : x ∈ (eraseSub l id).map (·.1)) :
    x ∈ l.map (·.1) := by
  simp only [eraseSub, List.mem_map, List.mem_filter] at h ⊢
  obtain ⟨e, ⟨he, _⟩, rfl⟩ := h
  exact ⟨e, he, rfl⟩

theorem applyDelete_none (st : St) (k : Nat) (hp : st.pending[k]? = none) :
    applyDelete st k = (.noSuchPending, st) := by
  simp [applyDelete, hp]

theorem applyDelete_miss (st : St) (k id : Nat) (hp : st.pending[k]? = some id) (hl : lookupSub st.subs id = none) :
    applyDelete st k = (.applied false,
      { st with items := st.items.filter (·.sub.id ≠ id), pending := st.pending.eraseIdx k }) := by
  simp [applyDelete, hp, hl]

theorem applyDelete_hit (st : St) (k id : Nat) (o : SubObj) (hp : st.pending[k]? = some id)
    (hl : lookupSub st.subs id = some o) :
    applyDelete st k = (.applied true,
      { st with subs := eraseSub st.subs id, items := st.items.filter (·.sub.id ≠ id),
                pending := st.pending.eraseIdx k ++ [id] }) := by
  simp [applyDelete, hp, hl]

end Opcua.SrvIds
