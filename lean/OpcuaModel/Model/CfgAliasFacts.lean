import OpcuaModel.Model.CfgAlias
import OpcuaModel.Gen.ConfigFacts
/-
  The heap model of C23 instantiated with what the generator extracted from the
  current source (shared by the theorems and the driver, so that the driver
  still builds when a theorem about the facts no longer holds).
-/
namespace Opcua.CfgAlias

/-- the alias facts of the current source -/
def facts : Facts := ⟨Gen.Config.shared⟩

/-- the initial content of every cell: the pristine defaults (a package-level
    object holds what `newConfig()` shows below its pointer before any option ran) -/
def pristine : Cell → String
  | (.own _, p) => (Gen.Config.defaults.lookup p).getD "<absent>"
  | (.glob g, rel) =>
    match Gen.Config.shared.find? (fun e => e.2 == g) with
    | some (q, _) => (Gen.Config.defaults.lookup (q ++ rel)).getD "<absent>"
    | none => "<absent>"
  | (.user _ _, _) => "<absent>"
  | (.value _, _) => "<absent>"

end Opcua.CfgAlias
