/-
  C25 — the connection lifecycle of `opcua.Client` as a labelled transition
  system: the user thread (`Connect`, `Close`), the `Client.monitor` goroutine
  with its reconnect action loop, and an environment that answers every dial /
  session / namespace exchange with success or failure.

  Observable labels (`Ev`) are exactly what the C25 harness records; the
  environment's answers, the moment the monitor context is cancelled and (when
  the verifPoints are not compiled in) the monitor's internal steps are hidden
  (`tau`).  Comments quote client.go (with the `report` guard in `monitor` and
  `mcancel()` before `setState(Closed)` in `Close`).
-/
namespace Opcua.ConnLts

inductive ConnState where
  | closed | connected | connecting | disconnected | reconnecting
  deriving Repr, DecidableEq

/-- `reconnectAction` -/
inductive Action where
  | createSecureChannel | restoreSession | recreateSession | restoreSubscriptions
  | transferSubscriptions | abortReconnect
  deriving Repr, DecidableEq

/-- classes of the error the monitor receives from `sechanErr` -/
inductive ErrClass where
  | eof | refused | badChannel | badSession | badSubscription | other
  deriving Repr, DecidableEq

/-- the `switch` that maps the error to the first action -/
def classify : ErrClass → Action
  | .eof => .createSecureChannel
  | .refused => .abortReconnect
  | .badChannel => .createSecureChannel
  | .badSession => .recreateSession
  | .badSubscription => .transferSubscriptions
  | .other => .createSecureChannel

/-- user thread -/
inductive UPc where
  | fresh          -- NewClient done
  | c0             -- Connect called
  | c1             -- Connecting reported
  | c2             -- Dial attempted
  | cDialFailed    -- Dial failed: Connect returns the error, state stays Connecting
  | cSess          -- CreateSession / ActivateSession in flight
  | c3             -- session active, about to report Connected
  | c4             -- Connected reported, monitor started
  | cClose1        -- session failed: Connect calls Close
  | cClose2        -- … Closed reported
  | cNsFail        -- UpdateNamespaces failed after Connected was reported: Connect calls Close
  | running        -- Connect returned nil
  | failed         -- Connect returned an error
  deriving Repr, DecidableEq

/-- monitor goroutine -/
inductive MPc where
  | notStarted
  | wait                    -- select on ctx.Done / sechanErr
  | disc                    -- Disconnected reported
  | err (c : ErrClass)      -- after verifPoint monitor.error
  | top (a : Action)        -- head of `for action != none`: ctx check pending
  | act (a : Action)        -- inside `switch action` (after verifPoint monitor.action)
  | dialLoop                -- createSecureChannel: Reconnecting reported, about to Dial
  | dialed                  -- Dial attempted, result pending
  | dialWait                -- Dial failed: waiting ReconnectInterval
  | restore1                -- restoreSession: Reconnecting reported
  | recreate1               -- recreateSession: Reconnecting reported
  | done                    -- Connected reported by restoreSubscriptions (before verifPoint monitor.done)
  | exit                    -- returning: deferred setState(Closed) pending
  | dead
  deriving Repr, DecidableEq

/-- user `Close` -/
inductive Closing where
  | no | begun | reported | ended
  deriving Repr, DecidableEq

structure St where
  upc  : UPc
  mpc  : MPc
  cl   : Closing
  /-- the monitor context is cancelled (`c.mcancel()` in Close) -/
  cancelled : Bool
  /-- `c.Session() != nil` -/
  sess : Bool
  /-- last state handed to the StateChangedFunc -/
  last : ConnState
  /-- option AutoReconnect -/
  auto : Bool
  /-- verifPoints compiled in: `m.*` labels are part of the trace -/
  hooks : Bool
  /-- the live secure channel has reported an error (connection lost …) that is
      waiting in `c.sechanErr` -/
  faulted : Bool
  /-- `c.sechanErr` holds an error of a secure channel that no longer exists
      (all channels of a client share that one-slot channel) -/
  stale : Bool
  deriving Repr, DecidableEq

def init (auto hooks : Bool) : St :=
  ⟨.fresh, .notStarted, .no, false, false, .closed, auto, hooks, false, false⟩

inductive Ev where
  | uConnect | uConnectOk | uConnectErr | uClose | uCloseEnd
  | st (s : ConnState)
  | dial
  | mError (c : ErrClass) | mAction (a : Action) | mDone
  deriving Repr, DecidableEq

/-- the monitor's `m.*` steps when the labels are hidden (no verifPoints):
    `verifPoint("monitor.error", err)`, `verifPoint("monitor.action", …)` after the ctx check,
    `verifPoint("monitor.done", …)` -/
def monHidden (s : St) : List St :=
  match s.mpc with
  | .disc => [ErrClass.eof, .refused, .badChannel, .badSession, .badSubscription, .other].map
               fun c => { s with mpc := .err c }
  | .top a => if s.cancelled then [] else [{ s with mpc := .act a }]
  -- … `for len(c.sechanErr) > 0 { <-c.sechanErr }`: errors from the reconnection are cleared
  | .done => [{ s with mpc := .wait, stale := false, faulted := false }]
  | _ => []

/-- hidden steps -/
def tau (s : St) : List St :=
  (if s.hooks then [] else monHidden s) ++
  -- Close: c.CloseSession(ctx); `c.mcancel()` — before `c.setState(ctx, Closed)`
  (if s.cl == .begun && !s.cancelled then [{ s with cancelled := true }] else []) ++
  -- the environment: the live connection is lost / the channel reports an error (dispatcher → c.sechanErr)
  -- (also between the report of Connected and the drain at the end of the reconnect round: `done`)
  (if (s.mpc == .wait || s.mpc == .done) && !s.faulted then [{ s with faulted := true }] else []) ++
  (match s.upc with
   -- c.Dial(ctx) failed before a secure channel existed / failed at OpenSecureChannel (the dead channel's
   -- dispatcher leaves its error in c.sechanErr) / succeeded (Dial drains c.sechanErr before it creates the channel)
   | .c2 => [{ s with upc := .cDialFailed }, { s with upc := .cDialFailed, stale := true },
             { s with upc := .cSess, stale := false, faulted := false }]
   -- CreateSession / ActivateSession failed (→ c.Close(ctx)) / succeeded
   | .cSess => [{ s with upc := .cClose1 }, { s with upc := .c3, sess := true }]
   -- c.UpdateNamespaces(ctx) fails (the monitor is already running): c.Close(ctx) — the same steps as a user Close
   | .c4 => [{ s with upc := .cNsFail, cl := .begun }]
   | _ => []) ++
  (match s.mpc with
   -- case <-ctx.Done(): return          (top-level select)
   -- … or `case err := <-c.sechanErr` with the context already cancelled: report(Disconnected) is suppressed
   | .wait => if s.cancelled then [{ s with mpc := .exit }] ++
                (if s.faulted || s.stale then [{ s with mpc := .disc, faulted := false, stale := false }] else [])
              else []
   -- if !c.cfg.sechan.AutoReconnect { return }    /  switch on the error class; c.pauseSubscriptions(ctx)
   | .err c => if s.auto then [{ s with mpc := .top (classify c) }] else [{ s with mpc := .exit }]
   -- case <-ctx.Done(): return          (action loop)
   | .top _ => if s.cancelled then [{ s with mpc := .exit }] else []
   -- report := func(s) { if ctx.Err() != nil { return }; c.setState(ctx, s) }: after cancellation the
   -- actions run on without reporting
   -- (c.conn.Close(); sc.Close(): the old channel's dispatcher may leave an error behind)
   | .act .createSecureChannel =>
     if s.cancelled then [{ s with mpc := .dialLoop }, { s with mpc := .dialLoop, stale := true }] else []
   | .act .restoreSession => if s.cancelled then [{ s with mpc := .restore1 }] else []
   | .act .recreateSession => if s.cancelled then [{ s with mpc := .recreate1 }] else []
   | .act .restoreSubscriptions => if s.cancelled then [{ s with mpc := .done }] else []
   -- transferSubscriptions: action = restoreSubscriptions
   | .act .transferSubscriptions => [{ s with mpc := .top .restoreSubscriptions }]
   -- abortReconnect: return
   | .act .abortReconnect => [{ s with mpc := .exit }]
   -- Dial with a cancelled context fails without a connect attempt; `case <-ctx.Done(): return`
   | .dialLoop => if s.cancelled then [{ s with mpc := .exit }] else []
   -- Dial failed → wait ReconnectInterval; Dial succeeded → action = restoreSession
   -- (as in Connect: a Dial that fails at OpenSecureChannel leaves a stale error; a successful Dial drains)
   | .dialed => [{ s with mpc := .dialWait }, { s with mpc := .dialWait, stale := true },
                 { s with mpc := .top .restoreSession, stale := false, faulted := false }]
   -- case <-ctx.Done(): return / case <-time.After(ReconnectInterval): continue
   | .dialWait => if s.cancelled then [{ s with mpc := .exit }] else [{ s with mpc := .dialLoop }]
   | .restore1 =>
     -- s := c.Session(); if s == nil { action = recreateSession }
     if !s.sess then [{ s with mpc := .top .recreateSession }]
     else
       -- c.setSession(nil); ActivateSession fails → recreateSession
       [{ s with mpc := .top .recreateSession, sess := false },
        -- ActivateSession ok, UpdateNamespaces fails → createSecureChannel
        { s with mpc := .top .createSecureChannel },
        -- both ok → restoreSubscriptions
        { s with mpc := .top .restoreSubscriptions }]
   | .recreate1 =>
     -- c.setSession(nil); CreateSession / ActivateSession fail → createSecureChannel
     [{ s with mpc := .top .createSecureChannel, sess := false },
      -- session ok, UpdateNamespaces fails → createSecureChannel
      { s with mpc := .top .createSecureChannel, sess := true },
      -- all ok → transferSubscriptions
      { s with mpc := .top .transferSubscriptions, sess := true }]
   | _ => [])

/-- observable steps -/
def obs (s : St) (e : Ev) : List St :=
  (if s.hooks then
    (match s.mpc, e with
     | .disc, .mError c => [{ s with mpc := .err c }]
     | .top a, .mAction b => if !s.cancelled && a == b then [{ s with mpc := .act a }] else []
     | .done, .mDone => [{ s with mpc := .wait, stale := false, faulted := false }]
     | _, _ => [])
   else []) ++
  (match e with
   -- Connect; it may be called again after a Connect that failed before the monitor was started
   | .uConnect =>
     if s.upc == .fresh || (s.upc == .failed && s.cl == .no && s.mpc == .notStarted) then [{ s with upc := .c0 }] else []
   | .uConnectOk => if s.upc == .c4 then [{ s with upc := .running }] else []
   | .uConnectErr =>
     if s.upc == .cDialFailed || s.upc == .cClose2 then [{ s with upc := .failed }]
     else if s.upc == .cNsFail && s.cl == .reported then [{ s with upc := .failed, cl := .ended }] else []
   | .uClose => if s.upc == .running && s.cl == .no then [{ s with cl := .begun }] else []
   | .uCloseEnd => if s.upc == .running && s.cl == .reported then [{ s with cl := .ended }] else []
   | .dial =>
     -- c.cfg.dialer.Dial(ctx, c.endpointURL): one TCP connect attempt (not made when ctx is cancelled)
     (if s.upc == .c1 then [{ s with upc := .c2 }] else []) ++
     (if s.mpc == .dialLoop && !s.cancelled then [{ s with mpc := .dialed }] else [])
   | .st x =>
     (match s.upc, x with
      -- c.setState(ctx, Connecting)
      | .c0, .connecting => [{ s with upc := .c1, last := x }]
      -- c.setState(ctx, Connected); go c.monitor(mctx)
      | .c3, .connected => [{ s with upc := .c4, mpc := .wait, last := x }]
      -- Connect → c.Close(ctx): c.setState(ctx, Closed)
      | .cClose1, .closed => [{ s with upc := .cClose2, last := x }]
      | _, _ => []) ++
     -- Close: … c.mcancel(); c.setState(ctx, Closed)
     (if s.cl == .begun && s.cancelled && x == .closed then [{ s with cl := .reported, sess := false, last := x }] else []) ++
     -- the monitor's reports go through `report`: nothing but the deferred Closed once ctx is cancelled
     (match s.mpc, x with
      -- case err := <-c.sechanErr: … report(Disconnected)
      | .wait, .disconnected =>
        if s.cancelled || !(s.faulted || s.stale) then []
        else [{ s with mpc := .disc, last := x, faulted := false, stale := false }]
      -- createSecureChannel: report(Reconnecting)
      | .act .createSecureChannel, .reconnecting =>
        if s.cancelled then []
        else [{ s with mpc := .dialLoop, last := x }, { s with mpc := .dialLoop, last := x, stale := true }]
      -- restoreSession: report(Reconnecting)
      | .act .restoreSession, .reconnecting => if s.cancelled then [] else [{ s with mpc := .restore1, last := x }]
      -- recreateSession: report(Reconnecting)
      | .act .recreateSession, .reconnecting => if s.cancelled then [] else [{ s with mpc := .recreate1, last := x }]
      -- restoreSubscriptions: report(Connected); action = none
      | .act .restoreSubscriptions, .connected => if s.cancelled then [] else [{ s with mpc := .done, last := x }]
      -- defer c.setState(ctx, Closed)
      | .exit, .closed => [{ s with mpc := .dead, last := x }]
      | _, _ => [])
   | _ => [])

/-! ### trace acceptance (subset construction) -/

def dedup (l : List St) : List St :=
  l.foldl (fun acc x => if acc.contains x then acc else acc ++ [x]) []

/-- states reachable by at most `n` hidden steps -/
def closure : Nat → List St → List St
  | 0, l => l
  | n + 1, l => closure n (dedup (l ++ l.flatMap tau))

/-- longest chain of hidden steps is short; 8 is more than enough -/
def tauClose (l : List St) : List St := closure 8 l

def after (l : List St) (e : Ev) : List St :=
  tauClose (dedup ((tauClose l).flatMap (obs · e)))

/-- run a trace; `none` = rejected, with the index of the offending event -/
def run : List St → List Ev → Nat → Except Nat (List St)
  | l, [], _ => .ok l
  | l, e :: es, i =>
    let l' := after l e
    if l'.isEmpty then .error i else run l' es (i + 1)

def accepts (auto hooks : Bool) (t : List Ev) : Bool :=
  match run [init auto hooks] t 0 with
  | .ok _ => true
  | .error _ => false

/-! ### the documented automaton (connstate.go), stuttering allowed -/

def doc : ConnState → ConnState → Bool
  | .closed, .connecting | .closed, .closed => true
  | .connecting, .connecting | .connecting, .connected | .connecting, .closed => true
  | .connected, .disconnected | .connected, .closed => true
  | .disconnected, .reconnecting | .disconnected, .connected | .disconnected, .closed => true
  | .reconnecting, .reconnecting | .reconnecting, .connected | .reconnecting, .closed => true
  | _, _ => false

/-! ### reachability -/

inductive Reach (auto hooks : Bool) : St → Prop where
  | init : Reach auto hooks (init auto hooks)
  | tau {s s'} : Reach auto hooks s → s' ∈ tau s → Reach auto hooks s'
  | obs {s s'} (e : Ev) : Reach auto hooks s → s' ∈ obs s e → Reach auto hooks s'

/-- the user's Close has reported Closed -/
def St.clRep (s : St) : Bool := s.cl == .reported || s.cl == .ended

/-- the last reported state the monitor's program point implies -/
def monTable (m : MPc) (l : ConnState) : Bool :=
  match m with
  | .notStarted => true
  | .wait | .done => l == .connected
  | .disc | .err _ => l == .disconnected
  | .top _ | .act _ => l == .disconnected || l == .reconnecting
  | .dialLoop | .dialed | .dialWait | .restore1 | .recreate1 => l == .reconnecting
  | .exit => l == .disconnected || l == .reconnecting || l == .connected
  | .dead => l == .closed

/-- invariant of every reachable state: program points vs. last reported
    state while the monitor context is live; after cancellation (Close) the last
    report of Close and of an exited monitor is Closed -/
def Good (s : St) : Bool :=
  (match s.upc with
   | .fresh => s.last == .closed && s.mpc == .notStarted && s.cl == .no
   | .c0 => (s.last == .closed || s.last == .connecting) && s.mpc == .notStarted && s.cl == .no
   | .c1 | .c2 | .cDialFailed | .cSess | .c3 | .cClose1 => s.last == .connecting && s.mpc == .notStarted && s.cl == .no
   | .cClose2 => s.last == .closed && s.mpc == .notStarted && s.cl == .no
   | .failed => (s.mpc == .notStarted && (s.last == .closed || s.last == .connecting) && s.cl == .no) ||
                (s.mpc != .notStarted && s.cl == .ended)
   | .c4 => s.mpc != .notStarted && s.cl == .no
   | .cNsFail => s.mpc != .notStarted && (s.cl == .begun || s.cl == .reported)
   | .running => s.mpc != .notStarted) &&
  (s.cancelled || monTable s.mpc s.last) &&
  (s.mpc != .dead || s.last == .closed) &&
  (!s.clRep || s.last == .closed) &&
  -- cancellation belongs to Close and precedes its report
  (!s.cancelled || s.cl != .no) && (!s.clRep || s.cancelled) &&
  -- a monitor that waits for errors has no stale error in front of it (Dial and the end of a reconnect drain)
  (!(s.mpc == .wait) || !s.stale) &&
  (!(s.upc == .cSess || s.upc == .c3) || !s.stale)

/-! ### progress measures -/

/-- monitor steps (hidden or observable) left until the monitor goroutine has
    exited, once its context is cancelled -/
def exitRank : MPc → Nat
  | .dead => 0
  | .exit => 1
  | .notStarted => 0
  | .wait => 5
  | .top _ => 2
  | .dialLoop | .dialWait => 2
  | .done => 6
  | .err _ => 3
  | .disc => 4
  | .dialed => 3
  | .restore1 | .recreate1 => 3
  | .act .restoreSubscriptions => 7
  | .act .transferSubscriptions => 3
  | .act .abortReconnect => 2
  | .act .createSecureChannel => 3
  | .act .restoreSession => 4
  | .act .recreateSession => 4

/-- the successor of a monitor state when every environment answer is a
    success and nobody calls Close -/
def happy (s : St) : St :=
  match s.mpc with
  | .disc => { s with mpc := .err .eof }
  | .err c => { s with mpc := .top (classify c) }
  | .top a => { s with mpc := .act a }
  | .act .createSecureChannel => { s with mpc := .dialLoop, last := .reconnecting }
  | .dialLoop => { s with mpc := .dialed }
  | .dialed => { s with mpc := .top .restoreSession, stale := false, faulted := false }
  | .dialWait => { s with mpc := .dialLoop }
  | .act .restoreSession => { s with mpc := .restore1, last := .reconnecting }
  | .restore1 => if s.sess then { s with mpc := .top .restoreSubscriptions } else { s with mpc := .top .recreateSession }
  | .act .recreateSession => { s with mpc := .recreate1, last := .reconnecting }
  | .recreate1 => { s with mpc := .top .transferSubscriptions, sess := true }
  | .act .transferSubscriptions => { s with mpc := .top .restoreSubscriptions }
  | .act .restoreSubscriptions => { s with mpc := .done, last := .connected }
  | .done => { s with mpc := .wait, stale := false, faulted := false }
  | _ => s

def iter (f : St → St) : Nat → St → St
  | 0, s => s
  | n + 1, s => iter f n (f s)

/-- the monitor is somewhere in its reconnect loop -/
def reconnecting (s : St) : Bool :=
  match s.mpc with
  | .disc | .dialLoop | .dialed | .dialWait | .restore1 | .recreate1 | .done => true
  | .err c => c != .refused
  | .top a | .act a => a != .abortReconnect
  | _ => false

end Opcua.ConnLts
