import OpcuaModel.Base.Bytes
/-
  Model of the asymmetric half of `uapolicy` (property C15; sizes reused by C37).

  * `encrypt` / `decrypt` mirror the block-splitting loops of
    `RSAOAEP.Encrypt/Decrypt` and `PKCS1v15.Encrypt/Decrypt`
    (uapolicy/crypto_rsaoaep.go, crypto_pkcs1v15.go — the two pairs are the
    same code up to the padding constant) over an ABSTRACT per-block RSA
    `BlockRSA`: what Go's `rsa.EncryptOAEP/EncryptPKCS1v15` and their inverses
    guarantee per block (RFC 8017), nothing about the bytes.
  * `AsymRow` is what the generator extracts from each `newXAsymmetric`
    constructor (Gen/Asym.lean), `Spec` the Part 7 / RFC 8017 numbers written
    down by hand from the profile comments at the top of each policy file.
-/
namespace Opcua.Asym
open Opcua

/-- type and hash of the `encrypt:` field of a constructor -/
inductive Scheme where
  | none | pkcs1v15 | oaepSha1 | oaepSha256
  deriving Repr, DecidableEq

/-- `rsa.PublicKey.Size()`: modulus length in bytes -/
def sizeOfBits (bits : Int) : Int := (bits + 7) / 8

inductive SigScheme where
  | none | pkcs1v15Sha1 | pkcs1v15Sha256 | pssSha256
  deriving Repr, DecidableEq

/-- facts of one `newXAsymmetric` constructor, generated from the source -/
structure AsymRow where
  name : String
  scheme : Scheme
  sigScheme : SigScheme
  /-- constant `Encrypt` subtracts from the key size (`maxBlock := Size() - c`) -/
  encPad : Int
  /-- constant in `plainttextBlockSize: remoteKeySize - c` -/
  ptPad : Int
  minKeyBytes : Int
  maxKeyBytes : Int
  nonceLength : Int
  /-- translation of the constructor's guards: the constructor returns an
      algorithm (not an error) for keys whose moduli have these bit lengths
      (`N.BitLen()`; `Size()` is `sizeOfBits` of it) -/
  accept : (hasLocal : Bool) → (localBits : Int) → (hasRemote : Bool) → (remoteBits : Int) → Bool

/-! ### Specification numbers (hand-written) -/
namespace Spec

/-- OPC-UA Part 7, MinAsymmetricKeyLength / MaxAsymmetricKeyLength in bits, as
    quoted in the profile comment at the top of each `policy*.go` -/
def keyBits : String → Option (Int × Int)
  | "Basic128Rsa15" => some (1024, 2048)
  | "Basic256" => some (1024, 2048)
  | "Basic256Sha256" => some (2048, 4096)
  | "Aes128_Sha256_RsaOaep" => some (2048, 4096)
  | "Aes256_Sha256_RsaPss" => some (2048, 4096)
  | _ => none   -- policy None: no asymmetric keys, no limit

/-- Part 7 names the asymmetric encryption algorithm of each policy -/
def scheme : String → Option Scheme
  | "Basic128Rsa15" => some .pkcs1v15           -- Rsa15
  | "Basic256" => some .oaepSha1                -- RsaOaep
  | "Basic256Sha256" => some .oaepSha1          -- RSA-OAEP-SHA1
  | "Aes128_Sha256_RsaOaep" => some .oaepSha1   -- RSA-OAEP-SHA1
  | "Aes256_Sha256_RsaPss" => some .oaepSha256  -- RSA-OAEP-SHA2-256
  | "None" => some .none
  | _ => none

def sigScheme : String → Option SigScheme
  | "Basic128Rsa15" => some .pkcs1v15Sha1
  | "Basic256" => some .pkcs1v15Sha1
  | "Basic256Sha256" => some .pkcs1v15Sha256
  | "Aes128_Sha256_RsaOaep" => some .pkcs1v15Sha256
  | "Aes256_Sha256_RsaPss" => some .pssSha256
  | "None" => some .none
  | _ => none

/-- RFC 8017: the longest message one RSA operation with a `k`-byte modulus
    takes. RSAES-OAEP: `k − 2·hLen − 2`; RSAES-PKCS1-v1_5: `k − 11`.
    (Go: `EncryptOAEP` returns ErrMessageTooLong iff `len(msg) > k-2*hash.Size()-2`,
    `EncryptPKCS1v15` iff `len(msg) > k-11`.) -/
def capacity : Scheme → Int → Int
  | .none, _ => 0
  | .pkcs1v15, k => k - 11
  | .oaepSha1, k => k - 2 * 20 - 2
  | .oaepSha256, k => k - 2 * 32 - 2

end Spec

/-! ### Abstract per-block RSA -/

/-- What the Go primitive guarantees for one block. Encryption is randomised:
    `enc r p` is the ciphertext for random tape `r`. -/
structure BlockRSA where
  /-- modulus length in bytes, `PublicKey.Size()` -/
  k : Nat
  /-- longest plaintext the primitive accepts -/
  cap : Int
  enc : Nat → Bytes → Option Bytes
  dec : Bytes → Option Bytes
  enc_some : ∀ r p, (p.length : Int) ≤ cap → ∃ c, enc r p = some c
  enc_none : ∀ r p, cap < (p.length : Int) → enc r p = none
  enc_len : ∀ r p c, enc r p = some c → c.length = k
  dec_enc : ∀ r p c, enc r p = some c → dec c = some p

/-- result of a Go function that may also panic or never return -/
inductive Out where
  | ok (b : Bytes) | err | panic | diverge
  deriving Repr, DecidableEq

/-- body of `for srcRemaining > 0 { … }` in `Encrypt` for `maxBlock = mb > 0`;
    `i` counts the blocks (index into the random tape) -/
def encBlocks (R : BlockRSA) (rnd : Nat → Nat) (mb : Nat) (i : Nat) (src : Bytes) : Option Bytes :=
  if _h : src.length = 0 ∨ mb = 0 then some [] else
    match R.enc (rnd i) (src.take mb) with      -- end := min(start+maxBlock, len(src))
    | none => none                               -- `if err != nil { return nil, err }`
    | some c => (encBlocks R rnd mb (i + 1) (src.drop mb)).map (c ++ ·)
termination_by src.length
decreasing_by simp only [List.length_drop]; omega

/-- `RSAOAEP.Encrypt` / `PKCS1v15.Encrypt` with `minPadding = pad`
    (`hasKey = false`: `PublicKey == nil`) -/
def encrypt (hasKey : Bool) (R : BlockRSA) (rnd : Nat → Nat) (pad : Int) (src : Bytes) : Out :=
  if !hasKey then .err else
  let maxBlock : Int := (R.k : Int) - pad
  if src.length = 0 then .ok []                 -- the loop is not entered
  else if maxBlock < 0 then .panic              -- `src[start:end]` with end < start
  else if maxBlock = 0 then                     -- encrypts the empty block for ever
    match R.enc (rnd 0) [] with
    | none => .err
    | some _ => .diverge
  else match encBlocks R rnd maxBlock.toNat 0 src with
    | some c => .ok c
    | none => .err

/-- body of the loop in `Decrypt` (`blockSize = k`) -/
def decBlocks (R : BlockRSA) (src : Bytes) : Option Bytes :=
  if _h : src.length = 0 ∨ R.k = 0 then some [] else
    match R.dec (src.take R.k) with
    | none => none
    | some p => (decBlocks R (src.drop R.k)).map (p ++ ·)
termination_by src.length
decreasing_by simp only [List.length_drop]; omega

/-- `RSAOAEP.Decrypt` / `PKCS1v15.Decrypt` -/
def decrypt (hasKey : Bool) (R : BlockRSA) (src : Bytes) : Out :=
  if !hasKey then .err else
  if src.length = 0 then .ok []
  else if R.k = 0 then .diverge
  else match decBlocks R src with
    | some p => .ok p
    | none => .err

/-- `⌈n / mb⌉` -/
def ceilDiv (n mb : Nat) : Nat := (n + mb - 1) / mb

/-! ### Lemmas -/

theorem ceilDiv_zero (mb : Nat) (h : 0 < mb) : ceilDiv 0 mb = 0 := by
  unfold ceilDiv
  exact Nat.div_eq_of_lt (by omega)

theorem ceilDiv_step (n mb : Nat) (hmb : 0 < mb) (hn : 0 < n) :
    ceilDiv n mb = ceilDiv (n - mb) mb + 1 := by
  unfold ceilDiv
  by_cases h : mb ≤ n
  · have : n + mb - 1 = (n - mb + mb - 1) + mb := by omega
    rw [this, Nat.add_div_right _ hmb]
  · have h1 : (n - mb + mb - 1) / mb = 0 := Nat.div_eq_of_lt (by omega)
    have h2 : (n + mb - 1) / mb = 1 := by
      apply Nat.div_eq_of_lt_le <;> omega
    omega

/-- exact multiples: `⌈(j·mb)/mb⌉ = j` -/
theorem ceilDiv_mul (j mb : Nat) (hmb : 0 < mb) : ceilDiv (j * mb) mb = j := by
  unfold ceilDiv
  apply Nat.div_eq_of_lt_le
  · omega
  · rw [Nat.add_mul]; omega

theorem encBlocks_spec (R : BlockRSA) (rnd : Nat → Nat) (mb : Nat) (hmb : 0 < mb)
    (hcap : (mb : Int) ≤ R.cap) (hk : 0 < R.k) (i : Nat) (src : Bytes) :
    ∃ c, encBlocks R rnd mb i src = some c ∧ c.length = ceilDiv src.length mb * R.k ∧
      decBlocks R c = some src := by
  induction h : src.length using Nat.strongRecOn generalizing src i with
  | _ n ih =>
    subst h
    by_cases h0 : src.length = 0
    · refine ⟨[], ?_, ?_, ?_⟩
      · rw [encBlocks]; simp [h0]
      · simp [h0, ceilDiv_zero mb hmb]
      · have : src = [] := List.eq_nil_of_length_eq_zero h0
        subst this; rw [decBlocks]; simp
    · have htake : ((src.take mb).length : Int) ≤ R.cap := by
        have : (src.take mb).length ≤ mb := by simp [List.length_take]; omega
        omega
      obtain ⟨c1, hc1⟩ := R.enc_some (rnd i) (src.take mb) htake
      have hlen1 := R.enc_len _ _ _ hc1
      have hdec1 := R.dec_enc _ _ _ hc1
      obtain ⟨c2, hc2, hlen2, hdec2⟩ := ih (src.drop mb).length (by simp [List.length_drop]; omega)
        (i + 1) (src.drop mb) rfl
      refine ⟨c1 ++ c2, ?_, ?_, ?_⟩
      · rw [encBlocks]
        have : ¬ (src.length = 0 ∨ mb = 0) := by omega
        simp only [this, dite_false, hc1, hc2, Option.map_some]
      · rw [List.length_append, hlen1, hlen2, List.length_drop,
          ceilDiv_step src.length mb hmb (by omega), Nat.add_mul]
        omega
      · rw [decBlocks]
        have hne : ¬ ((c1 ++ c2).length = 0 ∨ R.k = 0) := by
          rw [List.length_append]; omega
        have ht : (c1 ++ c2).take R.k = c1 := by
          rw [← hlen1]; exact List.take_left
        have hd : (c1 ++ c2).drop R.k = c2 := by
          rw [← hlen1]; exact List.drop_left
        simp only [hne, dite_false, ht, hd, hdec1, hdec2, Option.map_some, List.take_append_drop]

/-! ### A concrete instance (driver, non-vacuity): length-prefixed padding -/

/-- `[len/256, len%256] ++ p ++ filler`, refused when `p` is longer than `cap` -/
def toyEnc (k : Nat) (cap : Int) (r : Nat) (p : Bytes) : Option Bytes :=
  if (p.length : Int) ≤ cap then
    some (UInt8.ofNat (p.length / 256) :: UInt8.ofNat (p.length % 256) :: (p ++ List.replicate (k - 2 - p.length) (UInt8.ofNat r)))
  else none

def toyDec (k : Nat) (c : Bytes) : Option Bytes :=
  match c with
  | hi :: lo :: rest =>
    if c.length = k ∧ hi.toNat * 256 + lo.toNat ≤ rest.length then some (rest.take (hi.toNat * 256 + lo.toNat)) else none
  | _ => none

def toy (k : Nat) (cap : Int) (h : cap + 2 ≤ k) (hk : k < 65536) : BlockRSA where
  k := k
  cap := cap
  enc := toyEnc k cap
  dec := toyDec k
  enc_some := by
    intro r p hp
    simp [toyEnc, hp]
  enc_none := by
    intro r p hp
    have : ¬ ((p.length : Int) ≤ cap) := by omega
    simp [toyEnc, this]
  enc_len := by
    intro r p c hc
    unfold toyEnc at hc
    split at hc
    · cases hc
      simp only [List.length_cons, List.length_append, List.length_replicate]
      omega
    · cases hc
  dec_enc := by
    intro r p c hc
    unfold toyEnc at hc
    split at hc
    · rename_i hp
      cases hc
      have hl : p.length < 65536 := by omega
      have h1 : (UInt8.ofNat (p.length / 256)).toNat = p.length / 256 := by
        simp only [UInt8.toNat_ofNat']; omega
      have h2 : (UInt8.ofNat (p.length % 256)).toNat = p.length % 256 := by
        simp only [UInt8.toNat_ofNat']; omega
      have h3 : p.length / 256 * 256 + p.length % 256 = p.length := by omega
      simp only [toyDec, h1, h2, h3, List.length_cons, List.length_append, List.length_replicate,
        List.take_left]
      have : p.length + (k - 2 - p.length) + 1 + 1 = k ∧ p.length ≤ p.length + (k - 2 - p.length) := by omega
      simp [this]
    · cases hc

end Opcua.Asym
