/-
  Model of the Browse filter of the node namespace (C33).

    server/view_service.go     suitableRef, suitableDirection, suitableRefType, getSubRefs
    server/namespace_node.go   NodeNameSpace.Browse

  Node ids are abstract keys (`Nat`; 0 is the null id "no reference type
  given").  The HasSubtype forest is a finite table `Graph`: node ↦ its direct
  forward HasSubtype targets in the order of `node.refs` (generated from the
  live address space into `Gen/RefTypes.lean`).  The Go recursion `getSubRefs`
  has no bound; the model takes fuel, and `mem_getSubRefs` shows that any fuel
  above the rank of the start node yields exactly the transitive closure when
  the forest is acyclic (on a cyclic forest the Go code overflows the stack).
-/
namespace Opcua.Browse

abbrev Graph := List (Nat × List Nat)

/-- `node.refs` restricted to forward HasSubtype targets; unknown node: none -/
def subs (g : Graph) (t : Nat) : List Nat :=
  match g with
  | [] => []
  | (k, cs) :: r => if k = t then cs else subs r t

/-- `getSubRefs(srv, nid)`: pre-order walk, a child followed by its own subtypes -/
def getSubRefs (g : Graph) : Nat → Nat → List Nat
  | 0, _ => []
  | fuel + 1, t => (subs g t).flatMap (fun c => c :: getSubRefs g fuel c)

/-- specification side: `x` is a proper (transitive) subtype of `t` -/
inductive Sub (g : Graph) : Nat → Nat → Prop
  | direct {c t : Nat} : c ∈ subs g t → Sub g c t
  | step {x c t : Nat} : c ∈ subs g t → Sub g x c → Sub g x t

/-- acyclicity witnessed by a rank function -/
def RankOK (g : Graph) (rank : Nat → Nat) : Prop := ∀ t c, c ∈ subs g t → rank c < rank t

def Acyclic (g : Graph) : Prop := ∃ rank, RankOK g rank

/-- the DFS computes exactly the transitive closure (given enough fuel) -/
theorem mem_getSubRefs (g : Graph) (rank : Nat → Nat) (hr : RankOK g rank) :
    ∀ (fuel t x : Nat), rank t < fuel → (x ∈ getSubRefs g fuel t ↔ Sub g x t) := by
  intro fuel
  induction fuel with
  | zero => intro t x h; omega
  | succ fuel ih =>
    intro t x hlt
    simp only [getSubRefs, List.mem_flatMap, List.mem_cons]
    constructor
    · rintro ⟨c, hc, hx⟩
      have hcr : rank c < fuel := by have := hr t c hc; omega
      rcases hx with rfl | hx
      · exact .direct hc
      · exact .step hc ((ih c x hcr).1 hx)
    · intro hs
      cases hs with
      | direct hc => exact ⟨x, hc, Or.inl rfl⟩
      | step hc hxc =>
        rename_i c
        have hcr : rank c < fuel := by have := hr t c hc; omega
        exact ⟨c, hc, Or.inr ((ih c x hcr).2 hxc)⟩

/-- id.HasSubtype -/
def hasSubtype : Nat := 45
/-- id.HasTypeDefinition -/
def hasTypeDefinition : Nat := 40

/-- `suitableRefType(srv, ref1, ref2, subtypes)` (after the repair of
    C33.subtypes-match-when-excluded / C33.browse-panics-hassubtype-deletion):
    ```
    if ref1 is the null id { return true }
    if ref1.Equal(ref2) { return true }
    if !subtypes { return false }
    oktypes := getSubRefs(srv, ref1)
    return slices.ContainsFunc(oktypes, isRef2)
    ``` -/
def suitableRefType (g : Graph) (fuel : Nat) (t1 t2 : Nat) (subtypes : Bool) : Bool :=
  if t1 = 0 then true
  else if t1 = t2 then true
  else if !subtypes then false
  else (getSubRefs g fuel t1).contains t2

/-- one entry of `node.refs` as far as Browse looks at it -/
structure Ref where
  refType : Nat
  isForward : Bool
  target : Nat
  /-- `ReferenceDescription.NodeClass`, recorded when the reference was added -/
  storedClass : Nat
  /-- the NodeClass attribute of the target node now -/
  targetClass : Nat
  /-- the target is a node of this server's address space (`srv.Node(...) != nil`) -/
  targetExists : Bool
  /-- NodeID, BrowseName, DisplayName or TypeDefinition is nil: Browse skips it -/
  nilField : Bool
  deriving Repr, DecidableEq

structure Desc where
  /-- ua.BrowseDirection: 0 forward, 1 inverse, 2 both -/
  dir : Nat
  refType : Nat
  includeSubtypes : Bool
  classMask : Nat
  deriving Repr, DecidableEq

/-- the class the mask is applied to (after the repair of C33.nodeclass-mask-uses-stale-class):
    the class the target node has now; the class recorded in the reference only when the
    target is not in the address space -/
def Ref.cls (r : Ref) : Nat := if r.targetExists then r.targetClass else r.storedClass

def suitableDirection (bd : Nat) (isForward : Bool) : Bool :=
  bd = 2 || (bd = 0 && isForward) || (bd = 1 && !isForward)

/-- `suitableRef(srv, desc, ref)`: direction, then reference type, then class mask -/
def suitableRef (g : Graph) (fuel : Nat) (d : Desc) (r : Ref) : Bool :=
  if !suitableDirection d.dir r.isForward then false
  else if !suitableRefType g fuel d.refType r.refType d.includeSubtypes then false
  else if d.classMask > 0 && d.classMask &&& r.cls = 0 then false
  else true

/-- the loop of `NodeNameSpace.Browse` over `n.refs`; a forward HasTypeDefinition
    reference is put first, everything else is appended -/
def browseLoop (g : Graph) (fuel : Nat) (d : Desc) : List Ref → List Ref → List Ref
  | [], acc => acc
  | r :: rest, acc =>
    if r.nilField then browseLoop g fuel d rest acc
    else if suitableRef g fuel d r then
      (if r.refType = hasTypeDefinition ∧ r.isForward = true then browseLoop g fuel d rest (r :: acc)
       else browseLoop g fuel d rest (acc ++ [r]))
    else browseLoop g fuel d rest acc

def browse (g : Graph) (fuel : Nat) (d : Desc) (refs : List Ref) : List Ref := browseLoop g fuel d refs []

-- ---------------------------------------------------------------- specification

/-- Part 4, 5.8.2 as the property states it -/
def SpecMatch (g : Graph) (d : Desc) (r : Ref) : Prop :=
  suitableDirection d.dir r.isForward = true ∧
  (d.refType = 0 ∨ r.refType = d.refType ∨ (d.includeSubtypes = true ∧ Sub g r.refType d.refType)) ∧
  (d.classMask = 0 ∨ d.classMask &&& r.cls ≠ 0)

/-- the reference type clause as a Boolean (the closure computed with fuel) -/
def typeOkB (g : Graph) (fuel : Nat) (d : Desc) (t2 : Nat) : Bool :=
  d.refType = 0 || t2 = d.refType || (d.includeSubtypes && (getSubRefs g fuel d.refType).contains t2)

/-- the class mask clause, on the class of the target node -/
def classOkB (d : Desc) (cls : Nat) : Bool := d.classMask = 0 || d.classMask &&& cls ≠ 0

/-- the specification as a Boolean -/
def specMatchB (g : Graph) (fuel : Nat) (d : Desc) (r : Ref) : Bool :=
  suitableDirection d.dir r.isForward && typeOkB g fuel d r.refType && classOkB d r.cls

theorem specMatchB_iff (g : Graph) (rank : Nat → Nat) (hr : RankOK g rank) (fuel : Nat) (d : Desc)
    (hf : rank d.refType < fuel) (r : Ref) : specMatchB g fuel d r = true ↔ SpecMatch g d r := by
  simp only [specMatchB, typeOkB, classOkB, SpecMatch, Bool.and_eq_true, Bool.or_eq_true, decide_eq_true_eq,
    List.contains_iff_mem, mem_getSubRefs g rank hr fuel d.refType r.refType hf, or_assoc, ne_eq, and_assoc]

/-- the reference type test is the specification's, for every request -/
theorem suitableRefType_eq (g : Graph) (fuel : Nat) (d : Desc) (t2 : Nat) :
    suitableRefType g fuel d.refType t2 d.includeSubtypes = typeOkB g fuel d t2 := by
  unfold suitableRefType typeOkB
  by_cases h0 : d.refType = 0
  · simp [h0]
  · by_cases he : d.refType = t2
    · simp [he]
    · have he' : ¬ t2 = d.refType := fun e => he e.symm
      cases hs : d.includeSubtypes <;> simp [h0, he, he']

theorem suitableRef_eq (g : Graph) (fuel : Nat) (d : Desc) (r : Ref) :
    suitableRef g fuel d r = specMatchB g fuel d r := by
  unfold suitableRef specMatchB
  rw [suitableRefType_eq g fuel d r.refType]
  cases hd : suitableDirection d.dir r.isForward
  · simp
  · cases ht : typeOkB g fuel d r.refType
    · simp
    · unfold classOkB
      by_cases hm : d.classMask = 0
      · simp [hm]
      · have : d.classMask > 0 := by omega
        by_cases hb : d.classMask &&& r.cls = 0 <;> simp [hm, hb, this]

/-- the loop invariant: Browse returns a permutation of what it had plus the matching references -/
theorem browseLoop_perm (g : Graph) (fuel : Nat) (d : Desc) :
    ∀ (refs acc : List Ref), (∀ r ∈ refs, r.nilField = false) →
      (browseLoop g fuel d refs acc).Perm (acc ++ refs.filter (specMatchB g fuel d)) := by
  intro refs
  induction refs with
  | nil => intro acc _; simp [browseLoop]
  | cons r rest ih =>
    intro acc hall
    have hr := hall r (by simp)
    have hrest : ∀ x ∈ rest, x.nilField = false :=
      fun x hx => hall x (by simp [hx])
    unfold browseLoop
    simp only [hr, Bool.false_eq_true, ↓reduceIte]
    rw [suitableRef_eq g fuel d r]
    by_cases hm : specMatchB g fuel d r = true
    · simp only [hm, ↓reduceIte, List.filter_cons_of_pos]
      split
      · refine (ih (r :: acc) hrest).trans ?_
        simp only [List.cons_append]
        exact (List.perm_middle (a := r) (l₁ := acc) (l₂ := List.filter (specMatchB g fuel d) rest)).symm
      · simpa using ih (acc ++ [r]) hrest
    · have hm' : specMatchB g fuel d r = false := by simpa using hm
      simp only [hm', Bool.false_eq_true, ↓reduceIte]
      simpa [List.filter_cons, hm'] using ih acc hrest

-- ---------------------------------------------------------------- decidable acyclicity check

def lookupRank (tbl : List (Nat × Nat)) (k : Nat) : Nat :=
  match tbl with
  | [] => 0
  | (a, b) :: r => if a = k then b else lookupRank r k

/-- every edge of the table goes down in rank -/
def rankCheck (g : Graph) (tbl : List (Nat × Nat)) : Bool :=
  g.all fun e => e.2.all fun c => decide (lookupRank tbl c < lookupRank tbl e.1)

theorem subs_mem (g : Graph) (t c : Nat) (h : c ∈ subs g t) : ∃ cs, (t, cs) ∈ g ∧ c ∈ cs := by
  induction g with
  | nil => simp [subs] at h
  | cons e r ih =>
    obtain ⟨k, cs⟩ := e
    unfold subs at h
    by_cases hk : k = t
    · subst hk; simp only [↓reduceIte] at h; exact ⟨cs, by simp, h⟩
    · simp only [hk, ↓reduceIte] at h
      obtain ⟨cs', h1, h2⟩ := ih h
      exact ⟨cs', by simp [h1], h2⟩

theorem rankOK_of_check (g : Graph) (tbl : List (Nat × Nat)) (h : rankCheck g tbl = true) :
    RankOK g (lookupRank tbl) := by
  intro t c hc
  obtain ⟨cs, h1, h2⟩ := subs_mem g t c hc
  simp only [rankCheck, List.all_eq_true, decide_eq_true_eq] at h
  exact h (t, cs) h1 c h2

end Opcua.Browse
