import OpcuaModel.Gen.RenewExpr
/-
  C16 — (a) the delay of `scheduleRenewal`, (c) re-keying of the one instance
  object of a server channel while other goroutines send.
-/
namespace Opcua.SendRenew

/-- `when` of `scheduleRenewal` in nanoseconds for a revised lifetime of `L`
    milliseconds, from the shape the generator matched:
    `time.Duration(float64(lifetime)*renewAfter)` (truncation unit 1 ns; for
    lifetimes below 2^32 ms the float64 product of an integer below 2^53 and
    0.75 is exact) or, before the repair,
    `unit * time.Duration(lifetime.Seconds()*renewAfter)` (truncated to whole `unit`s). -/
def renewDelayNs (L : Nat) : Nat :=
  (L * 1000000 * Gen.RenewExpr.fracNum / (Gen.RenewExpr.fracDen * Gen.RenewExpr.truncUnitNs)) * Gen.RenewExpr.truncUnitNs

/-- the renewal is due no earlier than half of the lifetime and before it ends -/
def InWindow (L : Nat) : Prop := L * 1000000 ≤ 2 * renewDelayNs L ∧ renewDelayNs L < L * 1000000

instance (L : Nat) : Decidable (InWindow L) := by unfold InWindow; exact inferInstance

/-! ### (c) server side: `handleOpenSecureChannelRequest` re-keys the same instance -/

inductive Algo where
  | sym (k : Nat)
  | asym
  deriving DecidableEq, Repr

inductive RecvPC where
  | idle        -- in `Receive`, no OPN in progress
  | gotOPN      -- `readChunk` saw an OPN chunk: `s.openingInstance.algo = asymmetric` (no lock)
  | handling    -- `handleOpenSecureChannelRequest`: `instance.algo = algo` (asymmetric, no lock)
  | respLocked  -- `sendResponseWithContext`: instance lock held
  | respWritten
  | respDone    -- response sent, lock released; next: `instance.algo = Symmetric(new nonces)` (no lock)
  deriving DecidableEq, Repr

inductive SendPC where
  | idle | locked | secured | done
  deriving DecidableEq, Repr

structure RSt where
  algo : Algo
  gen : Nat
  holder : Option Nat          -- 0 = receiver, t + 1 = sender t
  rpc : RecvPC
  spc : Nat → SendPC
  /-- (is OPN response, algorithm that secured the chunk), newest first -/
  wire : List (Bool × Algo)

def rinit : RSt := { algo := .sym 0, gen := 0, holder := none, rpc := .idle, spc := fun _ => .idle, wire := [] }

inductive RLabel where
  | readOPN | handleAsym | respLock | respWrite | respUnlock | installSym
  | sLock (t : Nat) | sSecure (t : Nat) | sUnlock (t : Nat)
  deriving DecidableEq, Repr

def updS (f : Nat → SendPC) (k : Nat) (v : SendPC) : Nat → SendPC := fun j => if j = k then v else f j

def rstep? (s : RSt) : RLabel → Option RSt
  | .readOPN => if s.rpc = .idle then some { s with rpc := .gotOPN, algo := .asym } else none
  | .handleAsym => if s.rpc = .gotOPN then some { s with rpc := .handling, algo := .asym } else none
  | .respLock => if s.rpc = .handling ∧ s.holder = none then some { s with rpc := .respLocked, holder := some 0 } else none
  | .respWrite => if s.rpc = .respLocked then some { s with rpc := .respWritten, wire := (true, s.algo) :: s.wire } else none
  | .respUnlock => if s.rpc = .respWritten then some { s with rpc := .respDone, holder := none } else none
  | .installSym => if s.rpc = .respDone then some { s with rpc := .idle, algo := .sym (s.gen + 1), gen := s.gen + 1 } else none
  | .sLock t => if s.spc t = .idle ∧ s.holder = none then some { s with spc := updS s.spc t .locked, holder := some (t + 1) } else none
  | .sSecure t => if s.spc t = .locked then some { s with spc := updS s.spc t .secured, wire := (false, s.algo) :: s.wire } else none
  | .sUnlock t => if s.spc t = .secured then some { s with spc := updS s.spc t .done, holder := none } else none

def rrun? (s : RSt) : List RLabel → Option RSt
  | [] => some s
  | l :: ls => match rstep? s l with
    | some s' => rrun? s' ls
    | none => none

inductive RReachable : RSt → Prop where
  | init : RReachable rinit
  | step {s s' : RSt} (l : RLabel) : RReachable s → rstep? s l = some s' → RReachable s'

/-- guard: a response sender secures its chunk only while no OPN request is being processed -/
def RGuard (s : RSt) : RLabel → Prop
  | .sSecure _ => s.rpc = .idle
  | _ => True

instance (s : RSt) (l : RLabel) : Decidable (RGuard s l) := by
  cases l <;> simp only [RGuard] <;> exact inferInstance

inductive RReachableG : RSt → Prop where
  | init : RReachableG rinit
  | step {s s' : RSt} (l : RLabel) : RReachableG s → RGuard s l → rstep? s l = some s' → RReachableG s'

/-- every MSG chunk on the wire is secured with a symmetric algorithm -/
def AllMsgSym (w : List (Bool × Algo)) : Prop := ∀ c ∈ w, c.1 = false → ∃ k, c.2 = .sym k

theorem rguard_inv {s : RSt} (h : RReachableG s) : (s.rpc = .idle → ∃ k, s.algo = .sym k) ∧ AllMsgSym s.wire := by
  induction h with
  | init => simp [rinit, AllMsgSym]
  | step l _ hg hs ih =>
    obtain ⟨i1, i2⟩ := ih
    cases l <;> simp only [rstep?] at hs <;> split at hs <;> simp at hs <;> subst hs <;> simp_all [AllMsgSym, RGuard]

end Opcua.SendRenew
