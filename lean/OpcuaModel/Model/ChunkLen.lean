import OpcuaModel.Model.ChunkMsg
import OpcuaModel.Model.SecureLen
import OpcuaModel.Gen.Policies
import OpcuaModel.Base.Tactics
/-
  Agreement of the byte-level chunk model with the length-only model
  `secureLen` of C38 on every row of the generated policy table.
-/
namespace Opcua.Chunk
open Opcua

theorem rows_cases {a : AlgoParams} (h : a ∈ Gen.symmetricRows) :
    a = Gen.symAes128_Sha256_RsaOaep ∨ a = Gen.symAes256_Sha256_RsaPss ∨ a = Gen.symBasic128Rsa15 ∨
    a = Gen.symBasic256 ∨ a = Gen.symBasic256Sha256 ∨ a = Gen.symNone := by
  simpa [Gen.symmetricRows] using h

/-- the byte model and the length-only model `secureLen` (C38) agree on the
    length of a secured symmetric chunk, for every row, mode and body size -/
theorem chunkLen_eq_secureLen (a : AlgoParams) (ha : a ∈ Gen.symmetricRows) (m : Mode) (pn : Bool)
    (c : Crypto) (n : Nat) :
    ((chunkLen ⟨m, pn, a, c⟩ (8 + n) : Nat) : Int) = (secureLen a m (rawLenOfBody n)).chunkLen := by
  rcases rows_cases ha with rfl | rfl | rfl | rfl | rfl | rfl <;>
    cases m <;>
    simp [chunkLen, tailLen, Side.encrypts, plainLen, paddingLength, paddingBytes, secureLen, rawLenOfBody,
      symHeaderLength, Gen.symAes128_Sha256_RsaOaep, Gen.symAes256_Sha256_RsaPss,
      Gen.symBasic128Rsa15, Gen.symBasic256, Gen.symBasic256Sha256, Gen.symNone] <;>
    go_divmod <;> (try split) <;> go_divmod <;> omega
end Opcua.Chunk
