import OpcuaModel.Base.Tactics
import OpcuaModel.Model.SecureLen
import OpcuaModel.Gen.MaxBody
import OpcuaModel.Gen.Policies
import OpcuaModel.Gen.UacpDefaults
/-
  Model of how gopcua negotiates and then uses the UA-TCP transport limits
  (C06): `Conn.Handshake` / `Conn.srvhandshake` (uacp/conn.go), the chunk size
  chosen by `SetMaximumBodySize(int(s.c.SendBufSize()))`, `Message.EncodeChunks`
  (uasc/message.go), the send paths `sendAsyncWithTimeout` /
  `writeMessageChunks` and the receive-side checks in `Conn.Receive` and
  `SecureChannel.Receive` (uasc/secure_channel.go).  Code as it is, defects
  included (the zero-limit defect of the receive path was repaired, see findings.d/C06.txt); the specification's reading of the same numbers is in the section
  "specification side" below.
-/
namespace Opcua.Limits
open Opcua

/-- the four limits of a Hello / Acknowledge (`uacp.Acknowledge`), uint32 each -/
structure Ack where
  rcv : Nat
  snd : Nat
  maxMsg : Nat
  maxChunks : Nat
  deriving DecidableEq, Repr

/-- smallest buffer size the protocol allows (`minBufSize` in uacp/conn.go, Part 6 §7.1.2.3/4) -/
def minBufSize : Nat := 8192

/-- `Conn.Handshake`, case "ACKF", first check: an Acknowledge whose receive or send buffer is below
    the protocol minimum is refused (ERR sent, error returned, the connection is not used) -/
def handshakeAccepts (ack : Ack) : Bool := decide (minBufSize ≤ ack.rcv ∧ minBufSize ≤ ack.snd)

/-- `Conn.Handshake`, case "ACKF": the decoded Acknowledge becomes `c.ack`, with its
    ReceiveBufSize bounded by the receive buffer of the client's own Hello when that is non-zero
    (what `Receive` allocates per frame) and zero MaxChunkCount / MaxMessageSize replaced by the
    package defaults -/
def clientAdopt (hello ack : Ack) : Ack :=
  { ack with
    rcv := if hello.rcv ≠ 0 ∧ ack.rcv > hello.rcv then hello.rcv else ack.rcv
    maxChunks := if ack.maxChunks = 0 then Gen.defaultMaxChunkCount else ack.maxChunks
    maxMsg := if ack.maxMsg = 0 then Gen.defaultMaxMessageSize else ack.maxMsg }

/-- the `ack` each `uacp.Conn` works with after the HEL/ACK exchange -/
structure Views where
  client : Ack
  server : Ack
  deriving DecidableEq, Repr

/-- client configured with `hello` (`Dialer.ClientACK`), server with `ack`
    (`uacp.Listen(…, ack)`).  The client replaces its values by the server's
    Acknowledge (only its receive buffer is bounded by its own Hello); `srvhandshake`
    decodes the Hello and uses none of its limit fields, the server keeps `l.ack`. -/
def negotiate (hello : Ack) (ack : Ack) : Views :=
  { client := clientAdopt hello ack, server := ack }

/-! ### sending -/

/-- `instance.SetMaximumBodySize(int(s.c.SendBufSize()))`, then `maxBodySize` as uint32 -/
def maxBodyOf (a : AlgoParams) (v : Ack) : Nat := (Gen.setMaximumBodySize a (v.snd : Int)).toNat

/-- `Message.EncodeChunks(maxBodySize)`: body bytes per chunk for a message body
    of `n` bytes: `n / maxBody` full intermediate chunks and one final chunk with
    the rest (possibly empty) -/
def chunkBodies (maxBody n : Nat) : List Nat :=
  let mb := if maxBody = 0 then 4096 else maxBody
  List.replicate (n / mb) mb ++ [n % mb]

/-- bytes on the wire of the chunk carrying `body` bytes (`signAndEncrypt`, Model/SecureLen) -/
def wireLen (a : AlgoParams) (m : Mode) (body : Nat) : Int :=
  (secureLen a m (rawLenOfBody (body : Int))).chunkLen

/-- the chunks one side with connection limits `v` writes for a message body of `n` bytes -/
def wireChunks (a : AlgoParams) (m : Mode) (v : Ack) (n : Nat) : List Int :=
  (chunkBodies (maxBodyOf a v) n).map (wireLen a m)

inductive SendResult where
  | sent (wire : List Int)
  | refused
  deriving DecidableEq, Repr

/-- `sendAsyncWithTimeout` (client) and `writeMessageChunks` (server): encode, then
    write every chunk.  Neither consults MaxMessageSize / MaxChunkCount (the TODO in
    `writeMessageChunks`), and `Conn.Send`'s size check is not on this path
    (`s.c.Write`), so nothing is ever refused. -/
def send (a : AlgoParams) (m : Mode) (v : Ack) (n : Nat) : SendResult :=
  .sent (wireChunks a m v n)

/-! ### receiving -/

inductive Verdict where
  | ok
  /-- `Conn.Receive`: "uacp: message too large" (surfaces as io.EOF from `readChunk`) -/
  | chunkTooLarge
  /-- `SecureChannel.Receive`: "too many chunks: n > MaxChunkCount" -/
  | tooManyChunks
  /-- `SecureChannel.Receive`: "message too large: len > MaxMessageSize" -/
  | messageTooLarge
  deriving DecidableEq, Repr

/-- the receive loop over the chunks `(wire length, body length)` of one message,
    the last one final; `held` intermediate chunks stored so far, `sum` their body bytes.
    Chunk size against `ReceiveBufSize` first (`Conn.Receive`), then for an
    intermediate chunk `MaxChunkCount != 0 && len(s.chunks[reqID]) > MaxChunkCount` after
    appending, for the final chunk `MaxMessageSize != 0 && len(merged) > MaxMessageSize`
    (0 = no limit, Part 6 §7.1.2.3/4).  The final chunk is not counted. -/
def recvLoop (v : Ack) : List (Int × Nat) → Nat → Nat → Verdict
  | [], _, _ => .ok
  | [(w, b)], _, sum =>
    if w > (v.rcv : Int) then .chunkTooLarge
    else if v.maxMsg ≠ 0 ∧ sum + b > v.maxMsg then .messageTooLarge
    else .ok
  | (w, _b) :: rest, held, sum =>
    if w > (v.rcv : Int) then .chunkTooLarge
    else if v.maxChunks ≠ 0 ∧ held + 1 > v.maxChunks then .tooManyChunks
    else recvLoop v rest (held + 1) (sum + _b)

/-- a side with connection limits `v` receives a message cut into `bodies` -/
def receive (a : AlgoParams) (m : Mode) (v : Ack) (bodies : List Nat) : Verdict :=
  recvLoop v (bodies.map fun b => (wireLen a m b, b)) 0 0

/-- one message of `n` body bytes from a side with limits `sv` to a side with limits `rv` -/
def transfer (a : AlgoParams) (m : Mode) (sv rv : Ack) (n : Nat) : List Int × Verdict :=
  (wireChunks a m sv n, receive a m rv (chunkBodies (maxBodyOf a sv) n))

/-! ### OpenSecureChannel under the None policy (what the correspondence run opens) -/

/-- body bytes of the OpenSecureChannel request / response gopcua writes under policy None -/
def opnRequestBody : Nat := 53
def opnResponseBody : Nat := 56
/-- message header, asymmetric security header of policy None (URI, no certificate, no thumbprint), sequence header -/
def opnHeaders : Nat := 12 + 59 + 8

inductive OpenResult where
  | ok
  | refusedByServer (v : Verdict) (wire body : Nat)
  | refusedByClient (v : Verdict) (wire body : Nat)
  deriving DecidableEq, Repr

/-- the OPN request is a one-chunk message for the server's receive loop, the response one for the client's -/
def openChannel (vs : Views) : OpenResult :=
  match recvLoop vs.server [((opnHeaders + opnRequestBody : Nat), opnRequestBody)] 0 0 with
  | .ok =>
    match recvLoop vs.client [((opnHeaders + opnResponseBody : Nat), opnResponseBody)] 0 0 with
    | .ok => .ok
    | v => .refusedByClient v (opnHeaders + opnResponseBody) opnResponseBody
  | v => .refusedByServer v (opnHeaders + opnRequestBody) opnRequestBody

/-! ### specification side (OPC UA Part 6 §7.1.2.3/4) -/

inductive Side where
  | client | server
  deriving DecidableEq, Repr

def Side.peer : Side → Side
  | .client => .server
  | .server => .client

/-- what a side advertised: the client its Hello, the server its Acknowledge -/
def advertised (hello ack : Ack) : Side → Ack
  | .client => hello
  | .server => ack

/-- the limits a side's `uacp.Conn` ends up with -/
def viewOf (hello ack : Ack) : Side → Ack
  | .client => (negotiate hello ack).client
  | .server => (negotiate hello ack).server

/-- the largest chunk a sender may put on the wire: not more than it announced to
    send, not more than the receiver announced to take -/
def maySend (advSender advReceiver : Ack) : Nat := min advSender.snd advReceiver.rcv

/-- the message is over a limit the receiver advertised (0 = no limit) -/
def exceeds (adv : Ack) (n chunks : Nat) : Prop :=
  (adv.maxMsg ≠ 0 ∧ n > adv.maxMsg) ∨ (adv.maxChunks ≠ 0 ∧ chunks > adv.maxChunks)

instance (adv : Ack) (n chunks : Nat) : Decidable (exceeds adv n chunks) := by
  unfold exceeds; infer_instance

/-- number of chunks the sender cuts the message into -/
def chunkCount (a : AlgoParams) (v : Ack) (n : Nat) : Nat := (chunkBodies (maxBodyOf a v) n).length

/-- C06 for one message of `n` body bytes sent by `sender`, clause by clause -/
structure Honoured (hello ack : Ack) (a : AlgoParams) (m : Mode) (sender : Side) (n : Nat) : Prop where
  /-- (1) no chunk larger than the receive buffer the other side advertised -/
  chunkFits : ∀ w ∈ wireChunks a m (viewOf hello ack sender) n, w ≤ ((advertised hello ack sender.peer).rcv : Int)
  /-- (2) the receiver's chunk-size check passes for every size the sender may use -/
  accepts : ∀ w : Nat, w ≤ maySend (advertised hello ack sender) (advertised hello ack sender.peer) →
      w ≤ (viewOf hello ack sender.peer).rcv
  /-- (3) a message over the receiver's advertised limits is refused by the sender -/
  refuses : exceeds (advertised hello ack sender.peer) n (chunkCount a (viewOf hello ack sender) n) →
      send a m (viewOf hello ack sender) n = .refused

/-- (2', limits read as the specification does) a message that stays within what the
    receiver advertised, in chunks the sender may use, is accepted -/
def LegalAccepted (hello ack : Ack) (a : AlgoParams) (m : Mode) (sender : Side) (n : Nat) : Prop :=
  (∀ w ∈ wireChunks a m (viewOf hello ack sender) n,
      w ≤ (maySend (advertised hello ack sender) (advertised hello ack sender.peer) : Int)) →
  ¬ exceeds (advertised hello ack sender.peer) n (chunkCount a (viewOf hello ack sender) n) →
  receive a m (viewOf hello ack sender.peer) (chunkBodies (maxBodyOf a (viewOf hello ack sender)) n) = .ok

/-- the domain of the property: buffers from the protocol minimum up, uint32 -/
def inDomain (x : Ack) : Prop := 8192 ≤ x.rcv ∧ x.rcv < 4294967296 ∧ 8192 ≤ x.snd ∧ x.snd < 4294967296

instance (x : Ack) : Decidable (inDomain x) := by unfold inDomain; infer_instance

/-- `uacp.DefaultClientACK` / `uacp.DefaultServerACK`, regenerated -/
def defaultClientAck : Ack :=
  ⟨Gen.clientACKReceiveBufSize, Gen.clientACKSendBufSize, Gen.clientACKMaxMessageSize, Gen.clientACKMaxChunkCount⟩
def defaultServerAck : Ack :=
  ⟨Gen.serverACKReceiveBufSize, Gen.serverACKSendBufSize, Gen.serverACKMaxMessageSize, Gen.serverACKMaxChunkCount⟩

/-! ### lemmas -/

@[simp] theorem clientAdopt_snd (hello ack : Ack) : (clientAdopt hello ack).snd = ack.snd := rfl
theorem clientAdopt_maxMsg (hello ack : Ack) :
    (clientAdopt hello ack).maxMsg = if ack.maxMsg = 0 then Gen.defaultMaxMessageSize else ack.maxMsg := rfl
theorem clientAdopt_maxChunks (hello ack : Ack) :
    (clientAdopt hello ack).maxChunks = if ack.maxChunks = 0 then Gen.defaultMaxChunkCount else ack.maxChunks := rfl
/-- the client's receive limit: its own Hello value when that is non-zero and smaller, else the Acknowledge's -/
theorem clientAdopt_rcv (hello ack : Ack) :
    ((clientAdopt hello ack).rcv = hello.rcv ∧ hello.rcv ≠ 0 ∧ hello.rcv < ack.rcv) ∨
    ((clientAdopt hello ack).rcv = ack.rcv ∧ (hello.rcv = 0 ∨ ack.rcv ≤ hello.rcv)) := by
  unfold clientAdopt
  by_cases h : hello.rcv ≠ 0 ∧ ack.rcv > hello.rcv
  · left; simp [h]
  · right; simp [h]; omega

theorem mem_chunkBodies {mb n b : Nat} (h : b ∈ chunkBodies mb n) (hmb : 0 < mb) : b ≤ mb := by
  unfold chunkBodies at h
  have hne : ¬ mb = 0 := by omega
  simp only [hne, if_false, List.mem_append, List.mem_replicate, List.mem_singleton] at h
  rcases h with ⟨_, rfl⟩ | rfl
  · exact Nat.le_refl _
  · exact Nat.le_of_lt (Nat.mod_lt _ hmb)

/-- None policy: `SetMaximumBodySize(snd)` is `snd - 25` -/
theorem maxBodyOf_none (v : Ack) (h : 25 ≤ v.snd) (h2 : v.snd < 4294967296) :
    maxBodyOf Gen.symNone v = v.snd - 25 := by
  unfold maxBodyOf
  simp only [Gen.setMaximumBodySize, Gen.symNone]
  have h0 : (0 : Int) ≤ (v.snd : Int) - 12 - 4 := by omega
  go_divmod
  simp
  omega

/-- None policy: a chunk is its body plus 24 header bytes -/
theorem wireLen_none (b : Nat) : wireLen Gen.symNone .none b = (b : Int) + 24 := by
  simp [wireLen, secureLen, rawLenOfBody]; omega

/-- side condition on a symmetric parameter row under which the length arithmetic is
    proved (decidable; every row of the regenerated table satisfies it, `rows_ok`) -/
def RowOk (a : AlgoParams) : Prop :=
  (a.blockSize = 16 ∨ a.blockSize = 1) ∧ a.plaintextBlockSize = a.blockSize ∧
  0 ≤ a.signatureLength ∧ a.signatureLength ≤ 1024 ∧ a.remoteSignatureLength ≤ 256

instance (a : AlgoParams) : Decidable (RowOk a) := by unfold RowOk; infer_instance

theorem rows_ok : ∀ a ∈ Gen.symmetricRows, RowOk a := by decide

/-- `SetMaximumBodySize(cs)` is positive and below `cs` -/
theorem maxBody_range (a : AlgoParams) (ha : RowOk a) (cs : Int) (h : 8192 ≤ cs) (hcs : cs < 4294967296) :
    0 < Gen.setMaximumBodySize a cs ∧ Gen.setMaximumBodySize a cs < cs := by
  obtain ⟨hb, hp, hs0, hs1, hr⟩ := ha
  have hr' : ¬ (a.remoteSignatureLength > 256) := by omega
  rcases hb with hb | hb <;>
    simp only [Gen.setMaximumBodySize, hp, hb, hr', decide_false] <;>
    go_divmod <;> simp <;> omega

/-- a chunk whose body is at most `SetMaximumBodySize(cs)` occupies at most `cs` bytes
    on the wire, in every mode (the statement of C38, re-proved here so that C06 does
    not depend on another property's file) -/
theorem secured_fits (a : AlgoParams) (ha : RowOk a) (m : Mode) (cs : Int) (h : 8192 ≤ cs)
    (hcs : cs < 4294967296) (n : Int) (hn0 : 0 ≤ n) (hn : n ≤ Gen.setMaximumBodySize a cs) :
    (secureLen a m (rawLenOfBody n)).chunkLen ≤ cs := by
  obtain ⟨hb, hp, hs0, hs1, hr⟩ := ha
  have hr' : ¬ (a.remoteSignatureLength > 256) := by omega
  revert hn
  rcases hb with hb | hb <;>
    simp only [Gen.setMaximumBodySize, hp, hb, hr', decide_false] <;>
    go_divmod <;>
    cases m <;> simp [secureLen, rawLenOfBody, symHeaderLength, hp, hb, hr'] <;> intro hn <;>
    go_divmod <;> (try split) <;> go_divmod <;> omega

theorem sum_replicate (k x : Nat) : (List.replicate k x).sum = k * x := by
  induction k with
  | zero => simp
  | succ k ih => simp [List.replicate, ih, Nat.succ_mul]; omega

/-- `EncodeChunks` loses no byte -/
theorem chunkBodies_sum (mb n : Nat) : (chunkBodies mb n).sum = n := by
  simp only [chunkBodies, List.sum_append, sum_replicate, List.sum_cons, List.sum_nil]
  have := Nat.div_add_mod n (if mb = 0 then 4096 else mb)
  rw [Nat.mul_comm] at this
  omega

/-- receive loop invariant: every chunk passes the size check and the non-zero limits leave room:
    `held` + all chunks but the final one ≤ MaxChunkCount, body bytes ≤ MaxMessageSize -/
theorem recvLoop_ok (a : AlgoParams) (m : Mode) (rv : Ack) (bodies : List Nat) (held sum : Nat)
    (hfit : ∀ b ∈ bodies, wireLen a m b ≤ (rv.rcv : Int))
    (hcnt : rv.maxChunks ≠ 0 → held + bodies.length ≤ rv.maxChunks + 1)
    (hsum : rv.maxMsg ≠ 0 → sum + bodies.sum ≤ rv.maxMsg) :
    recvLoop rv (bodies.map fun b => (wireLen a m b, b)) held sum = .ok := by
  induction bodies generalizing held sum with
  | nil => simp [recvLoop]
  | cons b rest ih =>
    have hb := hfit b (by simp)
    cases rest with
    | nil =>
      simp only [List.map, recvLoop]
      simp only [List.sum_cons, List.sum_nil] at hsum
      have h1 : ¬ wireLen a m b > (rv.rcv : Int) := by omega
      have h2 : ¬ (rv.maxMsg ≠ 0 ∧ sum + b > rv.maxMsg) := by
        intro ⟨h0, hgt⟩; have := hsum h0; omega
      simp [h1, h2]
    | cons c rest' =>
      simp only [List.map, recvLoop]
      simp only [List.length_cons] at hcnt
      simp only [List.sum_cons] at hsum
      have h1 : ¬ wireLen a m b > (rv.rcv : Int) := by omega
      have h2 : ¬ (rv.maxChunks ≠ 0 ∧ held + 1 > rv.maxChunks) := by
        intro ⟨h0, hgt⟩; have := hcnt h0; omega
      simp only [h1, h2, if_false]
      have := ih (held + 1) (sum + b) (fun x hx => hfit x (by simp [hx]))
        (fun h0 => by have := hcnt h0; simp only [List.length_cons]; omega)
        (fun h0 => by have := hsum h0; simp only [List.sum_cons]; omega)
      simpa [List.map] using this

/-- … and one chunk more than that is refused: with all chunks fitting the buffer, a non-zero
    MaxChunkCount and `held` + (chunks − 1) above it, the loop answers "too many chunks" -/
theorem recvLoop_tooMany (a : AlgoParams) (m : Mode) (rv : Ack) (bodies : List Nat) (held sum : Nat)
    (hfit : ∀ b ∈ bodies, wireLen a m b ≤ (rv.rcv : Int))
    (h0 : rv.maxChunks ≠ 0) (hheld : held ≤ rv.maxChunks) (hcnt : held + bodies.length > rv.maxChunks + 1) :
    recvLoop rv (bodies.map fun b => (wireLen a m b, b)) held sum = .tooManyChunks := by
  induction bodies generalizing held sum with
  | nil => simp at hcnt; omega
  | cons b rest ih =>
    have hb := hfit b (by simp)
    have h1 : ¬ wireLen a m b > (rv.rcv : Int) := by omega
    cases rest with
    | nil => simp at hcnt; omega
    | cons c rest' =>
      simp only [List.map, recvLoop, h1, if_false]
      by_cases h2 : held + 1 > rv.maxChunks
      · simp [h0, h2]
      · have h2' : ¬ (rv.maxChunks ≠ 0 ∧ held + 1 > rv.maxChunks) := fun h => h2 h.2
        simp only [h2', if_false]
        have := ih (held + 1) (sum + b) (fun x hx => hfit x (by simp [hx])) (by omega)
          (by simp only [List.length_cons] at hcnt ⊢; omega)
        simpa [List.map] using this

/-- one observed handshake (hello 4, ack 4, client Conn 4, server Conn 4) is what `negotiate` computes -/
def rowAgrees : List Nat → Bool
  | [h1, h2, h3, h4, a1, a2, a3, a4, c1, c2, c3, c4, s1, s2, s3, s4] =>
    decide (negotiate ⟨h1, h2, h3, h4⟩ ⟨a1, a2, a3, a4⟩ = ⟨⟨c1, c2, c3, c4⟩, ⟨s1, s2, s3, s4⟩⟩)
  | _ => false

end Opcua.Limits
