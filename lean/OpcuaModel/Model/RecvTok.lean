import OpcuaModel.Model.Recv
import OpcuaModel.Model.Tokens
/-
  The receive path of a secured CLIENT channel across token renewals: the
  instance table of `Model/Tokens.lean` in front of the loop body of `Receive`
  (`Model/Recv.lean`).  A frame is (channel id in the header, identity of the
  keys it was secured with, the chunk it opens to); `readChunk` accepts it iff
  `verifyAndDecrypt` finds an instance of that channel id with these keys —
  and decodes the sequence header without comparing it.  Between frames the
  table changes by OpenSecureChannel responses and expiry timers (`Tokens.Ev`).
-/
namespace Opcua.RecvTok
open Opcua Opcua.Recv Opcua.Tokens

structure SFrame where
  chan : Nat
  key : Nat
  chunk : Chunk
  deriving Repr, DecidableEq

inductive In where
  | frame (f : SFrame)
  /-- OPN response handled / expiry timer fired -/
  | table (e : Ev)
  deriving Repr, DecidableEq

structure St where
  table : Table
  bufs : Bufs
  deriving Repr, DecidableEq

/-- one input: `none` = no result for the caller of `Receive` (table event, or
    the frame was rejected by `readChunk`: that error is what `Receive` returns,
    modelled as `none` delivered) -/
def step (cfg : Cfg) (st : St) : In → St × Option Out
  | .table e => ({ st with table := (stepEv st.table e).1 }, none)
  | .frame f =>
    match verify st.table f.chan f.key with
    | .accepted _ => ({ st with bufs := (Recv.step cfg st.bufs f.chunk).1 }, some (Recv.step cfg st.bufs f.chunk).2)
    | _ => (st, none)

def run (cfg : Cfg) : St → List In → List (Option Out)
  | _, [] => []
  | st, i :: r => (step cfg st i).2 :: run cfg (step cfg st i).1 r

def final (cfg : Cfg) : St → List In → St
  | st, [] => st
  | st, i :: r => final cfg (step cfg st i).1 r

def deliveredTok (outs : List (Option Out)) : List (Nat × Bytes) := delivered (outs.filterMap id)

theorem run_append (cfg : Cfg) (st : St) (a b : List In) :
    run cfg st (a ++ b) = run cfg st a ++ run cfg (final cfg st a) b := by
  induction a generalizing st with
  | nil => rfl
  | cons i t ih => simp [run, final, ih]

/-- table events leave the chunk buffers alone and act on the table as `runEvs` -/
theorem final_table_events (cfg : Cfg) (st : St) (evs : List Ev) :
    final cfg st (evs.map In.table) = { table := runEvs st.table evs, bufs := st.bufs } := by
  induction evs generalizing st with
  | nil => rfl
  | cons e t ih => simp [final, step, ih, runEvs]

theorem run_table_events (cfg : Cfg) (st : St) (evs : List Ev) :
    (run cfg st (evs.map In.table)).filterMap id = [] := by
  induction evs generalizing st with
  | nil => rfl
  | cons e t ih => simp [run, step, ih]

end Opcua.RecvTok
