import OpcuaModel.Model.CodecRT
/-
  Round-trip lemmas for DataValue, Variant (scalars, nil arrays, one-dimensional
  arrays, dimension lists) and ExtensionObject, with the recursive coder as a
  parameter.
-/
namespace Opcua.Codec
open Opcua

/-- hypothesis on the recursive coder: it round-trips every well-typed value -/
def RecOk (encT : Ty → Val → Enc) (decT : Ty → Dec Val) (wtT : Ty → Val → Bool) (normT : Ty → Val → Val) : Prop :=
  ∀ t v, wtT t v = true → RTv (encT t v) (decT t) (normT t v)

/-! ### DataValue -/

theorem rt_optVal {encV : Enc} {decV : Dec Val} {nv dflt : Val} (c : Bool) (h : c = true → RTv encV decV nv) :
    ∃ bs, optEnc c encV = .ok bs ∧ Reads (optDec c decV dflt) bs (if c then nv else dflt) := by
  unfold optEnc optDec
  cases c with
  | true =>
    obtain ⟨bs, hb, r⟩ := h rfl
    exact ⟨bs, by simpa using hb, by simpa using r⟩
  | false => exact ⟨[], rfl, by simpa using Reads.ret dflt⟩

theorem rt_dataValue {encV : Val → Enc} {decV : Dec Val} {normV : Val → Val}
    (mask : Nat) (value : Val) (status : Nat) (srcTs : Option Int) (srcPs : Nat) (srvTs : Option Int) (srvPs : Nat)
    (hr : mask < 256 ∧ status < 4294967296 ∧ srcPs < 65536 ∧ srvPs < 65536) (ht1 : wtTime srcTs = true) (ht2 : wtTime srvTs = true)
    (hz : (has mask 0x2 = true ∨ status = 0) ∧ (has mask 0x4 = true ∨ srcTs = none) ∧ (has mask 0x10 = true ∨ srcPs = 0)
        ∧ (has mask 0x8 = true ∨ srvTs = none) ∧ (has mask 0x20 = true ∨ srvPs = 0))
    (hv : has mask 0x1 = true → RTv (encV value) decV (normV value)) :
    RTv (encDataValue encV mask value status srcTs srcPs srvTs srvPs) (decDataValue decV)
      (.dataValue mask (if has mask 0x1 then normV value else zeroVariant) status (normTime srcTs) srcPs (normTime srvTs) srvPs) := by
  obtain ⟨hm, hs, hp1, hp2⟩ := hr
  obtain ⟨z1, z2, z3, z4, z5⟩ := hz
  obtain ⟨b, hb, rb⟩ := rt_optVal (dflt := zeroVariant) (has mask 0x1) hv
  refine ⟨leBytes 1 mask ++ b ++ optBytes (has mask 0x2) (leBytes 4 status) ++ optBytes (has mask 0x4) (writeTime srcTs)
    ++ optBytes (has mask 0x10) (leBytes 2 srcPs) ++ optBytes (has mask 0x8) (writeTime srvTs)
    ++ optBytes (has mask 0x20) (leBytes 2 srvPs), by simp only [encDataValue, hb, Enc.bind_ok, Enc.pure_eq], ?_⟩
  unfold decDataValue
  refine Reads.congr
    (Reads.bind (reads_readUInt 1 mask (mask_lt hm))
    (Reads.bind rb
    (Reads.bind (reads_optUInt (has mask 0x2) 4 status (by simpa using hs) z1)
    (Reads.bind (reads_optTime (has mask 0x4) srcTs ht1 z2)
    (Reads.bind (reads_optUInt (has mask 0x10) 2 srcPs (by simpa using hp1) z3)
    (Reads.bind (reads_optTime (has mask 0x8) srvTs ht2 z4)
    (Reads.bind (reads_optUInt (has mask 0x20) 2 srvPs (by simpa using hp2) z5) (Reads.ret _)))))))) (by simp [List.append_assoc]) rfl

/-! ### Variant: leaves -/

/-- a value that `(*Variant).encode` hands to `encodeValue` as it is -/
def IsLeafVal : Val → Prop
  | .slice _ _ => False
  | .bytes _ => False
  | _ => True

theorem leaves_of_leaf {v : Val} (h : IsLeafVal v) : leaves v = [v] := by
  cases v <;> first | exact False.elim h | rfl

theorem leaves_bytes (b : Option Bytes) : leaves (.bytes b) = [.bytes b] := rfl

theorem leavesL_eq {xs : List Val} (h : ∀ x ∈ xs, leaves x = [x]) : leavesL xs = xs := by
  induction xs with
  | nil => rfl
  | cons x xs ih =>
    simp only [leavesL, h x (List.mem_cons_self ..), ih (fun y hy => h y (List.mem_cons_of_mem _ hy))]
    rfl

theorem encVarLeaf_leaf {encT : Ty → Val → Enc} {base : Nat} {ty : Ty} {v : Val} (hty : vElemTy base = some ty)
    (h : IsLeafVal v) : encVarLeaf encT base v = encT ty v := by
  cases v <;> first | exact False.elim h | (simp only [encVarLeaf, hty])

/-- the leaf coder pair of a Variant of built-in type `tid` -/
theorem rt_varLeaf {encT : Ty → Val → Enc} {decT : Ty → Dec Val} {wtT : Ty → Val → Bool} {normT : Ty → Val → Val}
    (hrec : RecOk encT decT wtT normT)
    (hshape : ∀ tid ty v, vElemTy tid = some ty → wtT ty v = true → IsLeafVal v)
    (tid : Nat) (v : Val) (h : wtLeaf wtT tid v = true) :
    leaves v = [v] ∧ RTv (encVarLeaf encT tid v) (decVarValue decT tid) (normLeaf normT tid v) := by
  unfold wtLeaf at h
  by_cases h15 : tid = 15
  · simp only [h15, if_true] at h
    subst h15
    match v, h with
    | .bytes none, _ =>
      refine ⟨rfl, leBytes 4 null32, rfl, ?_⟩
      unfold decVarValue
      simp only [if_true]
      have := Reads.map (g := Val.bytes) (reads_readBytes (b := none) rfl)
      simpa [normLeaf, normBytes] using this
    | .bytes (some b), h =>
      have hl : ((some b : Option Bytes).getD []).length ≤ maxInt32 := by simpa [wtStr] using h
      obtain ⟨bs, hbs⟩ := writeByteString_ok (some b) hl
      refine ⟨rfl, bs, by simpa [encVarLeaf] using hbs, ?_⟩
      unfold decVarValue
      simp only [if_true]
      have := Reads.map (g := Val.bytes) (reads_readBytes hbs)
      refine Reads.congr this rfl ?_
      cases b with
      | nil => rfl
      | cons x xs => rfl
  · simp only [h15, if_false] at h
    cases hty : vElemTy tid with
    | none => simp [hty] at h
    | some ty =>
      simp only [hty] at h
      have hl := hshape tid ty v hty h
      refine ⟨leaves_of_leaf hl, ?_⟩
      rw [encVarLeaf_leaf hty hl]
      unfold decVarValue normLeaf
      simp only [h15, if_false, hty]
      exact hrec ty v h

/-! ### Variant: dimension list -/

theorem toInt32_small {n : Nat} (h : n < 2147483648) : toInt32 n = (n : Int) := by
  simp [toInt32, h]

theorem reads_decDims : ∀ ds : List Nat, (∀ d ∈ ds, 1 ≤ d ∧ d < 2147483648) →
    Reads (decDims ds.length) (ds.flatMap (leBytes 4)) ds := by
  intro ds
  induction ds with
  | nil => intro _; exact Reads.ret _
  | cons d ds ih =>
    intro h
    have hd := h d (List.mem_cons_self ..)
    simp only [List.length_cons, decDims, List.flatMap_cons]
    refine Reads.bind (reads_readUInt 4 d (by have : (256:Nat)^4 = 4294967296 := by decide
                                              omega)) ?_
    have : ¬ toInt32 d < 1 := by rw [toInt32_small hd.2]; omega
    simp only [this, if_false]
    exact Reads.map (g := fun xs => d :: xs) (ih (fun x hx => h x (List.mem_cons_of_mem _ hx)))

end Opcua.Codec
