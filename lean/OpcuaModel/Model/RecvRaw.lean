import OpcuaModel.Model.Recv
/-
  Raw-frame layer of the receive path (C13): what `SecureChannel.Receive` does
  with one frame handed up by `uacp.Conn.Receive`, for client and server kind
  channels, before and after the channel is open — `Conn.Receive` (buffer
  allocation), `readChunk` (header slicing, `MessageChunk.Decode`, the switch on
  the message type, `verifyAndDecrypt`, sequence header) and then the loop body
  of `Receive` (`Recv.step`).

  Crypto is an oracle carried by the frame: on a secured channel a frame either
  was produced by the reference sealer (`opens = some p`: the signature verifies
  and `p` is the decrypted plaintext between the security header and the
  signature — sequence header, body and, under SignAndEncrypt, the padding with
  its size byte, which the sealer may have filled with hostile values) or it
  does not verify; for an OPN frame that names a
  policy other than None the verdict of x509 / uapolicy about (policy URI,
  certificate) is `cert`, and since the runners never send a correctly
  encrypted OPN the asymmetric verification fails.  Everything else — framing
  lengths, header fields, length-prefixed fields, the error taken at every
  point — is computed from the raw bytes.

  The tree modelled is the one with the C09 repair (`verifyAndDecrypt` checks
  the chunk length before slicing the signature): no panic site is left in the
  crypto layer.
-/
namespace Opcua.Recv.Raw
open Opcua Opcua.Recv

inductive CertClass where
  /-- `uapolicy.ParseCertificate` fails -/
  | certErr
  /-- the public key is not RSA: `StatusBadCertificateInvalid` -/
  | notRsa
  /-- `uapolicy.Asymmetric`: unsupported security policy -/
  | policyErr
  | ok
  deriving Repr, DecidableEq

structure Frame where
  raw : Bytes
  opens : Option Bytes := none
  cert : CertClass := .ok
  deriving Repr, DecidableEq

inductive ErrCls where
  /-- `sechan: decode chunk failed` -/
  | decodeChunk
  /-- `sechan: invalid state. openingInstance is nil.` -/
  | noOpening
  | cert | notRsa | policy
  /-- `sechan: unable to find instance for SecureChannelID` -/
  | noInstance
  /-- `StatusBadSecurityChecksFailed` -/
  | security
  /-- `sechan: decode sequence header failed` -/
  | seqHeader
  deriving Repr, DecidableEq

inductive PanicSite where
  /-- `b[:hdrlen]` in `Conn.Receive` with `ReceiveBufSize < 8` -/
  | connSmallBuf
  /-- `b[:hdrlen]` (12) in `readChunk` with a frame and a buffer shorter than 12 -/
  | headerSlice
  deriving Repr, DecidableEq

inductive RawOut where
  | panic (site : PanicSite)
  /-- `io.EOF` (a CLO chunk) -/
  | eof
  | err (c : ErrCls)
  /-- the frame reached the loop body of `Receive` -/
  | out (o : Out)
  deriving Repr, DecidableEq

structure RawCfg where
  /-- `c.ack.ReceiveBufSize`: size of the buffer `Conn.Receive` allocates per call -/
  rcvBuf : Nat
  limits : Cfg
  /-- `cfg.SecurityMode != None` (an open Sign / SignAndEncrypt channel) -/
  secure : Bool
  /-- `cfg.SecurityMode == SignAndEncrypt` -/
  encrypt : Bool := false
  deriving Repr, DecidableEq

structure RawSt where
  bufs : Bufs
  /-- `s.openingInstance != nil`: always on a server channel, on a client only while `open()` runs -/
  opening : Bool
  /-- channel ids with stored instances -/
  chans : List Nat
  /-- an OPN frame naming a real policy with an acceptable certificate has made
      `readChunk` install an asymmetric algorithm in the opening instance
      (`s.openingInstance.algo = algo`); on a server channel that object is also
      the active instance, so symmetric chunks no longer verify -/
  clobbered : Bool := false
  deriving Repr, DecidableEq

def tOPN : Bytes := [79, 80, 78]
def tMSG : Bytes := [77, 83, 71]
def tCLO : Bytes := [67, 76, 79]
def tERR : Bytes := [69, 82, 82]
/-- "http://opcfoundation.org/UA/SecurityPolicy#None" -/
def policyNone : Bytes := [104, 116, 116, 112, 58, 47, 47, 111, 112, 99, 102, 111, 117, 110, 100, 97, 116, 105, 111, 110, 46, 111, 114, 103, 47, 85, 65, 47, 83, 101, 99, 117, 114, 105, 116, 121, 80, 111, 108, 105, 99, 121, 35, 78, 111, 110, 101]

/-- `ua.Buffer.ReadBytes`: length 0 and 0xffffffff read as nil, a length beyond
    the buffer is an error; returns (content, rest) -/
def readBytes (b : Bytes) : Option (Bytes × Bytes) :=
  if b.length < 4 then none else
  let n := leVal (b.take 4)
  let r := b.drop 4
  if n = 0 ∨ n = 4294967295 then some ([], r)
  else if n > r.length then none else some (r.take n, r.drop n)

/-- `AsymmetricSecurityHeader.Decode`: policy URI, sender certificate,
    receiver thumbprint; returns (uri, certificate, rest) -/
def parseAsym (b : Bytes) : Option (Bytes × Bytes × Bytes) :=
  match readBytes b with
  | none => none
  | some (uri, r1) =>
    match readBytes r1 with
    | none => none
    | some (cert, r2) =>
      match readBytes r2 with
      | none => none
      | some (_, r3) => some (uri, cert, r3)

/-- `SequenceHeader.Decode` + the loop body of `Receive` on the plaintext
    that follows the security header -/
def finish (cfg : RawCfg) (st : RawSt) (ct : Nat) (data : Bytes) : RawSt × RawOut :=
  if data.length < 8 then (st, .err .seqHeader) else
  let c : Chunk := ⟨ct, leVal (data.take 4), leVal ((data.drop 4).take 4), data.drop 8⟩
  ({ st with bufs := (step cfg.limits st.bufs c).1 }, .out (step cfg.limits st.bufs c).2)

/-- `channelInstance.verifyAndDecrypt` after the signature has verified: `p` is
    the decrypted plaintext between the security header and the signature -/
def verified (cfg : RawCfg) (st : RawSt) (ct : Nat) (p : Bytes) : RawSt × RawOut :=
  if st.clobbered then (st, .err .security) else
  if cfg.encrypt then
    -- paddingLength = int(messageToVerify[len-1]) + 1;
    -- if paddingLength > len(messageToVerify)-headerLength { BadSecurityChecksFailed }  (C09 repair)
    -- b = messageToVerify[headerLength : len(messageToVerify)-paddingLength]
    match p.getLast? with
    | none => (st, .err .security)
    | some x =>
      if x.toNat + 1 > p.length then (st, .err .security)
      else finish cfg st ct (p.take (p.length - (x.toNat + 1)))
  else finish cfg st ct p

/-- one frame through `Conn.Receive`, `readChunk` and the loop body of `Receive` -/
def rawStep (cfg : RawCfg) (st : RawSt) (f : Frame) : RawSt × RawOut :=
  let b := f.raw
  -- Conn.Receive: b := make([]byte, ReceiveBufSize); io.ReadFull(c, b[:hdrlen])
  if cfg.rcvBuf < 8 then (st, .panic .connSmallBuf) else
  -- Conn.Receive turns an ERR frame into an error and returns no bytes; readChunk:
  -- `if err == io.EOF || len(b) == 0 { return nil, io.EOF }` — every error of Conn.Receive ends as EOF
  if b.take 3 = tERR then (st, .eof) else
  -- readChunk: h.Decode(b[:hdrlen]) with hdrlen = 12: slicing beyond len(b) is legal up to cap(b) = ReceiveBufSize
  if b.length < 12 ∧ cfg.rcvBuf < 12 then (st, .panic .headerSlice) else
  -- m.Decode(b): Header.Decode needs 12 bytes
  if b.length < 12 then (st, .err .decodeChunk) else
  let mt := b.take 3
  let ct := (b.getD 3 0).toNat
  let chan := leVal ((b.drop 8).take 4)
  if mt = tOPN then
    match parseAsym (b.drop 12) with
    | none => (st, .err .decodeChunk)
    | some (uri, _, data) =>
      if st.opening = false then (st, .err .noOpening) else
      if uri ≠ policyNone then
        match f.cert with
        | .certErr => (st, .err .cert)
        | .notRsa => (st, .err .notRsa)
        | .policyErr => (st, .err .policy)
        | .ok => ({ st with clobbered := true }, .err .security)
      else if cfg.secure then (st, .err .security)
      else finish cfg st ct data
  else if mt = tMSG ∨ mt = tCLO then
    -- SymmetricSecurityHeader: 4 more bytes
    if b.length < 16 then (st, .err .decodeChunk) else
    if mt = tCLO then (st, .eof) else
    if ¬ chan ∈ st.chans then (st, .err .noInstance) else
    if cfg.secure then
      match f.opens with
      | some p => verified cfg st ct p
      | none => (st, .err .security)
    else finish cfg st ct (b.drop 16)
  else (st, .err .decodeChunk)

/-- `Receive` is called again and again; a panic and EOF end the run -/
def runRaw (cfg : RawCfg) : RawSt → List Frame → List RawOut
  | _, [] => []
  | st, f :: fs =>
    match (rawStep cfg st f).2 with
    | .panic s => [.panic s]
    | .eof => [.eof]
    | o => o :: runRaw cfg (rawStep cfg st f).1 fs

def runRawFinal (cfg : RawCfg) : RawSt → List Frame → RawSt
  | st, [] => st
  | st, f :: fs =>
    match (rawStep cfg st f).2 with
    | .panic _ => st
    | .eof => st
    | _ => runRawFinal cfg (rawStep cfg st f).1 fs

def RawOut.isPanic : RawOut → Bool
  | .panic _ => true
  | _ => false

def RawOut.stops : RawOut → Bool
  | .panic _ => true
  | .eof => true
  | _ => false

/-! ### the client's handshake: which receive buffer size can be in force

  `uacp.Conn.Handshake` (after `fix:` 30678c7): the Acknowledge of the server is
  refused when its receive or send buffer size is below `minBuf`
  (`Gen.RecvFacts.ackMinBufSize`, 0 = no check: the code before the repair);
  otherwise it is adopted, the receive buffer size capped by the value of the
  client's own Hello when that is not 0 (`capped` = `Gen.RecvFacts.ackRcvCappedByHello`). -/

/-- `none` = the handshake is refused (ERRF sent, `c.ack` stays the client's own
    configuration, `Dial` closes the connection); `some b` = the receive buffer
    size in force afterwards -/
def handshake (minBuf : Nat) (capped : Bool) (own ackRcv ackSnd : Nat) : Option Nat :=
  if ackRcv < minBuf ∨ ackSnd < minBuf then none
  else if capped ∧ own ≠ 0 ∧ ackRcv > own then some own
  else some ackRcv

/-- after a successful handshake the receive buffer has at least `min minBuf own`
    bytes (`minBuf` when the client's own value is 0 or at least `minBuf`) … -/
theorem handshake_lower {minBuf : Nat} {capped : Bool} {own r s b : Nat}
    (h : handshake minBuf capped own r s = some b) : (own = 0 ∨ minBuf ≤ own) → minBuf ≤ b := by
  unfold handshake at h
  intro ho
  split at h
  · cases h
  · split at h <;> cases h <;> omega

/-- … and, with the cap, never more than the client announced itself -/
theorem handshake_upper {minBuf own r s b : Nat}
    (h : handshake minBuf true own r s = some b) (ho : own ≠ 0) : b ≤ own := by
  unfold handshake at h
  split at h
  · cases h
  · split at h
    · cases h; exact Nat.le_refl _
    · rename_i h2
      cases h
      simp at h2
      exact h2 ho

/-! ### retained memory -/

/-- every buffered list respects the chunk limit -/
def Bounded (max : Nat) (b : Bufs) : Prop := ∀ e ∈ b, e.2.length ≤ max

theorem nchunks_le (max : Nat) (b : Bufs) (h : Bounded max b) : b.nchunks ≤ max * b.entries := by
  induction b with
  | nil => simp [Bufs.nchunks, Bufs.entries]
  | cons e t ih =>
    have h1 := h e (List.mem_cons_self ..)
    have h2 := ih (fun x hx => h x (List.mem_cons_of_mem _ hx))
    simp only [Bufs.nchunks, Bufs.entries, List.map_cons, List.sum_cons, List.length_cons] at *
    rw [Nat.mul_add]
    omega

theorem bounded_del (max : Nat) (b : Bufs) (r : Nat) (h : Bounded max b) : Bounded max (b.del r) :=
  fun e he => h e (List.mem_filter.mp he).1

theorem bounded_set (max : Nat) (b : Bufs) (r : Nat) (v : List Chunk) (h : Bounded max b) (hv : v.length ≤ max) :
    Bounded max (b.set r v) := by
  intro e he
  rcases List.mem_cons.mp he with rfl | he
  · exact hv
  · exact bounded_del max b r h e he

/-- the chunk-count check is in force: not disabled by a zero limit -/
def limitActive (cfg : Cfg) : Prop := cfg.chunk0 = false ∨ cfg.maxChunkCount ≠ 0

theorem exceeds_false_le {z : Bool} {n max : Nat} (hact : z = false ∨ max ≠ 0)
    (h : exceeds z n max = false) : n ≤ max := by
  unfold exceeds at h
  rcases hact with h0 | h0
  · simp [h0] at h; omega
  · cases z <;> simp [h0] at h <;> omega

theorem step_bounded (cfg : Cfg) (hact : limitActive cfg) (b : Bufs) (c : Chunk)
    (h : Bounded cfg.maxChunkCount b) : Bounded cfg.maxChunkCount (step cfg b c).1 := by
  unfold step
  by_cases hA : c.ct = ctA
  · simp only [if_pos hA]; exact bounded_del _ b _ h
  · by_cases hC : c.ct = ctC
    · simp only [if_neg hA, if_pos hC, Bufs.get_set_same]
      by_cases hn : exceeds cfg.chunk0 (b.get c.req ++ [c]).length cfg.maxChunkCount = true
      · simp only [if_pos hn]
        intro e he
        obtain ⟨he1, he2⟩ := List.mem_filter.mp he
        rcases List.mem_cons.mp he1 with rfl | he1
        · simp at he2
        · exact bounded_del _ b _ h e he1
      · simp only [if_neg hn]
        apply bounded_set _ b _ _ h
        exact exceeds_false_le hact (by simpa using hn)
    · simp only [if_neg hA, if_neg hC]
      by_cases hn : exceeds cfg.size0 (mergeChunks (b.get c.req ++ [c])).length cfg.maxMessageSize = true
      · simp only [if_pos hn]; exact bounded_del _ b _ h
      · simp only [if_neg hn]; exact bounded_del _ b _ h

theorem run_bounded (cfg : Cfg) (hact : limitActive cfg) (b : Bufs) (s : List Chunk)
    (h : Bounded cfg.maxChunkCount b) : Bounded cfg.maxChunkCount (runFinal cfg b s) := by
  induction s generalizing b with
  | nil => exact h
  | cons c t ih => exact ih _ (step_bounded cfg hact b c h)

/-- … and every buffered chunk carries at most `B` payload bytes -/
def BoundedB (B max : Nat) (b : Bufs) : Prop :=
  ∀ e ∈ b, e.2.length ≤ max ∧ ∀ c ∈ e.2, c.data.length ≤ B

theorem chunksBytes_le (B : Nat) (l : List Chunk) (h : ∀ c ∈ l, c.data.length ≤ B) :
    chunksBytes l ≤ B * l.length := by
  induction l with
  | nil => simp [chunksBytes]
  | cons c t ih =>
    have h1 := h c (List.mem_cons_self ..)
    have h2 := ih (fun x hx => h x (List.mem_cons_of_mem _ hx))
    simp only [chunksBytes, List.map_cons, List.sum_cons, List.length_cons] at *
    rw [Nat.mul_add]
    omega

theorem held_le (B max : Nat) (b : Bufs) (h : BoundedB B max b) : b.held ≤ B * max * b.entries := by
  induction b with
  | nil => simp [Bufs.held, Bufs.entries]
  | cons e t ih =>
    obtain ⟨h1, h1'⟩ := h e (List.mem_cons_self ..)
    have h2 := ih (fun x hx => h x (List.mem_cons_of_mem _ hx))
    have h3 := chunksBytes_le B e.2 h1'
    have h4 : B * e.2.length ≤ B * max := Nat.mul_le_mul_left B h1
    simp only [Bufs.held, Bufs.entries, List.map_cons, List.sum_cons, List.length_cons] at *
    rw [Nat.mul_add]
    omega

theorem step_boundedB (B : Nat) (cfg : Cfg) (hact : limitActive cfg) (b : Bufs) (c : Chunk)
    (hc : c.data.length ≤ B) (h : BoundedB B cfg.maxChunkCount b) :
    BoundedB B cfg.maxChunkCount (step cfg b c).1 := by
  have hlen : Bounded cfg.maxChunkCount (step cfg b c).1 :=
    step_bounded cfg hact b c (fun e he => (h e he).1)
  intro e he
  refine ⟨hlen e he, ?_⟩
  -- payload sizes: every chunk of the new table is `c` or was in the old table
  have hold : ∀ x ∈ b.get c.req, x.data.length ≤ B := by
    intro x hx
    unfold Bufs.get at hx
    cases hf : b.find? (fun e => e.1 == c.req) with
    | none => rw [hf] at hx; cases hx
    | some e0 =>
      rw [hf] at hx
      exact (h e0 (List.mem_of_find?_eq_some hf)).2 x hx
  have hdel : ∀ (bb : Bufs) (r : Nat), (∀ e ∈ bb, ∀ x ∈ e.2, x.data.length ≤ B) →
      ∀ e ∈ bb.del r, ∀ x ∈ e.2, x.data.length ≤ B :=
    fun bb r hb e he => hb e (List.mem_filter.mp he).1
  have hb : ∀ e ∈ b, ∀ x ∈ e.2, x.data.length ≤ B := fun e he => (h e he).2
  have hset : ∀ e ∈ b.set c.req (b.get c.req ++ [c]), ∀ x ∈ e.2, x.data.length ≤ B := by
    intro e he x hx
    rcases List.mem_cons.mp he with rfl | he
    · rcases List.mem_append.mp hx with hx | hx
      · exact hold x hx
      · have : x = c := by simpa using hx
        rw [this]; exact hc
    · exact hdel b c.req hb e he x hx
  revert he
  unfold step
  by_cases hA : c.ct = ctA
  · simp only [if_pos hA]; exact fun he => hdel b c.req hb e he
  · by_cases hC : c.ct = ctC
    · simp only [if_neg hA, if_pos hC]
      split
      · exact fun he => hdel _ c.req hset e he
      · exact fun he => hset e he
    · simp only [if_neg hA, if_neg hC]
      split <;> exact fun he => hdel b c.req hb e he

theorem run_boundedB (B : Nat) (cfg : Cfg) (hact : limitActive cfg) (b : Bufs) (s : List Chunk)
    (hs : ∀ c ∈ s, c.data.length ≤ B) (h : BoundedB B cfg.maxChunkCount b) :
    BoundedB B cfg.maxChunkCount (runFinal cfg b s) := by
  induction s generalizing b with
  | nil => exact h
  | cons c t ih =>
    exact ih _ (fun x hx => hs x (List.mem_cons_of_mem _ hx))
      (step_boundedB B cfg hact b c (hs c (List.mem_cons_self ..)) h)

/-- an intermediate chunk of a request id that has no entry yet adds one -/
theorem step_fresh (cfg : Cfg) (b : Bufs) (c : Chunk) (hC : c.ct = ctC)
    (hfresh : ∀ e ∈ b, e.1 ≠ c.req) (hone : exceeds cfg.chunk0 1 cfg.maxChunkCount = false) :
    (step cfg b c).1 = (c.req, [c]) :: b := by
  have hget : b.get c.req = [] := by
    unfold Bufs.get
    have : b.find? (fun e => e.1 == c.req) = none := by
      rw [List.find?_eq_none]
      intro e he
      simpa using hfresh e he
    rw [this]
  have hdel : b.del c.req = b := by
    unfold Bufs.del
    rw [List.filter_eq_self]
    intro e he
    simpa using hfresh e he
  have hA : ¬ c.ct = ctA := by rw [hC]; decide
  unfold step
  simp only [if_neg hA, if_pos hC, hget, List.nil_append, Bufs.get_set_same, List.length_singleton, hone]
  simp [Bufs.set, hdel]

/-- `n` intermediate chunks with pairwise different request ids leave `n` entries behind -/
theorem run_fresh_ids (cfg : Cfg) (hone : exceeds cfg.chunk0 1 cfg.maxChunkCount = false)
    (ids : List Nat) (hnd : ids.Nodup) (b : Bufs) (hdis : ∀ e ∈ b, e.1 ∉ ids) (mk : Nat → Chunk)
    (hmk : ∀ r, (mk r).ct = ctC ∧ (mk r).req = r) :
    (runFinal cfg b (ids.map mk)).entries = ids.length + b.entries := by
  induction ids generalizing b with
  | nil => simp [runFinal]
  | cons r t ih =>
    rw [List.nodup_cons] at hnd
    simp only [List.map_cons, runFinal]
    have hs := step_fresh cfg b (mk r) (hmk r).1
      (by intro e he h; exact hdis e he (by rw [h, (hmk r).2]; exact List.mem_cons_self ..)) hone
    rw [hs, ih hnd.2]
    · simp [Bufs.entries]; omega
    · intro e he
      rcases List.mem_cons.mp he with rfl | he
      · simpa [(hmk r).2] using hnd.1
      · exact fun h => hdis e he (List.mem_cons_of_mem _ h)

/-! ### the exact payload bound of unsecured frames -/

theorem readBytes_rest_le {b c r : Bytes} (h : readBytes b = some (c, r)) : r.length + 4 ≤ b.length := by
  unfold readBytes at h
  by_cases h0 : b.length < 4
  · simp [h0] at h
  · simp only [h0, if_false] at h
    by_cases h1 : leVal (b.take 4) = 0 ∨ leVal (b.take 4) = 4294967295
    · simp only [h1, if_true] at h
      cases h; simp; omega
    · simp only [h1, if_false] at h
      by_cases h2 : leVal (b.take 4) > (b.drop 4).length
      · simp only [List.length_drop] at h2
        simp at h
        omega
      · simp only [h2, if_false] at h
        cases h; simp; omega

theorem parseAsym_rest_le {b u c r : Bytes} (h : parseAsym b = some (u, c, r)) : r.length + 12 ≤ b.length := by
  unfold parseAsym at h
  cases h1 : readBytes b with
  | none => rw [h1] at h; cases h
  | some p1 =>
    obtain ⟨x1, r1⟩ := p1
    rw [h1] at h
    cases h2 : readBytes r1 with
    | none => simp [h2] at h
    | some p2 =>
      obtain ⟨x2, r2⟩ := p2
      simp only [h2] at h
      cases h3 : readBytes r2 with
      | none => simp [h3] at h
      | some p3 =>
        obtain ⟨x3, r3⟩ := p3
        simp only [h3] at h
        cases h
        have := readBytes_rest_le h1
        have := readBytes_rest_le h2
        have := readBytes_rest_le h3
        omega

theorem finish_boundedB (B : Nat) (cfg : RawCfg) (hact : limitActive cfg.limits) (st : RawSt) (ct : Nat) (data : Bytes)
    (hd : data.length ≤ B + 8) (h : BoundedB B cfg.limits.maxChunkCount st.bufs) :
    BoundedB B cfg.limits.maxChunkCount (finish cfg st ct data).1.bufs := by
  unfold finish
  split
  · exact h
  · apply step_boundedB B cfg.limits hact st.bufs _ _ h
    simp; omega

/-- one frame of at most `rcvBuf` bytes on an unsecured channel: every retained
    chunk carries at most `rcvBuf − 24` payload bytes (12 header + 4 token id +
    8 sequence header; an OPN frame has at least 12 bytes of security header) -/
theorem rawStep_boundedB (cfg : RawCfg) (hact : limitActive cfg.limits) (hsec : cfg.secure = false)
    (st : RawSt) (f : Frame) (hlen : f.raw.length ≤ cfg.rcvBuf)
    (h : BoundedB (cfg.rcvBuf - 24) cfg.limits.maxChunkCount st.bufs) :
    BoundedB (cfg.rcvBuf - 24) cfg.limits.maxChunkCount (rawStep cfg st f).1.bufs := by
  unfold rawStep
  simp only [hsec, Bool.false_eq_true, if_false]
  cases hp : parseAsym (f.raw.drop 12) with
  | none =>
    simp only []
    repeat' split
    all_goals first
      | exact h
      | (apply finish_boundedB _ cfg hact _ _ _ _ h
         simp only [List.length_drop]; omega)
  | some p =>
    obtain ⟨uri, cert, data⟩ := p
    have hd := parseAsym_rest_le hp
    simp only [List.length_drop] at hd
    simp only []
    repeat' split
    all_goals first
      | exact h
      | (apply finish_boundedB _ cfg hact _ _ _ _ h
         first
           | (simp only [List.length_drop]; omega)
           | omega)

theorem runRaw_boundedB (cfg : RawCfg) (hact : limitActive cfg.limits) (hsec : cfg.secure = false)
    (st : RawSt) (fs : List Frame) (hlen : ∀ f ∈ fs, f.raw.length ≤ cfg.rcvBuf)
    (h : BoundedB (cfg.rcvBuf - 24) cfg.limits.maxChunkCount st.bufs) :
    BoundedB (cfg.rcvBuf - 24) cfg.limits.maxChunkCount (runRawFinal cfg st fs).bufs := by
  induction fs generalizing st with
  | nil => exact h
  | cons f t ih =>
    unfold runRawFinal
    split
    · exact h
    · exact h
    · exact ih _ (fun x hx => hlen x (List.mem_cons_of_mem _ hx))
        (rawStep_boundedB cfg hact hsec st f (hlen f (List.mem_cons_self ..)) h)

end Opcua.Recv.Raw
