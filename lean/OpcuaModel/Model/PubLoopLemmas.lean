import OpcuaModel.Model.PubLoop
/-
  Invariant and progress lemmas for the publish-loop LTS (used by Props/C27.lean).
-/
namespace Opcua.PubLoop

theorem caps : pauseCap = 2 ∧ resumeCap = 2 ∧ Gen.Subs.newClientPauses = 1 := by decide

/-- how many pause tokens may be queued while the loop is at this point, if at most
    one other thread pauses -/
def bound : Loop → Nat
  | .sel | .paused => 2
  | _ => 1

/-- with at most one pausing thread besides the loop, a pause send always finds room -/
def Inv (s : St) : Prop := pausers s ≤ 1 ∧ s.pause + pausers s ≤ bound s.loop

theorem inv_init (subscribes forgets stale staleD reconnects nsubs : Nat)
    (h : forgets + stale + staleD + reconnects ≤ 1) :
    Inv (init subscribes forgets stale staleD reconnects nsubs) := by
  have := caps.2.2
  simp only [Inv, init, pausers, bound, this, Mux.n]
  omega

theorem inv_step {s s' : St} {l : Label} (hi : Inv s) (h : step s l = some s') : Inv s' := by
  obtain ⟨h1, h2⟩ := hi
  have hc := caps.1
  simp only [pausers] at h1 h2
  cases l <;> simp only [step] at h <;> split at h <;>
    first
    | (simp at h; done)
    | (rename_i hg
       try split at h
       all_goals
         simp only [Option.some.injEq] at h
         subst h
         simp only [Inv, pausers, bound]
         simp_all [bound, Mux.n]
         try omega)

theorem inv_reachable {s₀ s : St} (h0 : Inv s₀) (hr : Reachable s₀ s) : Inv s := by
  induction hr with
  | refl => exact h0
  | step l _ hs ih => exact inv_step ih hs

theorem canStep_of {s : St} (l : Label) (h : (step s l).isSome = true) : canStep s = true := by
  simp only [canStep, List.any_eq_true]
  exact ⟨l, by cases l <;> simp [Label.all], h⟩

/-- whoever holds subMux across its pause send can move when pausech has room (and a
    holder with a deadline can always give up) -/
theorem holder_moves {s : St} (hm : s.mux ≠ .free) (hp : s.pause < pauseCap) : canStep s = true := by
  cases hmx : s.mux with
  | free => exact absurd hmx hm
  | forgetSending => exact canStep_of .fgSendPause (by simp [step, hmx, hp])
  | forgetSendingD => exact canStep_of .fgGiveUp (by simp [step, hmx])

theorem progress {s : St} (hi : Inv s) : canStep s = true ∨ atRest s = true := by
  obtain ⟨h1, h2⟩ := hi
  have hc := caps.1
  have hr := caps.2.1
  simp only [pausers] at h1 h2
  have hmn : s.mux ≠ .free → s.mux.n = 1 := by
    intro h; cases hmx : s.mux <;> simp_all [Mux.n]
  cases hl : s.loop
  · -- sel
    by_cases a : 0 < s.resume
    · exact Or.inl (canStep_of .selTakeResume (by simp [step, hl, a]))
    · by_cases b : 0 < s.pause
      · exact Or.inl (canStep_of .selTakePause (by simp [step, hl, b]))
      · have hp : s.pause = 0 := by omega
        have hre : s.resume = 0 := by omega
        exact Or.inl (canStep_of .selDefault (by simp [step, hl, hp, hre]))
  · -- paused
    by_cases a : 0 < s.resume
    · exact Or.inl (canStep_of .pausedTakeResume (by simp [step, hl, a]))
    by_cases b : 0 < s.pause
    · exact Or.inl (canStep_of .pausedTakePause (by simp [step, hl, b]))
    have hp : s.pause = 0 := by omega
    have hre : s.resume = 0 := by omega
    by_cases m : s.mux = .free
    case neg => exact Or.inl (holder_moves m (by omega))
    by_cases c : 0 < s.subSend
    · exact Or.inl (canStep_of .subSendResume (by simp [step, c, hre, hr]))
    by_cases d : 0 < s.subLock
    · exact Or.inl (canStep_of .subRegister (by simp [step, d, m]))
    by_cases e : 0 < s.fgStart
    · by_cases n : s.nsubs - 1 = 0
      · exact Or.inl (canStep_of .fgLock (by simp [step, e, m, n]))
      · exact Or.inl (canStep_of .fgLock (by simp [step, e, m, n]))
    by_cases f : 0 < s.fgStale
    · by_cases n : s.nsubs = 0
      · exact Or.inl (canStep_of .fgStaleLock (by simp [step, f, m, n]))
      · exact Or.inl (canStep_of .fgStaleLock (by simp [step, f, m, n]))
    by_cases f' : 0 < s.fgStaleD
    · by_cases n : s.nsubs = 0
      · exact Or.inl (canStep_of .fgStaleDLock (by simp [step, f', m, n]))
      · exact Or.inl (canStep_of .fgStaleDLock (by simp [step, f', m, n]))
    by_cases g : 0 < s.monPause
    · exact Or.inl (canStep_of .monSendPause (by simp [step, g, hp, hc]))
    by_cases k : 0 < s.monResume
    · exact Or.inl (canStep_of .monSkipResume (by simp [step, k]))
    right
    simp [atRest, hl, m]
    omega
  · -- pubStart
    by_cases m : s.mux = .free
    · exact Or.inl (canStep_of .pubStart (by simp [step, hl, m]))
    · have := hmn m
      have : s.pause = 0 := by simp [hl, bound] at h2; omega
      exact Or.inl (holder_moves m (by omega))
  · exact Or.inl (canStep_of .respOk (by simp [step, hl]))
  · -- wantLock
    by_cases m : s.mux = .free
    · exact Or.inl (canStep_of .handle (by simp [step, hl, m]))
    · have := hmn m
      have : s.pause = 0 := by simp [hl, bound] at h2; omega
      exact Or.inl (holder_moves m (by omega))
  · -- wantLockD
    by_cases m : s.mux = .free
    · exact Or.inl (canStep_of .handleD (by simp [step, hl, m]))
    · have := hmn m
      have : s.pause = 0 := by simp [hl, bound] at h2; omega
      exact Or.inl (holder_moves m (by omega))
  · -- notifying: the application takes the notification
    exact Or.inl (canStep_of .appTake (by simp [step, hl]))
  · -- selfPause
    have : s.pause < 2 := by simp [hl, bound] at h2; omega
    exact Or.inl (canStep_of .selfPause (by simp [step, hl, hc, this]))

/-- no pause token is ever queued again, and while the loop is still paused every
    resume token sent is still in the channel -/
def InvNoStall (s : St) : Prop :=
  s.pause = 0 ∧ pausers s = 0 ∧ s.monResume = 0 ∧ s.loop ≠ .selfPause ∧
  (s.loop = .paused → s.resume = s.subLock + s.nsubs)

theorem noStall_init (n : Nat) : InvNoStall (started n) := by
  simp [InvNoStall, started, pausers, Mux.n]

theorem noStall_step {s s' : St} {l : Label} (hi : InvNoStall s) (hl : l ≠ .respErr)
    (h : step s l = some s') : InvNoStall s' := by
  obtain ⟨h1, h2, h3, h4, h5⟩ := hi
  simp only [pausers] at h2
  have hf : s.fgStart = 0 := by omega
  have hs : s.fgStale = 0 := by omega
  have hsd : s.fgStaleD = 0 := by omega
  have hm : s.monPause = 0 := by omega
  have hx : s.mux = .free := by
    cases hmx : s.mux
    · rfl
    · simp [hmx, Mux.n] at h2
    · simp [hmx, Mux.n] at h2
  cases l <;> simp only [step] at h <;> split at h <;>
    first
    | (simp at h; done)
    | (exact absurd rfl hl)
    | (rename_i hg
       try split at h
       all_goals
         simp only [Option.some.injEq] at h
         subst h
         simp only [InvNoStall, pausers]
         simp_all [Mux.n]
         try omega)

theorem noStall_reachable {n : Nat} {s : St} (hr : ReachableNoErr (started n) s) : InvNoStall s := by
  induction hr with
  | refl => exact noStall_init n
  | step l _ hl hs ih => exact noStall_step ih hl hs

theorem not_stalled_of_inv {s : St} (hi : InvNoStall s) : stalled s = false := by
  obtain ⟨_, _, _, _, h5⟩ := hi
  cases hst : stalled s
  · rfl
  · simp only [stalled, atRest, Bool.and_eq_true, decide_eq_true_eq] at hst
    obtain ⟨⟨_, hsl, _, _, _, _, _, _, hlp, _, hre⟩, hn⟩ := hst
    have := h5 hlp
    omega

theorem run_reachable {s₀ : St} : ∀ (ls : List Label) (s s' : St), Reachable s₀ s → run s ls = some s' → Reachable s₀ s'
  | [], s, s', hr, h => by simp only [run, Option.some.injEq] at h; subst h; exact hr
  | l :: ls, s, s', hr, h => by
    simp only [run] at h
    cases hs : step s l with
    | none => simp [hs] at h
    | some s1 =>
      simp only [hs] at h
      exact run_reachable ls s1 s' (Reachable.step l hr hs) h

end Opcua.PubLoop
