import OpcuaModel.Model.CodecRT3
/-
  The round-trip theorem of the codec model: for every call depth `fuel`,
  every type and every value that is well typed within that depth, the
  encoder succeeds and the decoder reads exactly the produced bytes back into
  the normal form of the value.
-/
namespace Opcua.Codec
open Opcua

theorem vElemTy_not_slice {tid : Nat} {ty : Ty} (h : vElemTy tid = some ty) :
    (∀ e, ty ≠ .slice e) ∧ ty ≠ .bytes := by
  unfold vElemTy at h
  split at h <;> first | (cases h; exact ⟨fun e => by simp [qualifiedNamePtr], by simp [qualifiedNamePtr]⟩) | simp at h

theorem wt_slice_ty (env : Env) (fuel : Nat) (ty : Ty) (n : Bool) (xs : List Val)
    (h : wt env fuel ty (.slice n xs) = true) : ∃ e, ty = .slice e := by
  cases fuel with
  | zero => simp [wt] at h
  | succ k => cases ty <;> first | exact ⟨_, rfl⟩ | simp [wt] at h

theorem wt_bytes_ty (env : Env) (fuel : Nat) (ty : Ty) (b : Option Bytes)
    (h : wt env fuel ty (.bytes b) = true) : ty = .bytes := by
  cases fuel with
  | zero => simp [wt] at h
  | succ k => cases ty <;> first | rfl | simp [wt] at h

theorem wt_leaf_shape (env : Env) (fuel : Nat) (tid : Nat) (ty : Ty) (v : Val) (hty : vElemTy tid = some ty)
    (h : wt env fuel ty v = true) : IsLeafVal v := by
  have hns := vElemTy_not_slice hty
  cases v with
  | slice n xs =>
    obtain ⟨e, he⟩ := wt_slice_ty env fuel ty n xs h
    exact absurd he (hns.1 e)
  | bytes b => exact absurd (wt_bytes_ty env fuel ty b h) hns.2
  | _ => trivial

theorem rt_step (env : Env) (hlim : env.limit = none) (fuel : Nat)
    (ih : RecOk (encode env fuel) (decode env fuel) (wt env fuel) (norm env fuel)) :
    RecOk (encode env (fuel + 1)) (decode env (fuel + 1)) (wt env (fuel + 1)) (norm env (fuel + 1)) := by
  intro t v h
  cases t with
  | bool =>
    cases v <;> simp [wt] at h
    rename_i b
    refine ⟨[if b then 1 else 0], by simp [encode], ?_⟩
    simp only [decode, norm]
    have hb : (if b then (1:UInt8) else 0) :: [] = leBytes 1 (if b then 1 else 0) := by
      cases b <;> rfl
    rw [hb]
    have := Reads.map (g := fun n => Val.bool (decide (n > 0))) (reads_readUInt 1 (if b then 1 else 0) (by cases b <;> decide))
    refine Reads.congr this rfl ?_
    cases b <;> rfl
  | int w =>
    cases v <;> simp [wt] at h
    rename_i n
    exact ⟨leBytes w n, by simp [encode], by simpa [decode, norm] using Reads.map (g := Val.int) (reads_readUInt w n h)⟩
  | f32 =>
    cases v <;> simp [wt] at h
    rename_i n
    refine ⟨leBytes 4 n, by simp [encode, h.2], ?_⟩
    have := Reads.map (g := fun x => Val.f32 (canon32 x)) (reads_readUInt 4 n (by simpa using h.1))
    simpa [decode, norm, h.2] using this
  | f64 =>
    cases v <;> simp [wt] at h
    rename_i n
    refine ⟨leBytes 8 n, by simp [encode, h.2], ?_⟩
    have := Reads.map (g := fun x => Val.f64 (canon64 x)) (reads_readUInt 8 n (by simpa using h.1))
    simpa [decode, norm, h.2] using this
  | string =>
    cases v <;> simp [wt] at h
    rename_i s
    obtain ⟨bs, hbs⟩ := writeString_ok s h
    exact ⟨bs, by simpa [encode] using hbs, by simpa [decode, norm] using Reads.map (g := Val.str) (reads_readString hbs)⟩
  | time =>
    cases v <;> simp [wt] at h
    rename_i t
    exact ⟨writeTime t, by simp [encode], by simpa [decode, norm] using Reads.map (g := Val.time) (reads_readTime t h)⟩
  | bytes =>
    cases v <;> simp [wt] at h
    rename_i b
    cases b with
    | none =>
      refine ⟨leBytes 4 null32, by simp [encode], ?_⟩
      simp only [decode, norm, decByteSlice]
      refine Reads.congr (Reads.bind (reads_readUInt 4 null32 (by decide)) ?_) (List.append_nil _) rfl
      simp only [if_true]
      exact Reads.ret _
    | some d =>
      simp only [wt, wtStr, decide_eq_true_eq] at h
      have h1 : ¬ d.length > maxInt32 := by omega
      refine ⟨leBytes 4 d.length ++ d, by simp [encode, h1], ?_⟩
      simp only [decode, norm, decByteSlice]
      refine Reads.bind (reads_readUInt 4 d.length (by unfold maxInt32 at h
                                                       have : (256:Nat)^4 = 4294967296 := by decide
                                                       omega)) ?_
      have h2 : ¬ d.length = null32 := by unfold maxInt32 at h; unfold null32; omega
      simp only [h2, h1, if_false]
      exact Reads.map (g := fun x => Val.bytes (some x)) (reads_readN d)
  | slice e =>
    cases v <;> simp [wt] at h
    rename_i isNil xs
    cases isNil with
    | true =>
      simp only [wt, List.isEmpty_iff] at h
      subst h
      refine ⟨leBytes 4 null32, by simp [encode, encSlice], ?_⟩
      simp only [decode, norm, decSlice, List.map_nil]
      refine Reads.congr (Reads.bind (reads_readUInt 4 null32 (by decide)) ?_) (List.append_nil _) rfl
      simp only [if_true]
      exact Reads.ret _
    | false =>
      simp only [wt, Bool.and_eq_true, decide_eq_true_eq, List.all_eq_true] at h
      obtain ⟨hl, hx⟩ := h
      obtain ⟨bs, hbs, rbs⟩ := rt_elems (encE := encode env fuel e) (decE := decode env fuel e) (normE := norm env fuel e) xs
        (fun x hxm => ih e x (hx x hxm))
      have h1 : ¬ xs.length > maxInt32 := by omega
      refine ⟨leBytes 4 xs.length ++ bs, by simp [encode, encSlice, h1, hbs], ?_⟩
      simp only [decode, norm, decSlice]
      refine Reads.bind (reads_readUInt 4 xs.length (by unfold maxInt32 at hl
                                                        have : (256:Nat)^4 = 4294967296 := by decide
                                                        omega)) ?_
      have h2 : ¬ xs.length = null32 := by unfold maxInt32 at hl; unfold null32; omega
      simp only [h2, h1, if_false]
      refine Reads.congr (Reads.bind (reads_requestAt hlim _ xs.length) ?_) (List.nil_append _) rfl
      exact Reads.map (g := fun vs => Val.slice false vs) rbs
  | ptr e =>
    cases v <;> simp [wt] at h
    rename_i x
    obtain ⟨bs, hbs, rbs⟩ := ih e x h
    exact ⟨bs, by simpa [encode] using hbs, by simpa [decode, norm] using Reads.map (g := Val.ptr) rbs⟩
  | struct ts =>
    cases v <;> simp [wt] at h
    rename_i vs
    obtain ⟨bs, hbs, rbs⟩ := rt_fields ih ts vs h
    exact ⟨bs, by simpa [encode] using hbs, by simpa [decode, norm] using Reads.map (g := Val.struct) rbs⟩
  | guid =>
    cases v <;> simp [wt] at h
    rename_i g
    exact ⟨encGuid g, by simp [encode], by simpa [decode, norm] using Reads.map (g := Val.guid) (reads_decGuid g h)⟩
  | nodeId =>
    cases v <;> simp [wt] at h
    rename_i n
    obtain ⟨bs, hbs, rbs⟩ := reads_decNodeId n h
    exact ⟨bs, by simpa [encode] using hbs, by simpa [decode, norm] using Reads.map (g := Val.nodeId) rbs⟩
  | expNodeId =>
    cases v <;> simp [wt] at h
    rename_i e
    obtain ⟨bs, hbs, rbs⟩ := reads_decExpNodeId e h
    exact ⟨bs, by simpa [encode] using hbs, by simpa [decode, norm] using Reads.map (g := Val.expNodeId) rbs⟩
  | locText =>
    cases v <;> simp [wt] at h
    rename_i l
    obtain ⟨bs, hbs, rbs⟩ := reads_decLocText l h
    exact ⟨bs, by simpa [encode] using hbs, by simpa [decode, norm] using Reads.map (g := Val.locText) rbs⟩
  | diag =>
    cases v <;> simp [wt] at h
    rename_i ls
    obtain ⟨bs, hbs, rbs⟩ := reads_decDiag (fuel + 1) ls h
    exact ⟨bs, by simpa [encode] using hbs, by simpa [decode, norm] using Reads.map (g := Val.diag) rbs⟩
  | dataValue =>
    cases v <;> simp [wt] at h
    rename_i mask value status srcTs srcPs srvTs srvPs
    obtain ⟨⟨⟨⟨hr, ht1⟩, ht2⟩, hz⟩, hv⟩ := h
    have := rt_dataValue (encV := encode env fuel .variant) (decV := decode env fuel .variant) (normV := norm env fuel .variant)
      mask value status srcTs srcPs srvTs srvPs hr ht1 ht2 hz (fun hc => ih .variant value (by simpa [hc] using hv))
    simpa [encode, decode, norm] using this
  | variant =>
    cases v <;> simp [wt] at h
    rename_i mask alen dlen dims vt value
    have := rt_variant env hlim ih (wt_leaf_shape env fuel) mask alen dlen dims vt value h
    simpa [encode, decode, norm] using this
  | extObj =>
    cases v <;> simp [wt] at h
    · -- nil *ExtensionObject
      refine ⟨leBytes 2 0 ++ leBytes 1 0, by simp [encode], ?_⟩
      simp only [decode, norm, decExtObj]
      refine Reads.bind emptyExt_reads ?_
      refine Reads.congr (Reads.bind (reads_readUInt 1 0 (by decide)) ?_) (List.append_nil _) rfl
      simp only [if_true]
      exact Reads.ret _
    · rename_i mask typeId vname value
      have := rt_extObj env fuel ih mask typeId vname value h
      simpa [encode, decode, norm] using this

/-- **Round trip of the codec model.** -/
theorem rt_all (env : Env) (hlim : env.limit = none) :
    ∀ fuel, RecOk (encode env fuel) (decode env fuel) (wt env fuel) (norm env fuel) := by
  intro fuel
  induction fuel with
  | zero => intro t v h; simp [wt] at h
  | succ n ih => exact rt_step env hlim n ih

end Opcua.Codec
