import OpcuaModel.Base.Bytes
/-
  Model of the UACP framing layer: `(*uacp.Conn).Receive` (uacp/conn.go:359)
  reading from a TCP byte stream that arrives in arbitrary segments.

  A `Stream` is the list of segments still to arrive; one `Read` of the
  socket returns (a prefix of) the first segment.  `readFull n` is
  `io.ReadFull(c, buf[:n])`: it loops over `Read` until `n` bytes are there
  and fails with `io.EOF` when the stream ended before the first byte and
  with `io.ErrUnexpectedEOF` when it ended later.  `io.ReadFull` of zero
  bytes returns at once without reading.

  `receive` follows `Conn.Receive` statement by statement (see the comments),
  `receiveAll` is the caller's loop "Receive until the first error".
  `receiveFlat`/`receiveAllFlat` are the same functions on the plain byte
  string; `receiveAll_flat` proves that the segment version only depends on
  the concatenation of the segments.
-/
namespace Opcua.Uacp
open Opcua

abbrev Stream := List Bytes

inductive ReadErr where
  | eof | unexpectedEOF
  deriving DecidableEq, Repr

inductive ReadRes where
  | ok (b : Bytes) (rest : Stream)
  | err (e : ReadErr)
  deriving DecidableEq, Repr

/-- `io.ReadFull(conn, buf[:n])` over the segments still to arrive -/
def readFull : Nat → Stream → ReadRes
  | 0, s => .ok [] s
  | _ + 1, [] => .err .eof
  | n + 1, seg :: rest =>
    if seg.length ≤ n + 1 then
      match readFull (n + 1 - seg.length) rest with
      | .ok b r => .ok (seg ++ b) r
      | .err e => .err (if seg.isEmpty then e else .unexpectedEOF)
    else .ok (seg.take (n + 1)) (seg.drop (n + 1) :: rest)

/-- why `Receive` stopped delivering frames -/
inductive Stop where
  /-- `io.EOF`: the stream ended on a frame boundary (or right after a header) -/
  | eof
  /-- `io.ErrUnexpectedEOF`: the stream ended inside a header or body -/
  | unexpectedEOF
  /-- "uacp: message too large" -/
  | tooLarge
  /-- "uacp: message too small" -/
  | tooSmall
  /-- an `ERR` frame, decoded into `*uacp.Error` and returned as the error -/
  | errf (code : Nat) (reason : Bytes)
  /-- "uacp: failed to decode ERRF message" -/
  | errDecode
  /-- run-time panic (slice bounds out of range) -/
  | panic
  deriving DecidableEq, Repr

def Stop.ofReadErr : ReadErr → Stop
  | .eof => .eof
  | .unexpectedEOF => .unexpectedEOF

/-- `hdrlen` -/
def hdrlen : Nat := 8

/-- `Header.Decode`: MessageSize, little endian in bytes 4..8 -/
def sizeOfHeader (hdr : Bytes) : Nat := leVal ((hdr.drop 4).take 4)

/-- `h.MessageType == "ERR"` -/
def isErrType (hdr : Bytes) : Bool := hdr.take 3 == [0x45, 0x52, 0x52]

/-- `(*uacp.Error).Decode` on the body of an `ERR` frame: `ReadUint32` then
    `ReadString` (`ua.Buffer`); `none` = the buffer reported an error.
    Length 0 and 0xffffffff both give the empty string; trailing bytes are ignored. -/
def decodeErr (body : Bytes) : Option (Nat × Bytes) :=
  if body.length < 4 then none else
  let code := leVal (body.take 4)
  let r := body.drop 4
  if r.length < 4 then none else
  let n := leVal (r.take 4)
  let d := r.drop 4
  if n = 0 ∨ n = 0xffffffff then some (code, [])
  else if n > d.length then none
  else some (code, d.take n)

inductive Rx where
  | frame (f : Bytes) (rest : Stream)
  | stop (o : Stop)
  deriving DecidableEq, Repr

/-- `(*Conn).Receive` with `c.ack.ReceiveBufSize = rcvBuf` -/
def receive (rcvBuf : Nat) (s : Stream) : Rx :=
  -- b := make([]byte, c.ack.ReceiveBufSize); io.ReadFull(c, b[:hdrlen]) — the slice
  -- expression panics when cap(b) < 8, before anything is read
  if rcvBuf < hdrlen then .stop .panic else
  match readFull hdrlen s with
  | .err e => .stop (.ofReadErr e)
  | .ok hdr s1 =>
    -- h.Decode(b[:hdrlen]) cannot fail on 8 bytes
    let size := sizeOfHeader hdr
    if size > rcvBuf then .stop .tooLarge
    else if size < hdrlen then .stop .tooSmall
    else
      -- io.ReadFull(c, b[hdrlen:h.MessageSize])
      match readFull (size - hdrlen) s1 with
      | .err e => .stop (.ofReadErr e)
      | .ok body s2 =>
        if isErrType hdr then
          match decodeErr body with
          | none => .stop .errDecode
          | some (c, r) => .stop (.errf c r)
        else .frame (hdr ++ body) s2

def streamLen (s : Stream) : Nat := s.flatten.length

/-! ### `readFull` only depends on the concatenation -/

theorem readFull_ok {n : Nat} {s : Stream} (h : n ≤ s.flatten.length) :
    ∃ r, readFull n s = .ok (s.flatten.take n) r ∧ r.flatten = s.flatten.drop n := by
  induction s generalizing n with
  | nil =>
    have : n = 0 := by simpa using h
    subst this
    exact ⟨[], by simp [readFull]⟩
  | cons seg rest ih =>
    cases n with
    | zero => exact ⟨seg :: rest, by simp [readFull]⟩
    | succ n =>
      simp only [readFull]
      by_cases hs : seg.length ≤ n + 1
      · simp only [hs, if_true]
        have h' : n + 1 - seg.length ≤ rest.flatten.length := by
          rw [List.flatten_cons, List.length_append] at h; omega
        obtain ⟨r, hr, hf⟩ := ih h'
        refine ⟨r, ?_, ?_⟩
        · rw [hr]; simp [List.flatten_cons, List.take_append, List.take_of_length_le hs]
        · rw [hf]; simp [List.flatten_cons, List.drop_append, List.drop_of_length_le hs]
      · simp only [hs, if_false]
        have hlt : n + 1 < seg.length := by omega
        refine ⟨seg.drop (n + 1) :: rest, ?_, ?_⟩
        · simp [List.flatten_cons, List.take_append, Nat.sub_eq_zero_of_le (Nat.le_of_lt hlt)]
        · simp [List.flatten_cons, List.drop_append, Nat.sub_eq_zero_of_le (Nat.le_of_lt hlt)]

theorem readFull_short {n : Nat} {s : Stream} (h : s.flatten.length < n) :
    readFull n s = .err (if s.flatten = [] then .eof else .unexpectedEOF) := by
  induction s generalizing n with
  | nil =>
    cases n with
    | zero => simp at h
    | succ n => simp [readFull]
  | cons seg rest ih =>
    cases n with
    | zero => simp at h
    | succ n =>
      have hl : seg.length + rest.flatten.length < n + 1 := by
        rw [List.flatten_cons, List.length_append] at h; exact h
      have hs : seg.length ≤ n + 1 := by omega
      have h' : rest.flatten.length < n + 1 - seg.length := by omega
      simp only [readFull, hs, if_true, ih h']
      cases seg with
      | nil => simp
      | cons a t => simp

/-- the result of `readFull`, in terms of the concatenated bytes only -/
theorem readFull_ok_inv {n : Nat} {s : Stream} {b : Bytes} {r : Stream} (h : readFull n s = .ok b r) :
    n ≤ s.flatten.length ∧ b = s.flatten.take n ∧ r.flatten = s.flatten.drop n := by
  by_cases hn : n ≤ s.flatten.length
  · obtain ⟨r', hr, hf⟩ := readFull_ok hn
    rw [hr] at h
    injection h with h1 h2
    subst h1; subst h2
    exact ⟨hn, rfl, hf⟩
  · rw [readFull_short (by omega)] at h
    cases h

/-! ### the same on the plain byte string -/

inductive RxFlat where
  | frame (f : Bytes) (rest : Bytes)
  | stop (o : Stop)
  deriving DecidableEq, Repr

def shortErr (bs : Bytes) : Stop := if bs = [] then .eof else .unexpectedEOF

def receiveFlat (rcvBuf : Nat) (bs : Bytes) : RxFlat :=
  if rcvBuf < hdrlen then .stop .panic else
  if bs.length < hdrlen then .stop (shortErr bs) else
  let hdr := bs.take hdrlen
  let s1 := bs.drop hdrlen
  let size := sizeOfHeader hdr
  if size > rcvBuf then .stop .tooLarge
  else if size < hdrlen then .stop .tooSmall
  else if s1.length < size - hdrlen then .stop (shortErr s1)
  else
    let body := s1.take (size - hdrlen)
    if isErrType hdr then
      match decodeErr body with
      | none => .stop .errDecode
      | some (c, r) => .stop (.errf c r)
    else .frame (hdr ++ body) (s1.drop (size - hdrlen))

def Rx.toFlat : Rx → RxFlat
  | .frame f r => .frame f r.flatten
  | .stop o => .stop o

theorem receive_flat (rcvBuf : Nat) (s : Stream) :
    (receive rcvBuf s).toFlat = receiveFlat rcvBuf s.flatten := by
  unfold receive receiveFlat
  by_cases hb : rcvBuf < hdrlen
  · simp [hb, Rx.toFlat]
  · simp only [hb, if_false]
    by_cases h8 : s.flatten.length < hdrlen
    · rw [readFull_short h8]
      simp only [h8, if_true, Rx.toFlat, shortErr]
      split <;> rfl
    · obtain ⟨s1, hr, hf⟩ := readFull_ok (n := hdrlen) (s := s) (by omega)
      rw [hr]
      simp only [h8, if_false]
      by_cases hL : sizeOfHeader (s.flatten.take hdrlen) > rcvBuf
      · simp [hL, Rx.toFlat]
      · simp only [hL, if_false]
        by_cases hS : sizeOfHeader (s.flatten.take hdrlen) < hdrlen
        · simp [hS, Rx.toFlat]
        · simp only [hS, if_false]
          by_cases hbody : (s.flatten.drop hdrlen).length < sizeOfHeader (s.flatten.take hdrlen) - hdrlen
          · rw [readFull_short (by rw [hf]; exact hbody)]
            simp only [hbody, if_true, hf, Rx.toFlat, shortErr]
            split <;> rfl
          · obtain ⟨s2, hr2, hf2⟩ := readFull_ok (n := sizeOfHeader (s.flatten.take hdrlen) - hdrlen) (s := s1)
              (by rw [hf]; omega)
            rw [hr2]
            simp only [hbody, if_false, hf]
            split
            · split <;> simp [Rx.toFlat]
            · simp [Rx.toFlat, hf2, hf]

/-- a delivered frame consumes at least the header -/
theorem receive_frame_lt {rcvBuf : Nat} {s : Stream} {f : Bytes} {r : Stream}
    (h : receive rcvBuf s = .frame f r) : streamLen r < streamLen s := by
  unfold receive at h
  split at h
  · cases h
  · split at h
    · cases h
    · rename_i hdr s1 h1
      obtain ⟨hle, _, hf1⟩ := readFull_ok_inv h1
      simp only at h
      split at h
      · cases h
      · split at h
        · cases h
        · split at h
          · cases h
          · rename_i body s2 h2
            obtain ⟨_, _, hf2⟩ := readFull_ok_inv h2
            split at h
            · split at h <;> cases h
            · injection h with _ hr
              subst hr
              simp only [streamLen, hf2, hf1, List.length_drop, hdrlen] at *
              omega

theorem receiveFlat_frame_lt {rcvBuf : Nat} {bs f r : Bytes}
    (h : receiveFlat rcvBuf bs = .frame f r) : r.length < bs.length := by
  unfold receiveFlat at h
  dsimp only at h
  repeat' split at h
  all_goals cases h
  simp only [List.length_drop, hdrlen] at *
  omega

/-- the caller's loop: `Receive` until the first error; delivered frames and the reason to stop -/
def receiveAll (rcvBuf : Nat) (s : Stream) : List Bytes × Stop :=
  match h : receive rcvBuf s with
  | .stop o => ([], o)
  | .frame f rest =>
    let r := receiveAll rcvBuf rest
    (f :: r.1, r.2)
termination_by streamLen s
decreasing_by exact receive_frame_lt h

def receiveAllFlat (rcvBuf : Nat) (bs : Bytes) : List Bytes × Stop :=
  match h : receiveFlat rcvBuf bs with
  | .stop o => ([], o)
  | .frame f rest =>
    let r := receiveAllFlat rcvBuf rest
    (f :: r.1, r.2)
termination_by bs.length
decreasing_by exact receiveFlat_frame_lt h

/-- segmentation independence of the whole receive loop -/
theorem receiveAll_flat (rcvBuf : Nat) (s : Stream) :
    receiveAll rcvBuf s = receiveAllFlat rcvBuf s.flatten := by
  induction hn : streamLen s using Nat.strongRecOn generalizing s with
  | _ n ih =>
    rw [receiveAll, receiveAllFlat]
    have hf := receive_flat rcvBuf s
    split
    · rename_i o ho
      rw [ho] at hf
      simp only [Rx.toFlat] at hf
      split
      · rename_i o' ho'
        rw [ho'] at hf; cases hf; rfl
      · rename_i f' r' ho'
        rw [ho'] at hf; cases hf
    · rename_i f rest ho
      rw [ho] at hf
      simp only [Rx.toFlat] at hf
      split
      · rename_i o' ho'
        rw [ho'] at hf; cases hf
      · rename_i f' r' ho'
        rw [ho'] at hf
        injection hf with h1 h2
        subst h1; subst h2
        have := ih (streamLen rest) (by rw [← hn]; exact receive_frame_lt ho) rest rfl
        simp only [this]

/-! ### frames on the plain byte string -/

/-- a complete frame as `Receive` accepts it with receive buffer `rcvBuf`:
    at least the header, at most the buffer, the size field says its length -/
def completeFrame (rcvBuf : Nat) (f : Bytes) : Prop :=
  hdrlen ≤ f.length ∧ f.length ≤ rcvBuf ∧ sizeOfHeader f = f.length

/-- a frame the peer may send that `Receive` hands to its caller: complete and not of type `ERR` -/
def wellFormed (rcvBuf : Nat) (f : Bytes) : Prop :=
  completeFrame rcvBuf f ∧ isErrType f = false

instance (rcvBuf : Nat) (f : Bytes) : Decidable (completeFrame rcvBuf f) := by
  unfold completeFrame; infer_instance
instance (rcvBuf : Nat) (f : Bytes) : Decidable (wellFormed rcvBuf f) := by
  unfold wellFormed; infer_instance

theorem sizeOfHeader_take {f : Bytes} : sizeOfHeader (f.take hdrlen) = sizeOfHeader f := by
  simp [sizeOfHeader, hdrlen, List.drop_take, List.take_take]

theorem isErrType_take {f : Bytes} : isErrType (f.take hdrlen) = isErrType f := by
  simp [isErrType, hdrlen, List.take_take]

theorem sizeOfHeader_append {f rest : Bytes} (h : hdrlen ≤ f.length) :
    sizeOfHeader (f ++ rest) = sizeOfHeader f := by
  rw [← sizeOfHeader_take, List.take_append_of_le_length h, sizeOfHeader_take]

theorem isErrType_append {f rest : Bytes} (h : hdrlen ≤ f.length) :
    isErrType (f ++ rest) = isErrType f := by
  rw [← isErrType_take, List.take_append_of_le_length h, isErrType_take]

/-- what `receiveFlat` does when the stream starts with a complete frame -/
theorem receiveFlat_complete {rcvBuf : Nat} {f rest : Bytes} (hf : completeFrame rcvBuf f) :
    receiveFlat rcvBuf (f ++ rest) =
      if isErrType f then
        match decodeErr (f.drop hdrlen) with
        | none => .stop .errDecode
        | some (c, r) => .stop (.errf c r)
      else .frame f rest := by
  obtain ⟨h8, hle, hsz⟩ := hf
  have hb : ¬ rcvBuf < hdrlen := by omega
  have hlen : ¬ (f ++ rest).length < hdrlen := by simp; omega
  have htake : (f ++ rest).take hdrlen = f.take hdrlen := List.take_append_of_le_length h8
  have hdrop : (f ++ rest).drop hdrlen = f.drop hdrlen ++ rest := List.drop_append_of_le_length h8
  have hL : ¬ sizeOfHeader (f.take hdrlen) > rcvBuf := by rw [sizeOfHeader_take, hsz]; omega
  have hS : ¬ sizeOfHeader (f.take hdrlen) < hdrlen := by rw [sizeOfHeader_take, hsz]; omega
  have hsz' : sizeOfHeader (f.take hdrlen) - hdrlen = (f.drop hdrlen).length := by
    rw [sizeOfHeader_take, hsz]; simp
  unfold receiveFlat
  have hbody' : ¬ (f.drop hdrlen ++ rest).length < (f.drop hdrlen).length := by
    rw [List.length_append]; omega
  simp only [hb, hlen, if_false, htake, hdrop, hL, hS, hbody', isErrType_take, hsz',
    List.take_left' rfl, List.drop_left' rfl, List.take_append_drop]

theorem receiveFlat_wellFormed {rcvBuf : Nat} {f rest : Bytes} (hf : wellFormed rcvBuf f) :
    receiveFlat rcvBuf (f ++ rest) = .frame f rest := by
  rw [receiveFlat_complete hf.1, hf.2]; simp

/-- whatever `receiveFlat` delivers is a complete, non-`ERR` frame and a prefix of the stream -/
theorem receiveFlat_frame_inv {rcvBuf : Nat} {bs f r : Bytes} (h : receiveFlat rcvBuf bs = .frame f r) :
    bs = f ++ r ∧ wellFormed rcvBuf f := by
  unfold receiveFlat at h
  dsimp only at h
  repeat' split at h
  all_goals cases h
  rename_i h1 h2 h3 h4 h5 h6
  have hlen : hdrlen ≤ bs.length := by omega
  have hl2 : (List.take hdrlen bs ++ List.take (sizeOfHeader (List.take hdrlen bs) - hdrlen) (List.drop hdrlen bs)).length
      = sizeOfHeader (List.take hdrlen bs) := by
    simp only [List.length_append, List.length_take, List.length_drop] at *
    omega
  refine ⟨?_, ⟨?_, ?_, ?_⟩, ?_⟩
  · rw [List.append_assoc, List.take_append_drop, List.take_append_drop]
  · rw [hl2]; omega
  · rw [hl2]; omega
  · rw [hl2, sizeOfHeader_append (by simp; omega), sizeOfHeader_take]
  · rw [isErrType_append (by simp; omega)]
    simpa using h6

theorem receiveAllFlat_cons {rcvBuf : Nat} {f rest : Bytes} (hf : wellFormed rcvBuf f) :
    receiveAllFlat rcvBuf (f ++ rest) = (f :: (receiveAllFlat rcvBuf rest).1, (receiveAllFlat rcvBuf rest).2) := by
  rw [receiveAllFlat]
  split
  · rename_i o ho; rw [receiveFlat_wellFormed hf] at ho; cases ho
  · rename_i f' r' ho
    rw [receiveFlat_wellFormed hf] at ho
    cases ho
    rfl

theorem receiveAllFlat_stop {rcvBuf : Nat} {bs : Bytes} {o : Stop} (h : receiveFlat rcvBuf bs = .stop o) :
    receiveAllFlat rcvBuf bs = ([], o) := by
  rw [receiveAllFlat]
  split
  · rename_i o' ho; rw [h] at ho; cases ho; rfl
  · rename_i f' r' ho; rw [h] at ho; cases ho

/-- good frames first, then whatever `tail` does -/
theorem receiveAllFlat_frames {rcvBuf : Nat} (fs : List Bytes) (tail : Bytes)
    (hfs : ∀ f ∈ fs, wellFormed rcvBuf f) :
    receiveAllFlat rcvBuf (fs.flatten ++ tail) =
      (fs ++ (receiveAllFlat rcvBuf tail).1, (receiveAllFlat rcvBuf tail).2) := by
  induction fs with
  | nil => simp
  | cons f fs ih =>
    rw [List.flatten_cons, List.append_assoc, receiveAllFlat_cons (hfs f (by simp)),
      ih (fun g hg => hfs g (by simp [hg]))]
    simp

end Opcua.Uacp
