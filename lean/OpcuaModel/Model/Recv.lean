import OpcuaModel.Base.Bytes
/-
  Model of the secure-channel receive path of gopcua (`uasc/secure_channel.go`)
  on the level of *decrypted chunks*: what `SecureChannel.Receive` does with the
  `*MessageChunk` that `readChunk` hands it.  Shared by C12 (reassembly), C10
  (replay), C13 (retained memory) — the raw-frame layer of C13 and the instance
  table of C17 build on it in `Model/RecvRaw.lean` / `Model/Tokens.lean`.

  The functions mirror the Go statements one by one, defects included:

    switch hdr.ChunkType {
    case 'A': delete(s.chunks, reqID); decode MessageAbort …
    case 'C': s.chunks[reqID] = append(s.chunks[reqID], chunk)
              if n := len(s.chunks[reqID]); uint32(n) > s.c.MaxChunkCount() { delete …; too many chunks }
              continue
    }
    all := append(s.chunks[reqID], chunk); delete(s.chunks, reqID)
    b, err := mergeChunks(all)
    if uint32(len(b)) > s.c.MaxMessageSize() { message too large }
    (both comparisons possibly guarded by `limit != 0 &&`, see `Cfg.chunk0/size0`)
    _, body, err := ua.DecodeService(b)

  `ua.DecodeService` and everything after it is outside this model: the result
  `Out.merged req b` says "these bytes are handed to the decoder for request id
  `req`" (the runners apply the real decoder to them).  Note that *every* chunk
  type other than 'A' and 'C' is treated as final by the code.
-/
namespace Opcua.Recv
open Opcua

/-- a chunk as `Receive` sees it after `readChunk`: chunk-type byte, the two
    fields of the (decrypted) sequence header and the payload -/
structure Chunk where
  ct : Nat
  seq : Nat
  req : Nat
  data : Bytes
  deriving Repr, DecidableEq

def ctA : Nat := 65
def ctC : Nat := 67
def ctF : Nat := 70

/-- the two limits `Receive` reads from the connection (`s.c.MaxChunkCount()`,
    `s.c.MaxMessageSize()`) -/
structure Cfg where
  maxChunkCount : Nat
  maxMessageSize : Nat
  /-- the chunk-count check is guarded by `MaxChunkCount() != 0` (0 = no limit);
      read from the source by the generator (`Gen.RecvFacts`) -/
  chunk0 : Bool := false
  /-- the same for the message-size check -/
  size0 : Bool := false
  deriving Repr, DecidableEq

/-- `[max != 0 &&] n > max` — the form of both limit checks of `Receive` -/
def exceeds (zeroUnlimited : Bool) (n max : Nat) : Bool :=
  (!zeroUnlimited || max != 0) && decide (n > max)

theorem exceeds_mono {z : Bool} {n m max : Nat} (h : exceeds z n max = false) (hm : m ≤ n) :
    exceeds z m max = false := by
  unfold exceeds at *
  cases z <;> simp at * <;> omega

/-- `s.chunks : map[uint32][]*MessageChunk`; an absent key reads as `nil` -/
abbrev Bufs := List (Nat × List Chunk)

def Bufs.get (b : Bufs) (r : Nat) : List Chunk :=
  match b.find? (fun e => e.1 == r) with
  | some e => e.2
  | none => []

/-- `delete(s.chunks, r)` -/
def Bufs.del (b : Bufs) (r : Nat) : Bufs := b.filter (fun e => !(e.1 == r))

/-- `s.chunks[r] = v` -/
def Bufs.set (b : Bufs) (r : Nat) (v : List Chunk) : Bufs := (r, v) :: b.del r

/-- what one pass through the loop body of `Receive` produces -/
inductive Out where
  /-- `continue`: nothing is returned, the next chunk is read -/
  | cont
  /-- a well-formed abort chunk: `MessageBody{RequestID, Err: StatusCode(code)}` -/
  | abort (req code : Nat)
  /-- an abort chunk whose body does not decode: `Err = BadDecodingError` -/
  | abortBad (req : Nat)
  /-- `too many chunks: n > MaxChunkCount` -/
  | tooMany (req n : Nat)
  /-- `message too large` -/
  | tooLarge (req len : Nat)
  /-- the merged bytes are handed to `ua.DecodeService` -/
  | merged (req : Nat) (body : Bytes)
  deriving Repr, DecidableEq

/-- `MessageAbort.Decode`: `ReadUint32` error code, `ReadString` reason
    (`ReadBytes`: length 0 and 0xffffffff read as nil, a length beyond the
    buffer is an error).  Returns the error code. -/
def decodeAbort (d : Bytes) : Option Nat :=
  if d.length < 4 then none else
  let code := leVal (d.take 4)
  let r := d.drop 4
  if r.length < 4 then none else
  let n := leVal (r.take 4)
  if n = 0 ∨ n = 4294967295 then some code
  else if n > r.length - 4 then none else some code

/-- the loop of `mergeChunks` from the second chunk on: `seqnr` is the last
    sequence number kept; a chunk whose number equals it is skipped as "duplicate" -/
def mergeLoop : Nat → List Chunk → Bytes
  | _, [] => []
  | seqnr, c :: cs =>
    if c.seq = seqnr then mergeLoop seqnr cs
    else c.data ++ mergeLoop c.seq cs

/-- `mergeChunks` (it never returns an error): a single chunk is returned as it
    is; otherwise `for i, c := range chunks { if i > 0 && c.seq == seqnr { continue }; … }`
    — the first chunk is always kept (repair of C12.merge-drops-seq0) -/
def mergeChunks : List Chunk → Bytes
  | [] => []
  | [c] => c.data
  | c :: cs => c.data ++ mergeLoop c.seq cs

/-- the part of `Receive` after `readChunk` for one request id, on the buffer
    `buf = s.chunks[reqID]`: new buffer and result -/
def step1 (cfg : Cfg) (buf : List Chunk) (c : Chunk) : List Chunk × Out :=
  if c.ct = ctA then
    ([], match decodeAbort c.data with
         | some code => .abort c.req code
         | none => .abortBad c.req)
  else if c.ct = ctC then
    let buf' := buf ++ [c]
    if exceeds cfg.chunk0 buf'.length cfg.maxChunkCount then ([], .tooMany c.req buf'.length)
    else (buf', .cont)
  else
    let b := mergeChunks (buf ++ [c])
    if exceeds cfg.size0 b.length cfg.maxMessageSize then ([], .tooLarge c.req b.length)
    else ([], .merged c.req b)

/-- one pass through the loop body of `Receive` on the whole table -/
def step (cfg : Cfg) (bufs : Bufs) (c : Chunk) : Bufs × Out :=
  if c.ct = ctA then
    let bufs' := bufs.del c.req
    (bufs', match decodeAbort c.data with
            | some code => .abort c.req code
            | none => .abortBad c.req)
  else if c.ct = ctC then
    let bufs' := bufs.set c.req (bufs.get c.req ++ [c])
    let n := (bufs'.get c.req).length
    if exceeds cfg.chunk0 n cfg.maxChunkCount then (bufs'.del c.req, .tooMany c.req n)
    else (bufs', .cont)
  else
    let all := bufs.get c.req ++ [c]
    let bufs' := bufs.del c.req
    let b := mergeChunks all
    if exceeds cfg.size0 b.length cfg.maxMessageSize then (bufs', .tooLarge c.req b.length)
    else (bufs', .merged c.req b)

/-- the results of feeding a chunk stream, one per chunk -/
def runOuts (cfg : Cfg) : Bufs → List Chunk → List Out
  | _, [] => []
  | bufs, c :: cs => (step cfg bufs c).2 :: runOuts cfg (step cfg bufs c).1 cs

/-- the table after a chunk stream -/
def runFinal (cfg : Cfg) : Bufs → List Chunk → Bufs
  | bufs, [] => bufs
  | bufs, c :: cs => runFinal cfg (step cfg bufs c).1 cs

/-- what the callers of `Receive` get: every result except `continue` -/
def returned (outs : List Out) : List Out := outs.filter (fun o => !(o == .cont))

/-- the byte strings handed to the service decoder, with their request id -/
def delivered (outs : List Out) : List (Nat × Bytes) :=
  outs.filterMap fun
    | .merged r b => some (r, b)
    | _ => none

/-! ### retained memory (C13) -/

/-- number of map entries, retained chunks, retained payload bytes -/
def Bufs.entries (b : Bufs) : Nat := b.length
def Bufs.nchunks (b : Bufs) : Nat := (b.map fun e => e.2.length).sum
def chunksBytes (l : List Chunk) : Nat := (l.map fun c => c.data.length).sum
def Bufs.held (b : Bufs) : Nat := (b.map fun e => chunksBytes e.2).sum

/-! ### lemmas about the table -/

theorem Bufs.get_del_same (b : Bufs) (r : Nat) : (b.del r).get r = [] := by
  unfold Bufs.get Bufs.del
  have : (b.filter (fun e => !(e.1 == r))).find? (fun e => e.1 == r) = none := by
    rw [List.find?_eq_none]
    intro x hx
    have := (List.mem_filter.mp hx).2
    simpa using this
  rw [this]

theorem find_del_other (b : Bufs) {r r' : Nat} (h : r' ≠ r) :
    (b.filter (fun e => !(e.1 == r))).find? (fun e => e.1 == r') = b.find? (fun e => e.1 == r') := by
  induction b with
  | nil => rfl
  | cons e t ih =>
    rw [List.filter_cons]
    by_cases he : e.1 = r
    · have hne : ¬ e.1 = r' := by omega
      simp only [he, beq_self_eq_true, Bool.not_true, Bool.false_eq_true, if_false]
      rw [ih, List.find?_cons]
      have : (e.1 == r') = false := by simpa using hne
      simp [this]
    · have : (!(e.1 == r)) = true := by simpa using he
      simp only [this, if_true, List.find?_cons]
      split
      · rfl
      · exact ih

theorem Bufs.get_del_other (b : Bufs) {r r' : Nat} (h : r' ≠ r) : (b.del r).get r' = b.get r' := by
  unfold Bufs.get Bufs.del
  rw [find_del_other b h]

theorem Bufs.get_set_same (b : Bufs) (r : Nat) (v : List Chunk) : (b.set r v).get r = v := by
  simp [Bufs.get, Bufs.set]

theorem Bufs.get_set_other (b : Bufs) {r r' : Nat} (v : List Chunk) (h : r' ≠ r) :
    (b.set r v).get r' = b.get r' := by
  have h' : (r == r') = false := by
    have : ¬ r = r' := by omega
    simpa using this
  have := Bufs.get_del_other b h
  unfold Bufs.get at this ⊢
  unfold Bufs.set
  rw [List.find?_cons]
  simp only [h']
  exact this

/-- `step` is `step1` on the buffer of the chunk's request id … -/
theorem step_get_same (cfg : Cfg) (bufs : Bufs) (c : Chunk) :
    ((step cfg bufs c).1.get c.req, (step cfg bufs c).2) = step1 cfg (bufs.get c.req) c := by
  unfold step step1
  by_cases hA : c.ct = ctA
  · simp only [if_pos hA, Bufs.get_del_same]
  · by_cases hC : c.ct = ctC
    · simp only [if_neg hA, if_pos hC, Bufs.get_set_same]
      by_cases hn : exceeds cfg.chunk0 (bufs.get c.req ++ [c]).length cfg.maxChunkCount = true
      · simp only [if_pos hn, Bufs.get_del_same]
      · simp only [if_neg hn, Bufs.get_set_same]
    · simp only [if_neg hA, if_neg hC]
      by_cases hn : exceeds cfg.size0 (mergeChunks (bufs.get c.req ++ [c])).length cfg.maxMessageSize = true
      · simp only [if_pos hn, Bufs.get_del_same]
      · simp only [if_neg hn, Bufs.get_del_same]

/-- … and leaves every other request id alone -/
theorem step_get_other (cfg : Cfg) (bufs : Bufs) (c : Chunk) {r : Nat} (h : r ≠ c.req) :
    (step cfg bufs c).1.get r = bufs.get r := by
  unfold step
  by_cases hA : c.ct = ctA
  · simp only [if_pos hA, Bufs.get_del_other _ h]
  · by_cases hC : c.ct = ctC
    · simp only [if_neg hA, if_pos hC, Bufs.get_set_same]
      by_cases hn : exceeds cfg.chunk0 (bufs.get c.req ++ [c]).length cfg.maxChunkCount = true
      · simp only [if_pos hn, Bufs.get_del_other _ h, Bufs.get_set_other _ _ h]
      · simp only [if_neg hn, Bufs.get_set_other _ _ h]
    · simp only [if_neg hA, if_neg hC]
      by_cases hn : exceeds cfg.size0 (mergeChunks (bufs.get c.req ++ [c])).length cfg.maxMessageSize = true
      · simp only [if_pos hn, Bufs.get_del_other _ h]
      · simp only [if_neg hn, Bufs.get_del_other _ h]

/-! ### lemmas about `mergeChunks` -/

/-- no chunk is skipped: the first number differs from `prev` and neighbours differ -/
def seqChain : Nat → List Nat → Prop
  | _, [] => True
  | prev, s :: r => s ≠ prev ∧ seqChain s r

instance : (prev : Nat) → (l : List Nat) → Decidable (seqChain prev l)
  | _, [] => isTrue trivial
  | prev, s :: r => by
      unfold seqChain
      have := instDecidableSeqChain s r
      infer_instance

def allData (cs : List Chunk) : Bytes := (cs.map (·.data)).flatten

theorem mergeLoop_all (prev : Nat) (cs : List Chunk) (h : seqChain prev (cs.map (·.seq))) :
    mergeLoop prev cs = allData cs := by
  induction cs generalizing prev with
  | nil => rfl
  | cons c t ih =>
    simp only [List.map, seqChain] at h
    simp [mergeLoop, h.1, allData, ih c.seq h.2]

/-- neighbouring numbers differ -/
def adjDistinct : List Nat → Prop
  | [] => True
  | a :: r => seqChain a r

instance : (l : List Nat) → Decidable (adjDistinct l)
  | [] => isTrue trivial
  | a :: r => by unfold adjDistinct; infer_instance

/-- `mergeChunks` concatenates all payloads when no chunk repeats the number of
    its predecessor -/
theorem mergeChunks_all (cs : List Chunk) (h : adjDistinct (cs.map (·.seq))) :
    mergeChunks cs = allData cs := by
  match cs, h with
  | [], _ => rfl
  | [c], _ => simp [mergeChunks, allData]
  | a :: b :: t, h =>
    simp only [mergeChunks]
    have := mergeLoop_all a.seq (b :: t) h
    rw [this]
    simp [allData]

/-! ### runs -/

theorem runOuts_append (cfg : Cfg) (bufs : Bufs) (a b : List Chunk) :
    runOuts cfg bufs (a ++ b) = runOuts cfg bufs a ++ runOuts cfg (runFinal cfg bufs a) b := by
  induction a generalizing bufs with
  | nil => rfl
  | cons c t ih => simp [runOuts, runFinal, ih]

theorem runFinal_append (cfg : Cfg) (bufs : Bufs) (a b : List Chunk) :
    runFinal cfg bufs (a ++ b) = runFinal cfg (runFinal cfg bufs a) b := by
  induction a generalizing bufs with
  | nil => rfl
  | cons c t ih => simp [runFinal, ih]

theorem delivered_append (a b : List Out) : delivered (a ++ b) = delivered a ++ delivered b := by
  simp [delivered, List.filterMap_append]

/-! ### secured frames (C10)

  `readChunk` turns a frame into a chunk by `verifyAndDecrypt` (which tries
  the instances stored for the frame's channel id) and then decodes the
  sequence header *without comparing it with anything*: the channel keeps no
  receive-side sequence state.  So what a frame opens to is a function of the
  frame and of the key material alone — `unwrap` — and not of the history.
  (That this is how the code behaves is what the C10 correspondence run
  checks on real Sign / SignAndEncrypt channels.) -/

/-- one frame through `readChunk` + the loop body of `Receive`; `none` = the
    frame is rejected by `readChunk` (`Receive` returns that error) -/
def stepSealed (unwrap : Bytes → Option Chunk) (cfg : Cfg) (bufs : Bufs) (frame : Bytes) : Bufs × Option Out :=
  match unwrap frame with
  | none => (bufs, none)
  | some c => ((step cfg bufs c).1, some (step cfg bufs c).2)

def runSealed (unwrap : Bytes → Option Chunk) (cfg : Cfg) : Bufs → List Bytes → List (Option Out)
  | _, [] => []
  | bufs, f :: fs => (stepSealed unwrap cfg bufs f).2 :: runSealed unwrap cfg (stepSealed unwrap cfg bufs f).1 fs

def deliveredSealed (outs : List (Option Out)) : List (Nat × Bytes) :=
  delivered (outs.filterMap id)

end Opcua.Recv
