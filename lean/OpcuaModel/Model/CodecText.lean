import OpcuaModel.Model.Codec
/-
  Canonical text of types and values on the line protocol of the codec drivers
  (C01–C03).  Tokens are separated by single spaces; the Go side prints the
  same text with a reflective printer (harness/internal/codecx).

  types   bool i1 i2 i4 i8 f4 f8 str time bytes sl( T ) ptr( T ) st( T* )
          guid nodeid expnodeid loctext diag datavalue variant extobj @Name
  values  T F            bool
          i<n>           integer (bit pattern)
          f<n> d<n>      float32 / float64 bits (every NaN is the quiet NaN)
          s<hex>         string bytes
          tz t<ns>       zero time / Unix nanoseconds
          bn b<hex>      nil / non-nil []byte
          ln l( V* )     nil / non-nil slice
          n  p( V )      nil pointer or interface / pointer
          r( V* )        struct
          g( d1 d2 d3 hex )                      GUID
          N( mask ns nid B G )                   NodeID (B: bn|b<hex>, G: n|g(…))
          E( N uri idx )                         ExpandedNodeID (N: n|N(…), uri: s<hex>)
          L( mask s<hex> s<hex> )                LocalizedText
          D( ( mask sym ns loc lt s<hex> status )* )   DiagnosticInfo levels
          V( mask V status T ps T ps )           DataValue
          A( mask alen dlen M base depth V )     Variant (M: mn | m( n* ))
          X( mask E name V )                     ExtensionObject (E: n|E(…), name: Go type name or -)
  This file is driver code (parser and printer are `partial`); no theorem depends on it.
-/
namespace Opcua.Codec
open Opcua

def hexS (b : Bytes) : String := toHex b

/-- the string without its first character -/
def tail1 (s : String) : String := (s.drop 1).toString

partial def printVal : Val → String
  | .bool b => if b then "T" else "F"
  | .int n => s!"i{n}"
  | .f32 n => s!"f{n}"
  | .f64 n => s!"d{n}"
  | .str s => "s" ++ hexS s
  | .time none => "tz"
  | .time (some t) => s!"t{t}"
  | .bytes none => "bn"
  | .bytes (some b) => "b" ++ hexS b
  | .slice true _ => "ln"
  | .slice false xs => "l(" ++ String.join (xs.map fun x => " " ++ printVal x) ++ " )"
  | .nil => "n"
  | .ptr v => "p( " ++ printVal v ++ " )"
  | .struct fs => "r(" ++ String.join (fs.map fun x => " " ++ printVal x) ++ " )"
  | .guid g => printGuid g
  | .nodeId n => printNodeId n
  | .expNodeId e => printExp e
  | .locText l => s!"L( {l.mask} s{hexS l.locale} s{hexS l.text} )"
  | .diag ls => "D(" ++ String.join (ls.map fun l =>
      s!" ( {l.mask} {l.sym} {l.ns} {l.loc} {l.lt} s{hexS l.info} {l.status} )") ++ " )"
  | .dataValue m v st t1 p1 t2 p2 =>
      s!"V( {m} {printVal v} {st} {printTime t1} {p1} {printTime t2} {p2} )"
  | .variant m al dl dims vt v =>
      let ds := match dims with
        | none => "mn"
        | some l => "m(" ++ String.join (l.map fun d => s!" {d}") ++ " )"
      s!"A( {m} {al} {dl} {ds} {vt.base} {vt.depth} {printVal v} )"
  | .extObj m tid name v =>
      let t := match tid with
        | none => "n"
        | some e => printExp e
      s!"X( {m} {t} {if name.isEmpty then "-" else name} {printVal v} )"
where
  printTime : Option Int → String
    | none => "tz"
    | some t => s!"t{t}"
  printGuid (g : Guid) : String := s!"g( {g.d1} {g.d2} {g.d3} {hexS g.d4} )"
  printNodeId (n : NodeId) : String :=
    let b := match n.bid with
      | none => "bn"
      | some x => "b" ++ hexS x
    let g := match n.gid with
      | none => "n"
      | some x => printGuid x
    s!"N( {n.mask} {n.ns} {n.nid} {b} {g} )"
  printExp (e : ExpNodeId) : String :=
    let n := match e.nodeId with
      | none => "n"
      | some x => printNodeId x
    s!"E( {n} s{hexS e.uri} {e.idx} )"

abbrev P (α : Type) := List String → Option (α × List String)

def pTok (t : String) : P Unit
  | x :: r => if x == t then some ((), r) else none
  | [] => none

def pNat : P Nat
  | x :: r => x.toNat?.map (·, r)
  | [] => none

def pHexAfter (pre : Char) : P Bytes
  | x :: r => if x.front == pre then (fromHex (tail1 x)).map (·, r) else none
  | [] => none

def pTime : P (Option Int)
  | x :: r =>
    if x == "tz" then some (none, r)
    else if x.front == 't' then (tail1 x).toInt?.map (fun t => (some t, r))
    else none
  | [] => none

def pOptBytes : P (Option Bytes)
  | x :: r =>
    if x == "bn" then some (none, r)
    else if x.front == 'b' then (fromHex (tail1 x)).map (fun b => (some b, r))
    else none
  | [] => none

def pGuid : P Guid := fun ts => do
  let (_, ts) ← pTok "g(" ts
  let (d1, ts) ← pNat ts
  let (d2, ts) ← pNat ts
  let (d3, ts) ← pNat ts
  let (d4, ts) ← match ts with
    | x :: r => (fromHex x).map (·, r)
    | [] => none
  let (_, ts) ← pTok ")" ts
  pure (⟨d1, d2, d3, d4⟩, ts)

def pNodeId : P NodeId := fun ts => do
  let (_, ts) ← pTok "N(" ts
  let (mask, ts) ← pNat ts
  let (ns, ts) ← pNat ts
  let (nid, ts) ← pNat ts
  let (bid, ts) ← pOptBytes ts
  let (gid, ts) ← match ts with
    | "n" :: r => some (none, r)
    | _ => (pGuid ts).map fun (g, r) => (some g, r)
  let (_, ts) ← pTok ")" ts
  pure (⟨mask, ns, nid, bid, gid⟩, ts)

def pExp : P ExpNodeId := fun ts => do
  let (_, ts) ← pTok "E(" ts
  let (n, ts) ← match ts with
    | "n" :: r => some (none, r)
    | _ => (pNodeId ts).map fun (g, r) => (some g, r)
  let (uri, ts) ← pHexAfter 's' ts
  let (idx, ts) ← pNat ts
  let (_, ts) ← pTok ")" ts
  pure (⟨n, uri, idx⟩, ts)

partial def pMany {α : Type} (p : P α) : P (List α) := fun ts =>
  match ts with
  | ")" :: r => some ([], r)
  | _ => do
    let (a, ts) ← p ts
    let (as, ts) ← pMany p ts
    pure (a :: as, ts)

def pDiagLevel : P DiagLevel := fun ts => do
  let (_, ts) ← pTok "(" ts
  let (mask, ts) ← pNat ts
  let (sym, ts) ← pNat ts
  let (ns, ts) ← pNat ts
  let (loc, ts) ← pNat ts
  let (lt, ts) ← pNat ts
  let (info, ts) ← pHexAfter 's' ts
  let (status, ts) ← pNat ts
  let (_, ts) ← pTok ")" ts
  pure (⟨mask, sym, ns, loc, lt, info, status⟩, ts)

partial def pVal : P Val := fun ts =>
  match ts with
  | [] => none
  | x :: r =>
    if x == "T" then some (.bool true, r)
    else if x == "F" then some (.bool false, r)
    else if x == "tz" then some (.time none, r)
    else if x == "bn" then some (.bytes none, r)
    else if x == "ln" then some (.slice true [], r)
    else if x == "n" then some (.nil, r)
    else if x == "l(" then (pMany pVal r).map fun (xs, r) => (.slice false xs, r)
    else if x == "r(" then (pMany pVal r).map fun (xs, r) => (.struct xs, r)
    else if x == "p(" then do
      let (v, r) ← pVal r
      let (_, r) ← pTok ")" r
      pure (.ptr v, r)
    else if x == "g(" then (pGuid ts).map fun (g, r) => (.guid g, r)
    else if x == "N(" then (pNodeId ts).map fun (g, r) => (.nodeId g, r)
    else if x == "E(" then (pExp ts).map fun (g, r) => (.expNodeId g, r)
    else if x == "L(" then do
      let (mask, r) ← pNat r
      let (a, r) ← pHexAfter 's' r
      let (b, r) ← pHexAfter 's' r
      let (_, r) ← pTok ")" r
      pure (.locText ⟨mask, a, b⟩, r)
    else if x == "D(" then (pMany pDiagLevel r).map fun (xs, r) => (.diag xs, r)
    else if x == "V(" then do
      let (mask, r) ← pNat r
      let (v, r) ← pVal r
      let (st, r) ← pNat r
      let (t1, r) ← pTime r
      let (p1, r) ← pNat r
      let (t2, r) ← pTime r
      let (p2, r) ← pNat r
      let (_, r) ← pTok ")" r
      pure (.dataValue mask v st t1 p1 t2 p2, r)
    else if x == "A(" then do
      let (mask, r) ← pNat r
      let (al, r) ← pNat r
      let (dl, r) ← pNat r
      let (dims, r) ← match r with
        | "mn" :: r => some (none, r)
        | "m(" :: r => (pMany pNat r).map fun (xs, r) => (some xs, r)
        | _ => none
      let (base, r) ← pNat r
      let (depth, r) ← pNat r
      let (v, r) ← pVal r
      let (_, r) ← pTok ")" r
      pure (.variant mask al dl dims ⟨base, depth⟩ v, r)
    else if x == "X(" then do
      let (mask, r) ← pNat r
      let (tid, r) ← match r with
        | "n" :: r => some (none, r)
        | _ => (pExp r).map fun (g, r) => (some g, r)
      let (name, r) ← match r with
        | nm :: r => some (if nm == "-" then "" else nm, r)
        | [] => none
      let (v, r) ← pVal r
      let (_, r) ← pTok ")" r
      pure (.extObj mask tid name v, r)
    else
      let c := x.front
      let rest := tail1 x
      if c == 'i' then rest.toNat?.map fun n => (.int n, r)
      else if c == 'f' then rest.toNat?.map fun n => (.f32 n, r)
      else if c == 'd' then rest.toNat?.map fun n => (.f64 n, r)
      else if c == 's' then (fromHex rest).map fun b => (.str b, r)
      else if c == 't' then rest.toInt?.map fun n => (.time (some n), r)
      else if c == 'b' then (fromHex rest).map fun b => (.bytes (some b), r)
      else none

/-- type expressions; `named` resolves `@Name` -/
partial def pTy (named : String → Option Ty) : P Ty := fun ts =>
  match ts with
  | [] => none
  | x :: r =>
    match x with
    | "bool" => some (.bool, r)
    | "i1" => some (.int 1, r)
    | "i2" => some (.int 2, r)
    | "i4" => some (.int 4, r)
    | "i8" => some (.int 8, r)
    | "f4" => some (.f32, r)
    | "f8" => some (.f64, r)
    | "str" => some (.string, r)
    | "time" => some (.time, r)
    | "bytes" => some (.bytes, r)
    | "guid" => some (.guid, r)
    | "nodeid" => some (.nodeId, r)
    | "expnodeid" => some (.expNodeId, r)
    | "loctext" => some (.locText, r)
    | "diag" => some (.diag, r)
    | "datavalue" => some (.dataValue, r)
    | "variant" => some (.variant, r)
    | "extobj" => some (.extObj, r)
    | "sl(" => do
      let (e, r) ← pTy named r
      let (_, r) ← pTok ")" r
      pure (.slice e, r)
    | "ptr(" => do
      let (e, r) ← pTy named r
      let (_, r) ← pTok ")" r
      pure (.ptr e, r)
    | "st(" => (pMany (pTy named) r).map fun (xs, r) => (.struct xs, r)
    | _ => if x.front == '@' then (named (tail1 x)).map (·, r) else none

def failName : Fail → String
  | .err => "err"
  | .panicNegLen => "panic-neglen"
  | .panicSlice => "panic-slice"
  | .panicIndex => "panic-index"
  | .panicNilValue => "panic-nilvalue"
  | .panicNilPtr => "panic-nilptr"
  | .diverge => "diverge"
  | .depth => "depth"
  | .alloc => "alloc"
  | .illTyped => "ill-typed"

end Opcua.Codec
