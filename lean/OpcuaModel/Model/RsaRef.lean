import OpcuaModel.Base.Bytes
import OpcuaModel.Model.CryptoRef
/-
  Executable Lean reference for ONE asymmetric primitive (C15, stage 2):
  RSASSA-PKCS1-v1_5 signature VERIFICATION (RFC 8017 §8.2.2): modular
  exponentiation on `Nat` (square and multiply), OS2IP / I2OSP, EMSA-PKCS1-v1_5
  encoding with the SHA-1 / SHA-256 DigestInfo prefixes. The hash functions
  are the reference of `Model/CryptoRef.lean` (imported read-only).
  OAEP and PSS stay abstract (`Model/Asym.lean`).
-/
namespace Opcua.RsaRef
open Opcua Opcua.CryptoRef

/-! ### OS2IP / I2OSP (big-endian) -/

/-- OS2IP: big-endian octet string → integer -/
def os2ip (b : Bytes) : Nat := leVal b.reverse

/-- I2OSP: integer → big-endian octet string of length `k` (value taken mod 256^k) -/
def i2osp (x k : Nat) : Bytes := (leBytes k x).reverse

theorem leBytes_leVal (l : Bytes) : leBytes l.length (leVal l) = l := by
  induction l with
  | nil => rfl
  | cons b r ih =>
    simp only [List.length_cons, leBytes, leVal]
    have hb : b.toNat < 256 := b.toNat_lt
    have h1 : (b.toNat + 256 * leVal r) % 256 = b.toNat := by omega
    have h2 : (b.toNat + 256 * leVal r) / 256 = leVal r := by omega
    rw [h1, h2, ih]
    simp

theorem i2osp_length (x k : Nat) : (i2osp x k).length = k := by
  simp [i2osp]

/-! ### Modular exponentiation -/

/-- square and multiply, least significant bit first, tail recursive:
    invariant `result ≡ acc · base^e (mod n)` -/
def modPowAux (n base e acc : Nat) : Nat :=
  if _h : e = 0 then acc
  else modPowAux n (base * base % n) (e / 2) (if e % 2 = 1 then acc * base % n else acc)
termination_by e
decreasing_by omega

/-- `b^e mod n` -/
def modPow (b e n : Nat) : Nat := modPowAux n (b % n) e 1 % n

theorem modPowAux_spec (n : Nat) : ∀ (e base acc : Nat), modPowAux n base e acc % n = acc * base ^ e % n := by
  intro e
  induction e using Nat.strongRecOn with
  | _ e ih =>
    intro base acc
    rw [modPowAux]
    by_cases h0 : e = 0
    · simp [h0]
    · simp only [h0, dite_false]
      rw [ih (e / 2) (by omega)]
      -- (base² % n)^(e/2) ≡ base^(2·(e/2))
      have hsq : (base * base % n) ^ (e / 2) % n = base ^ (2 * (e / 2)) % n := by
        rw [← Nat.pow_mod, Nat.pow_mul, Nat.pow_two]
      by_cases hodd : e % 2 = 1
      · simp only [hodd, if_true]
        have he : e = 2 * (e / 2) + 1 := by omega
        calc (acc * base % n) * (base * base % n) ^ (e / 2) % n
            = ((acc * base % n) % n) * ((base * base % n) ^ (e / 2) % n) % n := by rw [← Nat.mul_mod]
          _ = ((acc * base) % n) * (base ^ (2 * (e / 2)) % n) % n := by rw [Nat.mod_mod, hsq]
          _ = (acc * base) * base ^ (2 * (e / 2)) % n := by rw [← Nat.mul_mod]
          _ = acc * base ^ e % n := by
              conv => rhs; rw [he, Nat.pow_succ]
              congr 1
              rw [Nat.mul_assoc, Nat.mul_comm base]
      · simp only [hodd, if_false]
        have he : e = 2 * (e / 2) := by omega
        calc acc * (base * base % n) ^ (e / 2) % n
            = (acc % n) * ((base * base % n) ^ (e / 2) % n) % n := by rw [← Nat.mul_mod]
          _ = (acc % n) * (base ^ (2 * (e / 2)) % n) % n := by rw [hsq]
          _ = acc * base ^ (2 * (e / 2)) % n := by rw [← Nat.mul_mod]
          _ = acc * base ^ e % n := by rw [← he]

/-! ### EMSA-PKCS1-v1_5 -/

/-- DER prefix of `DigestInfo` (RFC 8017 §9.2 note 1) -/
def digestInfoPrefix : HashAlg → Bytes
  | .sha1 => [0x30, 0x21, 0x30, 0x09, 0x06, 0x05, 0x2b, 0x0e, 0x03, 0x02, 0x1a, 0x05, 0x00, 0x04, 0x14]
  | .sha256 => [0x30, 0x31, 0x30, 0x0d, 0x06, 0x09, 0x60, 0x86, 0x48, 0x01, 0x65, 0x03, 0x04, 0x02, 0x01,
      0x05, 0x00, 0x04, 0x20]

/-- `EM = 0x00 ‖ 0x01 ‖ PS ‖ 0x00 ‖ T`, `T = DigestInfo prefix ‖ digest`, `PS` = at least 8 bytes 0xff;
    `none` = "intended encoded message length too short" -/
def emsaOfDigest (h : HashAlg) (digest : Bytes) (k : Nat) : Option Bytes :=
  let t := digestInfoPrefix h ++ digest
  if k < t.length + 11 then none
  else some (0x00 :: 0x01 :: (List.replicate (k - t.length - 3) 0xff ++ 0x00 :: t))

def hashBytes (h : HashAlg) (msg : Bytes) : Bytes := toBytes (h.run (ofBytes msg))

def emsa (h : HashAlg) (msg : Bytes) (k : Nat) : Option Bytes := emsaOfDigest h (hashBytes h msg) k

/-! ### RSASSA-PKCS1-v1_5 verification -/

/-- length of the modulus in bytes, `rsa.PublicKey.Size()` -/
def byteLen (n : Nat) : Nat := if n = 0 then 0 else Nat.log2 n / 8 + 1

/-- RFC 8017 §8.2.2 (and Go's `rsa.VerifyPKCS1v15`): length check, RSAVP1
    (signature representative out of range → invalid), EMSA-PKCS1-v1_5 of the
    message, comparison of the two encoded messages -/
def rsaVerifyPkcs1v15 (n e : Nat) (h : HashAlg) (msg sig : Bytes) : Bool :=
  let k := byteLen n
  if sig.length ≠ k then false
  else if os2ip sig ≥ n then false
  else match emsa h msg k with
    | none => false
    | some em => i2osp (modPow (os2ip sig) e n) k == em

end Opcua.RsaRef
