import OpcuaModel.Base.Bytes
/-
  Byte-level model of `channelInstance.verifyAndDecrypt`
  (uasc/secure_channel_instance.go), statement by statement, for a chunk whose
  headers were decoded (`MessageChunk.Decode` consumed `H` bytes, so `H ≤ |r|`)
  and which is not the unsecured carve-out (`SecurityMode == None …` returns
  `m.Data` before anything else).

  The cryptographic primitives are parameters: `dec` is `c.algo.Decrypt`
  (AES-CBC or block RSA), `verify` is `c.algo.VerifySignature` (HMAC or RSA).
  Nothing is assumed about them in the structural theorems; the conditional
  theorem states its idealisation explicitly.
-/
namespace Opcua.Tamper
open Opcua

/-- the slice / index expressions of the function that can panic -/
inductive Site where
  /-- `b[headerLength:]` (only if the caller passes fewer bytes than the headers it decoded) -/
  | hdr
  /-- `signature := b[len(b)-c.algo.RemoteSignatureLength():]` -/
  | sigSlice
  /-- `messageToVerify[len(messageToVerify)-1]` -/
  | padByte
  /-- `messageToVerify[len(messageToVerify)-2]` -/
  | padByte2
  /-- `messageToVerify[headerLength : len(messageToVerify)-paddingLength]` -/
  | bodySlice
  deriving Repr, DecidableEq

inductive Out where
  | ok (data : Bytes) | err | panic (s : Site)
  deriving Repr, DecidableEq

structure Params where
  /-- `headerLength` = 12 + security header length -/
  H : Nat
  /-- `c.algo.RemoteSignatureLength()` -/
  RS : Nat
  /-- `c.algo.SignatureLength()` (decides the two-byte padding size) -/
  S : Nat
  /-- `SecurityMode == SignAndEncrypt || isAsymmetric` -/
  enc : Bool
  deriving Repr, DecidableEq

/-- `paddingLength` as the code computes it from the verified bytes;
    `none` = an index expression panics -/
def paddingLength (P : Params) (mtv : Bytes) : Except Site Nat :=
  if !P.enc then .ok 0 else
  if mtv.length = 0 then .error .padByte else
  let last := (mtv.getD (mtv.length - 1) 0).toNat
  if P.S > 256 then
    if mtv.length < 2 then .error .padByte2 else
    -- paddingLength <<= 8; += messageToVerify[len-2]; += 1; then += 1
    .ok (last * 256 + (mtv.getD (mtv.length - 2) 0).toNat + 1 + 1)
  else .ok (last + 1)

/-- the bytes after decryption: header ‖ plaintext (`b = append(b[:headerLength], p...)`) -/
def decrypted (P : Params) (dec : Bytes → Option Bytes) (r : Bytes) : Option Bytes :=
  if P.enc then (dec (r.drop P.H)).map (r.take P.H ++ ·) else some r

def verifyAndDecrypt (P : Params) (dec : Bytes → Option Bytes) (verify : Bytes → Bytes → Bool)
    (r : Bytes) : Out :=
  if r.length < P.H then .panic .hdr else
  match decrypted P dec r with
  | none => .err                                             -- StatusBadSecurityChecksFailed
  | some b =>
    if b.length < P.RS then .panic .sigSlice else
    let signature := b.drop (b.length - P.RS)
    let mtv := b.take (b.length - P.RS)
    if !verify mtv signature then .err else
    match paddingLength P mtv with
    | .error s => .panic s
    | .ok pl =>
      -- messageToVerify[headerLength : len(messageToVerify)-paddingLength]
      if mtv.length < P.H + pl then .panic .bodySlice else
      .ok ((mtv.drop P.H).take (mtv.length - pl - P.H))

/-- the guard under which no slice expression can fail: after decryption there
    is room for the header and a signature, and the padding count found in the
    last byte(s) stays inside the chunk -/
def wellSized (P : Params) (dec : Bytes → Option Bytes) (r : Bytes) : Bool :=
  decide (P.H ≤ r.length) &&
  match decrypted P dec r with
  | none => true
  | some b =>
    decide (P.H + P.RS ≤ b.length) &&
    match paddingLength P (b.take (b.length - P.RS)) with
    | .error _ => false
    | .ok pl => decide (P.H + pl ≤ b.length - P.RS)

/-- the weaker guard that suffices when the signature does not verify (any
    chunk made without the keys): only the signature slice must exist -/
def sigFits (P : Params) (dec : Bytes → Option Bytes) (r : Bytes) : Bool :=
  decide (P.H ≤ r.length) &&
  match decrypted P dec r with
  | none => true
  | some b => decide (P.RS ≤ b.length)

/-- the guard at the top of the function: the chunk is returned raw
    (`return m.Data, nil`), without any check, iff
    `SecurityMode == None && (SecurityPolicyURI == None || !isAsymmetric)` -/
def carveOut (modeNone policyNone isAsym : Bool) : Bool :=
  modeNone && (policyNone || !isAsym)

/-- the whole function: carve-out, else decrypt / verify -/
def receive (modeNone policyNone isAsym : Bool) (P : Params) (dec : Bytes → Option Bytes)
    (verify : Bytes → Bytes → Bool) (r : Bytes) : Out :=
  if carveOut modeNone policyNone isAsym then .ok (r.drop P.H)      -- `m.Data`
  else verifyAndDecrypt P dec verify r

def Out.isPanic : Out → Bool
  | .panic _ => true
  | _ => false

end Opcua.Tamper
