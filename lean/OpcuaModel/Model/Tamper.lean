import OpcuaModel.Base.Bytes
/-
  Byte-level model of `channelInstance.verifyAndDecrypt`
  (uasc/secure_channel_instance.go), statement by statement, for a chunk whose
  headers were decoded (`MessageChunk.Decode` consumed `H` bytes, so `H ≤ |r|`)
  and which is not the unsecured carve-out (`SecurityMode == None …` returns
  `m.Data` before anything else). State of the code: after the `fix:` commit that
  added the two length checks.

  The cryptographic primitives are parameters: `dec` is `c.algo.Decrypt`
  (AES-CBC or block RSA), `verify` is `c.algo.VerifySignature` (HMAC or RSA).
  Nothing is assumed about them in the structural theorems; the conditional
  theorem states its idealisation explicitly.
-/
namespace Opcua.Tamper
open Opcua

/-- the slice / index expressions of the function that can still fail in the
    MODEL for parameter values the code never has (`headerLength ≥ 12` always,
    and the caller passes the bytes it decoded the headers from); the former
    sites `b[len(b)-sigLen:]` and `messageToVerify[headerLength:len-padding]`
    are now behind explicit length checks -/
inductive Site where
  /-- `b[headerLength:]` (only if the caller passes fewer bytes than the headers it decoded) -/
  | hdr
  /-- `messageToVerify[len(messageToVerify)-1]` -/
  | padByte
  /-- `messageToVerify[len(messageToVerify)-2]` -/
  | padByte2
  deriving Repr, DecidableEq

inductive Out where
  | ok (data : Bytes) | err | panic (s : Site)
  deriving Repr, DecidableEq

structure Params where
  /-- `headerLength` = 12 + security header length -/
  H : Nat
  /-- `c.algo.RemoteSignatureLength()` -/
  RS : Nat
  /-- `c.algo.SignatureLength()` (decides the two-byte padding size) -/
  S : Nat
  /-- `SecurityMode == SignAndEncrypt || isAsymmetric` -/
  enc : Bool
  deriving Repr, DecidableEq

/-- `paddingLength` as the code computes it from the verified bytes;
    `none` = an index expression panics -/
def paddingLength (P : Params) (mtv : Bytes) : Except Site Nat :=
  if !P.enc then .ok 0 else
  if mtv.length = 0 then .error .padByte else
  let last := (mtv.getD (mtv.length - 1) 0).toNat
  if P.S > 256 then
    if mtv.length < 2 then .error .padByte2 else
    -- paddingLength <<= 8; += messageToVerify[len-2]; += 1; then += 1
    .ok (last * 256 + (mtv.getD (mtv.length - 2) 0).toNat + 1 + 1)
  else .ok (last + 1)

/-- the bytes after decryption: header ‖ plaintext (`b = append(b[:headerLength], p...)`) -/
def decrypted (P : Params) (dec : Bytes → Option Bytes) (r : Bytes) : Option Bytes :=
  if P.enc then (dec (r.drop P.H)).map (r.take P.H ++ ·) else some r

def verifyAndDecrypt (P : Params) (dec : Bytes → Option Bytes) (verify : Bytes → Bytes → Bool)
    (r : Bytes) : Out :=
  if P.enc && decide (r.length < P.H) then .panic .hdr else   -- `b[headerLength:]` handed to Decrypt
  match decrypted P dec r with
  | none => .err                                             -- StatusBadSecurityChecksFailed
  | some b =>
    -- `if len(b) < headerLength+RemoteSignatureLength() { return BadSecurityChecksFailed }`
    if b.length < P.H + P.RS then .err else
    let signature := b.drop (b.length - P.RS)
    let mtv := b.take (b.length - P.RS)
    if !verify mtv signature then .err else
    match paddingLength P mtv with
    | .error s => .panic s
    | .ok pl =>
      -- `if paddingLength > len(messageToVerify)-headerLength { return BadSecurityChecksFailed }`
      if pl > mtv.length - P.H then .err else
      -- messageToVerify[headerLength : len(messageToVerify)-paddingLength]
      .ok ((mtv.drop P.H).take (mtv.length - pl - P.H))

/-- the guard at the top of the function: the chunk is returned raw
    (`return m.Data, nil`), without any check, iff
    `SecurityMode == None && (SecurityPolicyURI == None || !isAsymmetric)` -/
def carveOut (modeNone policyNone isAsym : Bool) : Bool :=
  modeNone && (policyNone || !isAsym)

/-- the whole function: carve-out, else decrypt / verify -/
def receive (modeNone policyNone isAsym : Bool) (P : Params) (dec : Bytes → Option Bytes)
    (verify : Bytes → Bytes → Bool) (r : Bytes) : Out :=
  if carveOut modeNone policyNone isAsym then .ok (r.drop P.H)      -- `m.Data`
  else verifyAndDecrypt P dec verify r

theorem take_length_sub (b : Bytes) (n : Nat) : (b.take (b.length - n)).length = b.length - n := by
  simp [List.length_take]

def Out.isPanic : Out → Bool
  | .panic _ => true
  | _ => false

end Opcua.Tamper
