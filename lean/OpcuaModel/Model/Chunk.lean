import OpcuaModel.Base.Bytes
import OpcuaModel.Base.Algo
import OpcuaModel.Gen.SeqNum
import OpcuaModel.Gen.VadFacts
/-
  Byte-level model of the secure-channel chunk path (C07, C08):

    sender    `Message.EncodeChunks`                     uasc/message.go:124
              the send loops `sendAsyncWithTimeout` /
              `writeMessageChunks` (sequence-number fix-up) uasc/secure_channel.go:1029, :1078
              `channelInstance.signAndEncrypt`           uasc/secure_channel_instance.go:186
    receiver  `SecureChannel.readChunk`                  uasc/secure_channel.go:437
              `channelInstance.verifyAndDecrypt`         uasc/secure_channel_instance.go:262
              `SecureChannel.Receive` (chunk table)      uasc/secure_channel.go:318
              `mergeChunks`                              uasc/secure_channel.go (end of file)

  The functions mirror the Go code statement by statement.  The cryptographic
  primitives are parameters (`Crypto`); the theorems assume only the contract
  `Paired` (decrypt ∘ encrypt = id on whole blocks, lengths, verify ∘ sign),
  the drivers instantiate them with the reference AES-CBC / HMAC of
  `Model/CryptoRef.lean`.  Lengths are `Nat` here (they are `len(...)` of
  slices); `Model/SecureLen.lean` is the `Int` length-only abstraction, the
  agreement is `ChunkLemmas.signAndEncrypt_length_eq_secureLen`.
-/
namespace Opcua.Chunk
open Opcua

/-- outcome of a Go function that may return an error or panic -/
inductive Res (α : Type) where
  | ok : α → Res α
  | err : Res α
  | panic : Res α
  deriving Repr, DecidableEq

/-- the four primitives of a `uapolicy.EncryptionAlgorithm`; `none` = the Go
    method returns an error -/
structure Crypto where
  enc : Bytes → Option Bytes
  dec : Bytes → Option Bytes
  sign : Bytes → Option Bytes
  verify : Bytes → Bytes → Bool

/-- what a channel instance consults: `cfg.SecurityMode`, whether
    `cfg.SecurityPolicyURI` is `#None`, the numbers and the functions of `algo` -/
structure Side where
  mode : Mode
  policyNone : Bool
  algo : AlgoParams
  crypto : Crypto

def u32 (v : Nat) : Bytes := leBytes 4 v

/-- `binary.LittleEndian.Uint32(b[off:])` -/
def u32At (b : Bytes) (off : Nat) : Nat := leVal ((b.drop off).take 4)

/-- `binary.LittleEndian.PutUint32(b[off:], v)` (callers guard the length) -/
def putU32 (b : Bytes) (off v : Nat) : Bytes := b.take off ++ u32 v ++ b.drop (off + 4)

def chunkC : UInt8 := 67
def chunkF : UInt8 := 70
def chunkA : UInt8 := 65
def typeMSG : Bytes := [77, 83, 71]
def typeCLO : Bytes := [67, 76, 79]
def typeOPN : Bytes := [79, 80, 78]

/-- the header fields `EncodeChunks` writes in front of every chunk -/
structure MsgHdr where
  msgType : Bytes
  channelID : Nat
  tokenID : Nat
  seq : Nat
  requestID : Nat
  deriving Repr, DecidableEq

/-- `Header` (12) ‖ `SymmetricSecurityHeader` (4) ‖ `SequenceHeader` (8) -/
def hdr24 (h : MsgHdr) (flag : UInt8) (size : Nat) : Bytes :=
  h.msgType ++ [flag] ++ u32 size ++ u32 h.channelID ++ u32 h.tokenID ++ u32 h.seq ++ u32 h.requestID

/-- the loop `for i := 0; i < nrChunks-1; i++` of `EncodeChunks`: `n`
    intermediate chunks of exactly `mb` body bytes (`dataBody.ReadN(mb)`);
    returns the chunks and the unread rest of the body -/
def encodeLoop (h : MsgHdr) (mb : Nat) : Nat → Bytes → List Bytes × Bytes
  | 0, rest => ([], rest)
  | n + 1, rest =>
    let c := hdr24 h chunkC (mb + 24) ++ rest.take mb
    let r := encodeLoop h mb n (rest.drop mb)
    (c :: r.1, r.2)

/-- `Message.EncodeChunks(maxBodySize)` for `MSG`/`CLO`; `body` is the encoded
    TypeID ‖ Service.  (`uint32(dataBody.Len())` is `% 2^32`.) -/
def encodeChunks (maxBodySize : Nat) (h : MsgHdr) (body : Bytes) : List Bytes :=
  let mb := if maxBodySize = 0 then 4096 else maxBodySize
  let nrChunks := (body.length % 4294967296) / mb + 1
  let r := encodeLoop h mb (nrChunks - 1) body
  r.1 ++ [hdr24 h chunkF (24 + r.2.length) ++ r.2]

/-- `SecurityMode == SignAndEncrypt || isAsymmetric` -/
def Side.encrypts (s : Side) (asym : Bool) : Bool := decide (s.mode = .signAndEncrypt) || asym

/-- `paddingBytes` of `signAndEncrypt`: 2 with `extraPadding` (`RemoteSignatureLength() > 256`), else 1 -/
def paddingBytes (s : Side) : Nat := if s.algo.remoteSignatureLength > 256 then 2 else 1

/-- `paddingLength` of `signAndEncrypt` for `n = len(b[headerLength:])` -/
def paddingLength (s : Side) (n : Nat) : Nat :=
  let plaintextBlockSize := s.algo.plaintextBlockSize.toNat
  let remainder := (n + s.algo.signatureLength.toNat + paddingBytes s) % plaintextBlockSize
  if remainder ≠ 0 then plaintextBlockSize - remainder else 0

/-- the bytes `signAndEncrypt` appends before signing: `paddingLength` Padding
    bytes and the PaddingSize byte (the loop `for i := 0; i <= paddingLength`),
    each `byte(paddingLength)`, then `byte(paddingLength>>8)` if `extraPadding` -/
def padTail (s : Side) (n : Nat) : Bytes :=
  List.replicate (paddingLength s n + 1) (UInt8.ofNat (paddingLength s n)) ++
    (if s.algo.remoteSignatureLength > 256 then [UInt8.ofNat (paddingLength s n >>> 8)] else [])

/-- `channelInstance.signAndEncrypt(m, b)`; `hl` = 12 + security header length,
    `asym` = the message carries an asymmetric security header -/
def signAndEncrypt (s : Side) (asym : Bool) (hl : Nat) (b : Bytes) : Res Bytes :=
  if s.mode = .none then .ok b else
  if b.length < hl ∨ b.length < 8 then .panic else   -- b[headerLength:], PutUint32(b[4:], …)
  let sigLen := s.algo.signatureLength.toNat
  let pe : Bytes × Nat :=
    if s.encrypts asym then
      let b2 := b ++ padTail s (b.length - hl)
      (b2, ((b2.length - hl) + sigLen) / s.algo.plaintextBlockSize.toNat * s.algo.blockSize.toNat)
    else
      (b, (b.length - hl) + sigLen)
  let b3 := putU32 pe.1 4 (hl + pe.2)
  match s.crypto.sign b3 with
  | none => .err
  | some sig =>
    let b4 := b3 ++ sig
    let p := b4.drop hl
    if s.encrypts asym then
      match s.crypto.enc p with
      | none => .err
      | some q => .ok (b4.take hl ++ q)
    else .ok (b4.take hl ++ p)

/-- the padding count `verifyAndDecrypt` strips: PaddingSize byte (+ the
    ExtraPaddingSize byte when `SignatureLength() > 256`) plus the padding -/
def paddingOf (s : Side) (asym : Bool) (msg : Bytes) : Res Nat :=
  if s.encrypts asym then
    if msg.length = 0 then .panic else                 -- messageToVerify[len-1]
    match msg[msg.length - 1]? with
    | none => .panic
    | some last =>
      if s.algo.signatureLength > 256 then
        if msg.length < 2 then .panic else               -- messageToVerify[len-2]
        match msg[msg.length - 2]? with
        | none => .panic
        | some prev => .ok ((last.toNat <<< 8) + prev.toNat + 1 + 1)
      else .ok (last.toNat + 1)
  else .ok 0

/-- `verifyAndDecrypt` after the decryption step: split off and verify the
    signature, strip the padding.  The two defensive guards are present in the
    model exactly when the generator finds them in the source
    (`Gen.sigLengthGuard`, `Gen.paddingGuard`, topic `vadfacts`); without them
    the same inputs make the Go code panic. -/
def verifyTail (s : Side) (asym : Bool) (hl : Nat) (b : Bytes) : Res Bytes :=
  let rsl := s.algo.remoteSignatureLength.toNat
  -- `if len(b) < headerLength+c.algo.RemoteSignatureLength() { return nil, BadSecurityChecksFailed }`
  if Gen.sigLengthGuard = true ∧ b.length < hl + rsl then .err else
  if b.length < rsl then .panic else                   -- b[len(b)-RemoteSignatureLength():]
  let signature := b.drop (b.length - rsl)
  let msg := b.take (b.length - rsl)
  if s.crypto.verify msg signature = false then .err else
  match paddingOf s asym msg with
  | .err => .err
  | .panic => .panic
  | .ok paddingLength =>
    -- `if paddingLength > len(messageToVerify)-headerLength { return nil, BadSecurityChecksFailed }`
    if Gen.paddingGuard = true ∧ (paddingLength : Int) > (msg.length : Int) - (hl : Int) then .err else
    -- messageToVerify[headerLength : len(messageToVerify)-paddingLength]
    if msg.length < paddingLength ∨ msg.length - paddingLength < hl then .panic
    else .ok ((msg.take (msg.length - paddingLength)).drop hl)

/-- `channelInstance.verifyAndDecrypt(m, r)`; `hl` and `asym` are what
    `MessageChunk.Decode` found, `m.Data = r[hl:]` -/
def verifyAndDecrypt (s : Side) (asym : Bool) (hl : Nat) (r : Bytes) : Res Bytes :=
  if s.mode = .none ∧ (s.policyNone ∨ asym = false) then .ok (r.drop hl) else
  if r.length < hl then .panic else                    -- b[headerLength:]
  if s.encrypts asym then
    match s.crypto.dec (r.drop hl) with
    | none => .err
    | some p => verifyTail s asym hl (r.take hl ++ p)
  else verifyTail s asym hl r

/-- `*MessageChunk` as `readChunk` returns it -/
structure RChunk where
  chunkType : UInt8
  channelID : Nat
  seq : Nat
  requestID : Nat
  data : Bytes
  deriving Repr, DecidableEq

/-- `SecureChannel.verifyAndDecrypt(m, b, nil)`: the instances registered for the
    channel id, newest first, until one accepts -/
def tryInstances (r : Bytes) : List Side → Res Bytes
  | [] => .err
  | s :: rest =>
    match verifyAndDecrypt s false 16 r with
    | .ok d => .ok d
    | .panic => .panic
    | .err => tryInstances r rest

/-- `SecureChannel.readChunk` for the chunk `wire` that `uacp.Conn.Receive`
    delivered; `insts id` are the channel instances registered under `id` in
    the order of `s.instances[id]`.  `ok none` is `io.EOF` (a `CLO` chunk).
    Chunks shorter than the 16 header bytes and `OPN` chunks are not the subject
    here (C09/C13, C15): `err`. -/
def readChunk (insts : Nat → List Side) (wire : Bytes) : Res (Option RChunk) :=
  if wire.length < 16 then .err else
  let mt := wire.take 3
  if mt = typeCLO then .ok none else
  if mt ≠ typeMSG then .err else
  let chan := u32At wire 8
  match tryInstances wire (insts chan).reverse with
  | .err => .err
  | .panic => .panic
  | .ok data =>
    if data.length < 8 then .err else                  -- SequenceHeader.Decode
    .ok (some { chunkType := (wire.drop 3).headD 0, channelID := chan,
                seq := u32At data 0, requestID := u32At data 4, data := data.drop 8 })

/-- the loop of `mergeChunks`: a chunk that repeats the number of the chunk
    before it is skipped; the first chunk (`i = 0`) is always kept -/
def mergeLoop : Bool → Nat → List RChunk → Bytes
  | _, _, [] => []
  | first, seqnr, c :: cs =>
    if first = false ∧ c.seq = seqnr then mergeLoop false seqnr cs      -- `i > 0 && … == seqnr`: duplicate chunk
    else c.data ++ mergeLoop false c.seq cs

def mergeChunks : List RChunk → Bytes
  | [] => []
  | [c] => c.data
  | cs => mergeLoop true 0 cs

/-- `uacp.Conn.MaxChunkCount()` / `MaxMessageSize()` of the receiving side (0 = no limit) -/
structure Limits where
  maxChunkCount : Nat
  maxMessageSize : Nat

/-- `s.chunks` (a Go map: a missing key reads as the empty list) -/
abbrev Table := Nat → List RChunk

def Table.set (t : Table) (k : Nat) (v : List RChunk) : Table := fun i => if i = k then v else t i

/-- what `Receive` hands to `ua.DecodeService` -/
structure MsgOut where
  requestID : Nat
  channelID : Nat
  body : Bytes
  deriving Repr, DecidableEq

/-- one iteration of the loop in `Receive`: `none` = `continue` -/
def receiveStep (insts : Nat → List Side) (lim : Limits) (t : Table) (wire : Bytes) :
    Table × Option (Res MsgOut) :=
  match readChunk insts wire with
  | .err => (t, some .err)
  | .panic => (t, some .panic)
  | .ok none => (t, some .err)                        -- io.EOF
  | .ok (some c) =>
    if c.chunkType = chunkA then (t.set c.requestID [], some .err)
    else if c.chunkType = chunkC then
      let l := t c.requestID ++ [c]
      if lim.maxChunkCount ≠ 0 ∧ l.length % 4294967296 > lim.maxChunkCount then (t.set c.requestID [], some .err)
      else (t.set c.requestID l, none)
    else
      let all := t c.requestID ++ [c]
      let b := mergeChunks all
      if lim.maxMessageSize ≠ 0 ∧ b.length % 4294967296 > lim.maxMessageSize then (t.set c.requestID [], some .err)
      else (t.set c.requestID [], some (.ok { requestID := c.requestID, channelID := c.channelID, body := b }))

/-- feed the chunks in order until `Receive` returns; the third component is
    what was not consumed -/
def receiveAll (insts : Nat → List Side) (lim : Limits) : Table → List Bytes →
    Table × Option (Res MsgOut) × List Bytes
  | t, [] => (t, none, [])
  | t, w :: ws =>
    match receiveStep insts lim t w with
    | (t', none) => receiveAll insts lim t' ws
    | (t', some r) => (t', some r, ws)

/-- the chunk loop of `sendAsyncWithTimeout` / `writeMessageChunks`: every chunk
    after the first draws the next sequence number and patches bytes 16..19 -/
def sendLoop (s : Side) : Int → Bool → List Bytes → Int × Res (List Bytes)
  | seq, _, [] => (seq, .ok [])
  | seq, first, c :: cs =>
    let sc : Int × Bytes :=
      if first then (seq, c)
      else
        let r := Gen.nextSequenceNumber seq
        (r.1, putU32 c 16 r.2.toNat)
    match signAndEncrypt s false 16 sc.2 with
    | .err => (sc.1, .err)
    | .panic => (sc.1, .panic)
    | .ok w =>
      match sendLoop s sc.1 false cs with
      | (sq, .ok ws) => (sq, .ok (w :: ws))
      | (sq, .err) => (sq, .err)
      | (sq, .panic) => (sq, .panic)

/-- `newMessage` (draws the first sequence number) + `EncodeChunks` + the send
    loop, for one `MSG`/`CLO` message; returns the new `instance.sequenceNumber`
    and the chunks written to the connection -/
def sendMessage (s : Side) (maxBodySize : Nat) (seq : Int) (mt : Bytes) (chan tok req : Nat)
    (body : Bytes) : Int × Res (List Bytes) :=
  let r := Gen.nextSequenceNumber seq
  let raws := encodeChunks maxBodySize
    { msgType := mt, channelID := chan, tokenID := tok, seq := r.2.toNat, requestID := req } body
  sendLoop s r.1 true raws

/-- the messages of a session, sent one after the other over the same channel
    instance (the sequence counter threads through); the result is the flat
    stream of chunks on the wire -/
def sendSession (S : Side) (maxBody : Nat) (chan tok : Nat) : Int → List (Nat × Bytes) → Int × Res (List Bytes)
  | seq, [] => (seq, .ok [])
  | seq, m :: ms =>
    match sendMessage S maxBody seq typeMSG chan tok m.1 m.2 with
    | (sq, .ok ws) =>
      match sendSession S maxBody chan tok sq ms with
      | (sq', .ok rest) => (sq', .ok (ws ++ rest))
      | (sq', .err) => (sq', .err)
      | (sq', .panic) => (sq', .panic)
    | (sq, .err) => (sq, .err)
    | (sq, .panic) => (sq, .panic)

/-- `Receive` called again and again on the stream of chunks (fuel = number of chunks) -/
def receiveMany (insts : Nat → List Side) (lim : Limits) : Nat → Table → List Bytes → List (Res MsgOut)
  | 0, _, _ => []
  | _ + 1, _, [] => []
  | f + 1, t, w :: ws =>
    match receiveAll insts lim t (w :: ws) with
    | (t', some r, rest) => r :: receiveMany insts lim f t' rest
    | (_, none, _) => []

/-- the numbers `uapolicy.Asymmetric(uri, localKey, remoteKey)` reports for key
    sizes `localSize`, `remoteSize` (bytes) and the policy's plaintext overhead
    `pad` per cipher block (`plainttextBlockSize: remoteKeySize - pad`); the C07
    correspondence run compares them with the real constructors for every
    policy and key-size pair -/
def asymParams (localSize remoteSize pad : Nat) : AlgoParams :=
  { name := "asym", blockSize := remoteSize, plaintextBlockSize := (remoteSize : Int) - pad,
    signatureLength := localSize, remoteSignatureLength := remoteSize }

end Opcua.Chunk
